#!/bin/bash
# setup.sh — offline build of the Coq development (full .vo build)
set -e
cd "$(dirname "$0")/../coq"
coq_makefile -f _CoqProject -o Makefile > /dev/null
timeout 3000 make -j16
