"""C15 — stateful samplers resume exactly and keep torch sampler semantics."""
import math

from lib import cnat, cbool, clist

PID = "C15"
IMPORTS = "SamplerModel SamplerObs"
FUNCS = [
    "torchdata/stateful_dataloader/sampler.py:_StatefulRandomSamplerIterator",
    "torchdata/stateful_dataloader/sampler.py:RandomSampler",
    "torchdata/stateful_dataloader/sampler.py:_BatchSamplerIterator",
    "torchdata/stateful_dataloader/sampler.py:BatchSampler",
    "torchdata/stateful_dataloader/sampler.py:StatefulDistributedSampler",
]
RULE = ("cases drawn structurally: kind in {RandomSampler (with/without replacement, num_samples <,=,> n, sizes crossing the "
        "32-chunk), BatchSampler over stateless and over stateful RandomSampler, StatefulDistributedSampler (replicas, rank, "
        "shuffle, drop_last, epoch)} x every interruption point class; non-trivial = 0 < k < length and the epoch has >= 2 "
        "elements; distinct = distinct (kind, parameters, k)")
TRUSTED = ["torch.Generator is a deterministic function of its state (the harness replays the draws with a second generator "
           "seeded identically and hands them to the model as a table)",
           "torch.utils.data.DistributedSampler / BatchSampler are the reference the property names (trusted, not modelled)"]
ASSUMPTIONS = ["randperm returns a permutation (hypothesis of C15_rs_epoch_visits_each_once; checked on every generated case)"]
NPROC = 12
CASE_TIMEOUT = 60


def gen_cases(rng, tier, drift):
    n_rs, n_bs, n_ds, n_bsrs = (220, 200, 200, 80) if tier == "quick" and not drift else (2500, 2000, 2000, 800)
    cases = []
    for _ in range(n_rs):
        n = rng.choice([1, 2, 3, 5, 7, 31, 32, 33, 40, 64, 65, 70, rng.randint(1, 70)])
        repl = rng.random() < 0.4
        ns = rng.choice([None, None, max(1, n - rng.randint(0, n)), n + rng.randint(1, 40), rng.randint(1, 100)])
        total = n if ns is None else ns
        k = rng.choice([0, total, rng.randint(0, total), rng.randint(0, total), min(total, 32), min(total, 33)])
        cases.append(dict(kind="rs", n=n, repl=repl, ns=ns, seed=rng.randint(0, 10**6), k=k))
    for _ in range(n_bs):
        n = rng.randint(0, 25)
        bs = rng.randint(1, 7)
        drop = rng.random() < 0.5
        nb = n // bs if drop else math.ceil(n / bs)
        cases.append(dict(kind="bs", xs=[rng.randint(0, 50) for _ in range(n)], bs=bs, drop=drop, j=rng.randint(0, nb)))
    for _ in range(n_ds):
        n = rng.randint(1, 30)
        R = rng.randint(1, 4)
        drop = rng.random() < 0.5
        per = (n // R if (drop and n % R) else math.ceil(n / R))
        cases.append(dict(kind="ds", n=n, R=R, rank=rng.randrange(R), shuffle=rng.random() < 0.6, seed=rng.randint(0, 99),
                          drop=drop, epoch=rng.randint(0, 3), j=rng.choice([0, per, rng.randint(0, per)])))
    for _ in range(n_bsrs):
        n = rng.randint(1, 45)
        bs = rng.randint(1, 6)
        drop = rng.random() < 0.5
        nb = n // bs if drop else math.ceil(n / bs)
        cases.append(dict(kind="bsrs", n=n, bs=bs, drop=drop, repl=rng.random() < 0.3, seed=rng.randint(0, 10**6), j=rng.randint(0, nb)))
    return cases


def distribution(cases):
    d = {}
    for c in cases:
        d[c["kind"]] = d.get(c["kind"], 0) + 1
    return d


# ------------------------------------------------------------------------------------------------
def run_impl(c):
    import torch
    import torch.utils.data as tud
    from torchdata.stateful_dataloader.sampler import BatchSampler, RandomSampler, StatefulDistributedSampler

    kind = c["kind"]
    fails = []
    if kind == "rs":
        n, repl, ns, seed, k = c["n"], c["repl"], c["ns"], c["seed"], c["k"]
        total = n if ns is None else ns

        def mk(sd):
            g = torch.Generator()
            g.manual_seed(sd)
            return RandomSampler(range(n), replacement=repl, num_samples=ns, generator=g)
        s = mk(seed)
        e1 = list(iter(s))
        e2 = list(iter(s))
        s = mk(seed)
        it = iter(s)
        head = [next(it) for _ in range(k)]
        sd = it.state_dict()
        s2 = mk(seed + 12345)
        it2 = iter(s2)
        it2.load_state_dict(sd)
        rest = list(it2)
        nxt = list(iter(s2))
        # a checkpoint taken from a RESUMED iterator, resumed again in a third, differently seeded sampler
        it2b = iter(mk(seed + 4242))
        it2b.load_state_dict(sd)
        k2 = (total - k) // 2
        mid = [next(it2b) for _ in range(k2)]
        sd2 = it2b.state_dict()
        s3 = mk(seed + 777)
        it3 = iter(s3)
        it3.load_state_dict(sd2)
        rest3 = list(it3)
        if mid + rest3 != e1[k:]:
            fails.append(f"second resume (checkpoint of a resumed iterator, taken after {k2} more draws): got {mid + rest3}, expected {e1[k:]}")
        # the draws, replayed from an identically seeded generator, for the model
        g = torch.Generator()
        g.manual_seed(seed)
        ndraw = 2 * (total // (32 if repl else n) + 2) + 2
        tbl = [(torch.randint(high=n, size=(32,), dtype=torch.int64, generator=g).tolist() if repl
                else torch.randperm(n, generator=g).tolist()) for _ in range(ndraw)]
        if head != e1[:k] or rest != e1[k:]:
            fails.append(f"resume at k={k}: got {rest}, expected {e1[k:]}")
        if nxt != e2:
            fails.append(f"epoch after the resumed one differs: {nxt} vs {e2}")
        if len(e1) != total or any(not (0 <= x < n) for x in e1):
            fails.append(f"epoch has {len(e1)} draws, expected {total} values < {n}")
        if not repl:
            for o in range(0, total - total % n, n):
                if sorted(e1[o:o + n]) != list(range(n)):
                    fails.append("not a permutation of the indices")
        if sd["yielded"] != k:
            fails.append(f"state says yielded={sd['yielded']} after {k}")
        if ns is None and not repl:
            # the sampler's generator is used by somebody else between iter() and the first next() (StatefulDataLoader draws its base seed
            # from a shared generator at exactly that moment): the epoch is the one fixed at iter(), and the state must reproduce it
            def foreign(sm):
                itf = iter(sm)
                torch.randint(high=10, size=(3,), generator=sm.generator)
                return itf
            full_f = list(foreign(mk(seed)))
            itg = foreign(mk(seed))
            head_g = [next(itg) for _ in range(k)]
            it2g = iter(mk(seed + 999))
            it2g.load_state_dict(itg.state_dict())
            rest_g = list(it2g)
            if head_g + rest_g != full_f:
                fails.append(f"generator used by a third party between iter() and the first next(): resume at k={k} gives {head_g} + {rest_g}, the uninterrupted epoch is {full_f}")
        return dict(obs=[e1, sd["yielded"], rest, nxt], table=tbl, oracle="; ".join(fails) or None,
                    nontrivial=0 < k < total and total >= 2, key=[kind, n, repl, ns, k])
    if kind == "bs":
        xs, bs, drop, j = c["xs"], c["bs"], c["drop"], c["j"]
        ref = [list(b) for b in tud.BatchSampler(list(xs), bs, drop)]
        allb = list(iter(BatchSampler(list(xs), bs, drop)))
        j = min(j, len(allb))
        it = iter(BatchSampler(list(xs), bs, drop))
        head = [next(it) for _ in range(j)]
        sd = it.state_dict()
        it2 = iter(BatchSampler(list(xs), bs, drop))
        it2.load_state_dict(sd)
        rest = list(it2)
        if allb != ref:
            fails.append(f"batches {allb} differ from torch BatchSampler {ref}")
        if head != allb[:j] or rest != allb[j:]:
            fails.append(f"resume after {j} batches: got {rest}, expected {allb[j:]}")
        return dict(obs=[allb, ref, sd["samples_yielded"], rest], oracle="; ".join(fails) or None,
                    nontrivial=0 < j < len(ref) and len(ref) >= 2, key=[kind, len(xs), bs, drop, j])
    if kind == "bsrs":
        n, bs, drop, repl, seed, j = c["n"], c["bs"], c["drop"], c["repl"], c["seed"], c["j"]

        def mk(sd):
            g = torch.Generator()
            g.manual_seed(sd)
            return BatchSampler(RandomSampler(range(n), replacement=repl, generator=g), bs, drop)
        b = mk(seed)
        e1 = list(iter(b))
        e2 = list(iter(b))
        b = mk(seed)
        it = iter(b)
        j = min(j, len(e1))
        head = [next(it) for _ in range(j)]
        sd = it.state_dict()
        b2 = mk(seed + 999)
        it2 = iter(b2)
        it2.load_state_dict(sd)
        rest = list(it2)
        nxt = list(iter(b2))
        it2b = iter(mk(seed + 4242))
        it2b.load_state_dict(sd)
        j2 = (len(e1) - j) // 2
        mid = [next(it2b) for _ in range(j2)]
        sd2 = it2b.state_dict()
        it3 = iter(mk(seed + 777))
        it3.load_state_dict(sd2)
        rest3 = list(it3)
        if mid + rest3 != e1[j:]:
            fails.append(f"second resume (checkpoint of a resumed iterator, taken after {j2} more batches): got {mid + rest3}, expected {e1[j:]}")
        flat = [x for bb in e1 for x in bb]
        if rest != e1[j:] or head != e1[:j]:
            fails.append(f"resume after {j} batches: got {rest}, expected {e1[j:]}")
        if nxt != e2:
            fails.append("epoch after the resumed one differs")
        if not repl and not drop and sorted(flat) != list(range(n)):
            fails.append("epoch is not a permutation")
        if any(len(bb) != bs for bb in e1[:-1]) or (e1 and drop and len(e1[-1]) != bs):
            fails.append("batch sizes wrong")
        return dict(oracle="; ".join(fails) or None, nontrivial=0 < j < len(e1), key=[kind, n, bs, drop, repl, j])
    if kind == "ds":
        n, R, rank, shuffle, seed, drop, epoch, j = (c[x] for x in ("n", "R", "rank", "shuffle", "seed", "drop", "epoch", "j"))
        ds = list(range(n))
        par = tud.distributed.DistributedSampler(ds, num_replicas=R, rank=rank, shuffle=shuffle, seed=seed, drop_last=drop)
        par.set_epoch(epoch)
        ref = list(iter(par))

        def mk():
            s = StatefulDistributedSampler(ds, num_replicas=R, rank=rank, shuffle=shuffle, seed=seed, drop_last=drop)
            s.set_epoch(epoch)
            return s
        s = mk()
        e1 = list(iter(s))
        it = iter(s)                      # a later epoch: state before its first index
        y0 = s.state_dict()["yielded"]
        j = min(j, len(ref))
        head = [next(it) for _ in range(j)]
        sd = s.state_dict()
        s2 = mk()
        s2.load_state_dict(sd)
        rest = list(iter(s2))
        nxt = list(iter(s2))
        if e1 != ref:
            fails.append(f"epoch {e1} differs from torch DistributedSampler {ref}")
        if head != ref[:j] or rest != ref[j:]:
            fails.append(f"resume after {j}: got {rest}, expected {ref[j:]}")
        if nxt != ref:
            fails.append(f"epoch after the resumed one: {nxt} vs {ref}")
        if y0 != 0 or sd["yielded"] != j:
            fails.append(f"state right after iter() says yielded={y0}; after {j} says {sd['yielded']}")
        # the other order of the two calls a training script makes after a restart: load_state_dict(), then set_epoch()
        s3 = StatefulDistributedSampler(ds, num_replicas=R, rank=rank, shuffle=shuffle, seed=seed, drop_last=drop)
        s3.load_state_dict(sd)
        s3.set_epoch(epoch)
        rest3 = list(iter(s3))
        nxt3 = list(iter(s3))
        if rest3 != ref[j:] or nxt3 != ref:
            fails.append(f"load_state_dict() then set_epoch({epoch}): resume after {j} gives {rest3} (then {nxt3}), expected {ref[j:]} (then {ref})")
        return dict(obs=[e1, y0, sd["yielded"], rest, nxt], parent=ref, oracle="; ".join(fails) or None,
                    nontrivial=0 < j < len(ref) and len(ref) >= 2, key=[kind, n, R, rank, shuffle, drop, epoch, j])
    raise ValueError(kind)


def nats(l):
    return clist([str(int(x)) for x in l])


def model_term(c, r):
    kind = c["kind"]
    if kind == "rs":
        total = c["n"] if c["ns"] is None else c["ns"]
        tbl = clist([nats(p) for p in r["table"]])
        cfg = f"{{| rs_n := {c['n']}; rs_replacement := {cbool(c['repl'])}; rs_num_samples := {total} |}}"
        return f"c15_rs_obs {tbl} {cfg} {c['k']} 1000"
    if kind == "bs":
        return f"c15_bs_obs {nats(c['xs'])} {c['bs']} {cbool(c['drop'])} {min(c['j'], len(r['obs'][0]))}"
    if kind == "ds":
        return f"c15_ds_obs {nats(r['parent'])} {min(c['j'], len(r['parent']))}"
    raise ValueError(kind)


def widen(c, rng):
    out = []
    if c["kind"] == "rs":
        total = c["n"] if c["ns"] is None else c["ns"]
        out = [dict(c, k=k) for k in range(total + 1)]
    elif c["kind"] in ("bs", "bsrs", "ds"):
        out = [dict(c, j=j) for j in range(0, 30)]
        if c["kind"] == "bs":
            out = [dict(c, j=j) for j in range(0, len(c["xs"]) // c["bs"] + 1)]
    return out[:80]
