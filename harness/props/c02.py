"""C02 — a nodes Loader checkpoint at any item resumes the exact remaining stream."""
import nodes_impl as ni

PID = "C02"
IMPORTS = "NodeModel NodeObs"
FUNCS = [
    "torchdata/nodes/loader.py:Loader", "torchdata/nodes/loader.py:LoaderIterator",
    "torchdata/nodes/adapters.py:IterableWrapper", "torchdata/nodes/adapters.py:SamplerWrapper",
    "torchdata/nodes/batch.py:Batcher", "torchdata/nodes/batch.py:Unbatcher", "torchdata/nodes/filter.py:Filter",
    "torchdata/nodes/map.py:_InlineMapperIter", "torchdata/nodes/map.py:_ParallelMapperIter", "torchdata/nodes/map.py:_ParallelMapperImpl",
    "torchdata/nodes/map.py:ParallelMapper", "torchdata/nodes/map.py:_SingleThreadedMapper", "torchdata/nodes/prefetch.py:Prefetcher",
    "torchdata/nodes/base_node.py:BaseNode", "torchdata/nodes/snapshot_store.py:QueueSnapshotStore",
    "torchdata/nodes/_populate_queue.py:_populate_queue",
]
RULE = ("random well-typed pipelines from the grammar {IterableWrapper(list | Stateful iterable), SamplerWrapper(epoch-dependent sampler), Mapper, "
        "ParallelMapper(thread, 1-3 workers, snapshot_frequency 0-3, max_concurrent), Prefetcher(pf 1-4, sf 0-3), Batcher, Unbatcher, Filter}, depth<=5, "
        "sources of length 0-12 with items from {ints, 0, None, [], lists}; history = e full epochs, k items, state_dict, then a chain of "
        "(fresh pipeline, load, j items, state_dict) links, then fresh+load+drain two epochs; every op's result compared with the model; "
        "non-trivial = 0<k<epoch length and pipeline depth>=2; distinct = distinct (pipeline, e, k, chain)")
TRUSTED = ["Prefetcher/ParallelMapper appear in this model by their sequential specification; that the threads implement it is C06/C04's concurrent model",
           "harness user code: StatefulList, EpochSampler, FAdd/FWrap/FNoneIfEven, Pred"]
ASSUMPTIONS = ["user iterables/samplers re-iterate deterministically and restore their position from their own state"]
NPROC = 14
CASE_TIMEOUT = 120


def gen_cases(rng, tier, drift):
    n = 450 if tier == "quick" and not drift else 6000
    cases = []
    for i in range(n):
        threads = rng.random() < 0.55
        p = ni.gen_well_typed_pipe(rng, max_depth=rng.choice([1, 2, 3, 4]), threads=threads)
        restart = rng.random() < 0.8
        L = [len(ni.ref_sem(p, e)) for e in range(6)]
        e = rng.choice([0, 0, 1, 2])
        k = rng.choice([0, L[e], L[e], rng.randint(0, L[e]), rng.randint(0, L[e])])
        chain = []
        ee, pos = e, k
        for _ in range(rng.choice([0, 0, 1, 2])):
            if pos >= L[ee] and restart:          # a state at the end of an epoch resumes into the next one
                ee, pos = ee + 1, 0
            j = rng.randint(0, max(0, L[ee] - pos))
            chain.append(j)
            pos += j
        cases.append(dict(pipe=p, restart=restart, e=e, k=k, chain=chain))
    return cases


def distribution(cases):
    d = {"threads": 0, "depth": {}, "k_end": 0, "k_zero": 0, "chains": 0, "none_items": 0}
    for c in cases:
        d["threads"] += ni.has_threads(c["pipe"])
        dp = ni.depth(c["pipe"])
        d["depth"][dp] = d["depth"].get(dp, 0) + 1
        d["k_zero"] += c["k"] == 0
        d["chains"] += bool(c["chain"])
    return d


def ops_of(c):
    ops = []
    L = [len(ni.ref_sem(c["pipe"], e)) for e in range(c["e"] + 1)]
    for e in range(c["e"]):
        ops += [["iter"]] + [["next"]] * (L[e] + 1)
    ops += [["iter"]] + [["next"]] * c["k"] + [["state"]]
    nsaved = 1
    for j in c["chain"]:
        ops += [["fresh"], ["load", nsaved - 1], ["iter"]] + [["next"]] * j + [["state"]]
        nsaved += 1
    ops += [["fresh"], ["load", nsaved - 1]]
    tail = max(len(ni.ref_sem(c["pipe"], e)) for e in range(8)) + 1
    ops += [["iter"]] + [["next"]] * tail + [["iter"]] + [["next"]] * tail
    return ops


def run_impl(c):
    p, restart, e, k = c["pipe"], c["restart"], c["e"], c["k"]
    ops = ops_of(c)
    obs, saved, pickled, _ = ni.run_history(p, restart, ops)
    # ---- direct oracle: compare with the uninterrupted loader
    ref = ni.epochs_reference(p, e + 6, restart)
    fails = []
    # position (epoch, pos) of every saved state, following the documented semantics
    ee, pos = e, k
    exp_seen = [x for q in range(e) for x in ref[q]] + ref[e][:k]
    for j in c["chain"]:
        if pos >= len(ref[ee]) and restart:
            ee, pos = ee + 1, 0
        exp_seen += ref[ee][pos:pos + j]
        pos += j
    last = max(i for i, o in enumerate(ops) if o[0] == "load")
    after = obs[last + 1:]
    streams, cur = [], None
    for o in after:
        if o == "iter":
            cur = []
            streams.append(cur)
        elif isinstance(o, list) and o[0] == "item":
            cur.append(o[1])
        elif o == "stop":
            pass
        else:
            fails.append(f"unexpected outcome {o}")
    rest = ref[ee][pos:]
    if restart and not rest:
        want = [ref[ee + 1], ref[ee + 2]]
    else:
        want = [rest, ref[ee + 1]]
    if streams != want:
        fails.append(f"resumed streams {streams} != uninterrupted remainder {want} (state at epoch {ee}, position {pos})")
    seen = [o[1] for o in obs[:last] if isinstance(o, list) and o[0] == "item"]
    if seen != exp_seen:
        fails.append(f"items before the final resume {seen} != {exp_seen}")
    consumed = pos
    e = ee
    L = len(ref[e])
    return dict(obs=obs, oracle="; ".join(fails[:2]) or None, nontrivial=0 < consumed < L and ni.depth(p) >= 2,
                key=[p, e, k, c["chain"], restart])


def model_term(c, r):
    return f"loader_obs {ni.coq_pipe(c['pipe'])} {'true' if c['restart'] else 'false'} {ni.coq_ops(ops_of(c))}"


def widen(c, rng):
    L = len(ni.ref_sem(c["pipe"], c["e"]))
    return [dict(c, k=k, chain=[]) for k in range(L + 1)][:40]
