"""C11 — nodes pipelines surface failures and always terminate; they never hang."""
import conc_common as cc

PID = "C11"
IMPORTS = cc.IMPORTS
FUNCS = cc.FUNCS
SHARD = 40
NPROC = 12
CASE_TIMEOUT = 120
RULE = ("(sched) real Prefetcher / ParallelMapper(thread) under the deterministic scheduler with a source failing at a chosen position or a map function "
        "failing on chosen items, 1-3 further next() calls after every error / end of stream, resets and loads afterwards; a run in which no thread has an "
        "enabled step while the consumer waits (deadlock) or that exceeds 6000 scheduler steps is a hang; every step replayed on ConcModel.v; oracle: the "
        "outcome sequence equals the reference (error at the failing position after the preceding items, never StopIteration in its place, StopIteration / "
        "further items afterwards); (proc) ParallelMapper(method='process') whose worker SIGKILLs itself at a chosen item, and a worker killed while idle, "
        "under a per-call deadline; (rt) real threads, real time, error then repeated next(); non-trivial = >=2 items and >=30 steps, or a process case; "
        "distinct = distinct (configuration, script, seed, bias)")
TRUSTED = cc.TRUSTED + ["process workers: real SIGKILL, wall-clock deadline 20 s per next() (poll interval 0.1 s)"]
ASSUMPTIONS = ["bounded-fair schedules: every live thread is eventually scheduled (the random chooser gives every enabled move positive probability)"]


def gen_cases(rng, tier, drift):
    n, nproc, nrt = (240, 10, 10) if tier == "quick" and not drift else (4000, 80, 80)
    out = []
    for i in range(n):
        out.append(cc.gen_case(rng, errors=(i % 6 != 0), loads=(i % 3 == 0), join_timeouts=False, unordered=True,
                               extra_after_end=rng.choice([1, 2, 3])))
    for i in range(n // 4):
        # oracle-only: Thread.is_alive() is a yield point of its own (see conc_common / DESIGN 3.4): no spurious error, no lost item
        c = cc.gen_case(rng, errors=(i % 2 == 0), loads=(i % 3 == 0), join_timeouts=False, unordered=True, extra_after_end=rng.choice([1, 2]))
        c["alive_yield"] = True
        out.append(c)
    for i in range(nproc):
        n_items = rng.randint(3, 9)
        out.append(dict(kind="proc", n=n_items, nw=rng.choice([1, 2, 3]), die_at=rng.randint(0, n_items - 1), in_order=rng.random() < 0.7,
                        mode=rng.choice(["in_udf", "in_udf", "idle"]), extra=rng.randint(1, 3),
                        how=rng.choice(["kill", "kill", "exit0", "sysexit", "exit3"])))
    for i in range(3 if tier == "quick" and not drift else 30):
        # the worker process stays alive: map_fn RAISES in it - a plain exception, one whose class needs two constructor arguments,
        # one whose instance cannot be pickled; the failure must still reach the consumer (as some exception), never a hang
        n_items = rng.randint(3, 9)
        out.append(dict(kind="proc", n=n_items, nw=rng.choice([1, 2, 3]), die_at=rng.randint(0, n_items - 1), in_order=rng.random() < 0.7,
                        mode="in_udf", extra=rng.randint(1, 3), how=["raise2", "raise_lock", "raise"][i % 3]))
    for i in range(nrt):
        n_items = rng.randint(2, 8)
        out.append(dict(kind="rt", node=rng.choice(["pf", "pm", "pm"]), n=n_items, src_err=rng.choice([None, rng.randint(0, n_items)]),
                        bad=rng.choice([None, rng.randint(0, n_items - 1)]), nw=rng.choice([1, 2, 3]), in_order=rng.random() < 0.7, extra=rng.randint(1, 4)))
    return out


def oracle(c, r, ref_fails):
    return "; ".join(ref_fails[:2]) or None


class KillAt:
    """the worker process dies while mapping item `at`: SIGKILL, os._exit(0) (a death with a CLEAN exit status),
    sys.exit() (SystemExit is not an Exception: _apply_udf does not catch it) or os._exit(3)"""

    def __init__(self, at, how="kill"):
        self.at, self.how = at, how

    def __call__(self, x):
        if x == self.at:
            import os
            import signal
            import sys
            if self.how == "exit0":
                os._exit(0)
            if self.how == "exit3":
                os._exit(3)
            if self.how == "sysexit":
                sys.exit()
            if self.how == "raise":
                raise ValueError(f"bad item {x}")
            if self.how == "raise2":
                raise TwoArgError("decode", x)              # an exception class whose constructor needs two arguments
            if self.how == "raise_lock":
                e = ValueError(f"bad item {x}")
                import threading
                e.handle = threading.Lock()                 # an exception instance that cannot be pickled
                raise e
            os.kill(os.getpid(), signal.SIGKILL)
        return x + 100


class TwoArgError(Exception):
    def __init__(self, what, item):
        super().__init__(f"{what} failed for item {item}")
        self.what, self.item = what, item


def timed_next(node, deadline):
    """next(node) in a helper thread; -> ('item', v) | ('stop',) | ('err', cls) | ('HANG',)"""
    import threading
    box = {}

    def body():
        try:
            box["r"] = ("item", next(node))
        except StopIteration:
            box["r"] = ("stop",)
        except BaseException as e:  # noqa
            box["r"] = ("err", type(e).__name__)
    t = threading.Thread(target=body, daemon=True)
    t.start()
    t.join(deadline)
    return box.get("r", ("HANG",))


def run_proc(c):
    import os
    import signal
    import time

    from torchdata.nodes import IterableWrapper, ParallelMapper
    n = c["n"]
    udf = KillAt(c["die_at"] if c["mode"] == "in_udf" else -1, c.get("how", "kill"))
    node = ParallelMapper(IterableWrapper(list(range(n))), udf, num_workers=c["nw"], in_order=c["in_order"], method="process",
                          multiprocessing_context="fork")
    node.reset()
    outs, fails = [], []
    killed = False
    for k in range(n + 1 + c["extra"]):
        if c["mode"] == "idle" and k == c["die_at"] and not killed:
            time.sleep(0.3)
            w = node._it._it._workers[0]
            os.kill(w.pid, signal.SIGKILL)
            killed = True
        o = timed_next(node, 20.0)
        outs.append(list(o))
        if o[0] == "HANG":
            fails.append(f"next() call {k} still blocked after 20 s (outcomes so far {outs})")
            break
    items = [o[1] for o in outs if o[0] == "item"]
    first_bad = next((k for k, o in enumerate(outs) if o[0] != "item"), len(outs))
    if not fails:
        if c["mode"] == "in_udf":
            want = [x + 100 for x in range(n) if x != c["die_at"]]
            if not any(o[0] == "err" for o in outs):
                fails.append(f"a worker process {'raised' if str(c.get('how', '')).startswith('raise') else 'was killed'} while mapping item {c['die_at']} ({c.get('how')}) but no next() raised: {outs}")
            elif outs[first_bad][0] == "stop":
                fails.append(f"clean StopIteration before the worker death was reported: {outs}")
            if c["in_order"] and items[:first_bad] != [x + 100 for x in range(first_bad)]:
                fails.append(f"items before the failure {items[:first_bad]} are not the source prefix")
            if any(v not in want for v in items) or len(set(items)) != len(items):
                fails.append(f"wrong or duplicated items {items}")
        else:
            # an idle worker was killed: either the stream completes through the surviving workers or an error is raised; never a hang, never a short clean end
            if not any(o[0] == "err" for o in outs) and sorted(items) != [x + 100 for x in range(n)]:
                fails.append(f"stream ended without an error but incomplete: {outs}")
    del node
    return dict(oracle="; ".join(fails[:2]) or None, nontrivial=True, key=[c[k] for k in sorted(c)], summary=dict(outs=outs))


class RtErr(Exception):
    pass


def run_rt(c):
    """real threads, real time: error in source or map function, then repeated next() under a deadline"""
    from torchdata.nodes import BaseNode, ParallelMapper, Prefetcher
    n, src_err, bad = c["n"], c["src_err"], c["bad"] if c["node"] == "pm" else None

    class Src(BaseNode):
        def __init__(self):
            super().__init__()
            self.i = 0

        def reset(self, initial_state=None):
            super().reset(initial_state)
            self.i = 0 if initial_state is None else initial_state["i"]

        def next(self):
            if src_err is not None and self.i == src_err:
                self.i += 1
                raise RtErr("src")
            if self.i >= n:
                raise StopIteration()
            self.i += 1
            return self.i - 1

        def get_state(self):
            return {"i": self.i}

    def udf(x):
        if bad is not None and x == bad:
            raise RtErr("udf")
        return x + 100
    node = Prefetcher(Src(), 2) if c["node"] == "pf" else ParallelMapper(Src(), udf, num_workers=c["nw"], in_order=c["in_order"])
    node.reset()
    outs, fails = [], []
    for k in range(n + 2 + c["extra"]):
        o = timed_next(node, 15.0)
        outs.append(list(o))
        if o[0] == "HANG":
            fails.append(f"next() call {k} still blocked after 15 s (outcomes so far {outs})")
            break
    if not fails:
        add = 100 if c["node"] == "pm" else 0
        exp, pos, ended = [], 0, False
        for _ in outs:
            if ended:
                exp.append(["stop"])
            elif src_err is not None and pos == src_err:
                exp.append(["err", "RtErr"])
                ended = True
            elif pos >= n:
                exp.append(["stop"])
                ended = True
            else:
                exp.append(["err", "RtErr"] if (bad is not None and pos == bad) else ["item", pos + add])
                pos += 1
        if c["node"] == "pf" or c["in_order"]:
            if outs != exp:
                fails.append(f"outcomes {outs} != reference {exp}")
        elif sorted(map(str, outs)) != sorted(map(str, exp)):
            fails.append(f"outcomes {outs} are not a permutation of {exp}")
    del node
    return dict(oracle="; ".join(fails[:2]) or None, nontrivial=True, key=[c[k] for k in sorted(c)], summary=dict(outs=outs))


def run_impl(c):
    if c["kind"] == "proc":
        return run_proc(c)
    if c["kind"] == "rt":
        return run_rt(c)
    return cc.run_impl_with(c, oracle)


model_term = cc.model_term
distribution = cc.distribution


def widen(c, rng):
    if c.get("kind") in ("proc", "rt"):
        return []
    return [dict(c, seed=rng.randint(0, 10**9), bias=b) for b in cc.BIASES for _ in range(4)]
