"""C14 — MultiNodeWeightedSampler honours its stop criterion, source order and seeding."""
from lib import cbool, clist

PID = "C14"
IMPORTS = "WeightedModel WeightedObs"
FUNCS = ["torchdata/nodes/samplers/multi_node_weighted_sampler.py:MultiNodeWeightedSampler",
         "torchdata/nodes/samplers/multi_node_weighted_sampler.py:_WeightedSampler",
         "torchdata/nodes/samplers/utils.py:_get_rank_seed"]
RULE = ("1-4 sources of length 0-7, random positive weights, seeds, ranks, world sizes, all four stop criteria; histories over {next, state_dict, "
        "fresh node + reset(saved state), reset()} incl. runs past 1000 draws (batch boundary of the choice stream) and resumes at offset 1000; the model "
        "is fed the reference multinomial stream recomputed by the harness from (seed, rank, world_size, epoch, weights); every item (tagged with its "
        "source), StopIteration and state dict compared; non-trivial = >= 2 sources and >= 1 resume; distinct = distinct (config, history)")
TRUSTED = ["torch.multinomial / torch.Generator determinism; the harness's re-derivation of the seed (seed*world_size+rank -> randint stream -> [epoch]) is the "
           "specification of 'deterministic function of (seed, rank, world_size, epoch, weights)'"]
ASSUMPTIONS = ["termination clauses of ALL_/CYCLE_UNTIL_ are under fairness of the choice stream (every source keeps being drawn)"]
NPROC = 14
CASE_TIMEOUT = 120
CRITS = ["CYCLE_UNTIL_ALL_DATASETS_EXHAUSTED", "ALL_DATASETS_EXHAUSTED", "FIRST_DATASET_EXHAUSTED", "CYCLE_FOREVER"]
COQ_CRIT = dict(zip(CRITS, ["CycleUntilAll", "AllExhausted", "FirstExhausted", "CycleForever"]))
FUEL = 2000
SHARD = 40


def gen_cases(rng, tier, drift):
    n, nlong, nres = (420, 12, 60) if tier == "quick" and not drift else (6000, 200, 900)
    cases = []
    # resume-after-restart cases: a cycling criterion, uneven sources, a checkpoint taken after the short sources were
    # exhausted and restarted (mid-way through a later pass), some more items, then a resume from that checkpoint
    for _ in range(nres):
        ns = rng.randint(2, 4)
        lens = [rng.randint(1, 3)] + [rng.randint(2, 7) for _ in range(ns - 1)]
        rng.shuffle(lens)
        crit = rng.choice(["CYCLE_UNTIL_ALL_DATASETS_EXHAUSTED", "CYCLE_FOREVER", "CYCLE_FOREVER", "ALL_DATASETS_EXHAUSTED"])
        ws = rng.choice([1, 2])
        k = rng.randint(min(lens) + 1, 3 * max(lens) + 2)
        j = rng.randint(1, 6)
        ops = [["next"]] * k + [["state"]] + [["next"]] * j + [["load", 0]] + [["next"]] * (j + rng.randint(1, 5))
        if rng.random() < 0.4:     # a second checkpoint taken from the resumed node, resumed again
            ops += [["state"]] + [["next"]] * 3 + [["load", 1]] + [["next"]] * 5
        cases.append(dict(lens=lens, crit=crit, weights=[round(rng.uniform(0.5, 3.0), 3) for _ in range(ns)], seed=rng.randint(0, 1000),
                          rank=rng.randrange(ws), ws=ws, ops=ops))
    for i in range(n + nlong):
        long = i >= n
        ns = rng.randint(1, 4)
        lens = [rng.choice([0, 1, 2, 3, 5, 7]) if rng.random() < 0.25 else rng.randint(1, 7) for _ in range(ns)]
        crit = rng.choice(CRITS) if not long else "CYCLE_FOREVER"
        if long:
            lens = [max(1, x) for x in lens]
        weights = [round(rng.uniform(0.1, 3.0), 3) for _ in range(ns)]
        ws = rng.choice([1, 1, 2, 4])
        ops = []
        nsaved = 0
        steps = rng.randint(2, 7)
        if long:
            # a checkpoint exactly at / next to the batch boundary of the choice stream (offset 1000), resumed
            ops += [["next"]] * rng.choice([999, 1000, 1000, 1001, 2000]) + [["state"]] + [["next"]] * 4 + [["load", 0]] + [["next"]] * 8
            nsaved += 1
        for _ in range(steps):
            r = rng.random()
            if r < 0.45:
                ops += [["next"]] * rng.randint(1, 5)
            elif r < 0.7:
                ops.append(["state"])
                nsaved += 1
            elif r < 0.85 and nsaved:
                ops.append(["load", rng.randrange(nsaved)])
            elif r < 0.93:
                ops += [["next"]] * 25 + [["reset"]]
            else:
                ops.append(["reset"])
        ops += [["next"]] * rng.randint(2, 12)
        cases.append(dict(lens=lens, crit=crit, weights=weights, seed=rng.randint(0, 1000), rank=rng.randrange(ws), ws=ws, ops=ops))
    # isolation: what sampler X yields for a given (seed, rank, world_size, epoch, weights) must not depend on what another sampler Y
    # does in between X's own steps (a nested sampler, a sampler driven by another thread): Y's reset()/next() are run INSIDE
    # X's calls into the random-number library, at a chosen call
    for _ in range(n // 10):
        def one():
            ns = rng.randint(1, 3)
            ws = rng.choice([1, 2])
            return dict(lens=[rng.randint(2, 6) for _ in range(ns)], weights=[round(rng.uniform(0.2, 3.0), 3) for _ in range(ns)],
                        seed=rng.randint(0, 1000), rank=rng.randrange(ws), ws=ws, crit=rng.choice(CRITS[:3]))
        x, y = one(), one()
        cases.append(dict(kind="iso", x=x, y=y, at=rng.randint(0, 5), epochs=rng.choice([1, 2, 3]), lens=x["lens"], crit=x["crit"], ops=[]))
    return cases


def distribution(cases):
    d = {"crit": {}, "empty_source": 0, "long": 0}
    for c in cases:
        d["crit"][c["crit"]] = d["crit"].get(c["crit"], 0) + 1
        d["empty_source"] += 0 in c["lens"]
        d["long"] += len(c["ops"]) > 900
    return d


def ref_stream(c, epoch, nbatches):
    """The reference choice stream and the generator state at the start of each batch."""
    import torch
    g_rank, g = torch.Generator(), torch.Generator()
    g_rank.manual_seed(c["seed"] * c["ws"] + c["rank"])
    s = int(torch.randint(0, 2 ** 32 - 1, size=(epoch + 1,), generator=g_rank)[-1].item())
    g.manual_seed(s)
    w = torch.tensor(c["weights"], dtype=torch.float64)
    out, states = [], []
    for _ in range(nbatches):
        states.append(g.get_state())
        out += torch.multinomial(w, num_samples=1000, replacement=True, generator=g).tolist()
    return out, states


def items_of(c, i):
    return list(range(100 * i, 100 * i + c["lens"][i]))


def run_iso(c):
    import torch
    from torchdata.nodes import IterableWrapper, MultiNodeWeightedSampler

    def mk(d):
        names = [f"d{i}" for i in range(len(d["lens"]))]
        return MultiNodeWeightedSampler({n: IterableWrapper(list(range(100 * i, 100 * i + d["lens"][i]))) for i, n in enumerate(names)},
                                        dict(zip(names, d["weights"])), stop_criteria=d["crit"], rank=d["rank"], world_size=d["ws"], seed=d["seed"])

    def run_x(hook_at):
        calls = [0]
        busy = [False]
        real = {"randint": torch.randint, "multinomial": torch.multinomial}
        ynode = mk(c["y"])

        def wrap(name):
            def f(*a, **k):
                if hook_at is not None and not busy[0]:
                    if calls[0] == hook_at:
                        busy[0] = True
                        try:
                            ynode.reset()
                            for _ in range(3):
                                try:
                                    next(ynode)
                                except StopIteration:
                                    break
                        finally:
                            busy[0] = False
                    calls[0] += 1
                return real[name](*a, **k)
            return f
        torch.randint, torch.multinomial = wrap("randint"), wrap("multinomial")
        try:
            node = mk(c["x"])
            out = []
            for _ in range(c["epochs"]):
                node.reset()
                ep = []
                for _ in range(40):
                    try:
                        ep.append(next(node))
                    except StopIteration:
                        break
                out.append(ep)
            return out
        finally:
            torch.randint, torch.multinomial = real["randint"], real["multinomial"]
    alone = run_x(None)
    fails = []
    for at in range(c["at"], c["at"] + 3):
        mixed = run_x(at)
        if mixed != alone:
            fails.append(f"sampler {c['x']} yields {mixed} when another sampler {c['y']} is reset and drawn from inside its random-number call #{at}, and {alone} on its own")
            break
    return dict(oracle="; ".join(fails[:1]) or None, nontrivial=True, key=["iso", c["x"], c["y"], c["at"], c["epochs"]])


def zlib_crc(c):
    import json
    import zlib
    return zlib.crc32(json.dumps(c, sort_keys=True, default=str).encode())


def run_impl(c):
    import torch
    from torchdata.nodes import IterableWrapper, MultiNodeWeightedSampler
    import os
    # the process environment of a distributed job (RANK / WORLD_SIZE) on every third case: explicitly passed rank and world_size - rank 0
    # included - decide the stream, not the environment
    if zlib_crc(c) % 3 == 0:
        os.environ["RANK"], os.environ["WORLD_SIZE"] = "5", "7"
    else:
        os.environ.pop("RANK", None)
        os.environ.pop("WORLD_SIZE", None)
    if c.get("kind") == "iso":
        return run_iso(c)
    names = [f"d{i}" for i in range(len(c["lens"]))]

    def mk():
        return MultiNodeWeightedSampler({n: IterableWrapper(items_of(c, i)) for i, n in enumerate(names)},
                                        dict(zip(names, c["weights"])), stop_criteria=c["crit"], rank=c["rank"], world_size=c["ws"], seed=c["seed"])
    nb = 2 + len(c["ops"]) // 1000
    streams = {}

    def stream(e):
        if e not in streams:
            streams[e] = ref_stream(c, e, nb)
        return streams[e]

    def enc_state(sd):
        e = sd["epoch"]
        gs = sd["weighted_sampler_state"]["g_state"]
        bn = next((i for i, st in enumerate(stream(e)[1]) if torch.equal(st, gs)), -1)
        return [[sd["dataset_node_states"][n]["_num_yielded"] for n in names], [bool(sd["datasets_exhausted"][n]) for n in names],
                bn, sd["weighted_sampler_state"]["offset"], sd["num_yielded"], e]
    node = mk()
    node.reset()
    saved, obs, fails = [], [], []
    epochs_seen = {0}
    # ---- direct oracle bookkeeping: per-source subsequences within the current epoch
    seen = {i: [] for i in range(len(names))}
    restarted = set()

    def check_epoch_end(why):
        crit = c["crit"]
        for i in range(len(names)):
            full = items_of(c, i)
            sub = seen[i]
            if crit in ("ALL_DATASETS_EXHAUSTED", "FIRST_DATASET_EXHAUSTED"):
                if sub != full[:len(sub)]:
                    fails.append(f"source {i} order/restart violated: {sub} vs {full}")
            else:
                cyc = (full * (len(sub) // max(1, len(full)) + 1))[:len(sub)] if full else []
                if sub != cyc:
                    fails.append(f"source {i}: {sub} is not a prefix of cycle({full})")
        if why == "stop":
            if crit == "ALL_DATASETS_EXHAUSTED" and any(seen[i] != items_of(c, i) for i in seen):
                fails.append(f"ALL_DATASETS_EXHAUSTED stopped with {seen}")
            if crit == "CYCLE_UNTIL_ALL_DATASETS_EXHAUSTED" and not partial[0] and any(len(seen[i]) < c["lens"][i] for i in seen):
                fails.append(f"CYCLE_UNTIL_ALL_DATASETS_EXHAUSTED stopped before every source was fully seen: {seen}")
            if crit == "FIRST_DATASET_EXHAUSTED" and not any(len(seen[i]) == c["lens"][i] for i in seen):
                fails.append(f"FIRST_DATASET_EXHAUSTED stopped although no source ran out: {seen}")
            if crit == "CYCLE_FOREVER":
                fails.append("CYCLE_FOREVER raised StopIteration")
    partial = [False]     # True once the per-epoch bookkeeping was cut by a load (subsequences then start mid-epoch)
    # resume oracle: what followed checkpoint j in the run that produced it (until that run was reset / replaced) must be
    # what follows every later load of j
    after = []            # after[j] = outcomes observed after state j, while `open_[j]`
    open_ = []
    expect = [None]       # [list of outcomes still to be matched after the latest load, j]

    def outcome(o):
        for j in range(len(after)):
            if open_[j]:
                after[j].append(o)
        if expect[0] is not None:
            want, j, pos = expect[0]
            if pos < len(want):
                if want[pos] != o:
                    fails.append(f"resume from checkpoint {j}: outcome {pos} after the load is {o}, the uninterrupted run gave {want[pos]}")
                    expect[0] = None
                else:
                    expect[0] = (want, j, pos + 1)
    for o in c["ops"]:
        if o[0] == "next":
            try:
                x = next(node)
                obs.append(["item", x // 100, x])
                seen[x // 100].append(x)
                outcome(["item", x])
            except StopIteration:
                obs.append("stop")
                check_epoch_end("stop")
                outcome("stop")
        elif o[0] == "state":
            sd = node.state_dict()
            saved.append(sd)
            obs.append(["state", enc_state(sd)])
            after.append([])
            open_.append(True)
        elif o[0] == "load":
            check_epoch_end("cut")
            node = mk()
            node.reset(saved[o[1]])
            obs.append("load")
            open_[:] = [False] * len(open_)
            expect[0] = (list(after[o[1]]), o[1], 0)
            st = saved[o[1]]
            seen = {i: items_of(c, i)[:st["dataset_node_states"][n]["_num_yielded"]] for i, n in enumerate(names)}
            partial[0] = True
        elif o[0] == "reset":
            check_epoch_end("cut")
            node.reset()
            obs.append("reset")
            open_[:] = [False] * len(open_)
            expect[0] = None
            seen = {i: [] for i in range(len(names))}
            partial[0] = False
    # ---- the choices are the reference multinomial stream: replay it through a trivial interpreter
    # (done by the Coq model; here we only hand it the tables)
    max_epoch = 1 + sum(1 for o in c["ops"] if o[0] == "reset") + max([0] + [s["epoch"] for s in saved])
    # how much of the choice stream the model is handed: a next() skips draws of exhausted sources, and the end of an
    # ALL_DATASETS_EXHAUSTED epoch is only noticed once every source has been drawn again - with a low-weight source that
    # takes ~1/p draws each time, so the bound is per next() and in terms of the smallest selection probability
    # (an exhausted table would make the MODEL spin until its fuel runs out: a false alarm, met once in the thorough tier)
    p_min = min(c["weights"]) / sum(c["weights"])
    per_next = max(3, int(12 / p_min) + 1)
    need = min(nb * 1000, 240 + (sum(1 for o in c["ops"] if o[0] == "next") + 8) * per_next)
    tables = [stream(e)[0][:need] for e in range(max_epoch + 1)]
    # resume oracle: continuation after every load equals the uninterrupted one (checked via the model and per-source order above)
    kinds = [o[0] for o in c["ops"]]
    return dict(obs=obs, tables=tables, oracle="; ".join(fails[:2]) or None, nontrivial=len(names) >= 2 and "load" in kinds,
                key=[c[k] for k in sorted(c)], has_empty=0 in c["lens"])


def coq_ops(ops):
    m = {"next": "WNext", "state": "WState", "reset": "WReset"}
    return clist([m[o[0]] if o[0] in m else f"(WLoad {o[1]})" for o in ops])


def model_term(c, r):
    tbl = clist([clist([str(x) for x in t]) for t in r["tables"]])
    cfg = "{| w_sources := " + clist([clist([str(x) for x in items_of(c, i)]) for i in range(len(c["lens"]))]) + \
          f"; w_crit := {COQ_CRIT[c['crit']]}; w_batch := 1000 |}}"
    return f"c14_obs {tbl} {cfg} {FUEL} {coq_ops(c['ops'])}"


def known_match(f, case, detail):
    # D12: a source of length 0 under a cycling criterion
    return f["id"] == "D12" and case is not None and 0 in case["lens"] and case["crit"] in ("CYCLE_FOREVER", "CYCLE_UNTIL_ALL_DATASETS_EXHAUSTED") \
        and isinstance(detail, dict) and "oracle" in detail and ("CYCLE_FOREVER raised StopIteration" in str(detail["oracle"]) or "before every source" in str(detail["oracle"]))


def widen(c, rng):
    if c.get("kind") == "iso":
        return [dict(c, at=a) for a in range(0, 8)]
    return [dict(c, seed=c["seed"] + i) for i in range(1, 30)]
