"""C13 — iter(), state_dict() and load_state_dict() compose as documented in any order (nodes Loader part; the
StatefulDataLoader front-end is added by the SDL harness)."""
import nodes_impl as ni
import sdl_api as sa
import sdl_impl as si

PID = "C13"
IMPORTS = "NodeModel NodeObs SdlApiModel"
FUNCS = ["torchdata/nodes/loader.py:Loader", "torchdata/nodes/loader.py:LoaderIterator", "torchdata/nodes/adapters.py:SamplerWrapper",
         "torchdata/stateful_dataloader/stateful_dataloader.py:StatefulDataLoader.__iter__",
         "torchdata/stateful_dataloader/stateful_dataloader.py:StatefulDataLoader.state_dict",
         "torchdata/stateful_dataloader/stateful_dataloader.py:StatefulDataLoader.load_state_dict"]
RULE = ("random API call sequences (length <= 14) over {iter, next x j, exhaust, state_dict, load_state_dict(any earlier state), new Loader object} over "
        "random pipelines (incl. epoch-dependent SamplerWrapper), restart_on_stop_iteration true/false; every outcome compared with the Gallina Loader model "
        "and with a list-based Python reference (epochs as lists, a cursor, an optional pending state); non-trivial = at least one load and one state_dict and "
        ">= 2 iter; distinct = distinct (pipeline, op sequence)")
TRUSTED = ["the list-based reference in this file is the documented behaviour (README/docstrings) as read by the verifier"]
ASSUMPTIONS = []
NPROC = 12
CASE_TIMEOUT = 240


def gen_ops(rng, L):
    ops, have_it, nsaved = [], False, 0
    for _ in range(rng.randint(2, 9)):
        r = rng.random()
        if r < 0.25 or (not have_it and r < 0.5):
            ops.append(["iter"])
            have_it = True
        elif r < 0.55 and have_it:
            ops += [["next"]] * rng.randint(1, 3)
        elif r < 0.65 and have_it:
            ops += [["next"]] * (L + 1)          # exhaust
        elif r < 0.8:
            ops.append(["state"])
            nsaved += 1
        elif r < 0.87:
            ops.append(["fresh"])        # a new Loader object (same pipeline); earlier states stay loadable
            have_it = False
        elif nsaved:
            ops.append(["load", rng.randrange(nsaved)])
        else:
            ops.append(["state"])
            nsaved += 1
    return ops


def gen_template(rng, L):
    a, b = rng.randint(0, min(L, 4)), rng.randint(1, 4)
    N = lambda k: [["next"]] * k
    t = rng.choice([
        [["iter"]] + N(a) + [["state"], ["fresh"], ["state"], ["load", 0], ["iter"]] + N(b),      # state_dict(); load; iter
        [["iter"]] + N(a) + [["state"], ["load", 0], ["state"], ["iter"]] + N(b),                  # state between load and iter
        [["iter"]] + N(L + 1) + [["state"], ["fresh"], ["load", 0], ["iter"]] + N(b),              # end-of-epoch state
        [["iter"]] + N(L) + [["state"], ["fresh"], ["load", 0], ["iter"]] + N(b) + [["state"], ["fresh"], ["load", 1], ["iter"]] + N(b),
        [["state"], ["iter"]] + N(a) + [["state"], ["iter"]] + N(b),                               # state before iter: no double start
        # a checkpoint taken from a RESUMED loader after some more items, resumed again (fresh object / same object)
        [["iter"]] + N(a) + [["state"], ["fresh"], ["load", 0], ["iter"]] + N(b) + [["state"], ["fresh"], ["load", 1], ["iter"]] + N(b),
        [["iter"]] + N(a) + [["state"], ["load", 0], ["iter"]] + N(b) + [["state"], ["load", 1], ["iter"]] + N(b),
        [["iter"]] + N(a) + [["state"], ["fresh"], ["load", 0], ["iter"]] + N(L + 1) + [["state"], ["fresh"], ["load", 1], ["iter"]] + N(b),
        # state_dict() between the load of an end-of-epoch state and iter()
        [["iter"]] + N(L + 1) + [["state"], ["fresh"], ["load", 0], ["state"], ["iter"]] + N(b) + [["iter"]] + N(b),
        [["state"], ["state"], ["iter"], ["next"], ["iter"]] + N(b),
        [["iter"]] + N(a) + [["state"], ["iter"]] + N(b) + [["load", 0], ["next"], ["iter"]] + N(b),   # old iterator keeps going after load
        [["iter"]] + N(a) + [["state"], ["fresh"], ["load", 0], ["load", 0], ["iter"]] + N(b) + [["load", 0], ["iter"]] + N(b),
    ])
    return [list(o) for o in t]


def gen_sdl_ops(rng, L):
    N = lambda k: [["next"]] * k
    a, b = rng.randint(0, min(L, 3)), rng.randint(1, 3)
    if rng.random() < 0.5:
        t = rng.choice([
            [["state"], ["iter"]] + N(a) + [["iter"]] + N(L + 1),                                   # state_dict() first, an abandoned epoch, a new one
            [["iter"]] + N(a) + [["state"], ["fresh"], ["state"], ["load", 0], ["iter"]] + N(b),
            [["iter"]] + N(a) + [["state"], ["load", 0], ["state"], ["iter"]] + N(b),
            [["iter"]] + N(L + 1) + [["state"], ["fresh"], ["load", 0], ["iter"]] + N(b) + [["iter"]] + N(b),
            [["iter"]] + N(L) + [["state"], ["fresh"], ["load", 0], ["iter"]] + N(b),
            # an end-of-epoch state is loaded, the next epoch is part-way through: state_dict() must describe THAT iterator
            [["iter"]] + N(L + 1) + [["state"], ["fresh"], ["load", 0], ["iter"]] + N(b) + [["state"], ["fresh"], ["load", 1], ["iter"]] + N(L + 1),
            [["iter"]] + N(L + 1) + [["state"], ["load", 0], ["iter"]] + N(a) + [["state"], ["load", 1], ["iter"]] + N(b) + [["state"]],
            # state_dict() between the load of an end-of-epoch state and iter(): the finished iterator it builds is not handed out
            [["iter"]] + N(L + 1) + [["state"], ["fresh"], ["load", 0], ["state"], ["iter"]] + N(b) + [["iter"]] + N(b),
            [["iter"]] + N(L) + [["next"], ["state"], ["load", 0], ["state"], ["state"], ["iter"]] + N(L + 1) + [["iter"]] + N(1),
            [["iter"]] + N(a) + [["state"], ["fresh"], ["load", 0], ["iter"]] + N(b) + [["state"], ["fresh"], ["load", 1], ["iter"]] + N(b),
            [["iter"]] + N(a) + [["state"], ["iter"]] + N(b) + [["load", 0], ["next"], ["iter"]] + N(b),
            [["iter"]] + N(a) + [["state"], ["load_empty"], ["iter"]] + N(b),
            [["state"], ["load_empty"], ["iter"]] + N(b),                                          # state_dict() built the iterator; {} drops it
            [["iter"]] + N(a) + [["state"], ["fresh"], ["load", 0], ["state"], ["load_empty"], ["iter"]] + N(b),
            [["state"], ["load_empty"], ["state"], ["iter"]] + N(b) + [["iter"]] + N(b),
            [["iter"]] + N(a) + [["iter"]] + N(b) + [["iter"]] + N(L + 1) + [["iter"]] + N(b),
            [["state"], ["state"], ["iter"]] + N(a) + [["state"], ["fresh"], ["load", 2], ["iter"]] + N(b) + [["iter"]] + N(1),
        ])
        return [list(o) for o in t]
    ops, have_it, nsaved = [], False, 0
    for _ in range(rng.randint(2, 8)):
        r = rng.random()
        if r < 0.25 or (not have_it and r < 0.5):
            ops.append(["iter"])
            have_it = True
        elif r < 0.5 and have_it:
            ops += N(rng.randint(1, 3))
        elif r < 0.6 and have_it:
            ops += N(L + 1)
        elif r < 0.8:
            ops.append(["state"])
            nsaved += 1
        elif r < 0.85:
            ops.append(["fresh"])
            have_it = False
        elif r < 0.9:
            ops.append(["load_empty"])
        elif nsaved:
            ops.append(["load", rng.randrange(nsaved)])
    return ops


def gen_cases(rng, tier, drift):
    n = 600 if tier == "quick" and not drift else 8000
    nsdl = 90 if tier == "quick" and not drift else 1500
    cases = []
    for _ in range(nsdl):
        cfg = si.gen_cfg(rng, maxW=2)
        cfg["W"] = rng.choice([0, 2])
        if cfg["kind"] == "iter":
            cfg["sizes"] = [rng.randint(0, 4) for _ in range(max(1, cfg["W"]))]
            cfg["stateful"], cfg["rewind"], cfg["iterstate"] = False, False, True     # iterator-level state: every __iter__ starts at item 0
        else:
            cfg["n"] = rng.randint(0, 7)
        cfg["persistent"] = cfg["W"] > 0 and rng.random() < 0.4
        L = len(si.batches_ref(cfg))
        cases.append(dict(kind="sdl", cfg=cfg, ops=gen_sdl_ops(rng, L)))
    for _ in range(n):
        p = ni.gen_well_typed_pipe(rng, max_depth=rng.choice([0, 1, 2, 3]), threads=rng.random() < 0.3)
        L = max(len(ni.ref_sem(p, e)) for e in range(4))
        ops = gen_template(rng, L) if rng.random() < 0.35 else gen_ops(rng, L)
        cases.append(dict(pipe=p, restart=rng.random() < 0.7, ops=ops))
    return cases


def distribution(cases):
    d = {"ops": {}, "sampler": 0}
    for c in cases:
        for o in c["ops"]:
            d["ops"][o[0]] = d["ops"].get(o[0], 0) + 1
        d["sampler"] += "sampler" in str(c.get("pipe"))
        d["sdl"] = d.get("sdl", 0) + (c.get("kind") == "sdl")
    return d


class RefLoader:
    """The documented behaviour as a list machine: epochs E(e), a cursor, an optional pending state."""

    def __init__(self, E, restart):
        self.E, self.restart = E, restart
        self.cur, self.pending, self.for_sd = None, None, False

    def iter(self):
        if self.cur is not None and self.for_sd:
            self.for_sd = False
            return
        if self.pending is not None:
            e, k = self.pending
            self.pending = None
            if self.restart and k >= len(self.E(e)):
                e, k = e + 1, 0
            self.cur = [e, k, False]
        elif self.cur is None:
            self.cur = [0, 0, False]
        else:
            self.cur = [self.cur[0] + (1 if self.cur[2] else 0), 0, False]

    def next(self):
        self.cur[2] = True
        e, k = self.cur[0], self.cur[1]
        if k < len(self.E(e)):
            self.cur[1] += 1
            return ["item", self.E(e)[k]]
        return "stop"

    def state(self):
        if self.cur is None:
            self.iter()
            self.for_sd = True
        return (self.cur[0], self.cur[1])

    def load(self, s):
        self.pending = s
        self.for_sd = False


def run_sdl(c):
    cfg, ops = c["cfg"], c["ops"]
    try:
        obs = sa.run_api(cfg, ops)
    finally:
        si.kill_children()
    L = len(si.batches_ref(cfg))
    ref = sa.RefSDL(L, bool(cfg.get("persistent")) and cfg["W"] > 0)
    rsaved, fails = [], []
    for i, (o, got) in enumerate(zip(ops, obs)):
        if isinstance(got, str) and got.startswith("err"):
            fails.append(f"op {i} {o}: {got}")
            break
        if o[0] == "iter":
            ref.iter()
        elif o[0] == "next":
            want = ref.next()
            if got != want:
                fails.append(f"op {i} next: got {got}, reference {want}")
        elif o[0] == "state":
            want = ref.state()
            rsaved.append(want)
            if (got[1], got[2]) != want:
                fails.append(f"op {i} state_dict: position {got[1:]}, reference {want}")
        elif o[0] == "load":
            ref.load(rsaved[o[1]])
        elif o[0] == "load_empty":
            ref.load(None)
        elif o[0] == "fresh":
            ref = sa.RefSDL(L, bool(cfg.get("persistent")) and cfg["W"] > 0)
    kinds = [o[0] for o in ops]
    return dict(obs=obs, oracle="; ".join(fails[:2]) or None, nontrivial="load" in kinds and kinds.count("iter") >= 2, key=[cfg, ops])


def run_impl(c):
    if c.get("kind") == "sdl":
        return run_sdl(c)
    p, restart, ops = c["pipe"], c["restart"], c["ops"]
    obs, saved, pickled, _ = ni.run_history(p, restart, ops)
    ref = RefLoader(lambda e: ni.ref_sem(p, e), restart)
    rsaved, fails = [], []
    for i, (o, got) in enumerate(zip(ops, obs)):
        if o[0] == "iter":
            ref.iter()
        elif o[0] == "next":
            want = ref.next()
            if got != want:
                fails.append(f"op {i} next: got {got}, reference {want}")
        elif o[0] == "state":
            rsaved.append(ref.state())
        elif o[0] == "load":
            ref.load(rsaved[o[1]])
        elif o[0] == "fresh":
            ref = RefLoader(lambda e: ni.ref_sem(p, e), restart)
    kinds = [o[0] for o in ops]
    # D15: an epoch in which the USER requested nothing but the library pulled an item itself
    idle = idle_epoch(ops)
    if idle and ni.has_threads(p) and "sampler" in str(p):
        obs = None        # read-ahead timing decides whether the sampler epoch advances: no deterministic model observation
    if obs is None:
        return dict(oracle="; ".join(fails[:2]) or None, nontrivial=False, key=[p, ops, restart], idle_epoch=idle)
    return dict(idle_epoch=idle, obs=obs, oracle="; ".join(fails[:2]) or None,
                nontrivial="load" in kinds and "state" in kinds and kinds.count("iter") >= 2, key=[p, ops, restart],
                ref_states=rsaved)


def model_term(c, r):
    if c.get("kind") == "sdl":
        cfg = c["cfg"]
        L = len(si.batches_ref(cfg))
        pers = "true" if cfg.get("persistent") and cfg["W"] > 0 else "false"
        return f"fe_obs {L} {pers} {sa.coq_aops(c['ops'])}"
    return f"loader_obs {ni.coq_pipe(c['pipe'])} {'true' if c['restart'] else 'false'} {ni.coq_ops(c['ops'])}"


def idle_epoch(ops):
    """True iff some iterator handed out by iter() (or created by state_dict()) was replaced by the next iter() without a next() on it."""
    requested = None
    for o in ops:
        if o[0] == "fresh":
            requested = None
        elif o[0] == "iter" or (o[0] == "state" and requested is None):
            if requested is False:
                return True
            requested = False
        elif o[0] == "next":
            requested = True
    return False


def known_match(f, case, detail):
    # D15: only for pipelines with an epoch-dependent sampler, only when some epoch saw no user request, and only when the
    # library itself pulls: read-ahead threads, a restore that pulls (Unbatcher/Prefetcher/ParallelMapper), or the restart look-ahead
    if f["id"] != "D15" or case is None or case.get("kind") == "sdl":
        return False
    p = str(case["pipe"])
    loads = any(o[0] == "load" for o in case["ops"])
    return "sampler" in p and idle_epoch(case["ops"]) and \
        (ni.has_threads(case["pipe"]) or (loads and (case["restart"] or "unbatch" in p)))


def widen(c, rng):
    return []
