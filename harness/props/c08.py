"""C08 — a state_dict is an immutable, reusable value and taking it changes nothing (nodes part; SDL part in sdl harness)."""
import pickle

import nodes_impl as ni
import sdl_impl as si

PID = "C08"
IMPORTS = "NodeModel NodeObs"
FUNCS = ["torchdata/nodes/loader.py:Loader", "torchdata/nodes/loader.py:LoaderIterator", "torchdata/nodes/batch.py:Unbatcher",
         "torchdata/nodes/map.py:_ParallelMapperIter", "torchdata/nodes/map.py:_SingleThreadedMapper",
         "torchdata/nodes/samplers/multi_node_weighted_sampler.py:MultiNodeWeightedSampler",
         "torchdata/stateful_dataloader/stateful_dataloader.py:StatefulDataLoader",
         "torchdata/stateful_dataloader/stateful_dataloader.py:_StatefulMultiProcessingDataLoaderIter._update_snapshot",
         "torchdata/stateful_dataloader/incremental_state.py:_IncrementalState.get_state"]
RULE = ("histories interleaving next(), state_dict(), load_state_dict(of the SAME dict object, repeatedly, into the same and into fresh loaders) and new epochs over random "
        "pipelines (plus MultiNodeWeightedSampler with every stop criterion, bare and under a Prefetcher, whose RESUMED loader also computes states; plus StatefulDataLoader with 0/2 workers "
        "and a RandomSampler, state_dict() before the first iter(), after every batch and between epochs); each state dict is pickled at birth and deep-compared with itself at the end, loaded twice into "
        "two fresh loaders (same continuation required), and the item stream is compared with a run that makes extra state_dict() calls after every op; "
        "non-trivial = history has >=1 load and >=3 next; distinct = distinct (pipeline, history)")
TRUSTED = ["aliasing inside user code is excluded by construction (harness iterables copy on load); the claim is about the library's bookkeeping",
           "Gallina values are immutable, so the model side carries the purity half (state_dict() does not change what follows); the no-write-through half is decided by the deep-compare oracle"]
ASSUMPTIONS = []
NPROC = 14
CASE_TIMEOUT = 120


def gen_history(rng, L):
    ops, nsaved, have_it = [["iter"]], 0, True
    for _ in range(rng.randint(3, 8)):
        r = rng.random()
        if r < 0.35:
            ops += [["next"]] * rng.randint(1, 3)
        elif r < 0.6:
            ops.append(["state"])
            nsaved += 1
        elif r < 0.68 and nsaved:
            ops += [["load", rng.randrange(nsaved)], ["iter"]]
        elif r < 0.75 and nsaved:
            # a state is loaded while the current iterator is still being consumed; state_dict() is called with the load pending; the old
            # iterator is then advanced further before the next iter() picks the loaded state up
            ops += [["load", rng.randrange(nsaved)], ["state"]] + [["next"]] * rng.randint(1, 3) + [["iter"]]
            nsaved += 1
        elif r < 0.85 and nsaved:
            ops += [["fresh"], ["load", rng.randrange(nsaved)], ["iter"]]
        elif r < 0.93:
            ops += [["next"]] * (L + 1) + [["iter"]]
        else:
            ops.append(["iter"])
    if not nsaved:
        ops.append(["state"])
    return ops + [["next"]] * 2


def gen_cases(rng, tier, drift):
    n, nw, nsdl = (350, 150, 36) if tier == "quick" and not drift else (5000, 2000, 400)
    cases = []
    # StatefulDataLoader: state_dict() before the first iter(), after every batch and between epochs must not change the
    # stream (a RandomSampler with its own generator makes a second, hidden iter(sampler) visible), the dicts stay as born
    for _ in range(nsdl):
        cfg = si.gen_cfg(rng, kinds=("map",), maxW=2)
        cfg.update(W=rng.choice([0, 0, 2]), n=rng.randint(3, 10), bs=rng.choice([1, 2, 3]), I=rng.choice([1, 1, 2]),
                   sampler=dict(replacement=False, num_samples=None), gseed=rng.randint(0, 999))
        cases.append(dict(kind="sdl", cfg=cfg, pre=rng.random() < 0.8, between=rng.random() < 0.5))
    for _ in range(max(4, nsdl // 6)):
        # worker dataset state with a large tensor of constant shape: the dicts handed out earlier must not be rewritten by later steps
        cases.append(dict(kind="sdl", cfg=dict(kind="iter", bigstate=True, n=rng.randint(4, 9), W=rng.choice([1, 2, 2]), bs=rng.choice([1, 2]),
                                               I=rng.choice([1, 1, 2]), P=rng.choice([1, 2])), pre=rng.random() < 0.5, between=rng.random() < 0.5))
    for _ in range(n):
        p = ni.gen_well_typed_pipe(rng, max_depth=rng.choice([1, 2, 3, 4]), threads=rng.random() < 0.5)
        L = max(len(ni.ref_sem(p, e)) for e in range(4))
        cases.append(dict(kind="nodes", pipe=p, restart=rng.random() < 0.8, ops=gen_history(rng, L), seed=rng.randint(0, 10**6)))
    for _ in range(nw):
        ns = rng.randint(1, 3)
        cases.append(dict(kind="weighted", lens=[rng.randint(1, 6) for _ in range(ns)], crit=rng.choice(["CYCLE_UNTIL_ALL_DATASETS_EXHAUSTED", "ALL_DATASETS_EXHAUSTED", "FIRST_DATASET_EXHAUSTED", "CYCLE_FOREVER"]),
                          seed=rng.randint(0, 50), k=rng.randint(0, 8), wseed=rng.randint(0, 10**6), pf=rng.random() < 0.4))
        if cases[-1]["crit"] == "CYCLE_FOREVER" and rng.random() < 0.6:
            cases[-1]["long"] = True      # the resumed sampler runs past the 1000-draw boundary of its choice stream
    return cases


def distribution(cases):
    d = {}
    for c in cases:
        d[c["kind"]] = d.get(c["kind"], 0) + 1
    return d


def deep_eq(a, b):
    import torch
    if isinstance(a, torch.Tensor) or isinstance(b, torch.Tensor):
        return isinstance(a, torch.Tensor) and isinstance(b, torch.Tensor) and a.dtype == b.dtype and torch.equal(a, b)
    if type(a) != type(b):
        return False
    if isinstance(a, dict):
        return list(a.keys()) == list(b.keys()) and all(deep_eq(a[k], b[k]) for k in a)
    if isinstance(a, (list, tuple)):
        return len(a) == len(b) and all(deep_eq(x, y) for x, y in zip(a, b))
    return a == b


def items_of(obs):
    return [o for o in obs if o == "stop" or (isinstance(o, list) and o[0] == "item") or (isinstance(o, str) and o.startswith("err"))]


def drain2(ld, limit=40):
    out = []
    for _ in range(2):
        ep = []
        for i, x in enumerate(ld):
            ep.append(x)
            if i >= limit:
                break
        out.append(ep)
    return out


def run_impl(c):
    from torchdata.nodes import Loader
    fails = []
    if c["kind"] == "nodes":
        p, restart, ops = c["pipe"], c["restart"], c["ops"]
        obs, saved, pickled, _ = ni.run_history(p, restart, ops)
        for i, (sd, pk) in enumerate(zip(saved, pickled)):
            if not deep_eq(pickle.loads(pk), sd):
                fails.append(f"state dict #{i} changed after it was returned: born {pickle.loads(pk)}, now {sd}")
        # extra state_dict() calls after every op change nothing
        ops2 = []
        for o in ops:
            ops2 += [o, ["peek"]] if o[0] != "fresh" else [o]
        obs2, _, _, _ = ni.run_history(p, restart, ops2)
        if items_of(obs2) != items_of(obs):
            fails.append(f"extra state_dict() calls changed the stream: {items_of(obs2)} vs {items_of(obs)}")
        # the same dict object loaded twice gives the same continuation, and is still unchanged
        for i in range(len(saved)):
            cont = []
            for _ in range(2):
                ld = Loader(ni.build(p), restart_on_stop_iteration=restart)
                ld.load_state_dict(saved[i])
                cont.append(drain2(ld))
            if cont[0] != cont[1]:
                fails.append(f"state dict #{i} loaded twice: {cont[0]} then {cont[1]}")
            if not deep_eq(pickle.loads(pickled[i]), saved[i]):
                fails.append(f"state dict #{i} changed by loading it and iterating")
        kinds = [o[0] for o in ops]
        if ni.timing_dependent(p, ops):      # D15 (C13): no deterministic model observation for the epoch counter
            return dict(oracle="; ".join(fails[:2]) or None, nontrivial=False, key=[p, ops, restart])
        return dict(obs=obs, oracle="; ".join(fails[:2]) or None, nontrivial="load" in kinds and kinds.count("next") >= 3, key=[p, ops, restart])
    if c["kind"] == "sdl":
        return run_sdl(c)
    # weighted sampler
    from torchdata.nodes import IterableWrapper, MultiNodeWeightedSampler, Prefetcher
    import random

    def mk():
        rw = random.Random(c["wseed"])
        src = {f"d{i}": IterableWrapper(list(range(100 * i, 100 * i + n))) for i, n in enumerate(c["lens"])}
        w = {k: round(rw.uniform(0.2, 2.0), 3) for k in src}
        node = MultiNodeWeightedSampler(src, w, stop_criteria=c["crit"], seed=c["seed"])
        if c.get("pf"):       # a Prefetcher above the sampler asks it for its state once per item
            node = Prefetcher(node, prefetch_factor=2)
        return Loader(node)
    ld = mk()
    it = iter(ld)
    got = []
    for _ in range(c["k"]):
        try:
            got.append(next(it))
        except StopIteration:
            break
    sd = ld.state_dict()
    pk = pickle.dumps(sd)
    cont = []
    for _ in range(2):
        l2 = mk()
        l2.load_state_dict(sd)
        i2 = iter(l2)
        ep = []
        for j in range(1100 if c.get("long") else 30):
            try:
                ep.append(next(i2))
            except StopIteration:
                break
            if j % 3 == 1 and j < 60:
                l2.state_dict()          # the RESUMED loader computes states too: they must not be written into the loaded dict
        cont.append(ep[:40])
        if not deep_eq(pickle.loads(pk), sd):
            fails.append(f"state dict changed by loading it and iterating: born {pickle.loads(pk)}, now {sd}")
    if cont[0] != cont[1]:
        fails.append(f"same state dict loaded twice: {cont[0]} then {cont[1]}")
    # later iteration of the producer must not alter it either
    for _ in range(10):
        try:
            next(it)
        except StopIteration:
            break
    if not deep_eq(pickle.loads(pk), sd):
        fails.append("state dict changed by further iteration of the loader that produced it")
    return dict(oracle="; ".join(fails[:2]) or None, nontrivial=c["k"] > 0, key=[c[k] for k in sorted(c)])


def _big_state_loader(cfg):
    """real worker processes over an IterableDataset whose state holds a LARGE tensor (80 KB) of constant shape that changes with every item"""
    import torch
    import torch.utils.data as tud
    from torchdata.stateful_dataloader import StatefulDataLoader
    n, W = cfg["n"], cfg["W"]

    class BigStateDS(tud.IterableDataset):
        def __init__(self):
            self.i = 0

        def __iter__(self):
            info = tud.get_worker_info()
            w, nw = (info.id, info.num_workers) if info else (0, 1)
            items = list(range(w, n, nw))
            while self.i < len(items):
                x = items[self.i]
                self.i += 1
                yield x
            self.i = 0

        def state_dict(self):
            return {"i": self.i, "t": torch.full((20000,), float(self.i))}

        def load_state_dict(self, sd):
            self.i = sd["i"]
    return StatefulDataLoader(BigStateDS(), batch_size=cfg["bs"], num_workers=W, snapshot_every_n_steps=cfg["I"],
                              **({"prefetch_factor": cfg["P"]} if W else {}))


def run_sdl(c):
    cfg = c["cfg"]
    fails = []
    make = (lambda: _big_state_loader(cfg)) if cfg.get("bigstate") else (lambda: si.make_loader(cfg))

    def run(extra):
        dl = make()
        out, saved, pk = [], [], []

        def peek():
            sd = dl.state_dict()
            saved.append(sd)
            pk.append(pickle.dumps(sd))
        if extra and c["pre"]:
            peek()
        for e in range(2):
            ep = []
            for b in dl:
                ep.append(si.norm_batch(b))
                if extra:
                    peek()
            out.append(ep)
            if extra and c["between"]:
                peek()
        return out, saved, pk
    try:
        plain, _, _ = run(False)
        ext, saved, pk = run(True)
        if ext != plain:
            fails.append(f"state_dict() calls changed the stream: {ext} vs {plain} without them")
        for i, (sd, b) in enumerate(zip(saved, pk)):
            if not deep_eq(pickle.loads(b), sd):
                fails.append(f"state dict #{i} changed after it was returned")
                break
        for i in sorted({0, len(saved) // 2, len(saved) - 1}) if saved else []:
            cont = []
            for _ in range(2):
                dl = make()
                dl.load_state_dict(saved[i])
                cont.append([si.norm_batch(b) for b in dl])
            if cont[0] != cont[1]:
                fails.append(f"state dict #{i} loaded twice: {cont[0]} then {cont[1]}")
            if not deep_eq(pickle.loads(pk[i]), saved[i]):
                fails.append(f"state dict #{i} changed by loading it and iterating")
    finally:
        si.kill_children()
    return dict(oracle="; ".join(fails[:2]) or None, nontrivial=len(plain[0]) >= 2, key=[cfg, c["pre"], c["between"]])


def model_term(c, r):
    return f"loader_obs {ni.coq_pipe(c['pipe'])} {'true' if c['restart'] else 'false'} {ni.coq_ops(c['ops'])}"


def widen(c, rng):
    return []
