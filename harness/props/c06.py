"""C06 — nodes checkpoints track the consumer position under every thread interleaving."""
import conc_common as cc

PID = "C06"
TABLES = ["check_initsnap"]   # harness/tables.py: QueueSnapshotStore.get_initial_snapshot run on every schedule of <= 9 moves against InitSnap.v (D20)
IMPORTS = cc.IMPORTS
FUNCS = cc.FUNCS
SHARD = 40
NPROC = 14
CASE_TIMEOUT = 120
RULE = ("real Prefetcher / ParallelMapper(in_order=True, thread workers) over an instrumented source run under the deterministic scheduler: random schedules "
        "with seven biases (uniform, few/eager timeouts, consumer first, reader first, workers last, sorter last); consumer scripts of next / state_dict / "
        "reset(None) / reset(loaded earlier state) over 1-3 generations, snapshot_frequency 0-3, prefetch_factor 1-3, 1-3 workers, max_concurrent; every "
        "scheduler step (pending primitive of the chosen thread, offered moves, semaphore value and queue contents after the step) and every outcome replayed "
        "on ConcModel.v; oracle: every state_dict() denotes exactly the consumer position (snapshot + steps, snapshot never ahead) and every continuation after "
        "a load equals the reference; non-trivial = >=2 source items and >=30 scheduler steps; distinct = distinct (configuration, script, schedule seed, bias)")
TRUSTED = cc.TRUSTED
ASSUMPTIONS = ["the source's state is a function of its position and restoring it restores the position",
               "join() on the old read thread returns only after it terminated (the join-timeout case is C12's known finding D10)"]


def gen_cases(rng, tier, drift):
    n = 260 if tier == "quick" and not drift else 4000
    out = []
    for i in range(n):
        out.append(cc.gen_case(rng, errors=(i % 5 == 0), loads=True, join_timeouts=False, unordered=False))
    for i in range(80 if tier == "quick" and not drift else 1200):
        # oracle-only: Thread.is_alive() is a yield point too (a liveness test made after a timed wait sees a later moment than the wait did)
        c = cc.gen_case(rng, errors=(i % 5 == 0), loads=(i % 2 == 0), join_timeouts=False, unordered=False)
        c["alive_yield"] = True
        out.append(c)
    return out


def oracle(c, r, ref_fails):
    return "; ".join(ref_fails[:2]) or None


def run_impl(c):
    return cc.run_impl_with(c, oracle)


model_term = cc.model_term
distribution = cc.distribution


def widen(c, rng):
    return [dict(c, seed=rng.randint(0, 10**9), bias=b) for b in cc.BIASES for _ in range(4)]
