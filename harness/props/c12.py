"""C12 — read-ahead is bounded and the source is only ever driven by one thread."""
import conc_common as cc

PID = "C12"
IMPORTS = cc.IMPORTS
FUNCS = cc.FUNCS
SHARD = 40
NPROC = 14
CASE_TIMEOUT = 120
RULE = ("real Prefetcher / ParallelMapper (thread workers, in_order true/false) over an instrumented source that counts the threads inside next()/reset()/"
        "state_dict() and the items pulled but not yet returned to the consumer, under the deterministic scheduler INCLUDING schedules in which _shutdown's "
        "join() times out (a source slower than the 0.5 s join timeout); histories of partial epochs, reset(None) and reset(loaded state); plus real-time runs "
        "(no scheduler) with fast and with 1.3 s sources; every step replayed on ConcModel.v incl. its overlap monitor; oracle: max(pulled - returned) <= "
        "prefetch_factor / max_concurrent, no overlapping entry into the source; non-trivial = >=2 items and >=30 steps; distinct = distinct (configuration, script, seed, bias)")
TRUSTED = cc.TRUSTED
ASSUMPTIONS = ["a thread parked inside source.next() models an arbitrarily slow source"]


def gen_cases(rng, tier, drift):
    n, nreal = (260, 6) if tier == "quick" and not drift else (4000, 40)
    out = []
    for i in range(n):
        c = cc.gen_case(rng, errors=(i % 4 == 0), loads=True, join_timeouts=(i % 2 == 0), unordered=True)
        if i % 6 == 0:
            c["bias"] = "zombie"
        out.append(c)
    for i in range(nreal):
        out.append(dict(kind="real", node=rng.choice(["pf", "pm"]), slow=(i % 2 == 0), n=rng.randint(3, 5), take=rng.randint(1, 2),
                        pf=rng.choice([1, 2, 3]), nw=rng.choice([1, 2])))
    return out


def oracle(c, r, ref_fails):
    fails = []
    tag = " [join-timeout]" if r["join_timeouts"] else ""
    if r["max_ahead"] > cc.kmax(c) and not r["join_timeouts"]:
        fails.append(f"read-ahead {r['max_ahead']} items pulled but not yet returned, bound {cc.kmax(c)}")
    if r["overlap"]:
        fails.append(f"two threads inside the source: {r['overlap'][0]}{tag}")
    elif r["max_ahead"] > cc.kmax(c):
        fails.append(f"read-ahead {r['max_ahead']} > {cc.kmax(c)}{tag}")
    if not r["join_timeouts"]:
        fails += ref_fails[:1]
    return "; ".join(fails[:2]) or None


def run_real(c):
    """no scheduler: real threads, real time; a source that sleeps inside next() (1.3 s > 2 x the 0.5 s join timeout when slow)"""
    import threading
    import time

    from torchdata.nodes import BaseNode, ParallelMapper, Prefetcher

    class Src(BaseNode):
        def __init__(self, n, delay):
            super().__init__()
            self.n, self.delay, self.i, self.inside, self.overlaps = n, delay, 0, 0, 0
            self.lock = threading.Lock()

        def _enter(self):
            with self.lock:
                if self.inside:
                    self.overlaps += 1
                self.inside += 1

        def _exit(self):
            with self.lock:
                self.inside -= 1

        def reset(self, initial_state=None):
            self._enter()
            super().reset(initial_state)
            self.i = 0
            self._exit()

        def next(self):
            self._enter()
            try:
                time.sleep(self.delay)
                if self.i >= self.n:
                    raise StopIteration()
                self.i += 1
                return self.i - 1
            finally:
                self._exit()

        def get_state(self):
            self._enter()
            try:
                return {"i": self.i}
            finally:
                self._exit()

    src = Src(c["n"], 1.3 if c["slow"] else 0.002)    # _shutdown runs twice (explicitly and from __del__): 2 x 0.5 s of join
    node = Prefetcher(src, c["pf"]) if c["node"] == "pf" else ParallelMapper(src, _ident, num_workers=c["nw"])
    node.reset()
    first = [next(node) for _ in range(min(c["take"], c["n"]))]
    node.reset()
    second = []
    try:
        while True:
            second.append(next(node))
    except StopIteration:
        pass
    fails = []
    if src.overlaps:
        fails.append(f"two threads inside the source ({src.overlaps} overlapping entries) [join-timeout]" if c["slow"] else
                     f"two threads inside the source ({src.overlaps} overlapping entries) with a FAST source")
    if second != list(range(c["n"])):
        fails.append(f"second epoch {second} does not start from the source's first item" + (" [join-timeout]" if c["slow"] else ""))
    del node
    return dict(oracle="; ".join(fails[:1]) or None, nontrivial=True, key=[c[k] for k in sorted(c)])


def _ident(x):
    return x


def run_impl(c):
    if c["kind"] == "real":
        return run_real(c)
    return cc.run_impl_with(c, oracle)


def known_match(f, case, detail):
    """D10: the overlap needs _shutdown's join() to have timed out while the old read thread was alive"""
    return f["id"] == "D10" and isinstance(detail, dict) and "[join-timeout]" in str(detail.get("oracle", ""))


model_term = cc.model_term
distribution = cc.distribution


def widen(c, rng):
    if c.get("kind") == "real":
        return []
    return [dict(c, seed=rng.randint(0, 10**9), bias=b) for b in cc.BIASES for _ in range(4)]
