"""C05 — StatefulDataLoader output and checkpoints do not depend on worker timing."""
import sdl_impl as si

PID = "C05"
IMPORTS = "SdlModel SdlObs"
TABLES = ["check_flags"]     # harness/tables.py: the snapshot-flag arithmetic of _try_put_index, re-translated from the source on every run
FUNCS = ["torchdata/stateful_dataloader/stateful_dataloader.py:_StatefulMultiProcessingDataLoaderIter._next_data",
         "torchdata/stateful_dataloader/stateful_dataloader.py:_StatefulMultiProcessingDataLoaderIter._process_data",
         "torchdata/stateful_dataloader/stateful_dataloader.py:_StatefulMultiProcessingDataLoaderIter._update_worker_snapshot",
         "torchdata/stateful_dataloader/stateful_dataloader.py:_StatefulMultiProcessingDataLoaderIter._try_put_index",
         "torchdata/stateful_dataloader/stateful_dataloader.py:_StatefulMultiProcessingDataLoaderIter._take_snapshot",
         "torchdata/stateful_dataloader/worker.py:_worker_loop",
         "torchdata/stateful_dataloader/incremental_state.py:_IncrementalWorkerState"]
RULE = ("for each configuration (2-3 real workers, uneven/empty shards, batch sizes, prefetch 1-3, snapshot interval 0-5) and each interruption point k, the same "
        "history (k batches, state_dict, new loader, load, drain) is run under 4 adversarial arrival-schedule pairs (always-first, always-last, rotating, random: a fast "
        "worker's results and end-of-shard notices overtake everyone else's) with REAL worker processes; streams and continuations must coincide across schedules and with "
        "the reference, the checkpointed worker positions must equal the items HANDED TO THE USER (never the prefetched position), and every step is compared with the "
        "model run on the very schedule that was realised; non-trivial = >= 2 workers, 0<k<L and the realised schedules differ; distinct = distinct (config,k,schedule set)")
TRUSTED = ["arrival schedules realised by sdl_impl.ArrivalCtx with real worker processes"]
ASSUMPTIONS = ["every arrival order consistent with per-worker FIFO is a schedule of the model (queues are FIFO per producer)"]
NPROC = 10
CASE_TIMEOUT = 300
PATTERNS = ["first", "last", "rot", "rand"]


def gen_cases(rng, tier, drift):
    n = 45 if tier == "quick" and not drift else 900
    cases = []
    for _ in range(n):
        cfg = si.gen_cfg(rng, maxW=3)
        cfg["W"] = max(2, cfg["W"])
        if cfg["kind"] == "iter":
            cfg["sizes"] = (cfg["sizes"] + [rng.randint(0, 6), rng.randint(0, 6)])[:cfg["W"]]
        L = len(si.batches_ref(cfg))
        k = rng.choice([rng.randint(0, L), rng.randint(0, L), max(0, L - 1), min(L, 1)])
        cases.append(dict(cfg=cfg, k=k, rseed=rng.randint(0, 10**6)))
    return cases


def distribution(cases):
    d = {}
    for c in cases:
        k = f"{c['cfg']['kind']}/W{c['cfg']['W']}/P{c['cfg']['P']}"
        d[k] = d.get(k, 0) + 1
    return d


def choices_for(pattern, n, rseed):
    import random
    if pattern == "first":
        return [0] * n
    if pattern == "last":
        return [5] * n            # 5 mod #candidates: the last or a late candidate
    if pattern == "rot":
        return [i % 3 for i in range(n)]
    r = random.Random(rseed)
    return [r.randint(0, 5) for _ in range(n)]


def ops_of(c, L):
    return [["fresh"]] + [["next"]] * c["k"] + [["state"], ["resume", 0]] + [["next"]] * (L + 1)


def run_impl(c):
    cfg = c["cfg"]
    ref = [b if isinstance(b, list) else [b] for b in si.batches_ref(cfg)]
    L = len(ref)
    ops = ops_of(c, L)
    fails, runs = [], []
    try:
        for pat in PATTERNS:
            obs, used, saved = si.run_history(cfg, ops, choices_for(pat, 10 * L + 60, c["rseed"]))
            outs = [o[0][1] if isinstance(o[0], list) else o[0] for o in obs if isinstance(o, list) and o[0] not in ("fresh", "state", "resume")]
            want = ref[:c["k"]] + ref[c["k"]:] + ["stop"] * (L + 1 - (L - c["k"]))
            if outs != want:
                fails.append(f"schedule '{pat}': stream {outs} != reference-with-resume-at-{c['k']} {want}")
            # the checkpoint reflects the items handed to the user, not the prefetched position (I = 1, stateful, non-rewinding datasets)
            if cfg["kind"] == "iter" and cfg.get("stateful") and not cfg.get("rewind") and cfg.get("I", 1) == 1 and cfg["bs"]:
                yielded = {w: 0 for w in range(cfg["W"])}
                for o in obs[1:1 + c["k"]]:
                    b = o[0][1]
                    yielded[b[0] // 100] += len(b)
                    for w in range(cfg["W"]):
                        pos = o[2][4][w][0]
                        if pos != yielded[w] and not (o[2][4][w][1] and pos >= yielded[w]):
                            fails.append(f"schedule '{pat}': after batch {b} the checkpoint puts worker {w} at {pos}, the user has received {yielded[w]} of its items")
            runs.append((pat, obs, used))
        nontriv = cfg["W"] >= 2 and 0 < c["k"] < L and len({tuple(u) for _, _, u in runs}) > 1
        # the model is replayed on the schedule realised by the last pattern and on the first one (two terms -> two obs entries)
        return dict(obs=[runs[0][1], runs[-1][1]], used=[runs[0][2], runs[-1][2]], oracle="; ".join(fails[:2]) or None,
                    nontrivial=nontriv, key=[cfg, c["k"], c["rseed"]])
    finally:
        si.kill_children()


def model_term(c, r):
    cfg = c["cfg"]
    L = len(si.batches_ref(cfg))
    ops = si.coq_sops(ops_of(c, L))
    t = [f"sdl_obs {si.coq_cfg(cfg)} {ops} {si.clist([str(x) for x in u])}" for u in r["used"]]
    return f"OL [{t[0]}; {t[1]}]"


def widen(c, rng):
    L = len(si.batches_ref(c["cfg"]))
    return [dict(c, k=k) for k in range(L + 1)][:10]
