"""C09 — a dying DataLoader worker is reported promptly, never hung on or papered over."""
import gc
import multiprocessing
import os
import pickle
import signal
import threading
import time

import lib
import sdl_impl as si

PID = "C09"
IMPORTS = "SdlModel SdlObs SdlFault"
FUNCS = ["torchdata/stateful_dataloader/stateful_dataloader.py:_StatefulMultiProcessingDataLoaderIter._try_get_data",
         "torchdata/stateful_dataloader/stateful_dataloader.py:_StatefulMultiProcessingDataLoaderIter._get_data",
         "torchdata/stateful_dataloader/stateful_dataloader.py:_StatefulMultiProcessingDataLoaderIter._next_data",
         "torchdata/stateful_dataloader/stateful_dataloader.py:_StatefulMultiProcessingDataLoaderIter._reset",
         "torchdata/stateful_dataloader/stateful_dataloader.py:_StatefulMultiProcessingDataLoaderIter._mark_worker_as_unavailable",
         "torchdata/stateful_dataloader/stateful_dataloader.py:_StatefulMultiProcessingDataLoaderIter._shutdown_workers",
         "torchdata/stateful_dataloader/worker.py:_worker_loop"]
RULE = ("(sched) real worker processes under a scheduled arrival order, torch's SIGCHLD handler switched off so that death is detected by the poll of the result queue "
        "(_try_get_data): one worker is SIGKILLed at an enumerated crash point - idle after k batches, inside __getitem__/__next__ of a chosen item, inside collate_fn, "
        "while its result is being pickled for the queue; the death is a SIGKILL or a plain exit with status 0 or 3; a second worker may die too; map-style and iterable datasets, W 1-3, batch sizes, prefetch 1-3; the realised "
        "trace (arrivals, the poll that found the dead worker) is replayed on SdlFault.v and the outcome sequences compared; a state_dict taken before the death is "
        "pickled, loaded into a fresh loader and must yield the uninterrupted remainder; (free) default multiprocessing context and SIGCHLD handler: the same crash "
        "points plus death inside worker_init_fn (start-up handshake) and inside iter(dataset) of a persistent worker at the start of the second epoch (resume "
        "handshake) and death half-way through WRITING a 2 MB result into the result pipe (fresh workers, and persistent workers in their second epoch); per-call deadline 40 s; oracle: every batch before the error is the next reference batch, a RuntimeError is raised (never a hang, never "
        "StopIteration before the epoch is complete); non-trivial = the dead worker still had undelivered batches; distinct = distinct (config, crash point, schedule)")
TRUSTED = ["real SIGKILL; multiprocessing is_alive(); the arrival-scheduling context sdl_impl.ArrivalCtx (a dead worker's already queued results still arrive, then the poll "
           "finds it dead); wall-clock deadline 40 s per next() (MP_STATUS_CHECK_INTERVAL = 5 s)"]
ASSUMPTIONS = ["wall-clock bounds, SIGCHLD delivery and pipe state after SIGKILL are runtime behaviour outside the model (partial)"]
NPROC = 10
CASE_TIMEOUT = 300
SHARD = 100


# ------------------------------------------------------------------------------------------------- datasets with kill switches
DIE_HOW = ["kill"]          # how a worker dies in this case: SIGKILL, or a plain exit with status 0 / 3 (set per case; inherited by fork)


def _die():
    how = DIE_HOW[0]
    if how == "exit0":
        os._exit(0)
    if how == "exit3":
        os._exit(3)
    os.kill(os.getpid(), signal.SIGKILL)


class Bomb:
    """a batch whose pickling (in the worker's queue feeder thread) kills the worker"""

    def __init__(self, payload):
        self.payload = payload

    def __reduce__(self):
        _die()
        return (list, (self.payload,))


class KillCollate:
    def __init__(self, at, how):
        self.at, self.how = at, how

    def __call__(self, batch):
        items = batch if isinstance(batch, list) else [batch]
        if self.at in items:
            if self.how == "collate":
                _die()
            return Bomb(items)
        return batch


def make_kill_dataset(cfg, kill):
    import torch.utils.data as tud
    at = kill.get("item") if kill["mode"] == "fetch" else None
    if cfg["kind"] == "map":
        class DS(tud.Dataset):
            def __len__(self):
                return cfg["n"]

            def __getitem__(self, i):
                if i == at:
                    _die()
                return i
        return DS()

    class IDS(tud.IterableDataset):
        """sharded, stateful (position), rewinding nothing; second-epoch kill for persistent workers"""

        def __init__(self):
            self.pos, self.created = 0, 0

        def __iter__(self):
            # NOT a generator function: the kill switch must fire inside iter(dataset) itself, i.e. while the worker
            # re-creates its fetcher during the _ResumeIteration handshake of a persistent worker
            info = tud.get_worker_info()
            w = info.id if info else 0
            self.created += 1
            if kill["mode"] == "resume" and self.created == 2 and w == kill["worker"]:
                _die()
            return self._gen(w)

        def _gen(self, w):
            items = si.shard_items(w, cfg["sizes"][w])
            while self.pos < len(items):
                x = items[self.pos]
                if x == at:
                    _die()
                self.pos += 1
                yield x
            self.pos = 0

        def state_dict(self):
            return {"pos": self.pos}

        def load_state_dict(self, sd):
            self.pos = sd["pos"]
    return IDS()


class InitKill:
    def __init__(self, w):
        self.w = w

    def __call__(self, worker_id):
        if worker_id == self.w:
            _die()


def make_kill_loader(cfg, kill, sched=None):
    from torchdata.stateful_dataloader import StatefulDataLoader
    W = cfg["W"]
    kw = dict(batch_size=cfg["bs"], num_workers=W, prefetch_factor=cfg.get("P", 2), persistent_workers=cfg.get("persistent", False),
              snapshot_every_n_steps=cfg.get("I", 1))
    kw["collate_fn"] = KillCollate(kill["item"], kill["mode"]) if kill["mode"] in ("collate", "serialise") else si.identity
    if cfg["bs"] is not None:
        kw["drop_last"] = cfg.get("drop", False)
    if kill["mode"] == "init":
        kw["worker_init_fn"] = InitKill(kill["worker"])
    if sched is not None:
        kw["multiprocessing_context"] = si.ArrivalCtx(W, sched)
    return StatefulDataLoader(make_kill_dataset(cfg, kill), **kw)


def owner_and_pos(cfg, item):
    """(worker that produces the batch containing `item`, index of that batch in the reference stream)"""
    ref = [b if isinstance(b, list) else [b] for b in si.batches_ref(cfg)]
    for k, b in enumerate(ref):
        if item in b:
            if cfg["kind"] == "map":
                return k % cfg["W"], k
            return item // 100, k
    return None, None


# ------------------------------------------------------------------------------------------------- case generation
def gen_cases(rng, tier, drift):
    n_s, n_f = (70, 26) if tier == "quick" and not drift else (1200, 300)
    cases = []
    for i in range(n_s + n_f):
        sched = i < n_s
        kind = rng.choice(["map", "map", "iter"])
        W = rng.choice([1, 2, 2, 3])
        cfg = dict(kind=kind, W=W, P=rng.choice([1, 2, 3]), I=rng.choice([1, 1, 2, 3]), bs=rng.choice([1, 2, 2, 3] if kind == "map" else [None, 1, 2]),
                   drop=False, persistent=False, stateful=True)
        if kind == "map":
            cfg["n"] = rng.randint(4, 12)
        else:
            cfg["sizes"] = [rng.randint(2, 6) for _ in range(W)]
        ref = [b if isinstance(b, list) else [b] for b in si.batches_ref(cfg)]
        items = [x for b in ref for x in b]
        modes = ["idle", "fetch", "fetch", "collate", "serialise"] if sched else ["resume", "init", "idle", "fetch", "resume", "collate", "serialise", "idle2"]
        mode = rng.choice(modes) if sched else modes[(i - n_s) % len(modes)]
        if cfg["bs"] is None and mode in ("collate", "serialise"):
            mode = "fetch"
        kill = dict(mode=mode, worker=rng.randrange(W), item=rng.choice(items), after=rng.randint(0, max(0, len(ref) - 1)),
                    how=rng.choice(["kill", "kill", "exit0", "exit3"]) if sched or mode not in ("resume", "init") else ["exit0", "kill", "exit3"][(i - n_s) // len(modes) % 3])
        if mode == "resume":
            cfg.update(kind="iter", persistent=True, bs=rng.choice([1, 2]))
            cfg["sizes"] = [rng.randint(2, 5) for _ in range(W)]
        if mode == "idle2" and W >= 2:
            kill["worker2"] = (kill["worker"] + 1) % W
        k_state = rng.randint(0, max(0, min(kill["after"], len(ref) - 1)))
        cases.append(dict(kind="sched" if sched else "free", cfg=cfg, kill=kill, k_state=k_state,
                          choices=[rng.randint(0, 5) for _ in range(3 * len(ref) + 12)]))
    for i in range(2 if tier == "quick" and not drift else 6):
        # death HALF-WAY THROUGH WRITING a result into the result pipe (a 2 MB batch, the consumer busy for 3 s): the main process then
        # blocks inside a truncated message, the 5 s poll never runs, only the SIGCHLD notification can report the death;
        # first epoch of fresh workers / second epoch of persistent workers (which retired cleanly at the end of the first)
        cases.append(dict(kind="free", cfg=dict(kind="iter", W=2, P=2, I=1, bs=None, persistent=(i % 2 == 0), sizes=[5, 5]),
                          kill=dict(mode="midwrite", worker=0, how="kill", item=None, after=0), k_state=0, choices=[i]))
    return cases


def distribution(cases):
    d = {}
    for c in cases:
        k = f"{c['kind']}/{c['kill']['mode']}/{c['cfg']['kind']}/W{c['cfg']['W']}"
        d[k] = d.get(k, 0) + 1
    return d


# ------------------------------------------------------------------------------------------------- running
def timed(fn, deadline):
    box = {}

    def body():
        try:
            box["r"] = ("ok", fn())
        except StopIteration:
            box["r"] = ("stop", None)
        except BaseException as e:  # noqa
            box["r"] = ("err", type(e).__name__ + ": " + str(e)[:120])
    t = threading.Thread(target=body, daemon=True)
    t.start()
    try:
        t.join(deadline)
    except RuntimeError as ex:
        # torch's SIGCHLD handler reports a dead worker by raising in the MAIN thread, i.e. here, while the call itself
        # runs in the helper thread: that is the error being surfaced
        return ("err", "RuntimeError: " + str(ex)[:80])
    return box.get("r", ("HANG", None))


def resume_oracle(cfg, kill, sd, k, ref, fails):
    """a checkpoint taken before the death resumes correctly in a fresh loader (no kill switch armed)"""
    try:
        blob = pickle.dumps(sd)
        dl2 = make_kill_loader(cfg, dict(kill, mode="none", item=None))
        dl2.load_state_dict(pickle.loads(blob))
        rest = [si.norm_batch(b) for b in dl2]
        del dl2
        if rest != ref[k:]:
            fails.append(f"checkpoint taken after {k} batches (before the death) resumed to {rest}, expected {ref[k:]}")
    except BaseException as e:  # noqa
        fails.append(f"resuming the checkpoint taken before the death raised {type(e).__name__}: {e}")


def run_impl(c):
    """a hang is only reported when it reproduces: the case is run a second time (the machine may be heavily loaded)"""
    r = run_once(c)
    if r.get("oracle") and "still blocked" in r["oracle"] and not c.get("_second"):
        r2 = run_once(dict(c, _second=True))
        if not (r2.get("oracle") and "still blocked" in r2["oracle"]):
            r2["first_attempt_hung"] = r["oracle"]
            return r2
    return r


def _midwrite_dataset(victim, kill_epoch, per):
    import torch.utils.data as tud

    class DS(tud.IterableDataset):
        def __init__(self):
            self.epoch = 0

        def __iter__(self):
            w = tud.get_worker_info().id
            self.epoch += 1            # a persistent worker's copy counts the epochs it served; a fresh worker's copy always says 1
            big = w == victim and self.epoch == kill_epoch
            for j in range(per):
                if big and j == 2:     # die one second from now, while the previous 2 MB result is stuck half-written
                    threading.Timer(1.0, lambda: os.kill(os.getpid(), signal.SIGKILL)).start()
                yield (w, j, (bytes([65 + j]) * (2 << 20)) if big else b"")
    return DS()


class _Blocked(BaseException):
    pass


def _midwrite_child(c, conn):
    """runs in a process of its own (it ends with os._exit: a loader whose result pipe holds a truncated message cannot be shut down cleanly)"""
    from torchdata.stateful_dataloader import StatefulDataLoader
    cfg, per = c["cfg"], 5
    kill_epoch = 2 if cfg["persistent"] else 1
    res = dict(got=[], outcome=None, first_ok=True)
    try:
        dl = StatefulDataLoader(_midwrite_dataset(c["kill"]["worker"], kill_epoch, per), batch_size=None, num_workers=2,
                                persistent_workers=cfg["persistent"], prefetch_factor=2)
        if kill_epoch == 2:
            first = [(b[0], b[1]) for b in dl]
            res["first_ok"] = first == [(w, j) for j in range(per) for w in range(2)]

        def on_alarm(signum, frame):
            raise _Blocked()
        signal.signal(signal.SIGALRM, on_alarm)
        signal.alarm(40)
        try:
            for i, b in enumerate(dl):
                res["got"].append((b[0], b[1]))
                if i == 1:
                    time.sleep(3.0)
            res["outcome"] = "stop"
        except _Blocked:
            res["outcome"] = "blocked"
        except BaseException as e:  # noqa
            res["outcome"] = "err:" + type(e).__name__
        signal.alarm(0)
    except BaseException as e:  # noqa
        res["outcome"] = "harness:" + type(e).__name__ + ": " + str(e)[:100]
    try:
        signal.signal(signal.SIGCHLD, signal.SIG_DFL)
        conn.send(res)
        for p in multiprocessing.active_children():
            p.kill()
    finally:
        os._exit(0)


def run_midwrite(c):
    ctx = multiprocessing.get_context("fork")
    parent, child = ctx.Pipe()
    p = ctx.Process(target=_midwrite_child, args=(c, child))
    p.start()
    child.close()
    try:
        res = parent.recv() if parent.poll(120) else dict(got=[], outcome="blocked", first_ok=True)
    except (EOFError, OSError):
        res = dict(got=[], outcome="harness: child died", first_ok=True)
    p.kill()
    p.join(5)
    fails = []
    exp = [(w, j) for j in range(5) for w in range(2)]
    got = [tuple(x) for x in res["got"]]
    if not res["first_ok"]:
        fails.append("the first (undisturbed) epoch of the persistent workers was not the reference")
    if got != exp[:len(got)]:
        fails.append(f"batches delivered {got} are not a prefix of the reference {exp}")
    if res["outcome"] == "blocked":
        fails.append(f"next() still blocked 40 s after worker {c['kill']['worker']} was SIGKILLed half-way through writing a result "
                     f"(persistent_workers={c['cfg']['persistent']}, {len(got)} batches delivered, no error)")
    elif res["outcome"] == "stop":
        fails.append(f"StopIteration after {len(got)} of {len(exp)} batches: the epoch ended early as if complete (worker killed while writing a result)")
    elif res["outcome"].startswith("harness"):
        return dict(harness_error=res["outcome"])
    elif res["outcome"] != "err:RuntimeError":
        fails.append(f"worker death surfaced as {res['outcome']}, expected RuntimeError")
    return dict(oracle="; ".join(fails[:2]) or None, nontrivial=True, key=[c["cfg"], c["kill"], c["choices"]], summary=dict(outs=res["outcome"], got=len(got)))


def run_once(c):
    cfg, kill = c["cfg"], c["kill"]
    if kill["mode"] == "midwrite":
        return run_midwrite(c)
    DIE_HOW[0] = kill.get("how", "kill")
    ref = [b if isinstance(b, list) else [b] for b in si.batches_ref(cfg)]
    fails, outs = [], []
    sched = si.Schedule(c["choices"]) if c["kind"] == "sched" else None
    import torch.utils.data._utils.signal_handling as sh
    saved_handler = sh._set_SIGCHLD_handler
    if sched is not None:
        # death must be detected by the poll of the result queue only: no SIGCHLD handler in this case
        sh._set_SIGCHLD_handler = lambda: None
        signal.signal(signal.SIGCHLD, signal.SIG_DFL)
        sh._SIGCHLD_handler_set = False
    sd = None
    killed_at, dead_workers = None, []
    try:
        dl = make_kill_loader(cfg, kill, sched)
        epochs = 2 if kill["mode"] == "resume" else 1
        it = None
        for e in range(epochs):
            r = timed(lambda: iter(dl), 40.0)
            if r[0] == "HANG":
                outs.append("HANG")
                fails.append(f"iter(dl) of epoch {e} still blocked after 40 s ({kill})")
                break
            if r[0] == "err":
                outs.append(["err", r[1].split(":")[0]])
                break
            it = r[1]
            rq = dl.multiprocessing_context.all_rq[-1] if sched is not None else None
            if rq is not None:
                rq.is_dead = lambda w, it=it: not it._workers[w].is_alive()
            stop = False
            for k in range(len(ref) + 2):
                if e == 0 and k == c["k_state"] and sd is None:
                    sd = dl.state_dict()
                if kill["mode"] in ("idle", "idle2") and k == kill["after"] and killed_at is None:
                    ws = [kill["worker"]] + ([kill["worker2"]] if "worker2" in kill else [])
                    try:
                        for w in ws:
                            try:
                                os.kill(it._workers[w].pid, signal.SIGKILL)
                            except ProcessLookupError:
                                pass
                        for w in ws:
                            it._workers[w].join(5)
                    except RuntimeError:         # SIGCHLD handler fired in this thread
                        pass
                    killed_at, dead_workers = k, ws
                try:
                    r = timed(lambda: next(it), 40.0)
                except RuntimeError as ex:       # SIGCHLD handler fired in this thread while waiting
                    r = ("err", "RuntimeError: " + str(ex)[:80])
                if r[0] == "ok":
                    outs.append(["batch", si.norm_batch(r[1])])
                elif r[0] == "stop":
                    outs.append("stop")
                    stop = True
                    break
                elif r[0] == "err":
                    outs.append(["err", r[1].split(":")[0]])
                    break
                else:
                    outs.append("HANG")
                    fails.append(f"next() call {k} of epoch {e} still blocked after 40 s; outcomes so far {outs}")
                    break
            if not stop:
                break
        # ---- oracle
        first = []
        for o in outs:
            if isinstance(o, list) and o[0] == "batch":
                first.append(o[1])
            else:
                break
        got = first
        if got != ref[:len(got)]:
            fails.append(f"batches delivered {got} are not a prefix of the reference {ref}")
        nb = len(got)
        if len(outs) > nb and outs[nb] == "stop" and nb < len(ref):
            fails.append(f"StopIteration after {nb} of {len(ref)} batches: the epoch ended early as if complete ({kill})")
        errs = [o for o in outs if isinstance(o, list) and o[0] == "err"]
        if errs and errs[0][1] != "RuntimeError":
            fails.append(f"worker death surfaced as {errs[0][1]}, expected RuntimeError")
        if kill["mode"] in ("init", "resume") and not errs and "HANG" not in outs:
            fails.append(f"a worker died in the {'start-up' if kill['mode'] == 'init' else 'resume'} handshake but no error was raised: {outs}")
        if sd is not None and kill["mode"] not in ("init",):
            resume_oracle(cfg, kill, sd, c["k_state"], ref, fails)
        out = dict(oracle="; ".join(f for f in fails[:2] if f) or None, nontrivial=bool(errs), key=[cfg, kill, c["choices"][:8]],
                   summary=dict(outs=outs, killed_at=killed_at))
        if sched is not None and "HANG" not in outs and epochs == 1:
            out["obs"] = _model_view(outs)
            out["events"] = [list(e) for e in dl.multiprocessing_context.all_rq[-1].events]
        return out
    finally:
        sh._set_SIGCHLD_handler = saved_handler
        si.kill_children()


def _model_view(outs):
    res = []
    for o in outs:
        if isinstance(o, list) and o[0] == "err":
            res.append(["worker_died"])
        else:
            res.append(o)
    return res


def model_term(c, r):
    """the realised trace as a fault schedule: arrivals as they happened; the poll that found worker w dead = FDie w; FTimeout"""
    evs = []
    for e in r["events"]:
        if e[0] == "arrive":
            evs.append(f"FArrive {e[1]}")
        elif e[0] == "dead":
            evs.append(f"FDie {e[1]}")
            evs.append("FTimeout")
        else:
            evs.append("FTimeout")
    n = len(r["obs"])
    return f"fault_obs_short {si.coq_cfg(c['cfg'])} {n} {lib.clist(evs)}"


def widen(c, rng):
    return []
