"""C07 — worker dataset state in a checkpoint is exactly what the worker reported."""
import copy

from lib import cbool, clist

PID = "C07"
IMPORTS = "IncrModel IncrObs"
FUNCS = [
    "torchdata/stateful_dataloader/incremental_state.py:_flatten",
    "torchdata/stateful_dataloader/incremental_state.py:_unflatten",
    "torchdata/stateful_dataloader/incremental_state.py:_IncrementalState",
    "torchdata/stateful_dataloader/incremental_state.py:_IncrementalWorkerState",
    "torchdata/stateful_dataloader/worker.py:_make_state_dict",
]
RULE = ("histories of nested worker states from a grammar (leaves: None, int, str, list, tensor, {}; ops: set/replace leaf, delete key, "
        "leaf<->dict, in-place mutation of a reported list/tensor/dict, whole state None), reported either as the live aliased object or as a copy; "
        "run (a) through a worker-side/main-side _IncrementalWorkerState pair with pickling in between and (b) end-to-end through a real "
        "1-2 worker StatefulDataLoader whose dataset replays a scripted state history; non-trivial = at least 2 reported states that differ and "
        "at least one delete/retype/in-place op; distinct = distinct (initial state, op list)")
TRUSTED = ["leaf values are abstracted to tokens compared by value (Python == / torch.equal on the harness's own leaf values)",
           "pickle round-trip models the worker->main queue"]
ASSUMPTIONS = ["worker state_dict() values are picklable and deep-copyable"]
NPROC = 12
CASE_TIMEOUT = 120


BIG = 3 * 10**7


# ---------------- token-level realisation of leaves and keys
def realize(t):
    import torch
    if t == 0:
        return None
    k = t % 4
    if k == 1:
        return t
    if k == 2:
        return f"s{t}"
    if k == 3:
        return [t, "x"]
    # tensor leaves are large-magnitude counters (a step count / byte offset kept as a tensor): successive values differ by far
    # less than any relative tolerance, so only an EXACT comparison of leaves tells them apart; two shapes / dtypes
    if (t // 4) % 2 == 0:
        return torch.tensor([BIG + t, BIG + t + 1])
    return torch.tensor([float(BIG + t)], dtype=torch.float64)


def token(x):
    import torch
    if x is None:
        return 0
    if isinstance(x, bool):
        raise TypeError(x)
    if isinstance(x, int):
        return x
    if isinstance(x, str):
        return int(x[1:])
    if isinstance(x, list):
        return x[0]
    if isinstance(x, torch.Tensor):
        return int(x[0]) - BIG
    raise TypeError(type(x))


def pykey(k):
    return f"k{k}" if k < 6 else k


def natkey(k):
    return int(k[1:]) if isinstance(k, str) else k


def enc(x):
    """Python state -> canonical token tree (JSON-able), dict entries sorted by model key."""
    if isinstance(x, dict):
        return ["D", sorted([[natkey(k), enc(v)] for k, v in x.items()])]
    return ["L", token(x)]


def coq_value(e):
    if e[0] == "L":
        return f"(VLeaf {e[1]})"
    return "(VDict " + clist([f"({k}, {coq_value(v)})" for k, v in e[1]]) + ")"


def coq_order_value(x):
    """Coq tree of a Python state IN ITS INSERTION ORDER (the model keeps dict order)."""
    if isinstance(x, dict):
        return "(VDict " + clist([f"({natkey(k)}, {coq_order_value(v)})" for k, v in x.items()]) + ")"
    return f"(VLeaf {token(x)})"


# ---------------- generators (token level, deterministic from rng)
def gen_tree(rng, depth, fresh):
    r = rng.random()
    if depth == 0 or r < 0.35:
        return ["L", 0 if rng.random() < 0.1 else fresh()]
    if r < 0.42:
        return ["D", []]
    keys = rng.sample(range(0, 9), rng.randint(1, 3))
    return ["D", [[k, gen_tree(rng, depth - 1, fresh)] for k in keys]]


def build(e):
    if e[0] == "L":
        return realize(e[1])
    return {pykey(k): build(v) for k, v in e[1]}


def gen_ops(rng, n, fresh):
    ops = []
    for _ in range(n):
        ops.append(dict(op=rng.choice(["set", "set", "del", "todict", "toleaf", "inplace", "inplace", "empty", "add", "add"]),
                        path=[rng.randint(0, 8) for _ in range(rng.randint(1, 3))], tok=fresh(), sub=gen_tree(rng, 1, fresh),
                        pick=rng.random()))
    return ops


def paths_of(x, pre=()):
    out = [pre]
    if isinstance(x, dict):
        for k, v in x.items():
            out += paths_of(v, pre + (k,))
    return out


def apply_op(root, o):
    """Mutates the live Python object `root` (a dict) in place; returns the (possibly new) root."""
    ps = [p for p in paths_of(root) if p]
    if not ps or o["op"] == "add":
        # add a key somewhere
        dicts = [p for p in paths_of(root) if isinstance(_get(root, p), dict)]
        if not dicts:
            return root
        d = _get(root, dicts[int(o["pick"] * len(dicts))])
        d[pykey(o["path"][0])] = build(o["sub"])
        return root
    p = ps[int(o["pick"] * len(ps))]
    parent, k = _get(root, p[:-1]), p[-1]
    cur = parent[k]
    op = o["op"]
    if op == "set":
        parent[k] = realize(o["tok"])
    elif op == "del":
        del parent[k]
    elif op == "todict":
        parent[k] = build(["D", [[o["path"][0], ["L", o["tok"]]]]])
    elif op == "toleaf":
        parent[k] = realize(o["tok"])
    elif op == "empty":
        parent[k] = {}
    elif op == "inplace":
        import torch
        if isinstance(cur, list):
            cur[0] = o["tok"] - o["tok"] % 4 + 3          # same object, new content (stays a list token)
        elif isinstance(cur, torch.Tensor):
            t = o["tok"] - o["tok"] % 4 + 4
            if realize(t).shape != cur.shape:
                t += 4
            cur.copy_(realize(t))
        elif isinstance(cur, dict):
            cur[pykey(o["path"][-1])] = realize(o["tok"])    # the reported dict itself grows in place
        else:
            parent[k] = realize(o["tok"])
    return root


def _get(root, p):
    x = root
    for k in p:
        x = x[k]
    return x


def gen_cases(rng, tier, drift):
    n_direct, n_e2e = (700, 24) if tier == "quick" and not drift else (8000, 200)
    cases = []
    for _ in range(n_direct):
        cases.append(dict(kind="direct", seed=rng.randint(0, 10**9), steps=rng.randint(1, 6), alias=rng.random() < 0.6,
                          mode=rng.choice(["map", "iter_ds", "iter_it", "iter_both"]), none_at=rng.choice([None, None, None, rng.randint(0, 5)]),
                          root_leaf=rng.random() < 0.06))
    for _ in range(n_e2e):
        cases.append(dict(kind="e2e", seed=rng.randint(0, 10**9), W=rng.choice([1, 2]), n=rng.randint(2, 6), alias=rng.random() < 0.7,
                          P=rng.choice([1, 2, 3])))
    for _ in range(n_e2e // 2):
        # persistent workers whose dataset state lives on in the worker; epochs abandoned while prefetched batches are in flight
        cases.append(dict(kind="e2e_p", seed=rng.randint(0, 10**9), W=rng.choice([1, 2, 2]), alias=rng.random() < 0.5, P=rng.choice([1, 2, 3]),
                          takes=[rng.randint(0, 3), rng.randint(1, 4), None], n=rng.randint(6, 9),
                          bad=sorted(rng.sample(range(1, 16), rng.choice([0, 0, 1, 2, 3])))))     # fetch counts (per replica) that fail after mutating the state
    for _ in range(n_e2e // 2):
        # persistent workers over an IterableDataset whose (iterator or dataset) state starts afresh every epoch: few items per
        # worker, so that a leaf returns, early in a new epoch, to the value it had when the previous (full or abandoned) epoch ended
        cases.append(dict(kind="e2e_pi", W=rng.choice([1, 2, 2]), sizes=[rng.randint(1, 3) for _ in range(2)], P=rng.choice([1, 2]),
                          takes=[rng.choice([None, None, 1, 2]), rng.choice([None, 1, 2]), None], where=rng.choice(["iter", "dataset", "both"]),
                          bs=rng.choice([None, 1])))
    return cases


def distribution(cases):
    d = {}
    for c in cases:
        k = c["kind"] + ("/alias" if c.get("alias") else "/copy")
        d[k] = d.get(k, 0) + 1
    return d


def history(c):
    """Returns (initial live object, [op lists]) deterministically from the case seed."""
    import random
    rng = random.Random(c["seed"])
    cnt = [4]

    def fresh():
        cnt[0] += 1
        return cnt[0]
    init = gen_tree(rng, 3, fresh)
    if init[0] == "L" and not c.get("root_leaf"):
        init = ["D", [[1, init]]]
    steps = [gen_ops(rng, rng.randint(1, 3), fresh) for _ in range(c.get("steps", 4))]
    return init, steps


# ---------------- implementation side
def run_impl(c):
    import pickle
    from torchdata.stateful_dataloader.incremental_state import _IncrementalWorkerState
    if c["kind"] == "e2e":
        return run_e2e(c)
    if c["kind"] == "e2e_p":
        return run_e2e_persistent(c)
    if c["kind"] == "e2e_pi":
        return run_e2e_persistent_iter(c)
    init, steps = history(c)
    live = build(init)
    mode = c["mode"]
    ended = [False]

    def report():
        st = live if c["alias"] else copy.deepcopy(live)
        ds = st if mode in ("map", "iter_ds", "iter_both") else None
        if mode == "map":
            fs = None
        else:
            fs = {"dataset_iter_state": (st if mode == "iter_it" else ({"k1": st} if mode == "iter_both" else None)),
                  "fetcher_ended": ended[0]}
        return {"worker_id": 0, "dataset_state": ds, "fetcher_state": fs}

    def snap(sd):       # what was reported, frozen at report time, in model terms
        ds = None if sd["dataset_state"] is None else enc(sd["dataset_state"])
        fs = None if sd["fetcher_state"] is None else [sd["fetcher_state"]["fetcher_ended"],
                                                       None if sd["fetcher_state"]["dataset_iter_state"] is None else enc(sd["fetcher_state"]["dataset_iter_state"])]
        order = [None if sd["dataset_state"] is None else coq_order_value(sd["dataset_state"]),
                 None if sd["fetcher_state"] is None or sd["fetcher_state"]["dataset_iter_state"] is None else coq_order_value(sd["fetcher_state"]["dataset_iter_state"])]
        return [ds, fs], order

    def observed(gs):   # main side get_state() in the same terms
        ds = enc(gs["dataset_state"])
        fs = None if gs["fetcher_state"] is None else [gs["fetcher_state"]["fetcher_ended"], enc(gs["fetcher_state"]["dataset_iter_state"])]
        return [ds, fs]

    def expect(rep):    # reported -> what get_state must return (None states read back as leaf None)
        ds, fs = rep
        return [ds if ds is not None else ["L", 0], None if fs is None else [fs[0], fs[1] if fs[1] is not None else ["L", 0]]]

    sd0 = report()
    rep0, ord0 = snap(sd0)
    worker = _IncrementalWorkerState(sd0)
    main = _IncrementalWorkerState(pickle.loads(pickle.dumps(sd0)))
    obs = [observed(main.get_state())]
    reported = [(rep0, ord0)]
    fails = []
    if obs[0] != expect(rep0):
        fails.append(f"initial state: main has {obs[0]}, worker reported {rep0}")
    for i, ops in enumerate(steps):
        for o in ops:
            live = apply_op(live, o) if isinstance(live, dict) else live
        if i == len(steps) - 1:
            ended[0] = True
        sd = report()
        if c.get("none_at") == i and mode != "iter_it":
            sd["dataset_state"] = None
        rep, order = snap(sd)
        delta = worker.generate_delta(sd)
        main.apply_delta(pickle.loads(pickle.dumps(delta)))
        got = observed(main.get_state())
        obs.append(got)
        reported.append((rep, order))
        want = expect(rep)
        if rep[0] is None:          # dataset_state None is "nothing to report": main keeps the last one (code's documented protocol)
            want[0] = got[0]
        if got != want:
            fails.append(f"step {i}: checkpoint has {got}, worker reported {rep}")
    nontriv = len({str(r) for r, _ in reported}) >= 2 and any(o["op"] in ("del", "todict", "toleaf", "inplace", "empty") for ops in steps for o in ops)
    return dict(obs=obs, reported=[o for _, o in reported], reps=[r for r, _ in reported], oracle="; ".join(fails[:3]) or None,
                nontrivial=nontriv, key=[c["seed"], c["mode"], c["alias"]])


def run_e2e(c):
    """A real loader: the IterableDataset's state_dict() replays a scripted history (one state per yielded item)."""
    import torch
    import torch.utils.data as tud
    from torchdata.stateful_dataloader import StatefulDataLoader
    W, n, alias = c["W"], c["n"], c["alias"]
    hist = {}
    for w in range(W):
        init, steps = history(dict(c, seed=c["seed"] + w, steps=n))
        hist[w] = (init, steps)

    class DS(tud.IterableDataset):
        def __init__(self):
            self.live = None
            self.i = 0

        def __iter__(self):
            wi = tud.get_worker_info()
            w = wi.id
            init, steps = hist[w]
            if self.live is None:
                self.live = build(init)
            while self.i < n:
                for o in steps[self.i]:
                    self.live = apply_op(self.live, o)
                self.i += 1
                yield w * 100 + self.i

        def state_dict(self):
            return {"k0": self.live if alias else copy.deepcopy(self.live), "k7": self.i}

        def load_state_dict(self, sd):
            self.live, self.i = copy.deepcopy(sd["k0"]), sd["k7"]

    # expected per-worker states after its j-th item
    exp = {}
    for w in range(W):
        init, steps = hist[w]
        live = build(init)
        exp[(w, 0)] = enc({"k0": None, "k7": 0})
        for j in range(n):
            for o in steps[j]:
                live = apply_op(live, o)
            exp[(w, j + 1)] = enc({"k0": copy.deepcopy(live), "k7": j + 1})
    dl = StatefulDataLoader(DS(), batch_size=1, num_workers=W, prefetch_factor=c["P"], snapshot_every_n_steps=1)
    it = iter(dl)
    seen = {w: 0 for w in range(W)}
    fails = []
    k = 0
    for b in it:
        k += 1
        v = int(b[0])
        seen[v // 100] = v % 100
        sd = dl.state_dict()
        for w in range(W):
            got = enc(sd["_snapshot"]["_worker_snapshots"][f"worker_{w}"]["dataset_state"])
            if got != exp[(w, seen[w])]:
                fails.append(f"after batch {k}: checkpoint of worker {w} is {got}, it reported {exp[(w, seen[w])]} after its last yielded item ({seen[w]})")
    del it
    return dict(oracle="; ".join(fails[:2]) or None, nontrivial=True, key=["e2e", c["seed"], W, n, alias, c["P"]])


# ---------------- model side
def run_e2e_persistent(c):
    """persistent workers + a map-style dataset whose per-replica state follows a scripted history (one step per fetch, so it
    keeps advancing across epochs, prefetched-and-discarded batches included). After every yielded batch (which names its worker
    and that replica's fetch count) the checkpoint entry of that worker must be the state the worker reported with that batch."""
    import torch.utils.data as tud
    from torchdata.stateful_dataloader import StatefulDataLoader
    W, alias, n = c["W"], c["alias"], c["n"]
    NST = 40
    bad = set(c.get("bad", []))
    hist = {w: history(dict(c, seed=c["seed"] + w, steps=NST)) for w in range(W)}

    class PDS(tud.Dataset):
        def __init__(self):
            self.live, self.count = None, 0

        def __len__(self):
            return n

        def __getitem__(self, idx):
            w = tud.get_worker_info().id
            init, steps = hist[w]
            if self.live is None:
                self.live = build(init)
            for o in steps[min(self.count, NST - 1)]:
                self.live = apply_op(self.live, o)
            self.count += 1
            if self.count in bad:
                # the fetch fails AFTER it changed the state: nothing is reported for it, the next report must still carry the change
                raise ValueError(f"fetch #{self.count} of worker {w} fails")
            return w * 1000 + self.count

        def state_dict(self):
            return {"k0": self.live if alias else copy.deepcopy(self.live), "k7": self.count}

        def load_state_dict(self, sd):
            self.live, self.count = copy.deepcopy(sd["k0"]), sd["k7"]

    exp = {}
    for w in range(W):
        init, steps = hist[w]
        live = build(init)
        for j in range(NST):
            for o in steps[j]:
                live = apply_op(live, o)
            exp[(w, j + 1)] = enc({"k0": copy.deepcopy(live), "k7": j + 1})
    dl = StatefulDataLoader(PDS(), batch_size=1, num_workers=W, prefetch_factor=c["P"], snapshot_every_n_steps=1, persistent_workers=True)
    fails = []
    for e, take in enumerate(c["takes"]):
        k = 0
        it = iter(dl)
        while True:
            try:
                b = next(it)
            except StopIteration:
                break
            except ValueError:
                continue            # a failing fetch: the consumer catches the error and carries on
            if take is not None and k >= take:
                break
            k += 1
            v = int(b[0])
            w, j = v // 1000, v % 1000
            sd = dl.state_dict()
            got = enc(sd["_snapshot"]["_worker_snapshots"][f"worker_{w}"]["dataset_state"])
            if j < NST and got != exp[(w, j)]:
                fails.append(f"epoch {e}, after batch {k} (worker {w}, its fetch #{j}): checkpoint holds {got}, the worker reported {exp[(w, j)]}")
    del dl
    return dict(oracle="; ".join(fails[:2]) or None, nontrivial=True, key=["e2e_p", c["seed"], W, alias, c["P"], c["takes"], sorted(bad)])


def run_e2e_persistent_iter(c):
    """persistent workers + an IterableDataset whose position lives in its iterator (and/or the dataset) and starts afresh at every
    epoch. Every item names its worker and the position reported right after producing it; after every yielded item, in every epoch,
    the checkpoint entry of that worker must be exactly that state; the checkpoint taken after the first item of every later epoch
    is resumed in a fresh loader and must continue with the rest of that epoch."""
    import torch.utils.data as tud
    from torchdata.stateful_dataloader import StatefulDataLoader
    W, sizes, where, bs = c["W"], c["sizes"], c["where"], c["bs"]

    class PlainIt:
        def __init__(self, ds, w):
            self.ds, self.w, self.pos, self.warm = ds, w, 0, False

        def __iter__(self):
            return self

        def __next__(self):
            if self.pos >= sizes[self.w]:
                raise StopIteration
            self.pos += 1
            self.warm = True
            self.ds.pos = self.pos
            return self.w * 1000 + self.pos

    class It(PlainIt):
        def state_dict(self):
            return {"k1": self.pos, "k2": self.w, "k3": {"k4": self.warm}}

        def load_state_dict(self, sd):
            self.pos, self.warm = sd["k1"], sd["k3"]["k4"]

    class DS(tud.IterableDataset):
        def __init__(self):
            self.pos = 0
            self.resume_pos = None

        def __iter__(self):
            w = tud.get_worker_info().id
            it = (It if where in ("iter", "both") else PlainIt)(self, w)
            self.pos = 0
            if self.resume_pos is not None:
                it.pos, self.pos, self.resume_pos = self.resume_pos, self.resume_pos, None
            return it

    if where in ("dataset", "both"):
        DS.state_dict = lambda self: {"k5": self.pos}
        DS.load_state_dict = lambda self, sd: setattr(self, "resume_pos", sd["k5"])

    def mk():
        return StatefulDataLoader(DS(), batch_size=bs, num_workers=W, prefetch_factor=c["P"], snapshot_every_n_steps=1, persistent_workers=True)

    def val(b):
        return int(b if bs is None else b[0])
    full = []
    ref = mk()
    for b in ref:
        full.append(val(b))
    del ref
    dl = mk()
    fails = []
    for e, take in enumerate(c["takes"]):
        k = 0
        for b in dl:
            if take is not None and k >= take:
                break
            k += 1
            v = val(b)
            w, pos = v // 1000, v % 1000
            sd = dl.state_dict()
            ent = sd["_snapshot"]["_worker_snapshots"][f"worker_{w}"]
            if where in ("iter", "both"):
                got = ent["fetcher_state"]["dataset_iter_state"]
                want = {"k1": pos, "k2": w, "k3": {"k4": True}}
                if got != want:
                    fails.append(f"epoch {e}, after item {k} (worker {w}): checkpoint holds iterator state {got}, the worker reported {want}")
            if where in ("dataset", "both"):
                got = ent["dataset_state"]
                if got != {"k5": pos}:
                    fails.append(f"epoch {e}, after item {k} (worker {w}): checkpoint holds dataset state {got}, the worker reported {{'k5': {pos}}}")
            if e >= 1 and k == 1 and where != "dataset":
                r = mk()
                r.load_state_dict(sd)
                rest = [val(x) for x in r]
                del r
                if rest != full[1:]:
                    fails.append(f"epoch {e}: resuming the checkpoint taken after its first item yields {rest}, the epoch continues {full[1:]}")
    del dl
    return dict(oracle="; ".join(fails[:2]) or None, nontrivial=True, key=["e2e_pi", W, sizes, c["P"], c["takes"], where, bs])


def model_term(c, r):
    def wstate(rep, order):
        ds, fs = rep
        dsv = "None" if ds is None else f"(Some {order[0]})"
        if fs is None:
            f = "None"
        else:
            it = "None" if fs[1] is None else f"(Some {order[1]})"
            f = f"(Some ({cbool(fs[0])}, {it}))"
        return f"{{| ws_dataset := {dsv}; ws_fetcher := {f} |}}"
    ws = [wstate(rep, order) for rep, order in zip(r["reps"], r["reported"])]
    return f"c07_obs (Some {ws[0]}) {clist(ws[1:])}"


def widen(c, rng):
    if c["kind"] == "direct":
        return [dict(c, seed=c["seed"] + i, alias=True) for i in range(1, 60)]
    if c["kind"] == "e2e_pi":
        return [dict(c, sizes=[a, b], takes=t) for a in (1, 2) for b in (1, 3) for t in ([None, None, None], [1, 1, None])]
    return [dict(c, seed=c["seed"] + i) for i in range(1, 10)]
