"""C03 — StatefulDataLoader delivers each epoch exactly once, in DataLoader order."""
import sdl_impl as si

PID = "C03"
IMPORTS = "SdlModel SdlObs"
TABLES = ["check_flags"]     # harness/tables.py: the snapshot-flag arithmetic of _try_put_index, re-translated from the source on every run
FUNCS = ["torchdata/stateful_dataloader/stateful_dataloader.py:_StatefulMultiProcessingDataLoaderIter._next_data",
         "torchdata/stateful_dataloader/stateful_dataloader.py:_StatefulMultiProcessingDataLoaderIter._process_data",
         "torchdata/stateful_dataloader/stateful_dataloader.py:_StatefulMultiProcessingDataLoaderIter._try_put_index",
         "torchdata/stateful_dataloader/stateful_dataloader.py:_StatefulMultiProcessingDataLoaderIter._reset",
         "torchdata/stateful_dataloader/stateful_dataloader.py:_StatefulSingleProcessDataLoaderIter._next_data",
         "torchdata/stateful_dataloader/worker.py:_worker_loop",
         "torchdata/stateful_dataloader/sampler.py:_BatchSamplerIterator"]
RULE = ("(sched) map-style and iterable datasets (empty/uneven shards, batch_size None/1/2/3, drop_last, prefetch 1-3, 1-3 real worker processes, snapshot "
        "interval 0-5) run for one epoch under a random result-arrival schedule, observed after every next() (batch, main bookkeeping, state_dict) and compared with "
        "the Gallina model on the same schedule, with the list reference (column-major interleave / sampler batches) and with torch.utils.data.DataLoader on "
        "identical arguments; (free) multi-epoch runs incl. num_workers=0, persistent_workers, shuffle (permutation check), in_order=False (multiset); "
        "non-trivial = >= 2 batches and (>= 2 workers or uneven shards); distinct = distinct (config, schedule)")
TRUSTED = ["torch.utils.data.DataLoader is the reference the property names (trusted, not modelled)",
           "arrival schedules are realised by a multiprocessing context that routes each worker's results through its own queue (sdl_impl.ArrivalCtx); "
           "worker processes, pickling and _worker_loop are the real ones"]
ASSUMPTIONS = ["multiprocessing queues are FIFO per producer"]
NPROC = 10
CASE_TIMEOUT = 150


def gen_cases(rng, tier, drift):
    n_s, n_f = (90, 50) if tier == "quick" and not drift else (1500, 600)
    cases = []
    for _ in range(n_s):
        cfg = si.gen_cfg(rng)
        L = len(si.batches_ref(cfg))
        cases.append(dict(kind="sched", cfg=cfg, choices=[(100 if rng.random() < 0.12 else rng.randint(0, 5)) for _ in range(3 * L + 12)]))
    for _ in range(n_f):
        cfg = si.gen_cfg(rng, maxW=3)
        cfg["W"] = rng.choice([0, cfg["W"]])
        if cfg["kind"] == "iter" and cfg["W"] == 0:
            cfg["sizes"] = cfg["sizes"][:1] if cfg["sizes"] else [3]
        cfg["persistent"] = cfg["W"] > 0 and rng.random() < 0.4
        cfg["shuffle"] = cfg["kind"] == "map" and cfg["n"] > 0 and rng.random() < 0.4
        cfg["gseed"] = rng.randint(0, 999)
        cases.append(dict(kind="free", cfg=cfg, in_order=rng.random() < 0.7, epochs=rng.choice([1, 2, 3])))
    for i in range(2 if tier == "quick" and not drift else 8):
        # a quiet stretch longer than the 5 s liveness poll while another worker has already (cleanly) retired:
        # the poll must not mistake the retired worker for a crashed one and cut the epoch short
        W = rng.choice([2, 3])
        sizes = [rng.randint(0, 1) for _ in range(W)]
        slow_w = rng.randrange(W)
        sizes[slow_w] = rng.randint(3, 4)
        cfg = dict(kind="iter", W=W, P=rng.choice([1, 2]), I=rng.choice([0, 1]), bs=1, drop=False, persistent=False, sizes=sizes,
                   stateful=False, rewind=False, eager=False, slow=[slow_w, rng.randint(1, 2), 6.0])
        cases.append(dict(kind="free", cfg=cfg, in_order=True, epochs=1))
    for i in range(n_f // 2):
        # persistent workers across epochs, some epochs abandoned part-way (break): every later epoch must again be complete
        cfg = si.gen_cfg(rng, maxW=3)
        cfg["persistent"] = True
        cfg["I"] = rng.choice([0, 1, 1, 2])
        if cfg["kind"] == "map":
            cfg["n"] = max(cfg["n"], 4)
        else:
            cfg["sizes"] = [max(x, 2) for x in cfg["sizes"]]
            # a dataset object that keeps its position lives on in a persistent worker: after an abandoned epoch the next
            # one would start wherever prefetching had got to (timing dependent) - use datasets that restart per epoch
            cfg["stateful"], cfg["rewind"], cfg["eager"] = False, False, False
        cases.append(dict(kind="free", cfg=cfg, in_order=(i % 2 == 0), epochs=3,
                          abandon=[rng.choice([None, None, rng.randint(0, 3)]) for _ in range(3)]))
    for i in range(20 if tier == "quick" and not drift else 200):
        # call scripts with a user sampler whose order depends on set_epoch(), iter() calls that are never advanced (a warm-up), a
        # transient dataset error (raised once per process for one index) after which the epoch is simply run again: the same calls
        # on torch's DataLoader give the stream to expect
        n, bs = rng.randint(4, 12), rng.choice([1, 2, 3])
        W = rng.choice([0, 2, 2, 3])
        N = lambda: rng.randint(0, 3)
        script = rng.choice([
            [["set_epoch", N()], ["iter"], ["set_epoch", 4 + N()], ["epoch"], ["epoch"]],
            [["epoch"], ["epoch"], ["set_epoch", 1 + N()], ["epoch"]],
            [["iter"], ["iter"], ["take", 1], ["iter"], ["epoch"]],
            [["take", N()], ["set_epoch", 1 + N()], ["iter"], ["set_epoch", 5 + N()], ["epoch"]],
            [rng.choice([["iter"], ["epoch"], ["take", N()], ["set_epoch", N()]]) for _ in range(rng.randint(3, 6))] + [["epoch"]],
            # state_dict() calls (nothing is ever loaded): before the first iter(), between epochs, part-way; torch's loader skips them
            [["state"], ["take", 1 + N()], ["epoch"], ["epoch"]],
            [["set_epoch", N()], ["state"], ["state"], ["epoch"], ["take", N()], ["state"], ["epoch"]],
            [["epoch"], ["state"], ["take", 1], ["state"], ["epoch"]],
        ])
        cases.append(dict(kind="script", cfg=dict(kind="map", n=n, bs=bs, W=W, P=rng.choice([1, 2]), I=rng.choice([0, 1, 1, 2]),
                                                  persistent=W > 0 and rng.random() < 0.7, drop=rng.random() < 0.3,
                                                  terr=rng.choice([None, None, rng.randrange(min(n, bs)), rng.randrange(n)])),
                          script=[list(o) for o in script]))
    return cases


class EpochSampler:
    """a user sampler with a deterministic order that depends on the epoch it was told"""

    def __init__(self, n):
        self.n, self.epoch = n, 0

    def set_epoch(self, e):
        self.epoch = e

    def __iter__(self):
        return iter([(i * (1 if self.n % 2 == 0 else 2) + 3 * self.epoch) % self.n for i in range(self.n)]
                    if self.epoch % 2 else [(self.n - 1 - i + self.epoch) % self.n for i in range(self.n)])

    def __len__(self):
        return self.n


class TransientDS:
    """index `bad` fails the first time the process that holds this copy reads it"""

    def __init__(self, n, bad):
        self.n, self.bad, self.seen = n, bad, False

    def __len__(self):
        return self.n

    def __getitem__(self, i):
        if i == self.bad and not self.seen:
            self.seen = True
            raise OSError(f"transient read error at index {i}")
        return i


def run_script(cfg, script, cls):
    kw = dict(batch_size=cfg["bs"], num_workers=cfg["W"], collate_fn=si.identity, drop_last=cfg["drop"])
    if cfg["W"] > 0:
        kw.update(prefetch_factor=cfg["P"], persistent_workers=cfg["persistent"])
    if cls.__name__ == "StatefulDataLoader":
        kw["snapshot_every_n_steps"] = cfg["I"]
    sp = EpochSampler(cfg["n"])
    dl = cls(TransientDS(cfg["n"], cfg["terr"]), sampler=sp, **kw)
    out = []
    for op in script:
        if op[0] == "set_epoch":
            sp.set_epoch(op[1])
        elif op[0] == "iter":
            iter(dl)
        elif op[0] == "state":
            if hasattr(dl, "state_dict"):
                dl.state_dict()
        else:
            got, lim = [], (op[1] if op[0] == "take" else None)
            try:
                if lim != 0:
                    for x in dl:
                        got.append(si.norm_batch(x))
                        if lim is not None and len(got) >= lim:
                            break
                else:
                    iter(dl)
            except OSError as e:
                got.append(("error", str(e).strip().splitlines()[-1][-40:]))
            out.append(got)
    del dl
    return out


def distribution(cases):
    d = {}
    for c in cases:
        k = f"{c['kind']}/{c['cfg']['kind']}/W{c['cfg']['W']}"
        d[k] = d.get(k, 0) + 1
    return d


def run_impl(c):
    import torch.utils.data as tud
    cfg = c["cfg"]
    fails = []
    try:
        if c["kind"] == "sched":
            ref = si.batches_ref(cfg)
            ops = [["fresh"]] + [["next"]] * (len(ref) + 1)
            obs, used, _ = si.run_history(cfg, ops, c["choices"])
            got = [o[0][1] for o in obs[1:] if isinstance(o[0], list)]
            want = [b if isinstance(b, list) else [b] for b in ref]
            if got != want or obs[-1][0] != "stop":
                fails.append(f"epoch {got} (then {obs[-1][0]}) != reference {want}")
            t = [si.norm_batch(b) for b in si.make_loader(cfg, cls=tud.DataLoader)]
            if got != t:
                fails.append(f"epoch {got} != torch DataLoader {t}")
            return dict(obs=obs, used=used, oracle="; ".join(fails) or None,
                        nontrivial=len(ref) >= 2 and (cfg["W"] >= 2), key=[cfg, used])
        if c["kind"] == "script":
            from torchdata.stateful_dataloader import StatefulDataLoader
            a = run_script(cfg, c["script"], StatefulDataLoader)
            si.kill_children()
            b = run_script(cfg, c["script"], tud.DataLoader)
            if a != b:
                fails.append(f"script {c['script']}: StatefulDataLoader gave {a}, torch DataLoader {b}")
            return dict(oracle="; ".join(fails) or None, nontrivial=len(c["script"]) >= 3, key=[cfg, c["script"]])
        # free-running: several epochs, vs torch
        sdl = si.make_loader(cfg, in_order=c["in_order"]) if cfg["W"] > 0 else si.make_loader(cfg)
        tdl = si.make_loader(cfg, cls=tud.DataLoader)
        for e in range(c["epochs"]):
            cut = (c.get("abandon") or [None] * c["epochs"])[e]
            if cut is not None:
                # abandoned epoch: take `cut` batches and break; in order they must be torch's first `cut` batches
                a, b = [], []
                for x in sdl:
                    if len(a) >= cut:
                        break
                    a.append(si.norm_batch(x))
                for x in tdl:
                    if len(b) >= cut:
                        break
                    b.append(si.norm_batch(x))
                if (c["in_order"] or cfg["W"] == 0) and not cfg.get("shuffle") and a != b:
                    fails.append(f"epoch {e} (abandoned after {cut}): {a} != torch DataLoader {b}")
                continue
            a = [si.norm_batch(b) for b in sdl]
            b = [si.norm_batch(x) for x in tdl]
            if cfg.get("shuffle"):
                fa, fb = sorted(x for y in a for x in y), sorted(x for y in b for x in y)
                n = cfg["n"]
                full = n if not (cfg["drop"] and cfg["bs"]) else n - n % cfg["bs"]
                if len(fa) != full or len(set(fa)) != len(fa) or any(not 0 <= x < n for x in fa):
                    fails.append(f"epoch {e}: shuffled epoch is not a permutation: {a}")
                sa, sb = [len(x) for x in a], [len(x) for x in b]
                if not (c["in_order"] or cfg["W"] == 0):
                    sa, sb = sorted(sa), sorted(sb)     # in_order=False: the short last batch may arrive before a full one
                if sa != sb:
                    fails.append(f"epoch {e}: batch shapes differ from torch")
            elif c["in_order"] or cfg["W"] == 0:
                if a != b:
                    fails.append(f"epoch {e}: {a} != torch DataLoader {b}")
            else:
                if sorted(map(tuple, a)) != sorted(map(tuple, b)):
                    fails.append(f"epoch {e}: in_order=False multiset {sorted(a)} != {sorted(b)}")
        del sdl, tdl
        return dict(oracle="; ".join(fails[:2]) or None, nontrivial=cfg["W"] >= 1, key=[cfg, c["in_order"], c["epochs"], c.get("abandon")])
    finally:
        si.kill_children()


def model_term(c, r):
    cfg = c["cfg"]
    L = len(si.batches_ref(cfg))
    ops = [["fresh"]] + [["next"]] * (L + 1)
    return f"sdl_obs {si.coq_cfg(cfg)} {si.coq_sops(ops)} {si.clist([str(x) for x in r['used']])}"


def widen(c, rng):
    if c["kind"] != "sched":
        return []
    return [dict(c, choices=[(100 if rng.random() < 0.12 else rng.randint(0, 5)) for _ in range(len(c["choices"]))]) for _ in range(20)]
