"""C17 — background workers are always released."""
import gc
import multiprocessing
import time

import conc_common as cc
import lib

PID = "C17"
IMPORTS = cc.IMPORTS
FUNCS = cc.FUNCS + [
    "torchdata/stateful_dataloader/stateful_dataloader.py:StatefulDataLoader.__iter__",
    "torchdata/stateful_dataloader/stateful_dataloader.py:StatefulDataLoader.state_dict",
    "torchdata/stateful_dataloader/stateful_dataloader.py:StatefulDataLoader.load_state_dict",
    "torchdata/stateful_dataloader/stateful_dataloader.py:_StatefulMultiProcessingDataLoaderIter._shutdown_workers",
    "torchdata/stateful_dataloader/stateful_dataloader.py:_StatefulMultiProcessingDataLoaderIter.__del__",
    "torchdata/stateful_dataloader/stateful_dataloader.py:_StatefulMultiProcessingDataLoaderIter._mark_worker_as_unavailable",
]
SHARD = 40
NPROC = 12
CASE_TIMEOUT = 180
RULE = ("(sched) real Prefetcher / ParallelMapper(thread) under the deterministic scheduler, histories of partial and complete epochs, reset(None), "
        "reset(loaded state), errors, final _shutdown(), INCLUDING join timeouts; after the consumer's script ends the scheduler keeps running the remaining "
        "threads: every background thread of every generation must terminate on its own (no thread left with a pending step, bounded by the step budget); every "
        "step replayed on ConcModel.v; (sdl) real StatefulDataLoader, W in 0..3, persistent or not, map-style and iterable: histories over iter / next / "
        "exhaust / drop the iterator / state_dict / load_state_dict, plus start-up failures (worker_init_fn raising; the k-th Process.start() failing); after every operation the live worker processes (multiprocessing.active_children, waiting "
        "up to 8 s for exits) are compared, as sets of pid-generations, with the process-table model SdlProcs.v; start-up failure (worker_init_fn raising) must "
        "leave no process; (rt) nodes pipelines with thread and process workers in real time: after every epoch / reset / drop the live threads and children are "
        "counted; non-trivial = history with >=1 reset/load/drop; distinct = distinct (configuration, history, schedule)")
TRUSTED = cc.TRUSTED + ["multiprocessing.active_children() / threading.enumerate() as the census; CPython reference counting runs __del__ when the last reference "
                        "is dropped (the harness drops its own references explicitly and calls gc.collect())"]
ASSUMPTIONS = ["OS reaping, join wall-clock and the terminate() fallback are observed, not modelled (partial)"]

POPS = {"iter": "PIter", "exhaust": "PExhaust", "drop": "PDrop", "state": "PState", "load": "PLoad"}


def imports_of(c):
    return "SdlProcs" if c.get("kind") == "sdl" else cc.IMPORTS


def gen_cases(rng, tier, drift):
    n, nsdl, nrt = (200, 40, 10) if tier == "quick" and not drift else (3000, 500, 100)
    out = []
    for i in range(n):
        c = cc.gen_case(rng, errors=(i % 3 == 0), loads=True, join_timeouts=(i % 2 == 0), unordered=True)
        if i % 6 == 0:
            c["bias"] = "zombie"
        out.append(c)
    for i in range(nsdl):
        W = rng.choice([0, 1, 2, 2, 3])
        ops = ["iter"]
        for _ in range(rng.randint(2, 7)):
            ops.append(rng.choice(["iter", "next", "next", "exhaust", "drop", "state", "load", "exhaust"]))
        out.append(dict(kind="sdl", W=W, persistent=(W > 0 and rng.random() < 0.4), ds=rng.choice(["map", "iter"]), n=rng.randint(3, 8),
                        ops=ops, init_error=(W > 0 and i % 10 == 9), start_fail=(rng.randint(1, W - 1) if (W >= 2 and i % 5 == 4) else None)))
    for i in range(nrt):
        out.append(dict(kind="rt", node=rng.choice(["pf", "pm_thread", "pm_thread", "pm_process"]), n=rng.randint(3, 8), nw=rng.choice([1, 2]),
                        epochs=rng.randint(2, 4), take=[rng.randint(0, 9) for _ in range(4)], error_at=rng.choice([None, None, rng.randint(0, 4)])))
    return out


def oracle(c, r, ref_fails):
    fails = []
    if r.get("drained") != "done":
        fails.append(f"after the consumer's script ended (last op shutdown) these threads never terminated: {r['live']} (drain status {r.get('drained')})")
    elif r["live"]:
        fails.append(f"threads still alive at the end: {r['live']}")
    if not r["join_timeouts"]:
        fails += ref_fails[:1]
    return "; ".join(fails[:2]) or None


# ------------------------------------------------------------------------------------------------- SDL process census
def _settled_pids(max_wait=8.0):
    """live worker pids once the set has stopped changing for 0.3 s"""
    t0 = time.time()
    last, since = None, time.time()
    while True:
        gc.collect()
        pids = frozenset(p.pid for p in multiprocessing.active_children())
        if pids != last:
            last, since = pids, time.time()
        if time.time() - since >= 0.3 or time.time() - t0 > max_wait:
            return pids
        time.sleep(0.05)


def _wait_empty(max_wait):
    """wait until no worker process is left (bounded): -> pids still alive after max_wait seconds"""
    t0 = time.time()
    while True:
        gc.collect()
        pids = [p.pid for p in multiprocessing.active_children()]
        if not pids or time.time() - t0 > max_wait:
            return pids
        time.sleep(0.1)


class _FailingStartCtx(multiprocessing.context.ForkContext):
    """a fork context whose k-th Process.start() fails (EAGAIN-style), as when the OS refuses another process"""

    def __init__(self, k):
        super().__init__()
        self._k, self._n = k, 0
        ctx = self

        class P(multiprocessing.context.ForkProcess):
            def start(self):
                if ctx._n == ctx._k:
                    ctx._n += 1
                    raise OSError(11, "Resource temporarily unavailable (injected)")
                ctx._n += 1
                return super().start()
        self.Process = P


class InitBoom:
    def __call__(self, worker_id):
        if worker_id == 0:
            raise RuntimeError("worker_init_fn fails")


def run_sdl(c):
    import sdl_impl as si
    W = c["W"]
    cfg = dict(kind=c["ds"], W=W, P=2, I=1, bs=1, drop=False, persistent=c["persistent"])
    if c["ds"] == "map":
        cfg["n"] = c["n"]
    else:
        cfg["sizes"] = [40] * max(1, W)      # long shards: no worker retires early within the few next() calls of a history
        cfg["stateful"] = True
    fails = []
    try:
        if c["init_error"]:
            dl = si.make_loader(cfg, worker_init_fn=InitBoom())
            try:
                it = iter(dl)
                next(it)
                fails.append("worker_init_fn raised in worker 0 but iteration started")
            except BaseException:  # noqa
                pass
            it = None
            del dl
            # the designed bound: one MP_STATUS_CHECK_INTERVAL (5 s) join per worker, then terminate()
            bound = 5.0 * W + 6.0
            left = _wait_empty(bound)
            if left:
                fails.append(f"{len(left)} worker process(es) still alive {bound:.0f} s after a failed start-up")
            return dict(oracle="; ".join(fails) or None, nontrivial=True, key=[c[k] for k in sorted(c)])
        if c.get("start_fail") is not None:
            for attempt in range(2):
                dl = si.make_loader(cfg, multiprocessing_context=_FailingStartCtx(c["start_fail"]))
                try:
                    it = iter(dl)
                    fails.append("Process.start() failed for one worker but iter(dl) returned")
                except OSError:
                    pass
                except BaseException as e:  # noqa
                    fails.append(f"Process.start() failure surfaced as {type(e).__name__}")
                it = None
                del dl
            bound = 5.0 * W + 6.0
            left = _wait_empty(bound)
            if left:
                fails.append(f"{len(left)} worker process(es) started before a failing Process.start() are still alive after {bound:.0f} s")
            return dict(oracle="; ".join(fails[:2]) or None, nontrivial=True, key=[c[k] for k in sorted(c)])
        dl = si.make_loader(cfg)
        it, saved = None, []
        gen_of, ngen = {}, 0
        done_ops, census = [], []
        for op in c["ops"]:
            eff = op
            if op == "iter":
                it = None             # the user's variable is rebound: `it = iter(dl)` with the old object released first
                it = iter(dl)
            elif op == "next":
                eff = None
                if it is not None:
                    try:
                        next(it)
                    except StopIteration:
                        eff = "exhaust"
            elif op == "exhaust":
                if it is not None:
                    for _ in it:
                        pass
            elif op == "drop":
                it = None
            elif op == "state":
                saved.append(dl.state_dict())
            elif op == "load":
                dl.load_state_dict(saved[-1] if saved else {})
            pids = _settled_pids()
            new = [p for p in pids if p not in gen_of]
            if new:
                for p in new:
                    gen_of[p] = ngen
                ngen += 1
            live = sorted({gen_of[p] for p in pids})
            if len(live) > 2:
                fails.append(f"after {done_ops + [op]}: worker processes of {len(live)} iterator generations alive at once ({len(pids)} processes)")
            if W and len(pids) > 2 * W:
                fails.append(f"after {done_ops + [op]}: {len(pids)} live worker processes for num_workers={W}")
            if op == "drop" and not c["persistent"] and dl._iterator is None and pids:
                fails.append(f"after {done_ops + [op]}: {len(pids)} worker process(es) alive although neither the loader nor the user holds an iterator")
            if op == "iter" and eff == "iter":
                pass
            if eff is not None:
                done_ops.append(eff if not (eff == "iter") else "iter")
                census.append(live)
        it = None
        del dl
        left = _wait_empty(5.0 * W + 6.0)
        if left:
            fails.append(f"{len(left)} worker process(es) alive after the loader and its iterator were dropped")
        out = dict(oracle="; ".join(fails[:2]) or None, nontrivial=any(o in ("drop", "load") for o in done_ops), key=[c[k] for k in sorted(c)],
                   done_ops=done_ops)
        if W > 0:
            out["obs"] = census
        return out
    finally:
        si.kill_children()


# ------------------------------------------------------------------------------------------------- nodes, real time
def _bg_threads():
    import threading
    return [t.name for t in threading.enumerate() if any(k in t.name for k in ("_populate_queue", "_apply_udf", "_sort_worker", "QueueFeederThread"))]


def _wait_quiet(max_wait=4.0):
    t0 = time.time()
    while True:
        gc.collect()
        th, ch = _bg_threads(), multiprocessing.active_children()
        if (not th and not ch) or time.time() - t0 > max_wait:
            return th, [p.pid for p in ch]
        time.sleep(0.05)


class RtBoom(Exception):
    pass


class RtUdf:
    def __init__(self, bad):
        self.bad = bad

    def __call__(self, x):
        if self.bad is not None and x == self.bad:
            raise RtBoom("udf")
        return x


def run_rt(c):
    import threading

    from torchdata.nodes import IterableWrapper, ParallelMapper, Prefetcher
    base_threads = set(t.ident for t in threading.enumerate())
    src = IterableWrapper(list(range(c["n"])))
    if c["node"] == "pf":
        node = Prefetcher(src, 2)
    else:
        node = ParallelMapper(src, RtUdf(c["error_at"]), num_workers=c["nw"], method="process" if c["node"] == "pm_process" else "thread",
                              multiprocessing_context="fork" if c["node"] == "pm_process" else None)
    fails, peak = [], 0
    per_gen = {"pf": 1, "pm_thread": 2 + c["nw"], "pm_process": 2 + 2 * 2}   # threads of ONE iterator (process mode: reader, sorter, queue feeders)
    for e in range(c["epochs"]):
        node.reset()
        for _ in range(c["take"][e % len(c["take"])]):
            try:
                next(node)
            except StopIteration:
                break
            except RtBoom:
                pass
        th = _bg_threads()
        peak = max(peak, len(th))
        if c["node"] != "pm_process" and len(th) > per_gen[c["node"]]:
            fails.append(f"epoch {e}: {len(th)} background threads alive after reset+partial epoch, one iterator owns at most {per_gen[c['node']]}: {sorted(th)}")
        nchild = len(multiprocessing.active_children())
        if c["node"] == "pm_process" and nchild > c["nw"]:
            fails.append(f"epoch {e}: {nchild} live worker processes for num_workers={c['nw']}")
    del node
    th, ch = _wait_quiet()
    if th or ch:
        fails.append(f"after dropping the pipeline: threads {sorted(th)} / child processes {ch} still alive after 4 s")
    return dict(oracle="; ".join(fails[:2]) or None, nontrivial=True, key=[c[k] for k in sorted(c)], summary=dict(peak_threads=peak))


def run_impl(c):
    if c.get("kind") == "sdl":
        return run_sdl(c)
    if c.get("kind") == "rt":
        return run_rt(c)
    return cc.run_impl_with(c, oracle)


def model_term(c, r):
    if c.get("kind") == "sdl":
        ops = lib.clist([POPS[o] for o in r["done_ops"]])
        return f"census_obs {lib.cbool(c['persistent'])} {ops}"
    return cc.model_term(c, r)


def distribution(cases):
    d = cc.distribution([c for c in cases if c.get("kind") not in ("sdl", "rt")])
    d["sdl"] = sum(1 for c in cases if c.get("kind") == "sdl")
    d["sdl_persistent"] = sum(1 for c in cases if c.get("kind") == "sdl" and c["persistent"])
    d["rt"] = sum(1 for c in cases if c.get("kind") == "rt")
    return d


def widen(c, rng):
    if c.get("kind") in ("sdl", "rt"):
        return []
    return [dict(c, seed=rng.randint(0, 10**9), bias=b) for b in cc.BIASES for _ in range(4)]
