"""C04 — nodes pipelines compute exactly their sequential reference semantics."""
import conc_common as cc
import nodes_impl as ni

PID = "C04"
TABLES = ["check_initsnap"]   # harness/tables.py: QueueSnapshotStore.get_initial_snapshot run on every schedule of <= 9 moves against InitSnap.v (D20)
IMPORTS = "NodeModel NodeObs"
FUNCS = [
    "torchdata/nodes/map.py:_sort_worker", "torchdata/nodes/map.py:_ParallelMapperIter", "torchdata/nodes/map.py:ParallelMapper",
    "torchdata/nodes/map.py:_InlineMapperIter", "torchdata/nodes/map.py:_SingleThreadedMapper", "torchdata/nodes/map.py:MapOverBatch",
    "torchdata/nodes/_populate_queue.py:_populate_queue", "torchdata/nodes/_apply_udf.py:_apply_udf",
    "torchdata/nodes/batch.py:Batcher", "torchdata/nodes/batch.py:Unbatcher", "torchdata/nodes/filter.py:Filter",
    "torchdata/nodes/prefetch.py:Prefetcher", "torchdata/nodes/adapters.py:IterableWrapper", "torchdata/nodes/adapters.py:SamplerWrapper",
]
RULE = ("(sched) real Prefetcher / ParallelMapper(thread, in_order true/false) under the deterministic scheduler, seven schedule biases, one to three epochs with "
        "reset / reset(loaded state): outcomes equal the list reference (in order, or as a multiset per epoch for in_order=False) and every scheduler step is replayed "
        "on ConcModel.v; (seq) random well-typed pipelines over the full operator grammar, three consecutive epochs of the bare root node compared item by item with the "
        "model and with an independent Python list reference; (seq_ab) the same pipelines under a Loader with one or two epochs abandoned part-way (inside a batch / "
        "prebatch, items in flight) and re-iterated without a state, op by op against the Loader model, every later epoch complete; (conc) ParallelMapper/Prefetcher with thread and process workers, in_order true/false, "
        "max_concurrent, prebatch, and per-item random delays in the map function so that results overtake each other; non-trivial = epoch length >= 2 and "
        "depth >= 2; distinct = distinct (pipeline, parameters, delay seed)")
SHARD = 60
TRUSTED = ["(seq) concurrent operators are compared with the model through their sequential specification; (sched) the interleaving-level model is ConcModel.v, "
           "replayed step by step on the schedule the real threads ran under (harness/sched_threads.py)",
           "harness user code (FAdd/FWrap/Pred/StatefulList/EpochSampler/SlowAdd)"]
ASSUMPTIONS = ["map functions are deterministic functions of the item"]
NPROC = 14
CASE_TIMEOUT = 120


def imports_of(c):
    return cc.IMPORTS if c.get("sched") else IMPORTS


def sched_oracle(c, r, ref_fails):
    return "; ".join(ref_fails[:2]) or None


def gen_cases(rng, tier, drift):
    n_seq, n_conc, n_proc, n_sched = (350, 120, 10, 160) if tier == "quick" and not drift else (5000, 1500, 100, 3000)
    cases = []
    for i in range(n_sched):
        c = cc.gen_case(rng, errors=False, loads=(i % 4 == 0), join_timeouts=False, unordered=True)
        c["sched"] = True
        cases.append(c)
    for i in range(n_sched // 2):
        # oracle-only: Thread.is_alive() is a yield point too
        c = cc.gen_case(rng, errors=False, loads=False, join_timeouts=False, unordered=True)
        c["sched"], c["alive_yield"] = True, True
        cases.append(c)
    for _ in range(n_seq):
        cases.append(dict(kind="seq", pipe=ni.gen_well_typed_pipe(rng, max_depth=rng.choice([1, 2, 3, 4, 5]), threads=rng.random() < 0.5)))
    for _ in range(n_seq // 2):
        # epochs ABANDONED part-way (inside a batch, inside a prebatch, with prefetched items in flight) and re-iterated without a
        # state: "every epoch obtained by resetting or re-iterating is again complete"
        p = ni.gen_well_typed_pipe(rng, max_depth=rng.choice([2, 3, 4, 5]), threads=rng.random() < 0.5)
        L = len(ni.ref_sem(p, 0))
        cases.append(dict(kind="seq_ab", pipe=p, takes=[rng.randint(1, max(1, L)) for _ in range(rng.choice([1, 2]))], restart=rng.random() < 0.7))
    for i in range(n_conc + n_proc):
        proc = i >= n_conc
        n = rng.choice([0, 1, 2, 5, 9, rng.randint(0, 14)])
        nw = rng.randint(1, 4) if proc or rng.random() < 0.85 else 0        # num_workers=0: map_fn runs inline, every other parameter still applies
        cases.append(dict(kind="conc", xs=[rng.randint(0, 30) for _ in range(n)], nw=nw, in_order=rng.random() < 0.6,
                          method="process" if proc else "thread", mc=rng.choice([None, None, rng.randint(1, max(1, nw))]) if nw else None,
                          prebatch=rng.choice([None, None, 1, 2, 3]), sf=rng.choice([0, 1, 2]), add=rng.randint(0, 5),
                          delay_seed=rng.randint(0, 10**6), pf=rng.choice([None, 1, 3]), batch_after=rng.choice([None, 2, 3]),
                          drop=rng.random() < 0.5, none_mod=rng.choice([None, 2, 3])))
    return cases


def distribution(cases):
    d = {}
    for c in cases:
        if c.get("sched"):
            d["scheduled"] = d.get("scheduled", 0) + 1
            continue
        k = c["kind"] + ("/" + c["method"] + ("/in_order" if c["in_order"] else "/unordered") if c["kind"] == "conc" else "")
        d[k] = d.get(k, 0) + 1
    return d


def _skey(v):
    return (v is None, 0 if v is None else v)


class SlowAdd:
    """x -> x + k after a pseudo-random (item- and seed-dependent) delay, so results overtake each other"""

    def __init__(self, k, seed, none_mod=None):
        self.k, self.seed, self.none_mod = k, seed, none_mod

    def __call__(self, x):
        import time
        h = (x * 2654435761 + self.seed * 40503) % 7
        if h < 3:
            time.sleep(0.0015 * h)
        if self.none_mod and x % self.none_mod == 0:
            return None     # a falsy / absent-looking result is still a result
        return x + self.k


def drain(node, limit=10000):
    out = []
    for _ in range(limit):
        try:
            out.append(next(node))
        except StopIteration:
            return out
    raise RuntimeError("node does not stop")


def ab_ops(c):
    tail = max(len(ni.ref_sem(c["pipe"], e)) for e in range(8)) + 1
    ops = []
    for j in c["takes"]:
        ops += [["iter"]] + [["next"]] * j
    return ops + ([["iter"]] + [["next"]] * tail) * 2


def run_impl(c):
    if c.get("sched"):
        return cc.run_impl_with(c, sched_oracle)
    if c["kind"] == "seq_ab":
        p = c["pipe"]
        obs, _, _, _ = ni.run_history(p, c["restart"], ab_ops(c))
        streams = []
        for o in obs:
            if o == "iter":
                streams.append([])
            elif isinstance(o, list) and o[0] == "item":
                streams[-1].append(o[1])
        refs = [ni.ref_sem(p, e) for e in range(8)]
        fails = []
        na = len(c["takes"])
        for i, st in enumerate(streams):
            if i < na:
                if not any(r[:len(st)] == st for r in refs):
                    fails.append(f"abandoned epoch {i} yielded {st}: not a prefix of any epoch of the reference {refs[:3]}")
            elif st not in refs:
                fails.append(f"epoch {i} (after {na} abandoned epoch(s) of {c['takes']} items) yielded {st}: not a complete epoch of the reference {refs[:3]}")
        return dict(obs=obs, oracle="; ".join(fails[:2]) or None, nontrivial=len(refs[0]) >= 2 and ni.depth(p) >= 2 and any(0 < j < len(refs[0]) for j in c["takes"]),
                    key=[p, c["takes"], c["restart"]])
    if c["kind"] == "seq":
        p = c["pipe"]
        node = ni.build(p)
        obs, fails = [], []
        for e in range(3):
            node.reset()
            items = drain(node)
            ref = ni.ref_sem(p, e)
            obs.append([items, ref])
            if items != ref:
                fails.append(f"epoch {e}: got {items}, reference {ref}")
        return dict(obs=obs, oracle="; ".join(fails[:2]) or None, nontrivial=len(ni.ref_sem(p, 0)) >= 2 and ni.depth(p) >= 2, key=p)
    from torchdata.nodes import Batcher, IterableWrapper, ParallelMapper, Prefetcher
    xs = c["xs"]
    node = IterableWrapper(list(xs))
    if c["pf"]:
        node = Prefetcher(node, prefetch_factor=c["pf"], snapshot_frequency=c["sf"])
    node = ParallelMapper(node, SlowAdd(c["add"], c["delay_seed"], c.get("none_mod")), num_workers=c["nw"], in_order=c["in_order"], method=c["method"],
                          max_concurrent=c["mc"], snapshot_frequency=c["sf"], prebatch=c["prebatch"])
    ref = [None if (c.get("none_mod") and x % c["none_mod"] == 0) else x + c["add"] for x in xs]
    if c["batch_after"]:
        node = Batcher(node, c["batch_after"], drop_last=c["drop"])
    fails = []
    for e in range(2):
        node.reset()
        items = drain(node)
        flat = [y for b in items for y in b] if c["batch_after"] else items
        if c["batch_after"]:
            n = c["batch_after"]
            full = len(ref) // n
            okshape = all(len(b) == n for b in items[:full]) and (len(items) == full or (not c["drop"] and len(items) == full + 1 and len(items[-1]) == len(ref) % n))
            want_len = full * n if c["drop"] else len(ref)
            if not okshape:
                fails.append(f"epoch {e}: batch shapes {[len(b) for b in items]} for {len(ref)} items, batch {n}, drop_last={c['drop']}")
        else:
            want_len = len(ref)
        if c["in_order"]:
            if flat != ref[:want_len]:
                fails.append(f"epoch {e}: got {flat}, reference {ref[:want_len]}")
        else:
            if c["batch_after"] and c["drop"]:
                ok = len(flat) == want_len and all(flat.count(v) <= ref.count(v) for v in set(flat))
            else:
                ok = sorted(flat, key=_skey) == sorted(ref, key=_skey)
            if not ok:
                fails.append(f"epoch {e}: got multiset {sorted(flat, key=_skey)}, reference {sorted(ref, key=_skey)}")
    del node
    return dict(oracle="; ".join(fails[:2]) or None, nontrivial=len(xs) >= 2, key=[c[k] for k in sorted(c) if k != "kind"])


def model_term(c, r):
    if c.get("sched"):
        return cc.model_term(c, r)
    if c["kind"] == "seq_ab":
        return f"loader_obs {ni.coq_pipe(c['pipe'])} {'true' if c['restart'] else 'false'} {ni.coq_ops(ab_ops(c))}"
    return f"node_epochs_obs {ni.coq_pipe(c['pipe'])} 3"


def widen(c, rng):
    return []
