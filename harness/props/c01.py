"""C01 — StatefulDataLoader: a checkpoint at any batch resumes the exact remaining stream."""
import sdl_impl as si

PID = "C01"
IMPORTS = "SdlModel SdlObs"
TABLES = ["check_flags"]     # harness/tables.py: the snapshot-flag arithmetic of _try_put_index, re-translated from the source on every run
FUNCS = ["torchdata/stateful_dataloader/stateful_dataloader.py:_StatefulMultiProcessingDataLoaderIter.__init__",
         "torchdata/stateful_dataloader/stateful_dataloader.py:_StatefulMultiProcessingDataLoaderIter._next_data",
         "torchdata/stateful_dataloader/stateful_dataloader.py:_StatefulMultiProcessingDataLoaderIter._process_data",
         "torchdata/stateful_dataloader/stateful_dataloader.py:_StatefulMultiProcessingDataLoaderIter._try_put_index",
         "torchdata/stateful_dataloader/stateful_dataloader.py:_StatefulMultiProcessingDataLoaderIter._take_snapshot",
         "torchdata/stateful_dataloader/stateful_dataloader.py:_StatefulMultiProcessingDataLoaderIter._restore_main_state",
         "torchdata/stateful_dataloader/stateful_dataloader.py:_StatefulMultiProcessingDataLoaderIter._get_main_state",
         "torchdata/stateful_dataloader/stateful_dataloader.py:_StatefulMultiProcessingDataLoaderIter.state_dict",
         "torchdata/stateful_dataloader/stateful_dataloader.py:_StatefulSingleProcessDataLoaderIter.load_state_dict",
         "torchdata/stateful_dataloader/stateful_dataloader.py:_StatefulSingleProcessDataLoaderIter.state_dict",
         "torchdata/stateful_dataloader/worker.py:_worker_loop", "torchdata/stateful_dataloader/worker.py:_make_state_dict",
         "torchdata/stateful_dataloader/sampler.py:_BatchSamplerIterator", "torchdata/stateful_dataloader/sampler.py:_StatefulRandomSamplerIterator"]
RULE = ("(sched) configuration product {map-style, iterable with dataset state (README style rewinding or not), iterable without state (fast-forward)} x "
        "1-3 real workers x shard sizes incl. 0/uneven x batch_size None/1/2/3 x drop_last x prefetch 1-3 x snapshot interval 0-5; history = k batches, "
        "state_dict, then a chain of (new loader, load, j batches, state_dict) links, then new loader + load + drain + following epoch, all under a random "
        "arrival schedule; every next() observed (batch, bookkeeping, state_dict) and compared with the model on the same schedule; (free) num_workers=0, "
        "persistent_workers, shuffle with generator, stateful samplers: oracle only; oracle everywhere: resumed stream == uninterrupted suffix, following epoch "
        "included; non-trivial = 0<k<L and (a worker exhausted before k, or a partial batch, or k not a snapshot boundary); distinct = distinct (config,k,chain,schedule)")
TRUSTED = ["arrival schedules realised by sdl_impl.ArrivalCtx with real worker processes", "harness datasets keep the user contract: load_state_dict(state_dict()) restores the position"]
ASSUMPTIONS = ["dataset/iterator state_dict/load_state_dict restore the position before exhaustion; nothing is assumed after exhaustion (README dataset rewinds)"]
NPROC = 10
CASE_TIMEOUT = 240


def gen_cases(rng, tier, drift):
    n_s, n_f = (80, 50) if tier == "quick" and not drift else (1500, 700)
    cases = []
    for _ in range(n_s):
        cfg = si.gen_cfg(rng)
        L = len(si.batches_ref(cfg))
        k = rng.choice([0, L, rng.randint(0, L), rng.randint(0, L), max(0, L - 1)])
        chain, pos = [], k
        for _ in range(rng.choice([0, 0, 1, 2])):
            j = rng.randint(0, L - pos)
            chain.append(j)
            pos += j
        cases.append(dict(kind="sched", cfg=cfg, k=k, chain=chain, choices=[(100 if rng.random() < 0.12 else rng.randint(0, 5)) for _ in range(8 * L + 40)]))
    for _ in range(n_f):
        cfg = si.gen_cfg(rng)
        r = rng.random()
        if r < 0.4:
            cfg["W"] = 0
            if cfg["kind"] == "iter":
                cfg["sizes"] = [rng.randint(0, 8)]
        elif r < 0.7:
            cfg["persistent"] = True
        if cfg["kind"] == "map" and cfg["n"] > 0 and rng.random() < 0.6:
            cfg["shuffle"], cfg["gseed"] = True, rng.randint(0, 999)
        elif cfg["kind"] == "map" and cfg["n"] > 0 and rng.random() < 0.6:
            # the library's own stateful RandomSampler, with replacement (32-chunks) or more samples than items
            repl = rng.random() < 0.5
            cfg["sampler"] = dict(replacement=repl, num_samples=rng.choice([None, cfg["n"] + rng.randint(1, 9), 40, 70]) if not repl else rng.choice([35, 37, 50, 53, 70]))
            cfg["gseed"] = rng.randint(0, 999)
            if rng.random() < 0.5:
                cfg["I"] = rng.choice([2, 3, 5, 7])     # long stretches between snapshots: a state near the end lies well past the last one
        L = len(si.batches_ref(cfg))
        if cfg.get("sampler"):
            ns = cfg["sampler"]["num_samples"] or cfg["n"]
            bs = cfg["bs"] or 1
            L = ns // bs if (cfg["drop"] and cfg["bs"]) else -(-ns // bs)
        k = rng.choice([0, L, L, rng.randint(0, L), rng.randint(0, L)])
        chain, pos = [], k
        for _ in range(rng.choice([0, 1, 2])):
            j = rng.randint(0, L - pos)
            chain.append(j)
            pos += j
        # fin: the consumer has SEEN the end of the epoch (StopIteration) before taking the last state: the resumed loader starts the NEXT epoch
        cases.append(dict(kind="free", cfg=cfg, k=k, chain=chain, fin=(k + sum(chain) == L and rng.random() < 0.6 and not (cfg["W"] == 0 and cfg.get("shuffle")))))
    n_e = 30 if tier == "quick" and not drift else 300
    for _ in range(n_e):
        # states taken AFTER the end of an epoch was seen (or at its last batches), with snapshots far apart and a sampler whose
        # state advances while it is consumed: the resumed loader's next epochs must be the uninterrupted loader's next epochs
        cfg = si.gen_cfg(rng, kinds=("map",))
        cfg["n"] = rng.randint(5, 12)
        cfg["W"], cfg["P"], cfg["I"] = rng.choice([1, 2]), rng.choice([1, 2]), rng.choice([3, 5, 7, 10])
        cfg["persistent"] = rng.random() < 0.3
        cfg["gseed"] = rng.randint(0, 999)
        if rng.random() < 0.7:
            repl = rng.random() < 0.6
            cfg["sampler"] = dict(replacement=repl, num_samples=rng.choice([35, 37, 50, 53]) if repl else rng.choice([None, cfg["n"] + rng.randint(1, 9), 40]))
        else:
            cfg["shuffle"] = True
        ns = (cfg.get("sampler") or {}).get("num_samples") or cfg["n"]
        bs = cfg["bs"] or 1
        L = ns // bs if (cfg["drop"] and cfg["bs"]) else -(-ns // bs)
        k = rng.choice([L, L, max(0, L - 1), max(0, L - 2)])
        cases.append(dict(kind="free", cfg=cfg, k=k, chain=[], fin=(k == L and rng.random() < 0.8)))
    return cases


def distribution(cases):
    d = {}
    for c in cases:
        cfg = c["cfg"]
        k = f"{c['kind']}/{cfg['kind']}" + ("/stateful" if cfg.get("stateful") else "") + ("/rewind" if cfg.get("rewind") else "") + f"/W{cfg['W']}"
        d[k] = d.get(k, 0) + 1
    return d


def ops_of(c, L):
    ops = [["fresh"]] + [["next"]] * c["k"] + [["state"]]
    n = 1
    for j in c["chain"]:
        ops += [["resume", n - 1]] + [["next"]] * j + [["state"]]
        n += 1
    ops += [["resume", n - 1]] + [["next"]] * (L + 1) + [["fresh"]] + [["next"]] * (L + 1)
    return ops


def run_impl(c):
    cfg = c["cfg"]
    fails = []
    try:
        if c["kind"] == "sched":
            ref = [b if isinstance(b, list) else [b] for b in si.batches_ref(cfg)]
            L = len(ref)
            ops = ops_of(c, L)
            obs, used, saved = si.run_history(cfg, ops, c["choices"])
            consumed = c["k"] + sum(c["chain"])
            last = max(i for i, o in enumerate(ops) if o[0] == "resume")
            seen = [o[0][1] for o in obs[:last] if isinstance(o[0], list) and o[0][0] == "batch"]
            if seen != ref[:consumed]:
                fails.append(f"batches before the final resume {seen} != {ref[:consumed]}")
            tail = obs[last + 1:]
            fr = next(i for i, o in enumerate(tail) if o[0] == "fresh")
            rest = [o[0][1] if isinstance(o[0], list) else o[0] for o in tail[:fr]]
            nxt = [o[0][1] if isinstance(o[0], list) else o[0] for o in tail[fr + 1:]]
            want = ref[consumed:] + ["stop"] * (L + 1 - (L - consumed))
            if rest != want:
                fails.append(f"resumed at {consumed}: got {rest}, uninterrupted remainder {want}")
            if nxt != ref + ["stop"]:
                fails.append(f"epoch following the resumed one: {nxt} != {ref + ['stop']}")
            I = cfg.get("I", 1)
            nontriv = 0 < consumed < L and (cfg["kind"] == "iter" or (I and consumed % I))
            return dict(obs=obs, used=used, oracle="; ".join(fails[:2]) or None, nontrivial=bool(nontriv), key=[cfg, c["k"], c["chain"], used])
        # ---- free running (no arrival control): oracle only
        def mk():
            return si.make_loader(cfg)
        dl = mk()
        refs = [[si.norm_batch(b) for b in dl] for _ in range(4)]
        L = len(refs[0])
        dl = mk()
        it = iter(dl)
        seen = [si.norm_batch(next(it)) for _ in range(c["k"])]
        sd = dl.state_dict()
        for j in c["chain"]:
            dl = mk()
            dl.load_state_dict(sd)
            it = iter(dl)
            seen += [si.norm_batch(next(it)) for _ in range(j)]
            sd = dl.state_dict()
        consumed = c["k"] + sum(c["chain"])
        fin = bool(c.get("fin")) and consumed == L
        if fin:
            try:
                next(it)
                fails.append("no StopIteration after the last batch")
            except StopIteration:
                pass
            sd = dl.state_dict()
        del it
        dl = mk()
        dl.load_state_dict(sd)
        rest = [si.norm_batch(b) for b in dl]
        nxt = [si.norm_batch(b) for b in dl]
        nxt2 = [si.norm_batch(b) for b in dl]
        if seen != refs[0][:consumed]:
            fails.append(f"batches before the final resume {seen} != {refs[0][:consumed]}")
        if fin:
            # a state taken after the end of the epoch was seen resumes into the next epoch
            if [rest, nxt, nxt2] != refs[1:4]:
                fails.append(f"state taken after the end of epoch 0: the resumed loader yields {rest},{nxt},{nxt2}; the uninterrupted loader's next epochs are {refs[1]},{refs[2]},{refs[3]}")
        else:
            if rest != refs[0][consumed:]:
                fails.append(f"resumed at {consumed}: got {rest}, uninterrupted remainder {refs[0][consumed:]}")
            if nxt != refs[1] or nxt2 != refs[2]:
                fails.append(f"FOLLOWING epochs after the resumed one differ: {nxt},{nxt2} vs {refs[1]},{refs[2]}")
        del dl
        return dict(oracle="; ".join(fails[:2]) or None, nontrivial=0 < consumed < L, key=[cfg, c["k"], c["chain"]],
                    following_only=bool(fails) and all(f.startswith("FOLLOWING") for f in fails))
    finally:
        si.kill_children()


def model_term(c, r):
    cfg = c["cfg"]
    L = len(si.batches_ref(cfg))
    return f"sdl_obs {si.coq_cfg(cfg)} {si.coq_sops(ops_of(c, L))} {si.clist([str(x) for x in r['used']])}"


def known_match(f, case, detail):
    # D13: num_workers=0, shuffle with a generator shared by sampler and loader: only the FOLLOWING epoch differs
    if f["id"] != "D13" or case is None or case.get("kind") != "free":
        return False
    cfg = case["cfg"]
    return cfg["W"] == 0 and bool(cfg.get("shuffle")) and isinstance(detail, dict) and str(detail.get("oracle", "")).startswith("FOLLOWING")


def widen(c, rng):
    L = len(si.batches_ref(c["cfg"]))
    return [dict(c, k=k, chain=[]) for k in range(L + 1)][:12]
