"""C10 — StatefulDataLoader surfaces dataset errors at the right batch and carries on."""
import sdl_impl as si

PID = "C10"
IMPORTS = "SdlModel SdlObs"
FUNCS = ["torchdata/stateful_dataloader/stateful_dataloader.py:_StatefulMultiProcessingDataLoaderIter._process_data",
         "torchdata/stateful_dataloader/stateful_dataloader.py:_StatefulMultiProcessingDataLoaderIter._next_data",
         "torchdata/stateful_dataloader/stateful_dataloader.py:_StatefulMultiProcessingDataLoaderIter._take_snapshot",
         "torchdata/stateful_dataloader/stateful_dataloader.py:_StatefulMultiProcessingDataLoaderIter._reset",
         "torchdata/stateful_dataloader/stateful_dataloader.py:_StatefulSingleProcessDataLoaderIter._next_data",
         "torchdata/stateful_dataloader/worker.py:_worker_loop"]
RULE = ("(sched) map-style datasets with every kind of failing-index subset (0-3 indices) x 1-3 real workers x batch sizes x prefetch x snapshot interval under random "
        "arrival schedules; the consumer catches and continues for a whole epoch; every next() is compared with the model (OErr at the failing task, bookkeeping, "
        "state_dict); (free) num_workers=0, errors raised by collate_fn, by worker_init_fn (must surface on the first next()), by an iterator-class IterableDataset "
        "(batch_size None/1); oracle: the consumer-visible sequence == reference sequence with the same exception type at exactly the failing batches and nothing "
        "lost after them; non-trivial = >= 1 failing batch that is not the last one; distinct = distinct (config, failing set, schedule)")
TRUSTED = ["arrival schedules realised by sdl_impl.ArrivalCtx with real worker processes"]
ASSUMPTIONS = ["a failing __getitem__/collate call has no side effect on later calls (the harness datasets are pure)"]
NPROC = 10
CASE_TIMEOUT = 240


def gen_cases(rng, tier, drift):
    n_s, n_f = (90, 60) if tier == "quick" and not drift else (1500, 900)
    cases = []
    for _ in range(n_s):
        cfg = si.gen_cfg(rng, kinds=("map",), errors=True)
        if cfg["n"] and not cfg.get("bad") and rng.random() < 0.7:
            cfg["bad"] = [rng.randrange(cfg["n"])]
        L = len(si.batches_ref(cfg))
        cases.append(dict(kind="sched", cfg=cfg, choices=[(100 if rng.random() < 0.12 else rng.randint(0, 5)) for _ in range(3 * L + 12)]))
    for _ in range(n_f):
        mode = rng.choice(["w0", "collate", "init", "itererr", "unordered"])
        if mode == "itererr":
            W = rng.choice([0, 1, 2, 3])
            sizes = [rng.randint(0, 5) for _ in range(max(1, W))]
            allit = [x for w, n in enumerate(sizes) for x in si.shard_items(w, n)]
            cfg = dict(kind="iter", W=W, P=rng.choice([1, 2]), I=rng.choice([1, 2, 3]), bs=rng.choice([None, 1]), drop=False, sizes=sizes,
                       bad=sorted(rng.sample(allit, min(len(allit), rng.randint(0, 2)))))
        else:
            cfg = si.gen_cfg(rng, kinds=("map",), errors=(mode == "w0"))
            cfg["n"] = max(cfg["n"], 1)
            if mode == "unordered":
                cfg["W"] = rng.choice([2, 3])
                cfg["I"] = 1
                cfg["bad"] = sorted(rng.sample(range(cfg["n"]), min(cfg["n"], rng.randint(1, 2))))
            elif mode == "w0":
                cfg["W"] = 0
                cfg.setdefault("bad", [])
                if not cfg["bad"]:
                    cfg["bad"] = [rng.randrange(cfg["n"])]
            elif mode == "collate":
                cfg["W"] = rng.choice([0, 1, 2, 3])
                cfg["cbad"] = sorted(rng.sample(range(cfg["n"]), min(cfg["n"], rng.randint(1, 2))))
            else:
                cfg["W"] = rng.choice([1, 2, 3])
                cfg["ibad"] = sorted(rng.sample(range(cfg["W"]), rng.randint(1, cfg["W"])))
            if cfg.get("I", 1) > 1 and rng.random() < 0.6:
                cfg["I"] = 1
        cases.append(dict(kind="free", mode=mode, cfg=cfg))
    # the KIND of exception the dataset raises (incl. the ones the loader machinery uses itself: StopIteration, KeyError, an exception whose
    # constructor takes several arguments, ...): it must reach the consumer as that exception, at that batch, whatever the worker count
    for _ in range(n_f // 3):
        cfg = si.gen_cfg(rng, kinds=("map",))
        cfg["n"] = rng.randint(3, 9)
        cfg["I"] = 1
        cfg["W"] = rng.choice([0, 1, 2, 2, 3])
        cfg["bad"] = [rng.randrange(cfg["n"])]
        cases.append(dict(kind="free", mode="exckind", cfg=cfg, exc=rng.choice(EXC_KINDS)))
    # a worker_init_fn that fails in SOME workers while another worker is slow to start (longer than the liveness poll of the main process)
    for i in range(2 if tier == "quick" and not drift else 8):
        W = rng.choice([2, 3])
        bad = rng.randrange(W)
        cfg = si.gen_cfg(rng, kinds=("map",))
        cfg.update(n=max(cfg["n"], 2), W=W, I=1, ibad=[bad], islow=[(bad + 1) % W])
        cases.append(dict(kind="free", mode="init_slow", cfg=cfg))
    return cases


# (exception classes whose constructor needs several arguments are outside the claim: torch's own ExceptionWrapper.reraise, which the
#  loader inherits, documents that it re-raises those as RuntimeError)
EXC_KINDS = ["ValueError", "KeyError", "StopIteration", "RuntimeError", "AssertionError", "TimeoutError", "IndexError", "OSError"]


class TwoArgs(Exception):
    def __init__(self, a, b):
        super().__init__(a, b)
        self.a, self.b = a, b


class ExcDS:
    """map-style dataset that raises a chosen kind of exception at the bad indices"""

    def __init__(self, n, bad, kind):
        self.n, self.bad, self.kind = n, set(bad), kind

    def __len__(self):
        return self.n

    def __getitem__(self, i):
        if i in self.bad:
            if self.kind == "TwoArgs":
                raise TwoArgs("bad", i)
            raise {"ValueError": ValueError, "KeyError": KeyError, "StopIteration": StopIteration, "RuntimeError": RuntimeError,
                   "AssertionError": AssertionError, "TimeoutError": TimeoutError, "IndexError": IndexError, "OSError": OSError}[self.kind](f"bad index {i}")
        return i


class InitSlowBad:
    """worker_init_fn: raises in some workers, sleeps longer than the main process's liveness poll in others"""

    def __init__(self, bad, slow, secs=6.5):
        self.bad, self.slow, self.secs = set(bad), set(slow), secs

    def __call__(self, wid):
        if wid in self.slow:
            import time
            time.sleep(self.secs)
        if wid in self.bad:
            raise OSError(f"init of worker {wid} failed")


def distribution(cases):
    d = {}
    for c in cases:
        k = c["kind"] + ("/" + c["mode"] if "mode" in c else "") + f"/W{c['cfg']['W']}/I{c['cfg'].get('I', 1)}"
        d[k] = d.get(k, 0) + 1
    return d


def expected(cfg, badset, exc):
    out = []
    for b in si.batches_ref(cfg):
        items = b if isinstance(b, list) else [b]
        out.append(exc if any(x in badset for x in items) else items)
    return out


def drain(dl, limit):
    try:
        it = iter(dl)
    except Exception as e:  # noqa   (start-up errors are delivered while the iterator is being created)
        return ["err:" + type(e).__name__]
    out = []
    for _ in range(limit):
        try:
            out.append(si.norm_batch(next(it)))
        except StopIteration:
            out.append("stop")
            break
        except Exception as e:  # noqa
            out.append("err:" + type(e).__name__)
    del it
    return out


def run_impl(c):
    cfg = c["cfg"]
    fails = []
    try:
        if c["kind"] == "sched":
            L = len(si.batches_ref(cfg))
            ops = [["fresh"]] + [["next"]] * (L + 1)
            types = []
            obs, used, _ = si.run_history(cfg, ops, c["choices"], exc_types=types)
            got = [o[0][1] if isinstance(o[0], list) else o[0] for o in obs[1:]]
            want = expected(cfg, set(cfg.get("bad", ())), "err") + ["stop"]
            if got != want:
                fails.append(f"consumer saw {got}, reference {want}")
            if any(t != "ValueError" for t in types):
                fails.append(f"exception types {types}, dataset raises ValueError")
            nfail = sum(1 for x in want if x == "err")
            return dict(obs=obs, used=used, oracle="; ".join(fails) or None,
                        nontrivial=nfail >= 1 and want.index("err") < len(want) - 2, key=[cfg, used])
        mode = c["mode"]
        if mode == "exckind":
            from torchdata.stateful_dataloader import StatefulDataLoader
            kw = dict(batch_size=cfg["bs"], num_workers=cfg["W"], collate_fn=si.identity)
            if cfg["bs"] is not None:
                kw["drop_last"] = cfg.get("drop", False)
            if cfg["W"]:
                kw["prefetch_factor"] = cfg["P"]
            dl = StatefulDataLoader(ExcDS(cfg["n"], cfg["bad"], c["exc"]), **kw)
            want = expected(cfg, set(cfg["bad"]), "err:" + c["exc"])
            L = len(want)
            it = iter(dl)
            got = []
            for _ in range(L):
                try:
                    got.append(si.norm_batch(next(it)))
                except StopIteration:
                    got.append("err:StopIteration")
                except Exception as e:  # noqa
                    got.append("err:" + type(e).__name__)
                    if type(e).__name__ == "RuntimeError" and "exited unexpectedly" in str(e):
                        got[-1] = "err:WORKER-DIED"
            del it, dl
            k = next((i for i, x in enumerate(want) if isinstance(x, str)), None)
            if c["exc"] == "StopIteration":
                # a StopIteration out of the dataset ends the consumer's loop at that batch (that is Python's protocol): what must not
                # happen is a dead worker / a different error / a wrong batch before it
                if k is not None and got[:k + 1] != want[:k] + ["err:StopIteration"]:
                    fails.append(f"dataset raises StopIteration at batch {k}: consumer saw {got[:k + 1]}, expected {want[:k] + ['err:StopIteration']}")
            elif got != want:
                fails.append(f"dataset raises {c['exc']}: consumer saw {got}, reference {want}")
            return dict(oracle="; ".join(fails) or None, nontrivial=k is not None and cfg["W"] > 0, key=[mode, cfg, c["exc"]])
        if mode == "init_slow":
            dl = si.make_loader(cfg, worker_init_fn=InitSlowBad(cfg["ibad"], cfg["islow"]))
            got = drain(dl, 2)
            del dl
            if not got or got[0] != "err:OSError":
                fails.append(f"worker_init_fn fails in worker {cfg['ibad']} while worker {cfg['islow']} is slow to start: the first next() gave {got}, expected the OSError of worker_init_fn")
            return dict(oracle="; ".join(fails) or None, nontrivial=True, key=[mode, cfg])
        extra = {}
        if mode == "collate":
            extra["collate_fn"] = si.CollateBad(cfg["cbad"])
        if mode == "init":
            extra["worker_init_fn"] = si.InitBad(cfg["ibad"])
        if mode == "unordered":
            extra["in_order"] = False
        if mode == "itererr":
            from torchdata.stateful_dataloader import StatefulDataLoader
            kw = dict(batch_size=cfg["bs"], num_workers=cfg["W"], collate_fn=si.identity, snapshot_every_n_steps=cfg["I"])
            if cfg["W"]:
                kw["prefetch_factor"] = cfg["P"]
            dl = StatefulDataLoader(si.IterErrClass(cfg["sizes"], cfg["bad"]), **kw)
            want = expected(cfg, set(cfg["bad"]), "err:ValueError") + ["stop"]
        else:
            dl = si.make_loader(cfg, **extra)
            if mode in ("w0", "unordered"):
                want = expected(cfg, set(cfg["bad"]), "err:ValueError") + ["stop"]
            elif mode == "collate":
                want = expected(cfg, set(cfg["cbad"]), "err:KeyError") + ["stop"]
            else:
                want = None
        L = len(si.batches_ref(cfg))
        got = drain(dl, L + 3)
        if mode == "init":
            if not got or got[0] != "err:OSError":
                fails.append(f"worker_init_fn error not surfaced on the first next(): {got}")
        elif mode == "unordered":
            if sorted(map(str, got[:-1])) != sorted(map(str, want[:-1])) or got[-1:] != ["stop"]:
                fails.append(f"in_order=False: consumer saw {got}, reference multiset {want}")
        elif got != want:
            fails.append(f"consumer saw {got}, reference {want}")
        del dl
        nt = want is None or any(isinstance(x, str) and x.startswith("err") for x in want[:-2])
        return dict(oracle="; ".join(fails) or None, nontrivial=bool(nt), key=[mode, cfg])
    finally:
        si.kill_children()


def model_term(c, r):
    cfg = c["cfg"]
    L = len(si.batches_ref(cfg))
    ops = [["fresh"]] + [["next"]] * (L + 1)
    return f"sdl_obs {si.coq_cfg(cfg)} {si.coq_sops(ops)} {si.clist([str(x) for x in r['used']])}"


def known_match(f, case, detail):
    # D9: map-style, num_workers>0, snapshot_every_n_steps>1, at least one failing batch (incl. collate errors)
    if f["id"] != "D9" or case is None:
        return False
    cfg = case["cfg"]
    has_err = bool(cfg.get("bad")) or bool(cfg.get("cbad"))
    return cfg["kind"] == "map" and cfg["W"] >= 1 and cfg.get("I", 1) >= 2 and has_err and \
        ("assert" in str(detail) or "AssertionError" in str(detail))


def widen(c, rng):
    if c["kind"] != "sched":
        return []
    return [dict(c, choices=[(100 if rng.random() < 0.12 else rng.randint(0, 5)) for _ in range(len(c["choices"]))]) for _ in range(10)]
