"""C16 — an incompatible checkpoint is rejected, never silently mis-resumed."""
import gc
import multiprocessing
import time

import sdl_impl as si

PID = "C16"
IMPORTS = "SdlCompat"
FUNCS = ["torchdata/stateful_dataloader/stateful_dataloader.py:_StatefulMultiProcessingDataLoaderIter.__init__",
         "torchdata/stateful_dataloader/stateful_dataloader.py:_StatefulMultiProcessingDataLoaderIter._restore_main_state",
         "torchdata/stateful_dataloader/stateful_dataloader.py:_StatefulSingleProcessDataLoaderIter.load_state_dict",
         "torchdata/stateful_dataloader/stateful_dataloader.py:StatefulDataLoader._get_iterator",
         "torchdata/stateful_dataloader/stateful_dataloader.py:StatefulDataLoader.load_state_dict",
         "torchdata/stateful_dataloader/stateful_dataloader.py:StatefulDataLoader.__iter__"]
RULE = ("EXHAUSTIVE over ordered pairs (saving num_workers, loading num_workers) in 0..3 x 0..3 x {map-style, iterable} with a random interruption point and batch "
        "settings each: the state is saved by a real loader, loaded into a real loader; observed: exception vs data on iter()/first next(), a retry of iter() without a new "
        "load, live child processes after the rejection, then a valid state loaded into the same loader and drained; plus load_state_dict({}) cases; compared with the "
        "constructor model; non-trivial = the pair differs; distinct = distinct (pair, kind, k)")
TRUSTED = ["CPython runs __del__ of the half-built iterator when the exception unwinds (observed, not modelled)"]
ASSUMPTIONS = []
NPROC = 8
CASE_TIMEOUT = 240


def gen_cases(rng, tier, drift):
    reps = 1 if tier == "quick" and not drift else 6
    cases = []
    for _ in range(reps):
        for Ws in range(4):
            for Wl in range(4):
                for kind in ("map", "iter"):
                    cfg = si.gen_cfg(rng, kinds=(kind,))
                    cfg["bs"] = rng.choice([1, 2])
                    if kind == "map":
                        cfg["n"] = rng.randint(4, 9)
                    else:
                        cfg["sizes"] = [rng.randint(1, 4) for _ in range(4)]
                        cfg["stateful"] = rng.random() < 0.7
                    cases.append(dict(cfg=cfg, Ws=Ws, Wl=Wl, k=rng.randint(0, 2), empty=False))
                    # the same pair with a state taken AFTER the end of the epoch was seen (StopIteration): the loader that loads it starts
                    # the next epoch - and must still reject a state saved with another worker count
                    cases.append(dict(cfg=dict(cfg), Ws=Ws, Wl=Wl, k=99, empty=False, fin=True))
                # the fast-forward resume path (an IterableDataset with no state of its own: the loader replays the batches)
                # has its own guards; every mismatching pair is also tried there, at interruption points where the
                # last-yielded-worker cross-check happens to agree
                if Ws != Wl:
                    cfg = si.gen_cfg(rng, kinds=("iter",))
                    cfg.update(bs=rng.choice([1, 2]), sizes=[rng.randint(3, 5) for _ in range(4)], stateful=False, rewind=False, eager=False, I=1)
                    ks = [k for k in (1, 2, 3) if Ws == 0 or Wl == 0 or (k - 1) % Ws == (k - 1) % Wl]
                    cases.append(dict(cfg=cfg, Ws=Ws, Wl=Wl, k=rng.choice(ks), empty=False))
        for W in range(4):
            cfg = si.gen_cfg(rng, kinds=("map",))
            cfg["n"], cfg["bs"] = rng.randint(3, 8), 2
            cases.append(dict(cfg=cfg, Ws=W, Wl=W, k=1, empty=True))
            # {} loaded into a loader whose state_dict() was taken before any iteration (that call builds the iterator),
            # and into one that has just been given a valid state
            cases.append(dict(cfg=dict(cfg), Ws=W, Wl=W, k=1, empty=True, before="state"))
            cases.append(dict(cfg=dict(cfg), Ws=W, Wl=W, k=1, empty=True, before="load+state"))
    return cases


def distribution(cases):
    d = {"pairs": len({(c["Ws"], c["Wl"]) for c in cases}), "mismatching": sum(c["Ws"] != c["Wl"] for c in cases), "empty_dict": sum(c["empty"] for c in cases)}
    return d


def with_w(cfg, W):
    c = dict(cfg, W=W)
    if c["kind"] == "iter":
        c["sizes"] = cfg["sizes"][:max(1, W)]
    return c


def children(wait=6.0):
    gc.collect()
    t0 = time.time()
    n = len(multiprocessing.active_children())
    while n and time.time() - t0 < wait:
        time.sleep(0.05)
        gc.collect()
        n = len(multiprocessing.active_children())
    return n


def first_iteration(dl):
    """('raises', type) | ('data', batches of the rest of the epoch)"""
    try:
        it = iter(dl)
        out = [si.norm_batch(b) for b in it]
        del it
        return ["data", out]
    except BaseException as e:  # noqa
        return ["raises", type(e).__name__]


def run_impl(c):
    fails = []
    try:
        cs, cl = with_w(c["cfg"], c["Ws"]), with_w(c["cfg"], c["Wl"])
        dl = si.make_loader(cs)
        it = iter(dl)
        for _ in range(min(c["k"], len(si.batches_ref(cs)))):
            next(it)
        if c.get("fin"):
            try:
                next(it)
                fails.append("no StopIteration after the last batch")
            except StopIteration:
                pass
        sd = dl.state_dict()
        del it, dl
        children()
        ref_l = [b if isinstance(b, list) else [b] for b in si.batches_ref(cl)]
        dl2 = si.make_loader(cl)
        if c["empty"]:
            if c.get("before") == "load+state":
                dl2.load_state_dict(sd)      # consumed by the iterator that state_dict() builds, which {} then drops: a fresh epoch
            if c.get("before"):
                dl2.state_dict()
            dl2.load_state_dict({})
            r = first_iteration(dl2)
            if r != ["data", ref_l]:
                fails.append(f"load_state_dict({{}}) then iteration: {r}, expected a fresh epoch {ref_l}")
            return dict(obs=["empty", r[0]], oracle="; ".join(fails) or None, nontrivial=True, key=[c["Ws"], c["cfg"]["kind"], "empty", c.get("before")])
        dl2.load_state_dict(sd)
        r1 = first_iteration(dl2)
        left = children() if r1[0] == "raises" else 0
        same = c["Ws"] == c["Wl"]
        obs = [r1[0], left]
        if same and c.get("fin"):
            if r1[0] != "data":      # (what the next epoch contains is C01/C13's subject and depends on the dataset's own end-of-epoch state)
                fails.append(f"same num_workers={c['Wl']}, state taken after the end of the epoch: a valid state was rejected: {r1}")
        elif same:
            k = min(c["k"], len(ref_l))
            if r1 != ["data", ref_l[k:]]:
                fails.append(f"same num_workers={c['Wl']}: resumed iteration gave {r1}, expected {ref_l[k:]}")
        else:
            if r1[0] != "raises":
                fails.append(f"state saved with num_workers={c['Ws']} loaded with num_workers={c['Wl']} was NOT rejected: yielded {r1[1]}")
            if left:
                fails.append(f"{left} worker process(es) still alive after the rejected load")
            r2 = first_iteration(dl2)            # retry without loading anything else
            obs.append(r2[0])
            if r2[0] != "raises" and r1[0] == "raises":
                fails.append(f"retrying iter() after the rejected load silently yielded {r2[1]}")
            left2 = children() if r2[0] == "raises" else 0
            if left2:
                fails.append(f"{left2} worker process(es) alive after the second rejection")
            # the loader remains usable after a valid state is loaded
            dv = si.make_loader(cl)
            itv = iter(dv)
            kv = min(1, len(ref_l))
            for _ in range(kv):
                next(itv)
            sdv = dv.state_dict()
            del itv, dv
            dl2.load_state_dict(sdv)
            r3 = first_iteration(dl2)
            obs.append(r3[0])
            if r3 != ["data", ref_l[kv:]]:
                fails.append(f"after a valid load the loader gave {r3}, expected {ref_l[kv:]}")
        del dl2
        return dict(obs=obs, oracle="; ".join(fails[:2]) or None, nontrivial=not same, key=[c["Ws"], c["Wl"], c["cfg"]["kind"], c["k"]])
    finally:
        si.kill_children()


def model_term(c, r):
    Ws, Wl = c["Ws"], c["Wl"]
    if c["empty"]:
        f0 = "{| fc_pending := None; fc_children := 0 |}"      # (a state loaded before was consumed by state_dict()'s iterator)
        return ('OL [OS "empty"; match fst (fc_iter %d (fc_load %s None)) with IterOk => OS "data" | IterRaises => OS "raises" end]' % (Wl, f0))
    res = 'fun r => match r with IterOk => OS "data" | IterRaises => OS "raises" end'
    if Ws == Wl:
        return (f'let \'(r1, f1) := fc_iter {Wl} (fc_load {{| fc_pending := None; fc_children := 0 |}} (Some (shape_of {Ws}))) in '
                f'OL [({res}) r1; OZ 0]')
    return (f'let \'(r1, f1) := fc_iter {Wl} (fc_load {{| fc_pending := None; fc_children := 0 |}} (Some (shape_of {Ws}))) in '
            f'let \'(r2, f2) := fc_iter {Wl} f1 in let \'(r3, f3) := fc_iter {Wl} (fc_load f2 (Some (shape_of {Wl}))) in '
            f'OL [({res}) r1; onat (fc_children f1); ({res}) r2; ({res}) r3]')


def widen(c, rng):
    return []
