#!/bin/bash
# coqdbg.sh <file.v> <line> — show the proof state just before <line> (development aid)
f="$1"; n="$2"
head -n $((n-1)) "$f" > /tmp/coqdbg_$$.v
echo "Show." >> /tmp/coqdbg_$$.v
cd ${COQDIR:-/verif/coq} && timeout 120 coqtop -Q theories PD -w -notation-overridden -batch -l /tmp/coqdbg_$$.v 2>&1 | tail -${3:-40}
rm -f /tmp/coqdbg_$$.v
