#!/bin/bash
# coqchk.sh — independent re-check of the compiled development (every Properties_Cxx.vo and everything it depends on) with
# Coq's stand-alone checker; prints the axioms the whole development relies on. Development aid (3-10 min); its last output
# is kept in /verif/evidence/coqchk.txt.
cd "$(dirname "$0")/../coq" || exit 2
make > /dev/null 2>&1
{ echo "# coqchk -o over $(ls theories/Properties_C*.v | wc -l) property files at $(git -C /verif rev-parse --short HEAD), $(coqc --version | head -1)";
  timeout 3000 coqchk -silent -o -Q theories PD $(ls theories/Properties_C*.v | sed "s#theories/#PD.#; s#\.v##"); echo "exit status: $?"; } > ../evidence/coqchk.txt 2>&1
tail -12 ../evidence/coqchk.txt
