#!/usr/bin/env python3
"""mkmodelmap.py — record the normalised-AST hashes of every function a property's model transcribes (FUNCS of the
property modules) at the current /repo tree into /verif/modelmap.json.  check.py compares the working tree against it on
every run (lib.drifted): a modelled function whose body changed makes the quick tier generate thorough-sized case sets, so
that a change to exactly the code a model stands for is met with the widest search.  Regenerate after a deliberate change
to /repo (a fix: commit) with:  python3 harness/mkmodelmap.py"""
import importlib, json, os, sys
HERE = os.path.dirname(os.path.abspath(__file__))
sys.path.insert(0, HERE)
sys.path.insert(0, os.path.join(HERE, "props"))
import lib

funcs = []
for i in range(1, 18):
    mod = importlib.import_module(f"c{i:02d}")
    for f in getattr(mod, "FUNCS", []):
        if f not in funcs:
            funcs.append(f)
h = lib.source_hashes(funcs)
missing = [k for k, v in h.items() if v == "MISSING"]
if missing:
    print("unresolved:", missing)
json.dump(h, open(os.path.join(lib.VERIF, "modelmap.json"), "w"), indent=1, sort_keys=True)
print(len(h), "functions recorded;", len(missing), "unresolved")
