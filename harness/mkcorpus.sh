#!/bin/bash
# mkcorpus.sh <patch-file> <name> <Cxx> [<Cxx> ...] — development aid: apply a seeded change (or the revert of a repaired defect)
# to a scratch copy of /repo, run the named checks against it and keep up to two of the failing CASES of each as
# /verif/corpus/<Cxx>/<name>_<n>.json. Corpus cases are run first by every later check (check.py:load_corpus), so a change that
# re-introduces one of these faults is met by the very input that exposed it. Every corpus case passes on the unchanged tree.
PATCH="$(readlink -f "$1")"; NAME="$2"; shift 2
D=$(mktemp -d /var/tmp/pdverif-corpus.XXXXXX)
trap 'rm -rf "$D"' EXIT
rsync -a --exclude .git --exclude '*.egg-info' --exclude __pycache__ /repo/ "$D"/
( cd "$D" && git init -q . >/dev/null 2>&1; git apply --whitespace=nowarn "$PATCH" ) || { echo "$NAME: PATCH DOES NOT APPLY"; exit 2; }
H="$(dirname "$(readlink -f "$0")")"
for P in "$@"; do
  R="$D/replays_$P"; mkdir -p "$R"
  VERIF_REPO="$D" VERIF_NO_EVIDENCE=1 VERIF_NO_DRIFT=1 VERIF_REPLAY_DIR="$R" "$H"/run.sh "$P" quick > "$D/out_$P.txt" 2>&1
  /venv/bin/python - "$R" "$P" "$NAME" <<'PY'
import json, os, sys, glob
r, pid, name = sys.argv[1:4]
out = os.path.join("/verif/corpus", pid); n = 0
for f in sorted(glob.glob(os.path.join(r, "**", "*.json"), recursive=True)):
    try:
        d = json.load(open(f))
    except Exception:
        continue
    c = d.get("case")
    if not isinstance(c, dict) or d.get("known_finding"):
        continue
    os.makedirs(out, exist_ok=True)
    json.dump(c, open(os.path.join(out, f"{name}_{n}.json"), "w"))
    n += 1
    if n >= 2:
        break
print(f"{name} {pid}: {n} case(s) kept")
PY
done
