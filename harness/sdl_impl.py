"""Real StatefulDataLoader runs under a scheduled result-arrival order (real worker processes), the harness datasets, and
the abstraction of the main-process iterator state to the vocabulary of SdlModel.v (shared by C01, C03, C05, C09, C10, C16, C17)."""
import multiprocessing
import multiprocessing.context as mpc
import os
import queue
import signal
import time

import torch
import torch.utils.data as tud

from lib import cbool, clist


# ------------------------------------------------------------------ datasets (picklable; module level)
class MapDS(tud.Dataset):
    def __init__(self, n, bad=()):
        self.n, self.bad = n, set(bad)

    def __len__(self):
        return self.n

    def __getitem__(self, i):
        if i in self.bad:
            raise ValueError(f"bad index {i}")
        return i


def shard_items(w, n):
    return [w * 100 + i for i in range(n)]


class CollateBad:
    """collate_fn that raises on batches containing a marked value"""

    def __init__(self, bad):
        self.bad = set(bad)

    def __call__(self, batch):
        items = batch if isinstance(batch, list) else [batch]
        if any(x in self.bad for x in items):
            raise KeyError(f"collate refuses {items}")
        return batch


class InitBad:
    """worker_init_fn that raises in the given workers"""

    def __init__(self, workers):
        self.workers = set(workers)

    def __call__(self, wid):
        if wid in self.workers:
            raise OSError(f"init of worker {wid} failed")


class IterErrClass(tud.IterableDataset):
    """iterator CLASS (not a generator) that raises at given items and can go on afterwards"""

    def __init__(self, sizes, bad):
        self.sizes, self.bad = sizes, set(bad)

    def __iter__(self):
        wi = tud.get_worker_info()
        w = wi.id if wi else 0
        items = shard_items(w, self.sizes[w]) if wi else [x for i, n in enumerate(self.sizes) for x in shard_items(i, n)]
        return _ErrIt(items, self.bad)


class _ErrIt:
    def __init__(self, items, bad):
        self.items, self.bad, self.i = items, bad, 0

    def __iter__(self):
        return self

    def __next__(self):
        if self.i >= len(self.items):
            raise StopIteration
        self.i += 1
        x = self.items[self.i - 1]
        if x in self.bad:
            raise ValueError(f"bad item {x}")
        return x


class IterPlain(tud.IterableDataset):
    """no state_dict: resume is by fast-forward"""

    def __init__(self, sizes):
        self.sizes = sizes

    def __iter__(self):
        wi = tud.get_worker_info()
        w = wi.id if wi else 0
        items = shard_items(w, self.sizes[w]) if wi else [x for i, n in enumerate(self.sizes) for x in shard_items(i, n)]
        return iter(items)


class IterSlow(IterPlain):
    """IterPlain whose worker `w` sleeps `secs` before yielding its item number `pos` (a slow stretch while other workers have already retired)"""

    def __init__(self, sizes, slow):
        super().__init__(sizes)
        self.slow = slow

    def __iter__(self):
        import time
        wi = tud.get_worker_info()
        w, pos, secs = self.slow
        for i, x in enumerate(super().__iter__()):
            if wi is not None and wi.id == w and i == pos:
                time.sleep(secs)
            yield x


class IterStateful(tud.IterableDataset):
    """dataset-level state {'i': position}; README style: the position is rewound when __iter__ runs to its end (rewind=True)"""

    def __init__(self, sizes, rewind):
        self.sizes, self.rewind, self.i = sizes, rewind, 0

    def __iter__(self):
        wi = tud.get_worker_info()
        w = wi.id if wi else 0
        items = shard_items(w, self.sizes[w]) if wi else [x for i, n in enumerate(self.sizes) for x in shard_items(i, n)]
        while self.i < len(items):
            self.i += 1
            yield items[self.i - 1]
        if self.rewind:
            self.i = 0

    def state_dict(self):
        return {"i": self.i}

    def load_state_dict(self, sd):
        self.i = sd["i"]


class IterStatefulEager(tud.IterableDataset):
    """dataset-level state like IterStateful, but __iter__ reads the restored position WHEN IT IS CALLED (returns an iterator
    object) instead of lazily at the first next() as a generator does"""

    def __init__(self, sizes, rewind):
        self.sizes, self.rewind, self.i = sizes, rewind, 0

    def __iter__(self):
        wi = tud.get_worker_info()
        w = wi.id if wi else 0
        items = shard_items(w, self.sizes[w]) if wi else [x for i, n in enumerate(self.sizes) for x in shard_items(i, n)]
        return _EagerIt(self, items, self.i)

    def state_dict(self):
        return {"i": self.i}

    def load_state_dict(self, sd):
        self.i = sd["i"]


class _EagerIt:
    def __init__(self, ds, items, start):
        self.ds, self.items, self.pos = ds, items, start

    def __iter__(self):
        return self

    def __next__(self):
        if self.pos >= len(self.items):
            if self.ds.rewind:
                self.ds.i = 0
            raise StopIteration
        self.pos += 1
        self.ds.i = self.pos
        return self.items[self.pos - 1]


class IterIterStateful(tud.IterableDataset):
    """the ITERATOR (not the dataset) carries the state: every __iter__ starts at the first item"""

    def __init__(self, sizes):
        self.sizes = sizes

    def __iter__(self):
        wi = tud.get_worker_info()
        w = wi.id if wi else 0
        items = shard_items(w, self.sizes[w]) if wi else [x for i, n in enumerate(self.sizes) for x in shard_items(i, n)]
        return _StatefulIt(items)


class _StatefulIt:
    def __init__(self, items):
        self.items, self.i = items, 0

    def __iter__(self):
        return self

    def __next__(self):
        if self.i >= len(self.items):
            raise StopIteration
        self.i += 1
        return self.items[self.i - 1]

    def state_dict(self):
        return {"i": self.i}

    def load_state_dict(self, sd):
        self.i = sd["i"]


def identity(x):
    return x


# ------------------------------------------------------------------ scheduled arrival (real processes)
class _SchedResultQueue:
    """The loader's result queue: one real mp.Queue per worker underneath; get() asks the schedule which worker's next
    result arrives now (per-worker FIFO is preserved; start-up acknowledgements are served first, in worker order)."""

    def __init__(self, n, chooser):
        ctx = multiprocessing.get_context("fork")
        self.qs = [ctx.Queue() for _ in range(n)]
        self.chooser = chooser
        self.pending = [0] * n         # data tasks sent and not yet answered
        self.acks = [0] * n            # handshake requests sent and not yet answered
        self.stopped = [False] * n
        self.log = []                  # (worker, kind) in arrival order
        self.events = []               # fault-level trace: ("arrive", index among the candidates, worker) | ("dead", worker) | ("timeout",)
        self.dead = set()

    # ---- worker side
    def put(self, obj, *a, **k):
        if obj is None or obj == (None, None):
            return
        _, payload = obj
        wid = payload.worker_id if hasattr(payload, "worker_id") and not isinstance(payload, tuple) else payload[1]
        self.qs[wid].put(obj)

    # ---- main side
    def get(self, timeout=None):
        from torch.utils.data._utils.worker import _IterableDatasetStopIteration
        for w, a in enumerate(self.acks):
            if a > 0:
                obj = self._get_from(w, timeout)
                self.acks[w] -= 1
                return obj
        cands = [w for w, p in enumerate(self.pending) if p > 0 and w not in self.dead]
        if not cands:
            raise queue.Empty
        w = self.chooser(cands)
        if w is None:                  # the schedule says: this poll of the result queue times out
            self.log.append((-1, "timeout"))
            self.events.append(("timeout",))
            raise queue.Empty
        try:
            obj = self._get_from(w, timeout)
        except queue.Empty:
            if w in self.dead:
                self.events.append(("dead", w))
            raise
        self.events.append(("arrive", sorted(cands).index(w), w))
        self.pending[w] -= 1
        data = obj[1][0] if isinstance(obj[1], tuple) else None
        if isinstance(data, _IterableDatasetStopIteration):
            self.stopped[w] = True
            self.pending[w] = 0
            self.log.append((w, "stop"))
        else:
            self.log.append((w, "data"))
        return obj

    def _get_from(self, w, timeout):
        t_end = time.time() + (timeout if timeout else 30)
        while True:
            try:
                return self.qs[w].get(timeout=0.05)
            except queue.Empty:
                if self.is_dead is not None and self.is_dead(w):
                    self.dead.add(w)
                    raise
                if time.time() > t_end:
                    raise

    is_dead = None

    def cancel_join_thread(self):
        for q in self.qs:
            q.cancel_join_thread()

    def close(self):
        for q in self.qs:
            q.close()

    def empty(self):
        return all(q.empty() for q in self.qs)


class _IndexQueue:
    def __init__(self, rq, wid):
        self.q = multiprocessing.get_context("fork").Queue()
        self.rq, self.wid = rq, wid

    def put(self, obj):
        from torch.utils.data._utils.worker import _ResumeIteration
        from torchdata.stateful_dataloader.worker import _AckStartup
        if isinstance(obj, (_AckStartup, _ResumeIteration)):
            self.rq.acks[self.wid] += 1
            if isinstance(obj, _ResumeIteration):
                self.rq.stopped[self.wid] = False
                self.rq.pending[self.wid] = 0
        elif obj is not None and not self.rq.stopped[self.wid]:
            self.rq.pending[self.wid] += 1
        self.q.put(obj)

    def get(self, timeout=None):
        return self.q.get(timeout=timeout)

    def cancel_join_thread(self):
        self.q.cancel_join_thread()

    def close(self):
        self.q.close()


class ArrivalCtx(mpc.ForkContext):
    """multiprocessing context handed to StatefulDataLoader: the first Queue() of every iterator is the scheduled result
    queue, the next num_workers Queue()s are its index queues."""

    def __init__(self, nworkers, chooser):
        self.n, self.chooser = nworkers, chooser
        self.rq, self.k = None, 0
        self.all_rq = []

    def Queue(self, *a, **k):
        if self.rq is None or self.k >= self.n:
            self.rq = _SchedResultQueue(self.n, self.chooser)
            self.all_rq.append(self.rq)
            self.k = 0
            return self.rq
        q = _IndexQueue(self.rq, self.k)
        self.k += 1
        return q


class Schedule:
    """A schedule is a list of naturals; the n-th arrival picks candidate number (s[n] mod #candidates); the list is
    extended with zeros when exhausted. `used` records what was consumed (replayed in the model)."""

    def __init__(self, choices):
        self.choices, self.pos, self.used, self.timeouts = list(choices), 0, [], 0

    def __call__(self, cands):
        c = self.choices[self.pos] if self.pos < len(self.choices) else 0
        self.pos += 1
        if c >= 100:                   # a timeout of the main process's poll (no effect in the model: not recorded in `used`)
            self.timeouts += 1
            return None
        self.used.append(c)
        return sorted(cands)[c % len(cands)]


# ------------------------------------------------------------------ configurations
def make_dataset(cfg):
    if cfg["kind"] == "map":
        return MapDS(cfg["n"], cfg.get("bad", ()))
    if cfg.get("slow"):
        return IterSlow(cfg["sizes"], tuple(cfg["slow"]))
    if cfg.get("iterstate"):
        return IterIterStateful(cfg["sizes"])
    if cfg.get("stateful"):
        return (IterStatefulEager if cfg.get("eager") else IterStateful)(cfg["sizes"], cfg.get("rewind", False))
    return IterPlain(cfg["sizes"])


def make_loader(cfg, sched=None, cls=None, **extra):
    from torchdata.stateful_dataloader import StatefulDataLoader
    cls = cls or StatefulDataLoader
    W = cfg["W"]
    kw = dict(batch_size=cfg["bs"], num_workers=W, collate_fn=identity)
    if cfg["bs"] is not None:
        kw["drop_last"] = cfg.get("drop", False)
    if W > 0:
        kw["prefetch_factor"] = cfg.get("P", 2)
        kw["persistent_workers"] = cfg.get("persistent", False)
        if sched is not None:
            kw["multiprocessing_context"] = ArrivalCtx(W, sched)
    if cls is StatefulDataLoader:
        kw["snapshot_every_n_steps"] = cfg.get("I", 1)
    if cfg["kind"] == "map" and cfg.get("sampler"):
        from torchdata.stateful_dataloader.sampler import RandomSampler
        g = torch.Generator()
        g.manual_seed(cfg.get("gseed", 0))
        sp = cfg["sampler"]
        ds = make_dataset(cfg)
        kw["sampler"] = RandomSampler(ds, replacement=sp["replacement"], num_samples=sp["num_samples"], generator=g)
        kw.update(extra)
        return cls(ds, **kw)
    if cfg["kind"] == "map" and cfg.get("shuffle"):
        g = torch.Generator()
        g.manual_seed(cfg.get("gseed", 0))
        kw["shuffle"] = True
        kw["generator"] = g
    kw.update(extra)
    return cls(make_dataset(cfg), **kw)


def tolist(b):
    if isinstance(b, torch.Tensor):
        return b.tolist()
    if isinstance(b, (list, tuple)):
        return [tolist(x) for x in b]
    return b


def batches_ref(cfg, epoch=0):
    """The reference stream of one epoch, as a plain list function (no library code): map-style = sequential index batches;
    iterable = column-major interleave of the per-worker batch lists."""
    bs, drop = cfg["bs"], cfg.get("drop", False)

    def chunks(xs):
        if bs is None:
            return [x for x in xs]
        out = [xs[i:i + bs] for i in range(0, len(xs), bs)]
        if out and len(out[-1]) < bs and drop:
            out.pop()
        return out
    if cfg["kind"] == "map":
        return chunks(list(range(cfg["n"])))
    W = cfg["W"]
    if W == 0:
        return chunks([x for i, n in enumerate(cfg["sizes"]) for x in shard_items(i, n)])
    per = [chunks(shard_items(w, cfg["sizes"][w])) for w in range(W)]
    out, r = [], 0
    while any(r < len(p) for p in per):
        for w in range(W):
            if r < len(per[w]):
                out.append(per[w][r])
        r += 1
    return out


def kill_children():
    """Reap whatever a case left behind. torch's SIGCHLD handler raises RuntimeError in the main thread when a worker that is
    still registered dies, so the kill and the reaping happen inside a try that absorbs exactly that."""
    import gc
    for _ in range(4):
        try:
            gc.collect()
            ch = multiprocessing.active_children()
            if not ch:
                return
            for p in ch:
                p.kill()
            for p in ch:
                p.join(1.0)
            time.sleep(0.02)
        except RuntimeError:
            continue


# ------------------------------------------------------------------ abstraction of iterator state / state dicts
def abs_wsave(ws, cfg):
    """worker snapshot -> [pos, ended] in the model's terms"""
    if ws is None:
        return [0, False]
    ds, fs = ws.get("dataset_state"), ws.get("fetcher_state")
    pos = ds["i"] if isinstance(ds, dict) and "i" in ds else 0
    if fs is not None and isinstance(fs.get("dataset_iter_state"), dict):
        pos = fs["dataset_iter_state"]["i"]
    ended = bool(fs["fetcher_ended"]) if fs is not None else False
    return [pos, ended]


def abs_state_dict(sd, cfg):
    """StatefulDataLoader.state_dict() -> model vocabulary"""
    if "_snapshot" not in sd:      # single-process
        return ["sp", sd["_num_yielded"], sd["_sampler_iter_yielded"], bool(sd["_iterator_finished"])]
    sn = sd["_snapshot"]
    W = cfg["W"]
    main = sn["_main_snapshot"]
    return ["mp", sn["_snapshot_step"], sn["_last_yielded_worker_id"], main["_sampler_iter_yielded"],
            [abs_wsave(sn["_worker_snapshots"][f"worker_{w}"], cfg) for w in range(W)],
            sd["_steps_since_snapshot"], bool(sd["_iterator_finished"])]


def abs_iter(it):
    """main-process bookkeeping of a live multi-process iterator"""
    return [it._send_idx, it._rcvd_idx, [bool(x) for x in it._workers_status], it._tasks_outstanding, it._num_yielded,
            it._last_yielded_worker_id]


# ------------------------------------------------------------------ Coq terms
def coq_cfg(cfg, epoch_batches=None):
    kind = "KMap" if cfg["kind"] == "map" else "KIter"
    W = cfg["W"]
    shards = clist([clist([str(x) for x in shard_items(w, cfg["sizes"][w])]) for w in range(W)]) if cfg["kind"] == "iter" else "[]"
    if cfg["kind"] == "map":
        bs = epoch_batches if epoch_batches is not None else batches_ref(cfg)
        batches = clist([clist([str(x) for x in (b if isinstance(b, list) else [b])]) for b in bs])
    else:
        batches = "[]"
    return ("{| c_kind := %s; c_W := %d; c_P := %d; c_I := %d; c_bs := %d; c_drop := %s; c_shards := %s; c_batches := %s; "
            "c_bad := %s; c_stateful := %s; c_rewind := %s |}") % (
        kind, W, cfg.get("P", 2), cfg.get("I", 1), cfg["bs"] or 0, cbool(cfg.get("drop", False)), shards, batches,
        clist([str(x) for x in cfg.get("bad", ())]), cbool(cfg.get("stateful", False) or cfg["kind"] == "map"), cbool(cfg.get("rewind", False)))


# ------------------------------------------------------------------ history driver (lockstep observations)
def coq_sops(ops):
    m = {"next": "SNext", "state": "SState", "fresh": "SFresh"}
    return clist([m[o[0]] if o[0] in m else f"(SResume {o[1]})" for o in ops])


def norm_batch(b):
    b = tolist(b)
    return b if isinstance(b, list) else [b]


def run_history(cfg, ops, choices, exc_types=None):
    """Drives real loaders through ops under the arrival schedule `choices`. Returns (obs, used schedule, saved state dicts)."""
    sched = Schedule(choices)
    dl, it, saved, obs = None, None, [], []
    for o in ops:
        if o[0] == "fresh":
            if dl is None:
                dl = make_loader(cfg, sched)
            it = iter(dl)
            obs.append(["fresh", abs_iter(it)])
        elif o[0] == "next":
            try:
                out = ["batch", norm_batch(next(it))]
            except StopIteration:
                out = "stop"
            except AssertionError:
                out = "assert"
            except Exception as e:  # noqa
                out = "err"
                if exc_types is not None:
                    exc_types.append(type(e).__name__)
            obs.append([out, abs_iter(it), abs_state_dict(dl.state_dict(), cfg)])
        elif o[0] == "state":
            sd = dl.state_dict()
            saved.append(sd)
            obs.append(["state", abs_state_dict(sd, cfg)])
        elif o[0] == "resume":
            del it
            dl = make_loader(cfg, sched)
            dl.load_state_dict(saved[o[1]])
            it = iter(dl)
            obs.append(["resume", abs_iter(it), abs_state_dict(dl.state_dict(), cfg)])
    del it
    return obs, sched.used, saved


def gen_cfg(rng, kinds=("map", "iter"), maxW=3, errors=False):
    kind = rng.choice(kinds)
    W = rng.randint(1, maxW)
    cfg = dict(kind=kind, W=W, P=rng.choice([1, 2, 2, 3]), I=rng.choice([0, 1, 1, 2, 3, 5]), bs=rng.choice([None, 1, 2, 2, 3]),
               drop=rng.random() < 0.4, persistent=False)
    if kind == "map":
        cfg["n"] = rng.choice([0, 1, 2, 5, 7, rng.randint(0, 12)])
        if errors and cfg["n"]:
            cfg["bad"] = sorted(rng.sample(range(cfg["n"]), rng.randint(0, min(3, cfg["n"]))))
    else:
        cfg["sizes"] = [rng.choice([0, 1, 2, 3, 4, 5, rng.randint(0, 7)]) for _ in range(W)]
        cfg["stateful"] = rng.random() < 0.7
        cfg["rewind"] = cfg["stateful"] and rng.random() < 0.5
        cfg["eager"] = cfg["stateful"] and rng.random() < 0.4
    return cfg
