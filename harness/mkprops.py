#!/usr/bin/env python3
"""mkprops.py <out.v> <header-file> <Module,...> <prefix> name1 name2 ... — development aid: writes a Properties file whose
theorem statements are printed by Coq itself (Check @name) from the proof files, each closed by `exact name.`"""
import re, subprocess, sys, os
out, header, mods, prefix, names = sys.argv[1], sys.argv[2], sys.argv[3], sys.argv[4], sys.argv[5:]
coq = os.path.join(os.path.dirname(os.path.dirname(os.path.abspath(__file__))), "coq")
src = f"From PD Require Import Base {' '.join(mods.split(','))}.\nOpen Scope string_scope. Open Scope list_scope. Open Scope nat_scope.\nSet Printing Width 110.\nSet Printing Depth 1000.\n"
for n in names:
    src += f'Check @{n}.\n'
open(os.path.join(coq, "scratch", "mkprops_tmp.v"), "w").write(src)
r = subprocess.run(["coqc", "-Q", "theories", "PD", "scratch/mkprops_tmp.v"], cwd=coq, capture_output=True, text=True)
assert r.returncode == 0, r.stderr + r.stdout
blocks = re.split(r"^(?=@?\w+\s*\n?\s*:)", r.stdout, flags=re.M)
types = {}
for b in blocks:
    m = re.match(r"@?(\w+)\s*:\s*(.*)", b, flags=re.S)
    if m:
        types[m.group(1)] = m.group(2).strip()
body = open(header).read()
body += f"From PD Require Import Base {' '.join(mods.split(','))}.\nOpen Scope string_scope. Open Scope list_scope. Open Scope nat_scope.\n\n"
for n in names:
    t = types[n]
    body += f"Theorem {prefix}_{n} :\n  {t}.\nProof. exact {n}. Qed.\nPrint Assumptions {prefix}_{n}.\n\n"
open(out, "w").write(body)
print("wrote", out, len(names), "theorems")
