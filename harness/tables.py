"""tables.py — a small FAIL-CLOSED translator that ties one decision table of the model to the source on every run.

The snapshot-flag arithmetic of `_StatefulMultiProcessingDataLoaderIter._try_put_index` (which tasks carry a main snapshot,
which ask the worker for its state) is where off-by-ones live and is what the theorems InvS / flag_cover / InvX rest on.  It is a
straight-line if/elif/else over integers.  On every run this module re-reads that block from /repo's working tree with `ast`,
translates it into a Gallina definition `flags_src`, and lets `coqc` prove `flags_src = flags_model`, where `flags_model` is the
expression SdlModel.try_put_index computes (a second lemma, by reflexivity on the unfolded model, pins that expression to the
model).  Any construct outside the tiny grammar below makes the translator REFUSE, which the check treats like a broken proof
obligation (the tie is no longer established).
Grammar: statements `x = e`, `pass`, `if c: ... elif ...: else: ...`; expressions: int literals, the names introduced by
assignments, the attributes in ATTR, `+ - * %`, comparisons `>= == < > <= !=`, `not e`, True/False,
`self._dataset_kind == _DatasetKind.Iterable`.
"""
import ast
import os
import re
import subprocess

import lib

ATTR = {"_snapshot_interval": "I", "_num_yielded": "ny", "_num_workers": "W", "_prefetch_factor": "P", "_sampler_iter_yielded": "siy"}
OUT = ("snapshot_main", "snapshot")


class Refuse(Exception):
    pass


def _find_block(tree):
    for cls in ast.walk(tree):
        if isinstance(cls, ast.ClassDef) and cls.name == "_StatefulMultiProcessingDataLoaderIter":
            for fn in cls.body:
                if isinstance(fn, ast.FunctionDef) and fn.name == "_try_put_index":
                    for st in fn.body:
                        if isinstance(st, ast.Try):
                            return st.body
    raise Refuse("_try_put_index / its try block not found")


def _expr(e, env):
    """-> (coq text, kind) with kind in {'nat', 'bool'}"""
    if isinstance(e, ast.Constant):
        if isinstance(e.value, bool):
            return ("true" if e.value else "false"), "bool"
        if isinstance(e.value, int) and e.value >= 0:
            return str(e.value), "nat"
        raise Refuse(f"constant {e.value!r}")
    if isinstance(e, ast.Name):
        if e.id in env:
            return env[e.id]
        raise Refuse(f"unknown name {e.id}")
    if isinstance(e, ast.Attribute) and isinstance(e.value, ast.Name) and e.value.id == "self":
        if e.attr in ATTR:
            return ATTR[e.attr], "nat"
        raise Refuse(f"attribute self.{e.attr}")
    if isinstance(e, ast.BinOp):
        a, ka = _expr(e.left, env)
        b, kb = _expr(e.right, env)
        if ka != "nat" or kb != "nat":
            raise Refuse("arithmetic on non-integers")
        op = {ast.Add: "+", ast.Sub: "-", ast.Mult: "*", ast.Mod: "mod"}.get(type(e.op))
        if op is None:
            raise Refuse(f"operator {type(e.op).__name__}")
        return f"({a} {op} {b})", "nat"
    if isinstance(e, ast.UnaryOp) and isinstance(e.op, ast.Not):
        a, ka = _expr(e.operand, env)
        return (f"({a} =? 0)" if ka == "nat" else f"(negb {a})"), "bool"      # `not n` on an int: n == 0 (None is not modelled)
    if isinstance(e, ast.Compare) and len(e.ops) == 1:
        l, r = e.left, e.comparators[0]
        # self._dataset_kind == _DatasetKind.Iterable
        if (isinstance(l, ast.Attribute) and l.attr == "_dataset_kind" and isinstance(r, ast.Attribute) and r.attr == "Iterable"
                and isinstance(e.ops[0], ast.Eq)):
            return "iter", "bool"
        a, ka = _expr(l, env)
        b, kb = _expr(r, env)
        if ka != "nat" or kb != "nat":
            raise Refuse("comparison of non-integers")
        t = {ast.GtE: f"({b} <=? {a})", ast.LtE: f"({a} <=? {b})", ast.Gt: f"({b} <? {a})", ast.Lt: f"({a} <? {b})",
             ast.Eq: f"({a} =? {b})", ast.NotEq: f"(negb ({a} =? {b}))"}.get(type(e.ops[0]))
        if t is None:
            raise Refuse(f"comparison {type(e.ops[0]).__name__}")
        return t, "bool"
    raise Refuse(f"expression {ast.dump(e)[:80]}")


def _stmts(body, env, k):
    """Translate a statement list in continuation style; k(env) gives the Coq text of what follows."""
    if not body:
        return k(env)
    st, rest = body[0], body[1:]
    if isinstance(st, ast.Pass):
        return _stmts(rest, env, k)
    if isinstance(st, ast.Assign) and len(st.targets) == 1 and isinstance(st.targets[0], ast.Name):
        name = st.targets[0].id
        if name == "index":          # index = self._next_index(): the sampler draw, not part of the table
            return _stmts(rest, env, k)
        txt, kind = _expr(st.value, env)
        v = f"v_{name}_{len(env)}"
        env2 = dict(env)
        env2[name] = (v, kind)
        return f"(let {v} := {txt} in {_stmts(rest, env2, k)})"
    if isinstance(st, ast.If):
        c, kc = _expr(st.test, env)
        if kc != "bool":
            raise Refuse("non-boolean condition")
        # both branches continue with the same rest; variables assigned in a branch are merged by re-binding the outputs
        def branch(b):
            return _stmts(b, env, lambda e2: _merge(e2, env, rest, k))
        return f"(if {c} then {branch(st.body)} else {branch(st.orelse)})"
    raise Refuse(f"statement {type(st).__name__}")


def _merge(e2, env, rest, k):
    # names visible after the if: those of env (possibly rebound in the branch); branch-local names (x, hi) are dropped
    env3 = {n: e2[n] for n in env}
    return _stmts(rest, env3, k)


def translate():
    src = open(os.path.join(lib.REPO, "torchdata/stateful_dataloader/stateful_dataloader.py")).read()
    body = _find_block(ast.parse(src))
    env = {}
    final = lambda e: "(" + ", ".join(e[o][0] if o in e else "false" for o in OUT) + ")"
    for o in OUT:
        if not any(isinstance(s, ast.Assign) and isinstance(s.targets[0], ast.Name) and s.targets[0].id == o for s in body):
            raise Refuse(f"{o} is not initialised in the block")
    return _stmts(body, env, final)


COQ_CHECK = """From Coq Require Import Arith Bool Lia.
From PD Require Import Base SdlModel.
Open Scope nat_scope.
(* regenerated from /repo's working tree by harness/tables.py *)
Definition flags_src (iter : bool) (I ny siy W P : nat) : bool * bool :=
  %s.
(* what SdlModel.try_put_index computes (siy is the already incremented _sampler_iter_yielded) *)
Definition flags_model (iter : bool) (I ny siy W P : nat) : bool * bool :=
  if I =? 0 then (false, false)
  else if iter then let x := ny mod I in let hi := x + 1 + W * P in (I <=? hi, I <=? hi + W)
       else (siy mod I =? 0, I <=? ((siy - 1) mod I) + W).
Lemma flags_tie : forall iter I ny siy W P, flags_src iter I ny siy W P = flags_model iter I ny siy W P.
Proof.
  intros iter I ny siy W P. unfold flags_src, flags_model.
  destruct (I =? 0) eqn:EI; [reflexivity|]. destruct iter; cbv zeta.
  - destruct (I <=? ny mod I + 1 + W * P) eqn:E1, (I <=? ny mod I + 1 + W * P + W) eqn:E2; reflexivity.
  - destruct (siy mod I =? 0) eqn:E1, (I <=? (siy - 1) mod I + W) eqn:E2; reflexivity.
Qed.
(* the model's try_put_index uses exactly flags_model: the task it enqueues carries snd (flags), a main snapshot is queued iff fst *)
Lemma model_uses_flags : forall c s w cyc',
  m_outst s <? c_P c * c_W c = true -> m_assert s = None ->
  find_worker (c_W c) (c_W c) (m_status s) (m_cyc s) = (Some w, cyc') ->
  (c_kind c = KIter \\/ exists b, nth_error (c_batches c) (m_samp s) = Some b) ->
  let fl := flags_model (match c_kind c with KIter => true | KMap => false end) (c_I c) (m_ny s) (S (m_siy s)) (c_W c) (c_P c) in
  fst fl && negb (snd fl) = false ->
  length (m_msnaps (try_put_index c s)) = length (m_msnaps s) + (if fst fl then 1 else 0).
Proof.
  intros c s w cyc' Ho Ha Hf Hk fl Hfl. unfold try_put_index. rewrite Ho.
  assert ((match c_kind c with KIter => Some (@nil nat, m_samp s) | KMap => match nth_error (c_batches c) (m_samp s) with Some b => Some (b, S (m_samp s)) | None => None end end) <> None) as Hn.
  { destruct (c_kind c); [destruct Hk as [Hk|[b Hb]]; [discriminate | rewrite Hb; discriminate] | discriminate]. }
  unfold fl in *. clear fl. unfold flags_model in *.
  destruct (c_kind c); [destruct Hk as [Hk|[b Hb]]; [discriminate|]; rewrite Hb | ]; rewrite Hf;
    destruct (c_I c =? 0); cbn [fst snd] in *; try (cbn; rewrite Nat.add_0_r; reflexivity);
    cbv zeta in *; cbn [fst snd] in *; rewrite Hfl; cbn [m_msnaps];
    match goal with |- context [if ?b then _ ++ _ else _] => destruct b end; rewrite ?app_length; cbn; lia.
Qed.
Print Assumptions flags_tie.
"""


def check_flags():
    """-> (ok, log). Regenerates flags_src from the working tree and re-proves the tie."""
    try:
        body = translate()
    except Refuse as e:
        return False, f"tables.py refuses to translate _try_put_index: {e}"
    except (OSError, SyntaxError) as e:
        return False, f"tables.py cannot read the source: {e}"
    os.makedirs(lib.SCRATCH, exist_ok=True)
    work = os.path.join(lib.SCRATCH, f"tables_{os.getpid()}")
    os.makedirs(work, exist_ok=True)
    path = os.path.join(work, "TablesCheck.v")
    with open(path, "w") as f:
        f.write(COQ_CHECK % body)
    try:
        p = subprocess.run(["coqc", "-Q", os.path.join(lib.COQ, "theories"), "PD"] + lib.COQ_WARN + [path], cwd=work,
                           stdout=subprocess.PIPE, stderr=subprocess.STDOUT, text=True, timeout=300)
        ok = p.returncode == 0 and "Closed under the global context" in p.stdout
        log = "" if ok else ("flags_src (from the source) = flags_model no longer checks:\n" + p.stdout[-2500:] + "\nflags_src := " + body)
    except subprocess.TimeoutExpired:
        ok, log = False, "TablesCheck.v timed out"
    import shutil
    shutil.rmtree(work, ignore_errors=True)
    return ok, log


# ------------------------------------------------------------------------------------------------------------------------------
# the start-up handshake QueueSnapshotStore.get_initial_snapshot against InitSnap.v (D20): EVERY schedule of reader / consumer moves up
# to length INITSNAP_LEN is run on the REAL method (its queue and the thread object replaced by scripted stand-ins that let the
# scheduled reader moves happen exactly between the consumer's three observations: timed get, is_alive(), get_nowait()), and coqc proves
# that the outcomes are the model's, schedule by schedule.
INITSNAP_LEN = 9


class _OutOfSchedule(BaseException):
    pass


def _initsnap_real(sched):
    """-> outcome code of the real get_initial_snapshot under `sched` (a string of 'R'/'C'):
    0 CGet / 1 CAlive / 2 CLast (schedule ran out before that observation), 3 CGot, 4 CFail"""
    import queue as _queue

    from torchdata.nodes.snapshot_store import QueueSnapshotStore
    store = QueueSnapshotStore()
    st = {"i": 0, "reader": 0, "dead": False}
    items = []

    def reader_move():
        if st["reader"] == 0:
            store.append_initial_snapshot({"pos": 0})       # the real append (under the store's lock) into the scripted queue
        elif st["reader"] == 1:
            st["dead"] = True
        st["reader"] = min(2, st["reader"] + 1)

    def consumer_turn(code):
        # reader moves scheduled before this observation happen now; then the observation takes one consumer move
        while st["i"] < len(sched) and sched[st["i"]] == "R":
            reader_move()
            st["i"] += 1
        if st["i"] >= len(sched):
            raise _OutOfSchedule(code)
        st["i"] += 1

    class Q:
        queue = items

        def put(self, x):
            items.append(x)

        def get(self, block=True, timeout=None):
            consumer_turn(0)
            if items:
                st["got"] = True
                return items.pop(0)
            raise _queue.Empty()

        def get_nowait(self):
            consumer_turn(2)
            if items:
                st["got"] = True
                return items.pop(0)
            raise _queue.Empty()

    class T:
        def is_alive(self):
            # the error message of the failure path reads is_alive() once more: no further move is consumed once the loop was left
            # ... and the test made after a successful get decides nothing (the loop ends either way)
            if st.get("left") or st.get("got"):
                return not st["dead"]
            consumer_turn(1)
            if st["dead"]:
                st["left"] = True
            return not st["dead"]

    store._q = Q()
    try:
        store.get_initial_snapshot(thread=T(), timeout=60.0)
        return 3
    except _OutOfSchedule as e:
        return e.args[0]
    except RuntimeError:
        return 4


INITSNAP_COQ = """From Coq Require Import List Bool Arith.
From PD Require InitSnap.
Import ListNotations.
Definition R := InitSnap.MReader. Definition C := InitSnap.MConsumer.
Definition code (c : InitSnap.cstate) : nat :=
  match c with InitSnap.CGet => 0 | InitSnap.CAlive => 1 | InitSnap.CLast => 2 | InitSnap.CGot => 3 | InitSnap.CFail => 4 end.
Definition scheds : list (list InitSnap.move) := %s.
Definition real_outcomes : list nat := %s.
(* the outcomes of the real method, regenerated on this run from /repo's working tree, are the model's on every schedule *)
Lemma initsnap_tie : map (fun s => code (InitSnap.cs (InitSnap.run true s))) scheds = real_outcomes.
Proof. vm_compute. reflexivity. Qed.
Print Assumptions initsnap_tie.
"""


def check_initsnap():
    """-> (ok, log)"""
    import itertools
    scheds = ["".join(t) for n in range(INITSNAP_LEN + 1) for t in itertools.product("RC", repeat=n)]
    try:
        outs = [_initsnap_real(s) for s in scheds]
    except BaseException as e:  # noqa
        return False, f"get_initial_snapshot could not be driven by the scripted stand-ins: {type(e).__name__}: {e}"
    os.makedirs(lib.SCRATCH, exist_ok=True)
    work = os.path.join(lib.SCRATCH, f"initsnap_{os.getpid()}")
    os.makedirs(work, exist_ok=True)
    path = os.path.join(work, "InitSnapCheck.v")
    with open(path, "w") as f:
        f.write(INITSNAP_COQ % ("[" + "; ".join("[" + "; ".join(s) + "]" for s in scheds) + "]", "[" + "; ".join(map(str, outs)) + "]"))
    try:
        p = subprocess.run(["coqc", "-Q", os.path.join(lib.COQ, "theories"), "PD"] + lib.COQ_WARN + [path], cwd=work,
                           stdout=subprocess.PIPE, stderr=subprocess.STDOUT, text=True, timeout=300)
        ok = p.returncode == 0 and "Closed under the global context" in p.stdout
        log = ""
        if not ok:
            bad = [s for s, o in zip(scheds, outs) if o == 4]
            log = ("the real get_initial_snapshot and InitSnap.v disagree on some schedule of <= %d moves" % INITSNAP_LEN
                   + (f"; the real method FAILS a healthy start-up under the schedule {bad[0]!r} (R = a reader move: append the snapshot, then return; "
                      f"C = a consumer observation: timed get, is_alive(), get_nowait())" if bad else "") + ":\n" + p.stdout[-1500:])
    except subprocess.TimeoutExpired:
        ok, log = False, "InitSnapCheck.v timed out"
    import shutil
    shutil.rmtree(work, ignore_errors=True)
    return ok, log


if __name__ == "__main__":
    print(translate())
    print(check_flags())
    print(check_initsnap())
