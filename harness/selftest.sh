#!/bin/bash
# selftest.sh <patch> <Cxx> [<Cxx> ...] — development aid (not a registered check): applies a property-breaking patch to a
# scratch copy of /repo's working tree (outside /repo and /verif), runs the given checks against it and removes the copy.
set -u
PATCH="$(readlink -f "$1")"; shift
D=$(mktemp -d /var/tmp/pdverif-mut.XXXXXX)
trap 'rm -rf "$D"' EXIT
rsync -a --exclude .git --exclude '*.egg-info' --exclude __pycache__ /repo/ "$D"/
( cd "$D" && git init -q . >/dev/null 2>&1; git apply --whitespace=nowarn "$PATCH" ) || { echo "PATCH DOES NOT APPLY"; exit 2; }
for P in "$@"; do
  echo "=== $P on $(basename "$PATCH")"
  VERIF_REPO="$D" VERIF_NO_EVIDENCE=1 "$(dirname "$0")"/run.sh "$P" "${TIER:-quick}" 2>&1 | grep -E "VIOLATION|KNOWN-FINDING|^\[C" | head -8
done
