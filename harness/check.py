#!/venv/bin/python
"""Entry point of every registered check:  check.py <Cxx> quick|thorough|replay [replay-file]

Flow (DESIGN.md 3.6):
  1. proof side      : make (no-op when up to date) + fresh coqc of Properties_<id>.v, Print Assumptions parsed
  2. implementation  : corpus + generated cases run against /repo's working tree (kill-safe pool);
                       the direct property oracle is evaluated on every case
  3. correspondence  : the Gallina model is evaluated inside Coq on the same cases and compared
  4. verdict         : oracle failure -> VIOLATION with the failing input as replay;
                       proof or correspondence break with no failing input -> VIOLATION ... no-failing-input-found
"""
import importlib
import json
import os
import random
import sys
import time

sys.path.insert(0, os.path.dirname(os.path.abspath(__file__)))
import lib  # noqa: E402


def load_corpus(pid):
    d = os.path.join(lib.VERIF, "corpus", pid)
    out = []
    if os.path.isdir(d):
        for f in sorted(os.listdir(d)):
            if f.endswith(".json"):
                c = json.load(open(os.path.join(d, f)))
                c["_corpus"] = f
                out.append(c)
    return out


def main():
    pid, tier = sys.argv[1], sys.argv[2]
    replay = sys.argv[3] if tier == "replay" else None
    seed = int(os.environ.get("VERIF_SEED", "0"))
    mod = importlib.import_module(f"props.{pid.lower()}")
    rep = lib.Report(pid, "quick" if tier == "replay" else tier, seed)
    rng = random.Random(seed * 1000003 + int(pid[1:]))

    # ---- 1. proof side
    ok_make, make_log = lib.coq_make()
    proof = lib.coq_properties(pid) if ok_make else dict(ok=False, theorems=[], assumptions={}, log=make_log, wall=0)
    audit = lib.audit_sources()
    # source-regenerated decision tables (harness/tables.py): a property module names the table checks its theorems rest on
    table_log = ""
    if ok_make and getattr(mod, "TABLES", None):
        import tables
        for tname in mod.TABLES:
            tok, tlog = getattr(tables, tname)()
            if not tok:
                proof["ok"] = False
                table_log += f"[{tname}] {tlog}\n"
        proof["tables"] = list(mod.TABLES)
        if table_log:
            proof["log"] = (proof.get("log") or "") + "\n" + table_log
    proof_ok = ok_make and proof["ok"] and not audit
    axioms = sorted({a for v in proof.get("assumptions", {}).values() for a in v})

    # ---- 2. implementation side
    funcs = getattr(mod, "FUNCS", [])
    drift = lib.drifted(funcs)
    if replay:
        rc = json.load(open(replay))
        cases = [rc["case"]] if rc.get("case") else []
    else:
        cases = load_corpus(pid) + mod.gen_cases(rng, tier, bool(drift))
    t_impl = time.time()
    results = lib.run_cases(mod.run_impl, cases, nproc=getattr(mod, "NPROC", 12),
                            timeout=getattr(mod, "CASE_TIMEOUT", 90))
    t_impl = time.time() - t_impl

    matcher = getattr(mod, "known_match", None)
    flagged = set()
    for i, (c, r) in enumerate(zip(cases, results)):
        if r is None or r.get("harness_error") or r.get("crashed") is not None:
            rep.violation("harness_error", c, r, matcher)
            flagged.add(i)
        elif r.get("hang"):
            rep.violation("hang", c, r, matcher)
            flagged.add(i)
        elif r.get("oracle"):
            rep.violation("oracle", c, {"oracle": r["oracle"], "obs": r.get("obs")}, matcher)
            flagged.add(i)

    # ---- 3. correspondence
    corr_bad = []
    corr_err = None
    idx = [i for i in range(len(cases)) if results[i] and "obs" in results[i] and not results[i].get("hang")]
    t_model = time.time()
    if ok_make and idx:
        try:
            imports_of = getattr(mod, "imports_of", lambda c: mod.IMPORTS)
            groups = {}
            for i in idx:
                groups.setdefault(imports_of(cases[i]), []).append(i)
            for gi, (imp, members) in enumerate(sorted(groups.items())):
                got = [mod.model_term(cases[i], results[i]) for i in members]
                want = [lib.to_obs(results[i]["obs"]) for i in members]
                bad = lib.coq_eval(pid, imp, got, want, shard=getattr(mod, 'SHARD', 400), tag=f"cases{gi}")
                corr_bad += [members[b] for b in bad]
            corr_bad.sort()
        except lib.CoqError as e:
            corr_err = str(e)
    t_model = time.time() - t_model

    # ---- 4. breaks without a failing input: widen the search, then report
    unexplained = [i for i in corr_bad if i not in flagged]
    if (unexplained or corr_err or not proof_ok) and hasattr(mod, "widen") and not replay:
        extra = []
        for i in unexplained[:5]:
            extra += mod.widen(cases[i], rng)
        if not extra:
            extra = mod.gen_cases(random.Random(seed + 7919), "thorough", True)[:300]
        xres = lib.run_cases(mod.run_impl, extra, nproc=getattr(mod, "NPROC", 12), timeout=getattr(mod, "CASE_TIMEOUT", 90))
        for c, r in zip(extra, xres):
            if r and (r.get("oracle") or r.get("hang")):
                rep.violation("oracle(widened search)", c, r, matcher)
    found_input = any(p for p, k in rep.violations if k.startswith("oracle") or k == "hang")
    for i in unexplained[:3]:
        detail = {"correspondence": "model and implementation observations differ",
                  "implementation_obs": results[i].get("obs"),
                  "model_obs": lib.coq_show(getattr(mod, "imports_of", lambda c: mod.IMPORTS)(cases[i]), mod.model_term(cases[i], results[i])),
                  "coq_definitions": getattr(mod, "imports_of", lambda c: mod.IMPORTS)(cases[i])}
        rep.violation("correspondence", cases[i], detail, matcher, no_input=not found_input)
    if corr_err:
        rep.violation("correspondence", None, {"coq_error": corr_err[-3000:], "names": mod.IMPORTS}, None, no_input=not found_input)
    if not proof_ok:
        rep.violation("proof", None, {"theorem_file": f"coq/theories/Properties_{pid}.v",
                                      "log": (proof.get("log") or make_log)[-3000:], "audit": audit,
                                      "forbidden": proof.get("forbidden")}, None, no_input=not found_input)

    # ---- evidence
    keys = {}
    for c, r in zip(cases, results):
        if r and r.get("nontrivial"):
            keys[json.dumps(r.get("key", c), sort_keys=True, default=str)] = 1
    samples = [{"case": c, "obs": (r or {}).get("obs")} for c, r in list(zip(cases, results))[:3]]
    n_thm = len(proof.get("theorems", [])) + len(proof.get("tables", []))
    coverage = {
        "obligations": n_thm, "discharged": n_thm if proof_ok else 0,
        "checker_cmd": f"cd coq && make && coqc -Q theories PD theories/Properties_{pid}.v",
        "trusted_base": [
            "Coq 8.16.1 kernel + vm_compute (no native_compute)",
            "axioms reported by Print Assumptions for this property's theorems: " + (", ".join(axioms) if axioms else "none (Closed under the global context)"),
            "hand-written model " + mod.IMPORTS + " tied to /repo by the correspondence run below (model evaluated in Coq by vm_compute on generated case files)",
        ] + (["source ties re-established on this run by harness/tables.py and closed by coqc (check_flags: fail-closed ast translation of the snapshot-flag table, proved equal to the model's; "
              "check_initsnap: the real get_initial_snapshot run on every reader/consumer schedule of <= 9 moves through scripted stand-ins for its queue and thread, outcomes proved equal to InitSnap.v's): "
              + ", ".join(proof["tables"])] if proof.get("tables") else [])
          + list(getattr(mod, "TRUSTED", [])),
        "theorems": proof.get("theorems", []) + [f"tables.{t}" for t in proof.get("tables", [])],
        "evaluations": len(cases), "distinct_nontrivial": len(keys), "rule": getattr(mod, "RULE", ""),
        "samples": samples,
        "traces_validated_against_impl": len(idx) - len(corr_bad),
        "correspondence_mismatches": len(corr_bad),
        "drifted_functions": drift,
        "distribution": mod.distribution(cases) if hasattr(mod, "distribution") else {},
        "corpus_cases": sum(1 for c in cases if "_corpus" in c),
        "timing_s": {"coqc_properties": round(proof.get("wall", 0), 1), "implementation": round(t_impl, 1), "model_eval": round(t_model, 1)},
    }
    rc = rep.finish("proof", coverage, list(getattr(mod, "ASSUMPTIONS", [])))
    sys.stdout.flush()
    os._exit(rc)


if __name__ == "__main__":
    main()
