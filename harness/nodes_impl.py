"""Real torchdata.nodes pipelines built from JSON descriptions, the Python reference semantics, history drivers
and the Coq term builders for NodeModel.pipe / NodeObs.hop (shared by C02, C04, C08, C13)."""
import copy
import math
import pickle

from lib import cbool, clist


# ------------------------------------------------------------------ user code handed to the library (picklable)
class FAdd:
    def __init__(self, k):
        self.k = k

    def __call__(self, x):
        if x is None:
            return None
        if isinstance(x, list):
            return [self(e) for e in x]
        return x + self.k


class FWrap:
    def __call__(self, x):
        return [x]


class FNoneIfEven:
    def __call__(self, x):
        if isinstance(x, int) and x % 2 == 0:
            return None
        return x


class Pred:
    def __init__(self, q):
        self.q = q

    def __call__(self, x):
        q = self.q
        if q[0] == "even":
            return isinstance(x, int) and x % 2 == 0
        if q[0] == "lt":
            return x < q[1] if isinstance(x, int) else True
        if q[0] == "notnone":
            return x is not None
        if q[0] == "true":
            return True
        return False


def mk_fn(f):
    return {"add": lambda: FAdd(f[1]), "wrap": FWrap, "none_if_even": FNoneIfEven}[f[0]]()


class StatefulList:
    """A Stateful iterable: iter() starts at 0 unless a state was just loaded."""

    def __init__(self, xs):
        self.xs, self.i, self._loaded = xs, 0, False

    def __iter__(self):
        if not self._loaded:
            self.i = 0
        self._loaded = False
        return _SLIter(self)

    def state_dict(self):
        return {"i": self.i}

    def load_state_dict(self, sd):
        self.i, self._loaded = sd["i"], True


class _SLIter:
    def __init__(self, o):
        self.o = o

    def __iter__(self):
        return self

    def __next__(self):
        if self.o.i >= len(self.o.xs):
            raise StopIteration
        self.o.i += 1
        return self.o.xs[self.o.i - 1]


class EpochSampler:
    """Order depends on set_epoch(e): orders[e] (last one for larger e)."""

    def __init__(self, orders):
        self.orders, self.e = orders, 0

    def set_epoch(self, e):
        self.e = e

    def __iter__(self):
        return iter(self.orders[self.e] if self.e < len(self.orders) else (self.orders[-1] if self.orders else []))

    def __len__(self):
        return len(self.orders[0]) if self.orders else 0


def build(p):
    from torchdata.nodes import Batcher, Filter, IterableWrapper, Mapper, ParallelMapper, Prefetcher, SamplerWrapper, Unbatcher
    op = p["op"]
    if op == "src":
        return IterableWrapper(StatefulList(list(p["xs"])) if p["stateful"] else list(p["xs"]))
    if op == "sampler":
        return SamplerWrapper(EpochSampler([list(o) for o in p["orders"]]))
    if op == "map":
        return Mapper(build(p["src"]), mk_fn(p["f"]))
    if op == "parmap":
        return ParallelMapper(build(p["src"]), mk_fn(p["f"]), num_workers=p["nw"], in_order=p.get("in_order", True),
                              method=p.get("method", "thread"), snapshot_frequency=p["sf"], max_concurrent=p.get("mc"),
                              prebatch=p.get("prebatch"))
    if op == "prefetch":
        return Prefetcher(build(p["src"]), prefetch_factor=p["pf"], snapshot_frequency=p["sf"])
    if op == "batch":
        return Batcher(build(p["src"]), p["n"], drop_last=p["drop"])
    if op == "unbatch":
        return Unbatcher(build(p["src"]))
    if op == "filter":
        return Filter(build(p["src"]), Pred(p["q"]))
    raise ValueError(op)


# ------------------------------------------------------------------ independent Python reference (list functions)
def ref_sem(p, epoch):
    op = p["op"]
    if op == "src":
        return list(p["xs"])
    if op == "sampler":
        o = p["orders"]
        return list(o[epoch] if epoch < len(o) else (o[-1] if o else []))
    s = ref_sem(p["src"], epoch)
    if op in ("map", "parmap"):
        f = mk_fn(p["f"])
        return [f(x) for x in s]
    if op == "prefetch":
        return s
    if op == "batch":
        n = p["n"]
        out = [s[i:i + n] for i in range(0, len(s), n)]
        if out and len(out[-1]) < n and p["drop"]:
            out.pop()
        return out
    if op == "unbatch":
        return [x for b in s for x in b]
    if op == "filter":
        q = Pred(p["q"])
        return [x for x in s if q(x)]
    raise ValueError(op)


def has_threads(p):
    return p["op"] in ("parmap", "prefetch") or ("src" in p and isinstance(p["src"], dict) and has_threads(p["src"]))


def depth(p):
    return 1 + (depth(p["src"]) if isinstance(p.get("src"), dict) else 0)


# ------------------------------------------------------------------ random pipelines
def gen_items(rng, n, kind):
    if kind == "int":
        return [rng.randint(0, 20) for _ in range(n)]
    if kind == "mixed":
        return [rng.choice([None, 0, rng.randint(0, 9)]) for _ in range(n)]
    return [[rng.randint(0, 9) for _ in range(rng.randint(0, 3))] for _ in range(n)]   # lists


def gen_pipe(rng, max_depth=4, threads=True, allow_none=True):
    n = rng.choice([0, 1, 2, 3, 5, 7, rng.randint(0, 12)])
    kind = rng.choice(["int", "int", "mixed", "list"]) if allow_none else rng.choice(["int", "int", "list"])
    if rng.random() < 0.25:
        ne = rng.randint(1, 3)
        p = {"op": "sampler", "orders": [gen_items(rng, n, kind) for _ in range(ne)]}
    else:
        p = {"op": "src", "xs": gen_items(rng, n, kind), "stateful": rng.random() < 0.4}
    for _ in range(rng.randint(0, max_depth)):
        choices = ["map", "batch", "filter", "unbatch"]
        if threads:
            choices += ["prefetch", "parmap"]
        c = rng.choice(choices)
        if c == "map":
            f = rng.choice([["add", rng.randint(0, 3)], ["wrap"], ["none_if_even"]] if allow_none else [["add", rng.randint(0, 3)], ["wrap"]])
            p = {"op": "map", "f": f, "src": p}
        elif c == "parmap":
            f = rng.choice([["add", rng.randint(0, 3)], ["wrap"]])
            p = {"op": "parmap", "f": f, "sf": rng.choice([0, 1, 1, 2, 3]), "nw": rng.choice([1, 2, 3]), "src": p}
            if rng.random() < 0.3:
                p["mc"] = rng.randint(1, p["nw"])
        elif c == "prefetch":
            p = {"op": "prefetch", "sf": rng.choice([0, 1, 1, 2, 3]), "pf": rng.choice([1, 2, 4]), "src": p}
        elif c == "batch":
            p = {"op": "batch", "n": rng.randint(1, 4), "drop": rng.random() < 0.5, "src": p}
        elif c == "unbatch":
            p = {"op": "unbatch", "src": p}
        elif c == "filter":
            q = rng.choice([["even"], ["lt", rng.randint(0, 12)], ["notnone"], ["true"], ["false"]])
            p = {"op": "filter", "q": q, "src": p}
    return p


def well_typed(p):
    """Unbatcher only over streams whose every item is a list (checked on the reference semantics)."""
    try:
        for e in range(3):
            _check(p, e)
        return True
    except Exception:
        return False


def _check(p, e):
    if p["op"] in ("src", "sampler"):
        return
    _check(p["src"], e)
    if p["op"] == "unbatch" and not all(isinstance(x, list) for x in ref_sem(p["src"], e)):
        raise TypeError("unbatch over non-list")
    ref_sem(p, e)


def gen_well_typed_pipe(rng, **kw):
    for _ in range(50):
        p = gen_pipe(rng, **kw)
        if well_typed(p):
            return p
    return {"op": "src", "xs": [1, 2, 3], "stateful": False}


# ------------------------------------------------------------------ Coq terms
def coq_item(x):
    if x is None:
        return "INone"
    if isinstance(x, list):
        return "(IList " + clist([coq_item(e) for e in x]) + ")"
    return f"(INat {x})"


def coq_fn(f):
    return {"add": lambda: f"(FAdd {f[1]})", "wrap": lambda: "FWrap", "none_if_even": lambda: "FNoneIfEven"}[f[0]]()


def coq_pred(q):
    return {"even": "QEven", "lt": f"(QLt {q[1] if len(q) > 1 else 0})", "notnone": "QNotNone", "true": "QTrue", "false": "QFalse"}[q[0]]


def coq_pipe(p):
    op = p["op"]
    if op == "src":
        return f"(PSrc {clist([coq_item(x) for x in p['xs']])} {cbool(p['stateful'])})"
    if op == "sampler":
        return "(PSampler " + clist([clist([coq_item(x) for x in o]) for o in p["orders"]]) + ")"
    s = coq_pipe(p["src"])
    if op == "map":
        return f"(PMap {coq_fn(p['f'])} {s})"
    if op == "parmap":
        return f"(PParMap {coq_fn(p['f'])} {p['sf']} {s})"
    if op == "prefetch":
        return f"(PPrefetch {p['sf']} {s})"
    if op == "batch":
        return f"(PBatch {p['n']} {cbool(p['drop'])} {s})"
    if op == "unbatch":
        return f"(PUnbatch {s})"
    if op == "filter":
        return f"(PFilter {coq_pred(p['q'])} {s})"
    raise ValueError(op)


def coq_ops(ops):
    m = {"iter": "HIter", "next": "HNext", "state": "HState", "fresh": "HFresh"}
    return clist([m[o[0]] if o[0] in m else f"(HLoad {o[1]})" for o in ops])


# ------------------------------------------------------------------ history driver on the real Loader
def enc_exc(e):
    return "err:" + type(e).__name__


def run_history(p, restart, ops, deadline_s=20.0):
    """Runs ops on real Loaders. Returns (observations, saved state dict objects, their pickles at birth)."""
    import threading
    from torchdata.nodes import Loader
    ld = Loader(build(p), restart_on_stop_iteration=restart)
    it = None
    saved, pickled, obs = [], [], []
    for o in ops:
        if o[0] == "iter":
            it = iter(ld)
            obs.append("iter")
        elif o[0] == "next":
            try:
                obs.append(["item", next(it)])
            except StopIteration:
                obs.append("stop")
            except Exception as e:  # noqa
                obs.append(enc_exc(e))
        elif o[0] == "state":
            sd = ld.state_dict()
            saved.append(sd)
            pickled.append(pickle.dumps(sd))
            obs.append(["state", copy.deepcopy(sd)])
        elif o[0] == "peek":                 # an extra state_dict() call whose result is dropped
            ld.state_dict()
            obs.append("peek")
        elif o[0] == "load":
            ld.load_state_dict(saved[o[1]])
            obs.append("load")
        elif o[0] == "fresh":
            ld = Loader(build(p), restart_on_stop_iteration=restart)
            it = None
            obs.append("fresh")
    return obs, saved, pickled, ld


def epochs_reference(p, n_epochs, restart=True):
    """Uninterrupted Loader: list of epoch streams."""
    from torchdata.nodes import Loader
    ld = Loader(build(p), restart_on_stop_iteration=restart)
    return [list(ld) for _ in range(n_epochs)]


def idle_epoch(ops):
    """True iff some iterator handed out by iter() (or created by state_dict()) was replaced by the next iter() without a next() on it
    (known finding D15: the sampler epoch may still advance then, depending on read-ahead timing)."""
    requested = None
    for o in ops:
        if o[0] == "fresh":
            requested = None
        elif o[0] == "iter" or (o[0] in ("state", "peek") and requested is None):
            if requested is False:
                return True
            requested = False
        elif o[0] == "next":
            requested = True
    return False


def timing_dependent(p, ops):
    return idle_epoch(ops) and has_threads(p) and "sampler" in str(p)
