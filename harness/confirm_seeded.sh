#!/bin/bash
# confirm_seeded.sh <mutant-dir> <out-log> [test files...] — development aid. In a scratch copy of /repo (outside /repo and /verif):
#  1. demo passes on the untouched tree, 2. patch applies, 3. demo fails with the patch, 4. the given existing test files still pass.
M="$(readlink -f "$1")"; LOG="$2"; shift 2
D=$(mktemp -d /var/tmp/pdverif-seed.XXXXXX)
trap 'rm -rf "$D"' EXIT
rsync -a --exclude .git --exclude '*.egg-info' --exclude __pycache__ /repo/ "$D"/
cd "$D"
{
echo "== mutant $M"
DEMO=$(ls "$M"/demo*.py "$M"/test_demo*.py 2>/dev/null | head -1)
PYTHONPATH="$D" setsid -w timeout -k 5 600 /venv/bin/python "$DEMO" > "$D/demo0.out" 2>&1 < /dev/null; R0=$?
echo "demo on untouched tree: rc=$R0 (expect 0)"
git init -q . >/dev/null 2>&1
git apply --whitespace=nowarn "$M/patch.diff" || { echo "PATCH DOES NOT APPLY"; exit 2; }
PYTHONPATH="$D" setsid -w timeout -k 5 600 /venv/bin/python "$DEMO" > "$D/demo1.out" 2>&1 < /dev/null; R1=$?
echo "demo with mutant: rc=$R1 (expect non-zero)"; tail -3 "$D/demo1.out"
for T in "$@"; do
  PYTHONPATH="$D" setsid -w timeout -k 5 2400 /venv/bin/python -m pytest -q -p no:cacheprovider --timeout=900 "$T" > "$D/t.out" 2>&1 < /dev/null
  echo "tests $T: $(grep -E 'passed|failed' "$D/t.out" | tail -1)"; grep -E "^FAILED" "$D/t.out" | grep -v test_get_worker_info | head -5
done
echo "== done rc0=$R0 rc1=$R1"
} > "$LOG" 2>&1
