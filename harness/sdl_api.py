"""API-sequence driver for the StatefulDataLoader front-end (C13 SDL part, C16, C17) and its list-based reference."""
import gc

import sdl_impl as si
from lib import clist


def coq_aops(ops):
    m = {"iter": "AIter", "next": "ANext", "state": "AState", "fresh": "AFresh", "load_empty": "ALoadEmpty"}
    return clist([m[o[0]] if o[0] in m else f"(ALoad {o[1]})" for o in ops])


class RefSDL:
    """Documented behaviour of iter()/state_dict()/load_state_dict() as a list machine (epochs are the same list `ref`)."""

    def __init__(self, L, persistent):
        self.L, self.persistent = L, persistent
        self.its, self.cur, self.pending, self.for_sd, self.handle = [], None, None, False, None

    def _start(self):
        if self.persistent and self.cur is not None:
            self.its[self.cur] = [0, False]            # the same iterator object is rewound
            return
        st = [0, False]
        if self.pending is not None:
            k, fin = self.pending
            st = [k, False] if not fin else [0, False]      # a state taken after the end resumes into the next epoch
            self.pending = None
        self.its.append(st)
        self.cur = len(self.its) - 1

    def iter(self):
        if self.cur is not None and self.for_sd:
            self.for_sd = False
        else:
            self._start()
        if self.its[self.cur][1]:
            self._start()
        self.handle = self.cur

    def next(self):
        it = self.its[self.handle]
        if it[0] < self.L:
            it[0] += 1
            return ["batch", it[0] - 1]
        it[1] = True
        return "stop"

    def state(self):
        if self.cur is None:
            st = [0, False]
            if self.pending is not None:
                st = list(self.pending)
                self.pending = None
            self.its.append(st)
            self.cur = len(self.its) - 1
            self.for_sd = True
        return tuple(self.its[self.cur])

    def load(self, s):
        self.cur, self.for_sd = None, False
        if s is not None:
            self.pending = s


def run_api(cfg, ops):
    """Returns observations: next -> ['batch', index-in-epoch] | 'stop' | 'err:T'; state -> ['state', k, finished]."""
    ref = [b if isinstance(b, list) else [b] for b in si.batches_ref(cfg)]
    dl = si.make_loader(cfg)
    it, saved, obs = None, [], []
    for o in ops:
        try:
            if o[0] == "iter":
                it = iter(dl)
                obs.append("iter")
            elif o[0] == "next":
                try:
                    b = si.norm_batch(next(it))
                    obs.append(["batch", ref.index(b) if b in ref else -1])
                except StopIteration:
                    obs.append("stop")
            elif o[0] == "state":
                sd = dl.state_dict()
                saved.append(sd)
                a = si.abs_state_dict(sd, cfg)
                k = a[1] if a[0] == "sp" else a[1] + a[5]
                obs.append(["state", k, a[-1]])
            elif o[0] == "load":
                dl.load_state_dict(saved[o[1]])
                obs.append("load")
            elif o[0] == "load_empty":
                dl.load_state_dict({})
                obs.append("load")
            elif o[0] == "fresh":
                it = None
                dl = si.make_loader(cfg)
                gc.collect()
                obs.append("fresh")
        except Exception as e:  # noqa
            obs.append("err:" + type(e).__name__)
    it = None
    del dl
    gc.collect()
    return obs
