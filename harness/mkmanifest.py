#!/usr/bin/env python3
"""Regenerates /verif/MANIFEST.json from the table below (kept in one place so it stays valid)."""
import json, os
V = os.path.dirname(os.path.dirname(os.path.abspath(__file__)))
CHECKS = {
 "C15": dict(
   text="Machine-checked theorems (Coq 8.16.1, closed under the global context) about an executable Gallina model of sampler.py: "
        "loading the state taken after ANY k indices reconstructs the interrupted RandomSampler iterator exactly (stream = skipn k, next epoch's "
        "generator unchanged), an epoch without replacement is the drawn permutation, the BatchSampler iterator equals torch's grouping and its "
        "fast-forward resume yields the remaining batches, StatefulDistributedSampler's counter is exact at every point and resume = skipn. The model is tied to "
        "the code on every run by a correspondence check (model evaluated in Coq on the same generated cases as the real samplers, torch's actual draws "
        "fed to the model) plus a direct oracle (resume = suffix, equality with torch's samplers).",
   design="DESIGN.md 4 C15",
   note="Trusted: Coq kernel + vm_compute; torch.Generator determinism and torch's DistributedSampler/BatchSampler as references; hypotheses of the theorems "
        "(randperm returns a permutation of length n) are premises, checked on every generated case; the Python harness and its abstraction to Base.obs.",
   technique="Coq proof over hand-written Gallina model + lockstep correspondence (vm_compute) + direct oracle"),
}
PENDING = {"C09": "check not built yet; designed in DESIGN.md section 4 C09 (fault transitions of the SDL model + real SIGKILL at enumerated crash points) and scheduled next"}
CHECKS["C07"] = dict(
   text="Executable Gallina model of incremental_state.py (flatten / unflatten / generate_delta / apply_delta / _IncrementalWorkerState incl. None handling, "
        "tombstones, the empty-dict-is-a-leaf rule) with machine-checked theorems about it (Properties_C07.v). Tied to the code on every run by lockstep "
        "correspondence on generated histories (keys added/removed, leaf<->dict, {} leaves, in-place mutation of previously reported objects, None) through a real "
        "worker-side/main-side pair with pickling, and end-to-end through a real multi-worker loader; direct oracle: checkpoint entry == what the worker reported "
        "after its last yielded batch. End-to-end cases include fetches that fail after mutating the state (consumer continues).",
   design="DESIGN.md 4 C07",
   note="Trusted: Coq kernel + vm_compute; leaf values abstracted to tokens compared by value; pickle round-trip as the queue; the Python harness and its encoding of trees.",
   technique="Coq proof over hand-written Gallina model + lockstep correspondence (vm_compute) + direct oracle")
CHECKS["C02"] = dict(
   text="Executable Gallina model of the sequential semantics of torchdata.nodes (NodeModel.v: reset/next/get_state of IterableWrapper, SamplerWrapper, Mapper, Batcher, "
        "Unbatcher, Filter, Prefetcher/ParallelMapper by their sequential specification, Loader/LoaderIterator with its look-ahead cache and flag machine) with "
        "machine-checked theorems stated in Properties_C02.v (see that file for exactly what is proved; resume exactness for every pipeline of the syntax and every k is the target). "
        "Tied to the code on every run by lockstep correspondence: random well-typed pipelines and checkpoint/resume chains, every item, StopIteration and state dict compared "
        "with the model evaluated in Coq; direct oracle: resumed stream == uninterrupted remainder, following epochs included.",
   design="DESIGN.md 4 C02",
   note="Trusted: Coq kernel + vm_compute; concurrent operators enter this model through their sequential specification (C06/C04 concurrent model covers the threads); harness user code; "
        "MultiNodeWeightedSampler is covered by C14's model; PinMemory's read thread runs in the interleaving-level lockstep of C04/C06 (device query stubbed, no accelerator).",
   technique="Coq proof over hand-written Gallina model + lockstep correspondence (vm_compute) + direct oracle")
CHECKS["C04"] = dict(
   text="Same Gallina node model; theorems in Properties_C04.v relate running a node (reset, next until StopIteration, any number of epochs) to the list-function reference "
        "semantics sem (map f, chunking with drop_last, concat, filter, identity). Correspondence: three epochs of random pipelines compared with the model and with an independent "
        "Python list reference; concurrency runs (thread and process workers, in_order true/false, max_concurrent, prebatch, randomised per-item delays) checked against the list reference; "
        "scheduler-driven runs of the real threads replayed step by step on the interleaving model ConcModel.v (Prefetcher, PinMemory's _pin_memory_loop as the same protocol with prefetch_factor 1, ParallelMapper in_order and unordered). (sched) also contains the oracle-only family in which Thread.is_alive() is a yield point (see C06); (conc) draws num_workers from 0..4. Start-up handshake (InitSnap.v, D20): the fixed get_initial_snapshot never fails a healthy start-up under any interleaving (the pre-fix code is refuted by a 4-move schedule); tie: the real method run on every schedule of <= 9 moves, outcomes proved equal to the model's on every run (harness/tables.py check_initsnap).",
   design="DESIGN.md 4 C04",
   note="Trusted: Coq kernel + vm_compute; deterministic thread scheduler (harness/sched_threads.py) for the interleaving-level cases, delay jitter for the process-worker cases; harness user code. Interleaving-level theorems (every schedule without a reader-join timeout, every reachable state): C04_prefetcher_is_identity and C04_parallel_mapper_is_ordered_map (ParallelMapper in_order, thread workers: delivered items = map_fn over the source prefix, in order, each once; index discipline C04_parallel_mapper_index_discipline). in_order=False: C04_unordered_values_conserved / _no_invention / _multiset_when_drained (value-counting invariant, ConcPMU.v). Process workers are checked by jitter runs + oracle only.",
   technique="Coq proof over hand-written Gallina model + lockstep correspondence (vm_compute) + direct oracle")
CHECKS["C13"] = dict(
   text="Loader front-end (flag machine _it/_iter_for_state_dict/_next_iter_state_dict, LoaderIterator look-ahead) inside the Gallina node model; theorems in Properties_C13.v. "
        "Correspondence: random API call sequences over {iter, next, exhaust, state_dict, load_state_dict(any earlier state)} compared op by op with the model and with a "
        "list-based reference (epochs as lists, cursor, pending state), including epoch-dependent samplers.",
   design="DESIGN.md 4 C13",
   note="Trusted: Coq kernel + vm_compute; the list-based reference is the verifier's reading of the documented behaviour; known finding D15 (idle-epoch epoch counter) is matched specifically.",
   technique="Coq proof over hand-written Gallina model + lockstep correspondence (vm_compute) + list-reference oracle")
CHECKS["C08"] = dict(
   text="Gallina node/Loader model: state_dict() is observationally pure (theorems in Properties_C08.v); values in the model are immutable by construction, so the "
        "no-write-through half is decided on the implementation: every state dict is pickled at birth and deep-compared after further iteration, after loading it (repeatedly, "
        "the same object) and iterating; the same dict loaded twice must give the same continuation; a run with extra state_dict() calls after every op must yield the same stream. "
        "Lockstep correspondence of the base history with the model. Histories include state_dict() with a load pending while the old iterator is still consumed, and worker states holding a large constant-shape tensor.",
   design="DESIGN.md 4 C08",
   note="Trusted: Coq kernel + vm_compute; harness iterables copy on load (user-code aliasing out of scope); aliasing itself is not representable in the functional model and is checked by the oracle only.",
   technique="Coq proof (purity) over hand-written Gallina model + lockstep correspondence + pickled deep-compare oracle")
CHECKS["C14"] = dict(
   text="Executable Gallina model of MultiNodeWeightedSampler (WeightedModel.v: the next() loop with all four stop criteria, exhausted flags, source restarts, "
        "the batched choice stream with its (generator snapshot, offset) state, epoch handling) with theorems in Properties_C14.v quantified over ALL choice streams. "
        "Correspondence: real sampler with 1-4 sources (lengths 0-7), random weights/seeds/ranks/world sizes, every criterion, histories with checkpoints and "
        "resumes incl. across the 1000-draw batch boundary; the model is fed the reference multinomial stream the harness recomputes from (seed, rank, world_size, epoch, weights); "
        "every item (tagged with its source), StopIteration and state dict compared; direct oracle for per-source order and the stop-criterion characterisations. A third of the cases run with RANK/WORLD_SIZE set in the process environment (explicit arguments, rank 0 included, must win).",
   design="DESIGN.md 4 C14",
   note="Trusted: Coq kernel + vm_compute; torch.multinomial/Generator determinism; the harness's re-derivation of the rank/epoch seed is the specification of the seeding clause; "
        "known finding D12 (empty source under a cycling criterion) is matched specifically.",
   technique="Coq proof over hand-written Gallina model + lockstep correspondence (vm_compute) + direct oracle")
CHECKS["C01"] = dict(
   text="Executable Gallina model of the multi-process StatefulDataLoader iterator (SdlModel.v: worker machines, task dispatch with the snapshot flag arithmetic, reorder buffer, retirement of "
        "exhausted workers, _take_snapshot with its alignment assertion, state_dict, construction from a state dict incl. fast-forward) parameterised by an explicit result-arrival SCHEDULE. "
        "PROVED in Coq (Properties_C01.v, SdlMapProofs.v) for map-style datasets, every configuration, every snapshot interval, every interruption point k and EVERY pair of arrival schedules: "
        "state_dict() after k batches loaded into a new iterator yields exactly batches k, k+1, ... then StopIteration; closed under chains of checkpoint/resume of any length (the resumed "
        "state is again a 'good' state at the same absolute position). ITERABLE datasets (SdlIterProofs.v, SdlIterResume.v): proved for every configuration, every k and every pair of arrival schedules "
        "when snapshot_every_n_steps is 1 — the default — (C01_iter_resume_exact_every_step) or 0 (C01_iter_resume_chain_no_snapshots: with or without dataset state, any chain); any finite chain of checkpoint/resume also for interval 1, for datasets with their own state (C01_iter_resume_chain_every_step) and without one (the fast-forward path incl. its last-yielded-worker cross-check: C01_iter_resume_chain_every_step_fast_forward, C01_iter_resume_chain_default_interval); for EVERY interval the main-process side of a resume is proved exact for every arrival schedule given the worker "
        "entries of the state dict (C01_iter_resume_main_exact), and every worker entry a run writes is proved to be the state after the answer to an already handed-out task "
        "(C05_iter_checkpoint_never_ahead); that these entries are the LAST such states at boundaries of intervals >= 2 remains the target (small-scope theorem + correspondence). Tied to the code "
        "on every run by lockstep correspondence with REAL worker processes driven through the same arrival schedule (batch, main-process bookkeeping and abstracted state_dict() after every "
        "next(); checkpoint/resume chains at every k) and by the direct oracle resumed == uninterrupted suffix incl. the following epoch (also num_workers=0, persistent workers, shuffle, stateful samplers).",
   design="DESIGN.md 4 C01",
   note="Proof scope: map-style without failing indices (all I, W, P, schedules, k, chains); iterable datasets: intervals 0 and 1 (default) in full (restore and fast-forward paths, chains), intervals >= 2 main-process side + never-ahead entries; "
        "num_workers=0, persistent workers and shuffle are covered by correspondence/oracle, not by a theorem (partial in that sense). Trusted: Coq kernel + vm_compute; the arrival-scheduling multiprocessing context; harness datasets (user contract: load_state_dict(state_dict()) "
        "restores the position before exhaustion); known finding D13 matched specifically.",
   technique="Coq proof over hand-written Gallina model + lockstep correspondence under scheduled arrival (vm_compute) + direct oracle")
CHECKS["C03"] = dict(
   text="Same SDL model. PROVED (Properties_C03.v): for map-style datasets, every configuration and EVERY arrival schedule, one epoch is exactly the sampler's batches, each once, in order "
        "(error outcome at failing batches), then StopIteration, and no internal assertion fires; also from any mid-epoch good state. ITERABLE datasets (C03_iter_epoch_exact, SdlIterProofs.v): "
        "for every configuration (any num_workers, prefetch_factor, snapshot interval, shards incl. empty/uneven, batch_size incl. None, drop_last) and EVERY arrival schedule one epoch is exactly "
        "the column-major interleave of the per-worker batch lists, then StopIteration; no assertion fires, no deadlock, fuel never exhausted (slots of the round-robin walk, retirement on "
        "arrival, no starvation of the shrinking window). Correspondence: one epoch under random arrival schedules with real workers, every next() compared with the model; oracle: equality with the "
        "list reference AND with torch.utils.data.DataLoader on identical arguments; free-running multi-epoch runs for num_workers=0, persistent workers incl. abandoned epochs, shuffle "
        "(permutation), in_order=False (multiset); call scripts (user sampler depending on set_epoch(), iter() calls never advanced, a transient first-batch error then a re-run, "
        "state_dict() calls with nothing loaded) run on StatefulDataLoader and on torch's DataLoader alike.",
   design="DESIGN.md 4 C03",
   note="Proof scope: map-style (snapshot interval <= 1 or no failing index) and iterable datasets (all configurations, all schedules); in_order=False, persistent workers across epochs and "
        "shuffle by correspondence + torch differential. Trusted: Coq kernel + vm_compute; "
        "torch.utils.data.DataLoader as the named reference; arrival-scheduling context.",
   technique="Coq proof over hand-written Gallina model + lockstep correspondence under scheduled arrival + torch differential oracle")
CHECKS["C05"] = dict(
   text="Same SDL model, whose next() takes the arrival SCHEDULE as an argument. PROVED (Properties_C05.v) for map-style datasets: any two schedules give the same epoch; the continuation "
        "from a checkpoint after k batches is independent of the schedule it was taken under and of the schedule it is resumed under (all k, all schedule pairs). ITERABLE datasets "
        "(SdlIterProofs.v): any two schedules give the same epoch for every configuration (C05_iter_schedule_independent), and 'a checkpoint never reflects work a fast worker has prefetched "
        "beyond the last batch handed to the user' is proved for every configuration, interval, k and schedule (C05_iter_checkpoint_never_ahead: every worker-state entry is the state after "
        "the answer to an already passed task, never after a buffered or outstanding one); for intervals 0 and 1 the continuation after ANY chain of checkpoint/resume is the same under any two arrival schedules (C05_iter_continuation_schedule_independent). Correspondence: the same "
        "checkpoint/resume history is run with REAL worker processes under four adversarial arrival-schedule pairs (always-first, always-last, rotating, random) per configuration and "
        "interruption point; streams and continuations must coincide across schedules and with the reference; checkpointed worker positions must equal the items handed to the user (never the "
        "prefetched position); each realised schedule is replayed in the model and compared step by step.",
   design="DESIGN.md 4 C05",
   note="Proof scope: map-style in full; iterable datasets: output independence and never-ahead entries in full, continuation independence for intervals 0 and 1 (via C01's chain theorems) and on the small scope "
        "otherwise, plus adversarial-schedule correspondence. Trusted: Coq kernel + "
        "vm_compute; arrival-scheduling context (every arrival order consistent with per-worker FIFO is realisable and is a model schedule).",
   technique="Coq proof over hand-written Gallina model (schedule-quantified) + lockstep correspondence under adversarial scheduled arrival + direct oracle")
CHECKS["C10"] = dict(
   text="Same SDL model with in-band error results (RErr: the failing task consumes a slot, nothing else advances). PROVED (Properties_C10.v) for map-style datasets with snapshot interval <= 1, "
        "ANY set of failing indices and EVERY schedule: the k-th outcome is an error exactly when batch k contains a failing index, every other outcome is that batch, nothing is lost after an "
        "error, StopIteration follows the last batch. The statement for all intervals is REFUTED for the faithful model by a machine-checked witness (known finding D9). Correspondence: "
        "failing-index subsets under random arrival schedules with real workers, consumer catches and continues, every next() compared with the model; oracle: consumer-visible sequence == "
        "reference with the same exception type at exactly the failing batches; also num_workers=0, collate_fn errors, worker_init_fn errors (incl. a slow-starting sibling worker), iterator-class IterableDatasets, and an enumeration of exception kinds incl. StopIteration / IndexError / KeyError raised by a map-style __getitem__.",
   design="DESIGN.md 4 C10",
   note="Assumption: exception classes whose constructor needs several arguments are outside the claim (torch's own ExceptionWrapper.reraise turns them into RuntimeError for DataLoader too - upstream of pytorch/data). Trusted: Coq kernel + vm_compute; arrival-scheduling context; known finding D9 (snapshot interval > 1 after an error) is reproduced by the faithful model (OAssert) and matched specifically.",
   technique="Coq proof over hand-written Gallina model + lockstep correspondence under scheduled arrival + direct oracle")
CHECKS["C16"] = dict(
   text="Model of iterator construction from a loaded state dict as a staged machine with a process table (SdlCompat.v) with theorems: for ALL ordered pairs (saving, loading) num_workers "
        "incl. 0 on either side the next iteration is accepted iff they are equal; a rejected load leaves the table empty; retrying raises again; a valid load afterwards is accepted; {} is a no-op. "
        "Correspondence: EXHAUSTIVE over pairs 0..3 x 0..3 x dataset kinds on real loaders: exception vs data, retry, live children after rejection, then a valid load and drain.",
   design="DESIGN.md 4 C16",
   note="Trusted: Coq kernel; that __del__ of the half-built iterator runs when the exception unwinds is CPython behaviour (observed by the census, not modelled) - partial in that sense.",
   technique="Coq proof over hand-written Gallina model + exhaustive pairwise correspondence on real loaders")
CHECKS["C06"] = dict(
   text="Interleaving-level Gallina model of the nodes thread protocol (ConcModel.v: _populate_queue, _apply_udf, _sort_worker, _ParallelMapperIter / _SingleThreadedMapper "
        "__init__/__next__/_shutdown, QueueSnapshotStore, reset() as generations of iterators over one shared source; one model step = one queue/semaphore/event/join/sleep "
        "primitive; timeouts are schedule choices). Theorems in Properties_C06.v: for the Prefetcher, in every reachable state of every schedule without a reader-join timeout, "
        "snapshot + steps = start position + items received (the consumer position, never the reader's), over any script incl. resets and loads; pop_version discipline for every store; "
        "the same statement is proved for ParallelMapper(in_order=True) over every interleaving of reader, workers, sorter and consumer (C06_parallel_mapper_tracks_consumer, invariant PMinv in ConcPM.v), hence C06_tracks_consumer_jt_free for both node kinds. Tie to the code: the REAL threads are run under a deterministic scheduler (every primitive a yield point) and the recorded "
        "schedule is replayed on the model, compared at EVERY step (pending primitive, offered moves, semaphore, queue contents, store versions) and on every outcome; "
        "oracle: each state_dict() denotes exactly the consumer position and each continuation after a load equals the reference. A second, ORACLE-ONLY family of scheduled cases makes "
        "Thread.is_alive() a yield point of its own (a liveness test after a timed wait is a later observation); its traces are outside the model's alphabet and are checked against the reference only.",
   design="DESIGN.md 4 C06",
   note="Trusted: Coq kernel + vm_compute; the cooperative primitives of harness/sched_threads.py (linearizable, GIL-atomic attribute reads); instrumented source whose state is its position; "
        "schedules in which a join() of an old reader times out belong to C12's known finding D10 and are excluded here; the invariant snap+steps = consumer position is proved for Prefetcher and ParallelMapper(in_order=True); in_order=False is checked by "
        "correspondence+oracle on every case.",
   technique="Coq proof (consumer-position invariant over all schedules, store discipline) over hand-written interleaving model + step-by-step lockstep correspondence under a deterministic thread scheduler + direct oracle")
CHECKS["C11"] = dict(
   text="Same interleaving model. Theorems in Properties_C11.v: every wait is timed (a thread that has not finished always has a move, in ANY state), no reachable state of any schedule "
        "is a deadlock while the consumer's script is unfinished (the consumer is always inside an operation whose pending primitive is enabled or timed), next() after the stop event is "
        "immediate. NO LIVELOCK (ConcProg.v), for every reachable state of every interleaving without a reader-join timeout: a consumer waiting inside next() at its queue get, stop event unset, "
        "always has a producer (reader, a worker or the sorter; for the Prefetcher the reader) that has not finished and whose next data-path primitive is enabled - the awaited entry is in flight "
        "exactly once (coverage invariant) or the reader can produce it; after the terminal entry the next next() does not wait. BOUNDED WORK: a rank rho that no move of any thread increases, in any "
        "state, and every successful data-path move strictly decreases. FAILURES SURFACE AT THE RIGHT PLACE: what next() is about to return (item, map_fn error, source error, end) is what the mapped source holds at the consumer's position. Tie to the code: scheduler-driven lockstep with failing sources / map functions and repeated next() after errors and end of stream; deadlock under the scheduler or "
        "an exhausted step budget is a hang; process workers SIGKILLed in map_fn or while idle, map_fn RAISING inside a process worker (plain exception, a class with a two-argument constructor, an unpicklable instance), and real-time runs, under a per-call deadline. Oracle: errors surface at the failing "
        "position after the preceding items, never a clean StopIteration in their place; every call returns.",
   design="DESIGN.md 4 C11",
   note="Trusted: Coq kernel + vm_compute; scheduler primitives; fairness of the random chooser; wall-clock deadlines (20 s per call) for process and real-time cases. Proved: every wait timed, no livelock (a waiting consumer is always served), bounded work (rank). "
        "Partial in this sense: the fair-scheduler step (a thread that can advance is eventually run) is the OS scheduler's and is not modelled; schedules with a reader-join timeout are D10's.",
   technique="Coq proof (timed waits, no livelock over all interleavings, decreasing rank) over hand-written interleaving model + lockstep correspondence under a deterministic thread scheduler + deadline oracle with real SIGKILL")
CHECKS["C12"] = dict(
   text="Same interleaving model. Theorems in Properties_C12.v: the semaphore accounting identity permits + in-flight = bound holds for every generation in EVERY reachable state of EVERY "
        "schedule (timeouts, join timeouts, resets, loads, errors included), hence pulled-but-unreturned items <= prefetch_factor / max_concurrent always; the single-owner clause is stated "
        "in full and REFUTED for the faithful model by a machine-checked witness schedule recorded from the real threads (join timeout, known finding D10). Tie to the code: lockstep under "
        "the scheduler incl. join-timeout schedules with an instrumented source counting concurrent entries and read-ahead; real-time runs with fast and 1.3 s sources.",
   design="DESIGN.md 4 C12",
   note="Trusted: Coq kernel + vm_compute; scheduler primitives; a thread parked inside source.next() stands for an arbitrarily slow source. Known finding D10 is matched only when a join "
        "timeout occurred in the schedule (or the real-time source is slower than the joins); any other overlap is a violation. Partial: single ownership under 'join never times out' is checked "
        "by correspondence+oracle, its Coq proof is pending.",
   technique="Coq proof (accounting invariant over all schedules; refutation witness) over hand-written interleaving model + lockstep correspondence under a deterministic thread scheduler + instrumented-source oracle")
CHECKS["C17"] = dict(
   text="nodes: same interleaving model; theorems in Properties_C17.v: once an iterator's stop event is set, every move of its reader, workers and sorter strictly decreases a natural-number "
        "potential that no consumer step increases, and a thread that has not exited can always move - so the background threads terminate after boundedly many of their own steps, under every "
        "schedule; _shutdown's join does not return while the joined thread is alive (only the join's own timeout passes it), completion is reported only when every remaining thread is dead, and a dead thread stays dead. Loader: process-table model SdlProcs.v with theorems for every history (at most two generations alive, nothing alive once unreferenced, exhaustion releases non-persistent "
        "workers, persistent workers reused). Tie to the code: scheduler-driven lockstep in which, after the consumer's script ends, the remaining threads are run to completion (none may "
        "survive); real StatefulDataLoader histories with a census of live worker pids after every operation compared with the process-table model; real-time nodes census of threads/children.",
   design="DESIGN.md 4 C17",
   note="Trusted: Coq kernel + vm_compute; scheduler primitives; multiprocessing.active_children()/threading.enumerate() as census; CPython refcounting for __del__. Partial: OS reaping, "
        "join wall-clock (one 5 s join per worker, then terminate(), after a failed start-up) are observed, not modelled.",
   technique="Coq proof (decreasing potential after stop; process-table invariants) over hand-written models + lockstep correspondence (thread scheduler; pid census) + census oracle")
CHECKS["C09"] = dict(
   text="Fault extension of the SDL model (SdlFault.v: _next_data with the alphabet Arrive / Die w / Timeout of the _get_data wait loop; main-process functions are SdlModel's). Theorems in "
        "Properties_C09.v, for every state and every fault schedule: StopIteration is raised only when every task sent is accounted for (a dead worker's unanswered task blocks the end of the "
        "epoch - never a short epoch as if complete); when main waits and an expected worker is dead the next poll expiry raises the worker-death error; the awaited task always belongs to an "
        "expected worker. For map-style datasets and EVERY fault schedule (SdlFaultMap.v): the outcomes are exactly the sampler's batches from the first on, closed by the worker-death error or by StopIteration only after the last batch, "
        "no assertion fires, and the checkpoint after any delivered batch resumes exactly in a new iterator. For ITERABLE datasets and EVERY fault schedule (SdlIterProofs.v, "
        "C09_iter_fault_run_never_wrong): the batches handed out are a prefix of the column-major interleave, in order, each once; the history ends with StopIteration only after all of them or "
        "with the worker-death error; no assertion, and the model's 'nobody left to wait for' outcome is unreachable. Tie to the code: REAL worker processes are SIGKILLed at enumerated crash points (idle after k batches, inside the fetch of a chosen item, inside collate_fn, while the "
        "result is pickled, half-way through writing a 2 MB result into the result pipe, inside worker_init_fn, inside iter(dataset) at a persistent worker's epoch resume; one or two deaths) under a scheduled arrival order; the realised trace is replayed "
        "on the model and outcome sequences compared; oracle: delivered batches are a prefix of the reference, RuntimeError is raised within the deadline, never StopIteration short of the epoch, "
        "and the checkpoint taken before the death (pickled) resumes to the uninterrupted remainder in a fresh loader.",
   design="DESIGN.md 4 C09",
   note="PARTIAL: wall-clock bound (MP_STATUS_CHECK_INTERVAL polls, 40 s deadline per call in the harness), SIGCHLD delivery, is_alive() and pipe state after SIGKILL are runtime behaviour, "
        "observed by the correspondence run and not modelled; the model assumes a dead worker answers nothing further and that the poll's liveness test is accurate. Trusted: Coq kernel + vm_compute; "
        "arrival-scheduling context; in scheduled cases torch's SIGCHLD handler is switched off so that detection goes through the poll (free-running cases keep it).",
   technique="Coq proof (wait-loop logic under all fault schedules) over hand-written model + trace-replay correspondence with real SIGKILL at enumerated crash points + deadline oracle")
props = [json.loads(l) for l in open(os.path.join(V, "properties.jsonl"))]
checks, na = [], []
for p in props:
    i = p["id"]
    if i in CHECKS:
        c = CHECKS[i]
        checks.append({
            "property_id": i,
            "quick_cmd": f"./harness/run.sh {i} quick",
            "thorough_cmd": f"./harness/run.sh {i} thorough",
            "evidence_file": f"/verif/evidence/{i}.json",
            "replay_cmd_template": f"./harness/run.sh {i} replay {{path}}",
            "engine": "coq-model+correspondence",
            "level_claimed": {"category": "proof", "text": c["text"], "design_ref": c["design"]},
            "level_note": c["note"],
            "technique": c["technique"],
        })
    else:
        na.append({"property_id": i, "reason": PENDING.get(i, "check not built yet in this round; designed in DESIGN.md section 4 and scheduled (DESIGN.md section 9)")})
m = {
 "version": 1,
 "setup_cmd": "cd /verif && ./harness/setup.sh",
 "hooks": {"guard": "TORCHDATA_VERIF", "enable": "no source hooks are needed: checks import torchdata from /repo's working tree (PYTHONPATH) and drive it from outside; run.sh exports TORCHDATA_VERIF=1 for uniformity",
           "baseline_off_cmd": "cd /repo && /venv/bin/python -m pytest -ra -q -p no:cacheprovider --timeout=900 --continue-on-collection-errors",
           "source_commits": [], "add_only": True},
 "engines": [{"name": "coq-model+correspondence", "path": "/verif/coq + /verif/harness", "serves_properties": [c["property_id"] for c in checks],
              "kind_free_text": "Gallina models and theorems (Coq 8.16.1); models evaluated by vm_compute on generated case files and compared with the real code run from /repo"}],
 "checks": checks,
 "not_applicable": na,
 "notes": "fix: commits in /repo and known findings are listed in /verif/known_findings.json; DESIGN.md section 5 describes each.",
}
json.dump(m, open(os.path.join(V, "MANIFEST.json"), "w"), indent=1)
print("checks:", [c["property_id"] for c in checks], "not_applicable:", len(na))
