"""Implementation side of the interleaving-level checks (C04 conc, C06, C11, C12, C17 nodes).

Runs the REAL torchdata.nodes Prefetcher / ParallelMapper (thread method) under the deterministic scheduler of
sched_threads.py, over an instrumented leaf source, following a consumer script. Records

  trace   : per scheduler step  [tid, label, mode, digest]   (what ConcModel.v replays)
  obs     : per script op       item / stop / err / state / reset / shutdown outcomes
  monitor : overlap of threads inside the source, max read-ahead, live threads at the end, hang / deadlock
"""
import random
import re

import sched_threads as st

LABELS = {"start": "LStart", "ev.is_set": "LEvIsSet", "ev.set": "LEvSet", "q.put": "LQPut", "q.get": "LQGet",
          "q.empty": "LQEmpty", "sem.acquire": "LSemAcq", "sem.release": "LSemRel", "sleep": "LSleep", "src.next": "LSrcNext",
          "th.is_alive": "LIsAlive", "sem.value": "LSemValue"}     # LIsAlive occurs in oracle-only cases (alive_yield), which are not replayed on the model


class SrcError(Exception):
    pass


class UdfError(Exception):
    pass


class Monitor:
    def __init__(self):
        self.inside = 0
        self.overlap = []        # descriptions of overlapping entries
        self.pulled = 0          # items handed out by the source in the current generation
        self.returned = 0        # items/outcomes returned to the consumer in the current generation
        self.max_ahead = 0
        self.resets = 0

    def enter(self, what):
        if self.inside > 0:
            self.overlap.append(what)


def make_source(xs, err_at, mon):
    from torchdata.nodes import BaseNode

    class Src(BaseNode):
        """Leaf node over a list; state = position. next() parks once INSIDE the source (yield point 'src.next')."""

        def __init__(self):
            super().__init__()
            self.pos = 0

        def reset(self, initial_state=None):
            mon.enter("reset while a thread is inside next()")
            super().reset(initial_state)
            self.pos = initial_state["pos"] if initial_state is not None else 0
            mon.resets += 1
            mon.pulled = 0
            mon.returned = 0

        def next(self):
            mon.enter("next while another thread is inside next()")
            mon.inside += 1
            try:
                st.S.point("src.next")
            finally:
                mon.inside -= 1
            p = self.pos
            if err_at is not None and p == err_at:
                self.pos = p + 1
                mon.pulled += 1
                raise SrcError(f"source fails at {p}")
            if p >= len(xs):
                raise StopIteration()
            self.pos = p + 1
            mon.pulled += 1
            mon.max_ahead = max(mon.max_ahead, mon.pulled - mon.returned)
            return xs[p]

        def get_state(self):
            mon.enter("state_dict while a thread is inside next()")
            return {"pos": self.pos}

    return Src()


class Udf:
    def __init__(self, add, bad, nones=()):
        self.add, self.bad, self.nones = add, set(bad), set(nones)

    def __call__(self, x):
        if x in self.bad:
            raise UdfError(f"udf fails on {x}")
        if x in self.nones:
            return None
        return x + self.add


def build(c, mon):
    from torchdata.nodes import ParallelMapper, Prefetcher
    src = make_source(c["xs"], c.get("src_err"), mon)
    if c["kind"] == "pf" and c.get("pin"):
        import torch
        from torchdata.nodes import PinMemory
        if not torch.cuda.is_available():
            torch.cuda.current_device = lambda: 0        # the constructor only records it; device=None never uses it
        node = PinMemory(src, snapshot_frequency=c["sf"])
    elif c["kind"] == "pf":
        node = Prefetcher(src, prefetch_factor=c["pf"], snapshot_frequency=c["sf"])
    else:
        node = ParallelMapper(src, Udf(c.get("add", 100), c.get("bad", []), c.get("nones", [])), num_workers=c["nw"], in_order=c["in_order"],
                              method="thread", max_concurrent=c.get("mc"), snapshot_frequency=c["sf"])
    return node, src


def conc_iter(c, node):
    """the live _SingleThreadedMapper / _ParallelMapperIter of the node (None before the first reset)"""
    it = getattr(node, "_it", None)
    if c["kind"] == "pm" and it is not None:
        it = getattr(it, "_it", None)
    return it


class Chooser:
    """Schedule = PRNG + bias; biases starve or favour particular threads and fire timeouts eagerly or rarely."""

    def __init__(self, seed, bias, forced=None, no_join_timeout=False):
        self.rng = random.Random(seed)
        self.bias = bias
        self.no_join_timeout = no_join_timeout
        self.forced = list(forced) if forced is not None else None   # explicit replay schedule [(tid, mode)]
        self.k = 0

    def __call__(self, moves, S):
        if self.forced is not None:
            if self.k < len(self.forced):
                want = tuple(self.forced[self.k])
                self.k += 1
                for m in moves:
                    if (tid_of(m[0]), m[1]) == want:
                        return m
            self.forced = None
        r, b = self.rng, self.bias
        if self.no_join_timeout:
            keep = [m for m in moves if not (m[1] == "timeout" and isinstance(S.pending[m[0]][0], tuple))]
            moves = keep or moves
        go = [m for m in moves if m[1] == "go"]
        to = [m for m in moves if m[1] == "timeout"]
        if b == "zombie":
            # fire join timeouts eagerly (a source slower than the join timeout), otherwise keep the old readers slow
            jt = [m for m in to if isinstance(S.pending[m[0]][0], tuple)]
            if jt and r.random() < 0.8:
                return r.choice(jt)
            newest = [m for m in go if m[0] == "consumer#1" or m[0].endswith("#%d" % st.Thread._count)]
            if newest and r.random() < 0.6:
                return r.choice(newest)
        if b == "uniform" or not go:
            return r.choice(moves)
        if to and r.random() < {"eager_timeouts": 0.5, "few_timeouts": 0.02}.get(b, 0.15):
            return r.choice(to)
        pref = {"consumer_first": "consumer", "reader_first": "populate", "workers_last": "apply_udf", "sorter_last": "sort"}.get(b)
        if pref:
            hit = [m for m in go if pref in m[0]]
            rest = [m for m in go if pref not in m[0]]
            if b.endswith("_first") and hit and r.random() < 0.85:
                return r.choice(hit)
            if b.endswith("_last") and rest and r.random() < 0.85:
                return r.choice(rest)
        return r.choice(go)


_gen_of = {}


def tid_of(name):
    """thread name -> model tid string:  C | R<g> | W<g>.<i> | S<g>   (g = generation, counted by reader creations)"""
    base, num = name.split("#")
    num = int(num)
    if base == "consumer":
        return "C"
    return _gen_of.get(num, "?")


def run_case(c):
    """Runs one scheduled history. Returns dict(status, obs, trace, monitor...)."""
    st.install()
    st.ALIVE_YIELD = bool(c.get("alive_yield"))
    st.Thread._count = 0
    _gen_of.clear()
    mon = Monitor()
    node, src = build(c, mon)
    obs = []
    states = []
    objs = {"q": [], "sem": [], "readers": 0}
    nq = 2 if c["kind"] == "pf" else (4 if c["in_order"] else 3)

    # --- creation hooks: queues / semaphores / threads are numbered in creation order
    class Q(st.Queue):
        def __init__(self, maxsize=0):
            super().__init__(maxsize)
            objs["q"].append(self)

    class Sem(st.BoundedSemaphore):
        def __init__(self, value=1):
            super().__init__(value)
            objs["sem"].append(self)

    class Th(st.Thread):
        def __init__(self, target=None, args=(), name=None, daemon=None, kwargs=None):
            super().__init__(target=target, args=args, name=name, daemon=daemon, kwargs=kwargs)
            num = int(self.name.split("#")[1])
            nm = name or ""
            if "_populate_queue" in nm or "_pin_memory_loop" in nm:
                objs["readers"] += 1
                _gen_of[num] = f"R{objs['readers'] - 1}"
            elif "_apply_udf" in nm:
                i = int(re.search(r"worker_thread_(\d+)", nm).group(1))
                _gen_of[num] = f"W{objs['readers'] - 1}.{i}"
            elif "_sort_worker" in nm:
                _gen_of[num] = f"S{objs['readers'] - 1}"

    import torchdata.nodes._apply_udf as au
    import torchdata.nodes._populate_queue as pq
    import torchdata.nodes.map as m
    import torchdata.nodes.snapshot_store as ss
    for mod in (m, pq, au, ss):
        mod.queue.Queue = Q
        mod.threading.BoundedSemaphore = Sem
        mod.threading.Thread = Th

    for cls in (m._SingleThreadedMapper, m._ParallelMapperIter):
        if not hasattr(cls, "_verif_orig_next"):
            cls._verif_orig_next = cls.__next__

        def _next(self, _orig=cls._verif_orig_next):
            try:
                v = _orig(self)
            except StopIteration:
                raise
            except BaseException:
                mon.returned += 1
                raise
            mon.returned += 1
            return v
        cls.__next__ = _next

    def script():
        for op in c["script"]:
            if op == "next":
                try:
                    v = next(node)
                    obs.append(["item", 0 if v is None else v])
                except StopIteration:
                    obs.append(["stop"])
                except SrcError:
                    obs.append(["err", "src"])
                except UdfError:
                    obs.append(["err", "udf"])
            elif op == "state":
                sd = node.state_dict()
                it = sd["it_state"] if c["kind"] == "pm" else sd
                states.append(sd)
                obs.append(["state", it["snapshot"]["pos"], it["steps_since_snapshot"]])
            elif op == "shutdown":
                conc_iter(c, node)._shutdown()
                obs.append(["shutdown"])
            else:   # ["reset", None | j]
                j = op[1]
                try:
                    node.reset(None if j is None else states[j])
                    obs.append(["reset"])
                except (ValueError, SrcError, UdfError):
                    obs.append(["err", "ff"])
                    return "reset failed"
        return "ok"

    steps = []

    def digest():
        g = (len(objs["q"]) - 1) // nq
        qs = objs["q"][g * nq:(g + 1) * nq]
        sem = objs["sem"][g]._v if g < len(objs["sem"]) else -1
        idxs = []
        for k, q in enumerate(qs):
            # the snapshot store queue holds (version, snapshot); the data queues hold (payload, idx)
            is_store = (k == 1) if c["kind"] == "pf" else (k == 2)
            idxs.append([(e[0] + 1) if is_store else e[1] for e in list(q.queue)])
        return [sem, idxs]

    chooser = Chooser(c.get("seed", 0), c.get("bias", "uniform"), c.get("forced"), c.get("no_join_timeout", False))

    def wrapped(moves, S):
        mv = chooser(moves, S)
        op = S.pending[mv[0]][0]
        lab = LABELS[op] if isinstance(op, str) else "LJoin"
        steps.append([tid_of(mv[0]), lab, mv[1], sorted([tid_of(a), b] for a, b in moves), None])
        if len(steps) >= 2:
            pass
        return mv

    # digest AFTER each step = state seen when the next choice is made; record it lazily on the previous step
    def wrapped2(moves, S):
        if steps:
            steps[-1][4] = digest() if objs["q"] else None
        return wrapped(moves, S)

    import gc
    gc.collect()
    gc.disable()      # __del__ must run by reference counting only, at the program point where the iterator is dropped
    try:
        status, S, box = st.run_controlled(script, wrapped2, max_steps=c.get("max_steps", 6000), drain=c.get("drain", False))
    finally:
        gc.enable()
        st.uninstall()
        st.ALIVE_YIELD = False
        for cls in (m._SingleThreadedMapper, m._ParallelMapperIter):
            cls.__next__ = cls._verif_orig_next
    if steps:
        steps[-1][4] = digest() if objs["q"] else None
    live = S.live()
    S.abort()
    res = dict(status=status, obs=obs, steps=steps, result=box.get("result"), error=repr(box.get("error")) if "error" in box else None,
               overlap=mon.overlap, max_ahead=mon.max_ahead, live=[tid_of(n) for n in live], nsteps=S.n,
               join_timeouts=sum(1 for s in steps if s[1] == "LJoin" and s[2] == "timeout"), drained=S.drained,
               consumer_steps=S.consumer_steps)
    return res
