"""Deterministic scheduler for the real torchdata.nodes threads (DESIGN.md 3.4).

The nodes modules reach threading / queue / time through module globals; `install()` replaces those globals (in this process
only) by cooperative look-alikes. Threads are real Python threads running the real library code, but every primitive
operation is a yield point: the thread publishes the operation it is about to perform and parks until the scheduler grants it.
A blocked timed wait is offered two moves: proceed when enabled, or time out now. The scheduler follows a `chooser`.
The trace (thread, op, mode) is what the Gallina model is replayed on."""
import collections
import queue as _q
import threading as _th
import types


class Sched:
    def __init__(self, chooser, max_steps=20000):
        self.cv = _th.Condition()
        self.threads = {}          # name -> running | parked | done
        self.pending = {}          # name -> (op, enabled, can_timeout)
        self.granted = None
        self.chooser = chooser
        self.trace = []            # (thread, op, mode)
        self.clock = 0.0
        self.n = 0
        self.max_steps = max_steps
        self.aborted = False

    def register(self, name):
        with self.cv:
            self.threads[name] = "running"
            self.cv.notify_all()

    def finish(self, name):
        with self.cv:
            self.threads[name] = "done"
            self.pending.pop(name, None)
            self.cv.notify_all()

    def point(self, op, enabled=lambda: True, can_timeout=False):
        """Called by a controlled thread before a primitive operation; returns 'go' or 'timeout'."""
        name = _th.current_thread().name
        if self.threads.get(name) != "running" or self.aborted:
            # uncontrolled caller (e.g. a __del__ fired by the garbage collector in the scheduler's own thread)
            return "go" if enabled() else "timeout"
        with self.cv:
            self.pending[name] = (op, enabled, can_timeout)
            self.threads[name] = "parked"
            self.cv.notify_all()
            while (self.granted is None or self.granted[0] != name) and not self.aborted:
                self.cv.wait(0.5)
            if self.aborted:
                self.threads[name] = "running"
                self.pending.pop(name, None)
                raise SystemExit
            mode = self.granted[1]
            self.granted = None
            self.pending.pop(name)
            self.threads[name] = "running"
            return mode

    def moves(self):
        out = []
        for name, (op, en, to) in sorted(self.pending.items()):
            if en():
                out.append((name, "go"))
            elif to:
                out.append((name, "timeout"))
        return out

    def run_until(self, done_fn):
        """Schedules until done_fn() holds (-> 'done'), no move is enabled (-> 'deadlock') or the step bound is hit (-> 'steps')."""
        while True:
            with self.cv:
                while any(s == "running" for s in self.threads.values()) or self.granted is not None:
                    self.cv.wait(0.5)
                if done_fn():
                    return "done"
                mv = self.moves()
                if not mv:
                    return "deadlock"
                if self.n >= self.max_steps:
                    return "steps"
                choice = self.chooser(mv, self)
                self.trace.append((choice[0], self.pending[choice[0]][0], choice[1]))
                self.n += 1
                if choice[1] == "timeout":
                    self.clock += 0.1
                self.threads[choice[0]] = "running"
                self.granted = choice
                self.cv.notify_all()

    def abort(self):
        with self.cv:
            self.aborted = True
            self.cv.notify_all()

    def live(self):
        return sorted(n for n, s in self.threads.items() if s != "done")


S = None      # the active scheduler
ALIVE_YIELD = False   # is Thread.is_alive() a yield point? (set per case by conc_impl.run_case)


class Thread:
    _count = 0

    def __init__(self, target=None, args=(), name=None, daemon=None, kwargs=None):
        Thread._count += 1
        self.name = f"{name or 'T'}#{Thread._count}"
        self._target, self._args, self._done, self._started = target, args, False, False
        self._t = _th.Thread(target=self._run, name=self.name, daemon=True)

    def _run(self):
        try:
            S.point("start")
            self._target(*self._args)
        except SystemExit:
            pass
        finally:
            self._done = True
            S.finish(self.name)

    def start(self):
        self._started = True
        S.register(self.name)
        self._t.start()

    def is_alive(self):
        if ALIVE_YIELD and S is not None:
            # optional yield point (oracle-only cases): other threads may run between whatever the caller did last (say, a timed
            # q.get that found the queue empty) and this read of the thread's status
            S.point("th.is_alive")
        return self._started and not self._done

    def join(self, timeout=None):
        S.point(("join", self.name.split("#")[0]), lambda: self._done, timeout is not None)


class Event:
    def __init__(self):
        self._f = False

    def is_set(self):
        S.point("ev.is_set")
        return self._f

    def set(self):
        S.point("ev.set")
        self._f = True


class BoundedSemaphore:
    def __init__(self, value=1):
        self._v = value
        self._init = value

    @property
    def _value(self):
        # the library reads sem._value directly (no primitive); in the oracle-only cases that read is a yield point of its own
        if ALIVE_YIELD and S is not None:
            S.point("sem.value")
        return self._v

    def acquire(self, blocking=True, timeout=None):
        m = S.point("sem.acquire", lambda: self._v > 0, timeout is not None or not blocking)
        if m == "timeout":
            return False
        self._v -= 1
        return True

    def release(self):
        S.point("sem.release")
        if self._v >= self._init:
            raise ValueError("Semaphore released too many times")
        self._v += 1


class Lock:
    def __enter__(self):
        return self

    def __exit__(self, *a):
        return False


Empty = _q.Empty


class Queue:
    def __init__(self, maxsize=0):
        self.queue = collections.deque()

    def put(self, x, block=True, timeout=None):
        S.point("q.put")
        self.queue.append(x)

    def get(self, block=True, timeout=None):
        m = S.point("q.get", lambda: len(self.queue) > 0, (timeout is not None) or not block)
        if m == "timeout":
            raise Empty
        return self.queue.popleft()

    def get_nowait(self):
        return self.queue.popleft()

    def empty(self):
        S.point("q.empty")
        return len(self.queue) == 0

    def qsize(self):
        return len(self.queue)


class _Time:
    def sleep(self, s):
        S.point("sleep")

    def time(self):
        return S.clock


_saved = {}


def install():
    """Swap the primitives inside the nodes modules of THIS process."""
    import torchdata.nodes._apply_udf as au
    import torchdata.nodes._populate_queue as pq
    import torchdata.nodes.map as m
    import torchdata.nodes.snapshot_store as ss
    fake_threading = types.SimpleNamespace(Thread=Thread, Event=Event, BoundedSemaphore=BoundedSemaphore, Lock=Lock,
                                           current_thread=_th.current_thread)
    fake_queue = types.SimpleNamespace(Queue=Queue, Empty=Empty)
    fake_time = _Time()
    for mod, names in ((m, ("threading", "queue", "time", "mp")), (pq, ("queue", "threading")), (au, ("queue", "threading")),
                       (ss, ("queue", "threading", "time"))):
        for n in names:
            _saved.setdefault((mod, n), getattr(mod, n, None))
    m.threading, m.queue, m.time = fake_threading, fake_queue, fake_time
    pq.queue, pq.threading = fake_queue, fake_threading
    au.queue, au.threading = fake_queue, fake_threading
    ss.queue, ss.threading, ss.time = fake_queue, fake_threading, fake_time

    class _Ctx:
        Event = Event
        Queue = Queue
    m.mp = types.SimpleNamespace(Event=Event, Queue=Queue, get_context=lambda *_: _Ctx, Process=None)


def uninstall():
    """Put the real threading / queue / time / mp back into the nodes modules."""
    for (mod, n), v in _saved.items():
        if v is not None:
            setattr(mod, n, v)


def run_controlled(script, chooser, max_steps=20000, drain=False):
    """Runs script() in a controlled 'consumer' thread under the scheduler. Returns (status, scheduler, result-or-exception)."""
    global S
    S = Sched(chooser, max_steps)
    box = {}

    def body():
        try:
            box["result"] = script()
        except SystemExit:
            box["error"] = "aborted"
        except BaseException as e:  # noqa
            box["error"] = e
    t = Thread(target=body, name="consumer")
    t.start()
    status = S.run_until(lambda: t._done)
    S.consumer_steps = S.n
    S.drained = None
    if status == "done" and drain:
        # the consumer's script is over: every background thread must now run to completion on its own
        S.drained = S.run_until(lambda: not S.live())
    if status != "done":
        S.abort()
    return status, S, box
