#!/bin/bash
# seedcheck.sh <seeded-dir> <out-log> <Cxx> [<Cxx> ...] — development aid: in a scratch copy of /repo (outside /repo and /verif)
#  confirm the demonstration (passes untouched, fails with the change), then run the given checks against the changed copy.
M="$(readlink -f "$1")"; LOG="$2"; shift 2
D=$(mktemp -d /var/tmp/pdverif-seed.XXXXXX)
trap 'rm -rf "$D"' EXIT
rsync -a --exclude .git --exclude '*.egg-info' --exclude __pycache__ /repo/ "$D"/
H="$(dirname "$(readlink -f "$0")")"
{
echo "== $M"
PYTHONPATH="$D" setsid -w timeout -k 5 300 /venv/bin/python "$M/demo.py" > "$D/demo0.out" 2>&1 < /dev/null; R0=$?
echo "demo on untouched tree: rc=$R0 (expect 0)"
( cd "$D" && git init -q . >/dev/null 2>&1; git apply --whitespace=nowarn "$M/patch.diff" ) || { echo "PATCH DOES NOT APPLY"; exit 2; }
PYTHONPATH="$D" setsid -w timeout -k 5 300 /venv/bin/python "$M/demo.py" > "$D/demo1.out" 2>&1 < /dev/null; R1=$?
echo "demo with change: rc=$R1 (expect non-zero)"; grep -a "FAIL" "$D/demo1.out" | tail -2 | cut -c1-300
for P in "$@"; do
  echo "--- check $P ($TIER)"
  VERIF_REPO="$D" VERIF_NO_EVIDENCE=1 VERIF_REPLAY_DIR="$D/replays" "$H"/run.sh "$P" "${TIER:-quick}" 2>&1 | grep -aE "VIOLATION|KNOWN-FINDING|^\[C" | head -6
  f=$(ls -t /verif/replays/$P/*.json 2>/dev/null | head -1)
done
echo "== done rc0=$R0 rc1=$R1"
} > "$LOG" 2>&1
