"""Shared by the interleaving-level checks C04(conc) / C06 / C11 / C12 / C17(nodes): case generation, the run against the
real threads under the deterministic scheduler (conc_impl), the model-free oracles, and the Coq term that replays the very
same schedule on ConcModel.v."""
import conc_impl as ci
import lib

IMPORTS = "ConcModel ConcObs"
FUNCS = [
    "torchdata/nodes/map.py:_sort_worker", "torchdata/nodes/map.py:_ParallelMapperIter", "torchdata/nodes/map.py:_ParallelMapperImpl",
    "torchdata/nodes/map.py:ParallelMapper", "torchdata/nodes/map.py:_SingleThreadedMapper", "torchdata/nodes/prefetch.py:Prefetcher",
    "torchdata/nodes/_populate_queue.py:_populate_queue", "torchdata/nodes/pin_memory.py:_pin_memory_loop", "torchdata/nodes/pin_memory.py:PinMemory",
    "torchdata/nodes/_apply_udf.py:_apply_udf",
    "torchdata/nodes/snapshot_store.py:QueueSnapshotStore", "torchdata/nodes/snapshot_store.py:MonotonicIndex",
    "torchdata/nodes/base_node.py:BaseNode",
]
BIASES = ["uniform", "few_timeouts", "eager_timeouts", "consumer_first", "reader_first", "workers_last", "sorter_last"]
TRUSTED = [
    "deterministic scheduler harness/sched_threads.py: replaces threading/queue/time inside the nodes modules of the harness process by cooperative "
    "look-alikes (linearizable primitives, every primitive a yield point); the library code paths run unmodified in real Python threads",
    "instrumented leaf source (state = position) with a yield point inside next(); map function x -> x+add raising on listed values",
    "attribute reads without a primitive (sem._value, thread.is_alive(), store queue under its lock) are atomic (GIL); in the lockstep cases they are evaluated "
    "with the primitive before them (as the model does), in the oracle-only 'alive_yield' cases Thread.is_alive() is a yield point of its own",
]


def kmax(c):
    if c["kind"] == "pf":
        return c["pf"]
    return c["mc"] if c.get("mc") is not None else 2 * c["nw"]


def gen_case(rng, *, kinds=("pf", "pm"), errors=False, loads=True, join_timeouts=False, unordered=True, extra_after_end=1,
             drain=True, max_len=6):
    kind = rng.choice(kinds)
    n = rng.choice([0, 1, 2, 3, 4, 5, rng.randint(0, max_len)])
    xs = [rng.randint(0, 20) for _ in range(n)]
    c = dict(kind=kind, xs=xs, sf=rng.choice([0, 1, 1, 2, 3]), seed=rng.randint(0, 10**9), bias=rng.choice(BIASES),
             no_join_timeout=not join_timeouts, drain=drain)
    if kind == "pf":
        c["pf"] = rng.choice([1, 2, 3])
        if rng.random() < 0.25:
            # PinMemory: the same _SingleThreadedMapper protocol with _pin_memory_loop as the read thread, prefetch_factor 1
            # (no accelerator here: pin_memory() of plain ints is the identity, the device query is stubbed by the harness)
            c["pin"], c["pf"] = True, 1
    else:
        c["nw"] = rng.choice([1, 2, 2, 3])
        c["in_order"] = True if not unordered else rng.random() < 0.75
        c["mc"] = rng.choice([None, None, rng.randint(1, c["nw"])])
        c["add"] = 100
        c["bad"] = []
        # map_fn returns None (a falsy, "absent-looking" result) on these values; observed as item 0
        c["nones"] = sorted(set(rng.sample(xs, rng.randint(1, min(2, len(xs)))))) if (xs and rng.random() < 0.4) else []
    c["src_err"] = None
    if errors:
        r = rng.random()
        if r < 0.45:
            c["src_err"] = rng.randint(0, n)
        elif r < 0.85 and kind == "pm" and xs:
            c["bad"] = sorted(set(rng.sample(xs, rng.randint(1, min(2, len(xs))))))
    can_load = loads and (kind == "pf" or c["in_order"])
    script = [["reset", None]]
    nstates = 0
    epochs = rng.choice([1, 1, 2, 3])
    for e in range(epochs):
        budget = rng.choice([n + 1 + extra_after_end, n + 1 + extra_after_end, rng.randint(0, n + 1)])
        for _ in range(budget):
            script.append("next")
            if can_load and rng.random() < 0.4:
                script.append("state")
                nstates += 1
        if e + 1 < epochs:
            if can_load and nstates and rng.random() < 0.6:
                script.append(["reset", rng.randrange(nstates)])
            else:
                script.append(["reset", None])
    script.append("shutdown")
    c["script"] = script
    return c


def reference(c):
    """Model-free expectation of the consumer-visible outcomes of the script (in_order / Prefetcher semantics):
    a list aligned with c['script'] of outcomes, where a 'state' entry is the ABSOLUTE source position it must denote."""
    xs, err, bad = c["xs"], c.get("src_err"), set(c.get("bad", []))
    nones = set(c.get("nones", [])) if c["kind"] == "pm" else set()
    add = c.get("add", 100) if c["kind"] == "pm" else 0
    out, saved = [], []
    pos, ended = 0, False
    for op in c["script"]:
        if op == "next":
            if ended:
                out.append(["stop"])
            elif err is not None and pos == err:
                out.append(["err", "src"])
                ended = True
            elif pos >= len(xs):
                out.append(["stop"])
                ended = True
            else:
                x = xs[pos]
                pos += 1
                out.append(["err", "udf"] if (c["kind"] == "pm" and x in bad) else ["item", 0 if x in nones else x + add])
        elif op == "state":
            out.append(["state", pos])
            saved.append(pos)
        elif op == "shutdown":
            out.append(["shutdown"])
            ended = True
        else:
            pos = 0 if op[1] is None else saved[op[1]]
            ended = False
            # a load whose replay runs into the source error / end fails inside reset()
            out.append(["reset"])
    return out


def compare_reference(c, obs):
    """-> list of failure strings (empty = the implementation's outcomes are the reference's)"""
    ref = reference(c)
    fails = []
    if c["kind"] == "pm" and not c["in_order"]:
        # unordered: per epoch the multiset of outcomes must coincide when the epoch was run to its end
        def epochs(seq):
            eps, cur = [], []
            for o in seq:
                if o[0] in ("reset", "shutdown"):
                    eps.append(cur)
                    cur = []
                elif o[0] != "state":
                    cur.append(o)
            return eps
        for k, (a, b) in enumerate(zip(epochs(obs), epochs(ref))):
            if len(a) != len(b):
                fails.append(f"epoch {k}: {len(a)} outcomes, expected {len(b)}")
            elif ["stop"] in b and sorted(map(str, a)) != sorted(map(str, b)):
                fails.append(f"epoch {k}: outcomes {a} are not a permutation of {b}")
            elif ["stop"] in b and a.index(["stop"]) != b.index(["stop"]) and not any(o[0] == "err" for o in b):
                fails.append(f"epoch {k}: StopIteration at call {a.index(['stop'])}, expected at {b.index(['stop'])}")
        return fails
    if len(obs) != len(ref):
        fails.append(f"{len(obs)} outcomes for {len(ref)} script operations: {obs[-3:]}")
    for k, (a, b) in enumerate(zip(obs, ref)):
        if b[0] == "state":
            if a[0] != "state" or a[1] + a[2] != b[1]:
                fails.append(f"op {k}: state_dict() denotes position {a[1:]} (snapshot+steps), the consumer is at {b[1]}")
            elif a[1] > b[1]:
                fails.append(f"op {k}: snapshot {a[1]} is ahead of the consumer position {b[1]}")
        elif a != b:
            fails.append(f"op {k} ({c['script'][k]}): got {a}, expected {b}")
    return fails


def tid_enc(t):
    if t == "C":
        return [0, 0, 0]
    kind = {"R": 1, "W": 2, "S": 3}[t[0]]
    g, _, i = t[1:].partition(".")
    return [kind, int(g), int(i or 0)]


def tid_key(t):
    e = tid_enc(t)
    return (0 if e[0] == 0 else 1, e[1], e[0], e[2])


def coq_tid(t):
    e = tid_enc(t)
    if e[0] == 0:
        return "TC"
    role = {1: "GR", 2: f"(GW {e[2]})", 3: "GS"}[e[0]]
    return f"(TG {e[1]} {role})"


LABS = ["LStart", "LEvIsSet", "LEvSet", "LQPut", "LQGet", "LQEmpty", "LSemAcq", "LSemRel", "LSleep", "LJoin", "LSrcNext"]


def tid_code(t):
    k, g, i = tid_enc(t)
    return 0 if k == 0 else k + (4 * i if k == 2 else 0) + 64 * g


def step_enc(tid, lab, mode, moves, dig):
    """flat integer encoding of one scheduler step — the same as ConcObs.replay's"""
    mv = sorted(moves, key=lambda m: tid_key(m[0]))
    out = [tid_code(tid), LABS.index(lab), 0 if mode == "go" else 1, len(mv)] + [2 * tid_code(a) + (0 if b == "go" else 1) for a, b in mv]
    if dig is None:
        return out + [-1]
    sem, qs = dig
    out += [sem, len(qs)]
    for q in qs:
        out += [len(q)] + list(q)
    return out


def run(c):
    """-> (raw run_case result, observation in the vocabulary of ConcObs.conc_obs)"""
    r = ci.run_case(c)
    if c.get("alive_yield"):
        return r, None          # oracle-only case: Thread.is_alive() was a yield point, the trace is not in the model's alphabet
    steps = [{"__olz": step_enc(*s)} for s in r["steps"]]
    live = sorted(set(r["live"]), key=tid_key)
    obs = [r["obs"], steps, bool(r["overlap"]), {"__olz": [tid_code(t) for t in live]}]
    return r, obs


def udf_term(c):
    add = c.get("add", 100) if c["kind"] == "pm" else 0
    bad = lib.clist([str(x) for x in c.get("bad", [])])
    if c["kind"] == "pm" and c.get("nones"):
        return "udfn %d %s %s" % (add, bad, lib.clist([str(x) for x in c["nones"]]))
    return "udf %d %s" % (add, bad)


def model_term(c, r):
    tr = r["trace"]
    cfg = ("{| k_pm := %s; k_nw := %d; k_inorder := %s; k_mc := %s; k_sf := %d; k_xs := %s; k_err := %s; k_f := %s |}" % (
        lib.cbool(c["kind"] == "pm"), c.get("nw", 0), lib.cbool(c.get("in_order", True)),
        lib.copt(str(c["pf"]) if c["kind"] == "pf" else (None if c.get("mc") is None else str(c["mc"]))),
        c["sf"], lib.clist([str(x) for x in c["xs"]]), lib.copt(None if c.get("src_err") is None else str(c["src_err"])),
        udf_term(c)))
    ops = []
    for op in c["script"]:
        if op == "next":
            ops.append("KNext")
        elif op == "state":
            ops.append("KState")
        elif op == "shutdown":
            ops.append("KShutdown")
        else:
            ops.append("KReset " + lib.copt(None if op[1] is None else str(op[1])))
    sched = lib.clist([f"({coq_tid(t)}, {'Go' if m == 'go' else 'Timeout'})" for t, m in tr])
    return f"conc_obs {cfg} {lib.clist(ops)} {sched}"


def run_impl_with(c, oracle):
    """oracle(c, raw, ref_fails) -> failure string or None"""
    r, obs = run(c)
    ref_fails = compare_reference(c, r["obs"]) if r["status"] == "done" and not r.get("error") else []
    out = dict(obs=obs, trace=[[s[0], s[2]] for s in r["steps"]],
               summary=dict(status=r["status"], nsteps=r["nsteps"], outcomes=r["obs"], overlap=r["overlap"][:2], max_ahead=r["max_ahead"],
                            live=r["live"], join_timeouts=r["join_timeouts"], error=r["error"], drained=r.get("drained")))
    if obs is None:
        del out["obs"], out["trace"]
    if r["status"] == "deadlock":
        out["hang"] = True
        out["hang_kind"] = "no thread has an enabled step while the consumer is inside an operation (deadlock under the scheduler)"
        out.pop("obs", None)
    elif r["status"] == "steps":
        out["hang"] = True
        out["hang_kind"] = "step budget exhausted"
        out.pop("obs", None)
    else:
        out["oracle"] = oracle(c, r, ref_fails)
        if obs is None and r.get("error"):
            # oracle-only case: an exception that escaped the consumer script (every expected one is caught there) is a failure in itself
            out["oracle"] = f"with Thread.is_alive() as a yield point the consumer script died with {r['error'][:200]} after outcomes {r['obs'][-4:]}"
    script = c["script"]
    out["nontrivial"] = len(c["xs"]) >= 2 and r["nsteps"] >= 30
    out["key"] = [c["kind"], c["xs"], c.get("pf"), c.get("nw"), c.get("mc"), c.get("in_order"), c["sf"], c.get("src_err"), c.get("bad"),
                  script, c["seed"], c["bias"]]
    return out


def distribution(cases):
    d = {"kind": {}, "bias": {}, "src_err": 0, "udf_err": 0, "loads": 0, "resets": 0, "unordered": 0, "len": {}}
    for c in cases:
        if "script" not in c:
            d["kind"][c.get("kind")] = d["kind"].get(c.get("kind"), 0) + 1
            continue
        d["kind"][c["kind"]] = d["kind"].get(c["kind"], 0) + 1
        d["bias"][c["bias"]] = d["bias"].get(c["bias"], 0) + 1
        d["src_err"] += c.get("src_err") is not None
        d["udf_err"] += bool(c.get("bad"))
        d["pin_memory"] = d.get("pin_memory", 0) + bool(c.get("pin"))
        d["udf_none"] = d.get("udf_none", 0) + bool(c.get("nones"))
        d["loads"] += sum(1 for o in c["script"] if isinstance(o, list) and o[1] is not None)
        d["resets"] += sum(1 for o in c["script"] if isinstance(o, list)) - 1
        d["unordered"] += c["kind"] == "pm" and not c["in_order"]
        d["len"][len(c["xs"])] = d["len"].get(len(c["xs"]), 0) + 1
    return d
