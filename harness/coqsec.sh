#!/bin/bash
# coqsec.sh <file.v> <SectionName> — compile a copy of a file whose last section is still open (development aid)
cd /verif/coq && cp "$1" /tmp/sec_$$.v && echo "End $2." >> /tmp/sec_$$.v && timeout ${3:-300} coqc -Q theories PD -w -notation-overridden /tmp/sec_$$.v 2>&1 | sed "s#/tmp/sec_$$.v#$1#" | head -${4:-30}; rm -f /tmp/sec_$$.*  /tmp/.sec_$$.aux
