#!/bin/bash
# run.sh <Cxx> quick|thorough|replay [file] — fixes the environment, runs the check in its own session under a
# hard wall-clock limit and kills every process it left behind.
set -u
cd "$(dirname "$0")/.."
export PYTHONPATH="${VERIF_REPO:-/repo}"
export PYTHONHASHSEED=0
export TORCHDATA_VERIF=1
export PIP_NO_INDEX=1 CARGO_NET_OFFLINE=true GOPROXY=off
export OMP_NUM_THREADS=1 MKL_NUM_THREADS=1
export PYTHONWARNINGS=ignore
PID_="$1"; TIER="${2:-quick}"
LIMIT=2400; [ "$TIER" = "thorough" ] && LIMIT=10800
LIMIT="${VERIF_LIMIT:-$LIMIT}"
# every process of this run carries VERIF_RUN_TAG in its environment (pool workers and loader workers start sessions of their own, so
# neither the process group nor the session finds them); whatever still carries it when the check has returned is killed
export VERIF_RUN_TAG="pdverif-$$-$RANDOM$RANDOM"
setsid -w timeout -k 10 "$LIMIT" /venv/bin/python harness/check.py "$@" < /dev/null
RC=$?
for P in /proc/[0-9]*; do
  Q="${P#/proc/}"
  [ "$Q" = "$$" ] && continue
  if { tr '\0' '\n' < "$P/environ"; } 2>/dev/null | grep -qx "VERIF_RUN_TAG=$VERIF_RUN_TAG"; then kill -9 "$Q" 2>/dev/null; fi
done
if [ $RC -eq 124 ] || [ $RC -eq 137 ]; then
  mkdir -p replays/"$PID_"
  echo "{\"property\": \"$PID_\", \"kind\": \"check timed out after ${LIMIT}s\"}" > replays/"$PID_"/timeout.json
  echo "VIOLATION property=$PID_ replay=/verif/replays/$PID_/timeout.json no-failing-input-found"
  RC=1
fi
exit $RC
