"""Shared machinery of the /verif checks.

- Coq side: make, re-check Properties_Cxx.v, parse Print Assumptions, evaluate generated case files
- implementation side: a kill-safe process pool that runs cases against /repo's working tree
- reporting: evidence files, VIOLATION / KNOWN-FINDING lines, replay files
"""
import hashlib
import json
import multiprocessing as mp
import multiprocessing.connection as mpc
import os
import random
import re
import shutil
import signal
import subprocess
import sys
import time
import traceback

VERIF = os.path.dirname(os.path.dirname(os.path.abspath(__file__)))
REPO = os.environ.get("VERIF_REPO", "/repo")
COQ = os.path.join(VERIF, "coq")
SCRATCH = os.path.join(COQ, "scratch")
COQ_WARN = ["-w", "-notation-overridden,-deprecated-hint-without-locality,-deprecated-instance-without-locality"]


# ----------------------------------------------------------------------------------------------
# Coq terms from Python values
def cnat(n):
    assert isinstance(n, int) and 0 <= n < 5000, n
    return f"{n}%nat"


def cz(n):
    return f"({n})%Z"


def cbool(b):
    return "true" if b else "false"


def clist(items):
    return "[" + "; ".join(items) + "]"


def copt(x):
    return "None" if x is None else f"(Some {x})"


def cstr(s):
    assert '"' not in s
    return f'"{s}"%string'


def to_obs(v):
    """Python value -> Coq term of type Base.obs (the canonical observation encoding)."""
    if v is None:
        return "ON"
    if isinstance(v, bool):
        return f"(OB {cbool(v)})"
    if isinstance(v, int):
        return f"(OZ {cz(v)})"
    if isinstance(v, str):
        return f"(OS {cstr(v)})"
    if isinstance(v, (list, tuple)):
        return "(OL " + clist([to_obs(x) for x in v]) + ")"
    if isinstance(v, dict) and set(v) == {"__olz"}:
        return "(olz [" + "; ".join(str(int(x)) if x >= 0 else f"({int(x)})" for x in v["__olz"]) + "]%Z)"
    if isinstance(v, dict):
        # dicts are compared as sorted key/value lists
        return "(OL " + clist([to_obs([str(k), v[k]]) for k in sorted(v, key=str)]) + ")"
    raise TypeError(f"cannot encode {type(v)}: {v!r}")


# ----------------------------------------------------------------------------------------------
# Coq side
class CoqError(Exception):
    pass


def _run(cmd, cwd, timeout):
    p = subprocess.run(cmd, cwd=cwd, stdout=subprocess.PIPE, stderr=subprocess.STDOUT, text=True, timeout=timeout)
    return p.returncode, p.stdout


def coq_make(timeout=1500):
    """Full .vo build of the development (no-op when up to date). Returns (ok, log)."""
    if not os.path.exists(os.path.join(COQ, "Makefile")):
        rc, out = _run(["coq_makefile", "-f", "_CoqProject", "-o", "Makefile"], COQ, 120)
        if rc != 0:
            return False, out
    rc, out = _run(["make", "-j16"], COQ, timeout)
    return rc == 0, out


def coq_properties(pid, timeout=600):
    """Re-check theories/Properties_<pid>.v from scratch (every run) and parse Print Assumptions.

    Returns dict(ok, theorems=[names], assumptions={name: [axioms]}, log)."""
    src = os.path.join(COQ, "theories", f"Properties_{pid}.v")
    text = open(src).read()
    names = re.findall(r"^(?:Theorem|Corollary|Lemma)\s+(\w+)", text, flags=re.M)
    forbidden = re.findall(r"\b(Admitted|admit|Axiom|Parameter|Conjecture|Unset Guard|bypass_check)\b", text)
    t0 = time.time()
    try:
        rc, out = _run(["coqc", "-Q", "theories", "PD"] + COQ_WARN + [src], COQ, timeout)
    except subprocess.TimeoutExpired:
        return dict(ok=False, theorems=names, assumptions={}, log="coqc timed out", wall=time.time() - t0)
    # Print Assumptions output: either "Closed under the global context" or "Axioms:\n name : type ..."
    blocks = re.split(r"(?=Closed under the global context|Axioms:)", out)
    assumptions = []
    for b in blocks:
        if b.startswith("Closed under the global context"):
            assumptions.append([])
        elif b.startswith("Axioms:"):
            ax = re.findall(r"^(\S+)\s*:", b[len("Axioms:"):], flags=re.M)
            assumptions.append(ax)
    printed = re.findall(r"^Print Assumptions\s+(\w+)", text, flags=re.M)
    amap = {n: a for n, a in zip(printed, assumptions)}
    ok = rc == 0 and not forbidden and len(printed) == len(assumptions) and set(names) <= set(printed)
    return dict(ok=ok, theorems=names, assumptions=amap, log=out if rc != 0 else "", forbidden=forbidden,
                wall=time.time() - t0, rc=rc)


def audit_sources():
    """grep the whole development for forbidden vernacular."""
    bad = []
    for f in sorted(os.listdir(os.path.join(COQ, "theories"))):
        if f.endswith(".v"):
            for i, line in enumerate(open(os.path.join(COQ, "theories", f)), 1):
                code = re.sub(r"\(\*.*?\*\)", "", line)
                if re.search(r"\b(Admitted|admit|Axiom|Parameter|Conjecture|bypass_check)\b|Unset Guard|Unset Positivity|Unset Universe", code):
                    bad.append(f"{f}:{i}: {line.strip()}")
    return bad


def coq_eval(pid, imports, got_terms, want_terms, shard=400, timeout=600, tag="cases"):
    """Evaluate model observations inside Coq and compare with the implementation's.

    got_terms[i]  : Coq term of type obs computed by the MODEL for case i
    want_terms[i] : Coq term of type obs encoding what the IMPLEMENTATION did
    Returns the list of case indices whose observations differ."""
    assert len(got_terms) == len(want_terms)
    os.makedirs(SCRATCH, exist_ok=True)
    work = os.path.join(SCRATCH, f"{pid}_{tag}_{os.getpid()}")
    shutil.rmtree(work, ignore_errors=True)
    os.makedirs(work)
    files = []
    for s in range(0, len(got_terms), shard):
        name = f"Cases_{pid}_{s // shard}"
        path = os.path.join(work, name + ".v")
        with open(path, "w") as f:
            f.write(f"From PD Require Import Base {imports}.\nOpen Scope string_scope.\nOpen Scope list_scope.\n")
            f.write("Definition got : list obs := [\n" + ";\n".join(got_terms[s:s + shard]) + "\n].\n")
            f.write("Definition want : list obs := [\n" + ";\n".join(want_terms[s:s + shard]) + "\n].\n")
            f.write("Definition bad := mismatches got want.\n")
            f.write("Eval vm_compute in (length got, length want, bad).\n")
        files.append((s, path))
    procs = []
    import threading
    sem = threading.Semaphore(14)
    for s, path in files:
        procs.append((s, path, _LazyProc(sem,
            ["coqc", "-Q", os.path.join(COQ, "theories"), "PD"] + COQ_WARN + [path], work)))
    for _, _, p in procs:
        p.start()
    bad = []
    t0 = time.time()
    for s, path, p in procs:
        try:
            out, _ = p.communicate(timeout=max(1, timeout - (time.time() - t0)))
        except subprocess.TimeoutExpired:
            p.kill()
            raise CoqError(f"model evaluation timed out: {path}")
        if p.returncode != 0:
            raise CoqError(f"model evaluation failed ({path}):\n{out[-3000:]}")
        m = re.search(r"=\s*\((\d+)(?:%nat)?,\s*(\d+)(?:%nat)?,\s*(\[.*?\]|nil)(?:%list)?\s*\)", out.replace("\n", " "))
        if not m:
            raise CoqError(f"cannot parse coqc output ({path}):\n{out[-2000:]}")
        idx = re.findall(r"\d+", m.group(3))
        bad.extend(s + int(i) for i in idx)
    shutil.rmtree(work, ignore_errors=True)
    return sorted(bad)


class _LazyProc:
    """coqc run in a thread, at most N at a time"""

    def __init__(self, sem, cmd, cwd):
        import threading
        self.sem, self.cmd, self.cwd = sem, cmd, cwd
        self.returncode, self.out, self.proc = None, "", None
        self.th = threading.Thread(target=self._run, daemon=True)

    def start(self):
        self.th.start()

    def _run(self):
        with self.sem:
            self.proc = subprocess.Popen(self.cmd, cwd=self.cwd, stdout=subprocess.PIPE, stderr=subprocess.STDOUT, text=True)
            self.out, _ = self.proc.communicate()
            self.returncode = self.proc.returncode

    def communicate(self, timeout):
        self.th.join(timeout)
        if self.th.is_alive():
            raise subprocess.TimeoutExpired(self.cmd, timeout)
        return self.out, None

    def kill(self):
        if self.proc is not None:
            self.proc.kill()


def coq_show(imports, term, timeout=120):
    """Evaluate one term with vm_compute and return Coq's printed value (for replay files)."""
    os.makedirs(SCRATCH, exist_ok=True)
    work = os.path.join(SCRATCH, f"show_{os.getpid()}")
    shutil.rmtree(work, ignore_errors=True)
    os.makedirs(work)
    path = os.path.join(work, "Show.v")
    with open(path, "w") as f:
        f.write(f"From PD Require Import Base {imports}.\nOpen Scope string_scope.\nOpen Scope list_scope.\n")
        f.write(f"Eval vm_compute in ({term}).\n")
    try:
        rc, out = _run(["coqc", "-Q", os.path.join(COQ, "theories"), "PD"] + COQ_WARN + [path], work, timeout)
    except subprocess.TimeoutExpired:
        out = "timeout"
    shutil.rmtree(work, ignore_errors=True)
    return re.sub(r"\s+", " ", out).strip()[:4000]


# ----------------------------------------------------------------------------------------------
# kill-safe pool for implementation runs
def _pool_worker(fn, conn):
    os.setsid()  # own process group: a hung case is killed together with the children it spawned
    signal.signal(signal.SIGTERM, signal.SIG_DFL)
    while True:
        try:
            msg = conn.recv()
        except EOFError:
            return
        if msg is None:
            return
        i, case = msg
        try:
            r = fn(case)
        except BaseException as e:  # noqa
            r = {"harness_error": f"{type(e).__name__}: {e}", "traceback": traceback.format_exc()[-3000:]}
        try:
            conn.send((i, r))
        except Exception as e:  # unpicklable result
            conn.send((i, {"harness_error": f"unsendable result: {e!r}"}))


def run_cases(fn, cases, nproc=12, timeout=90, progress=None):
    """Run fn(case) for every case in forked worker processes.

    A case that exceeds `timeout` seconds is recorded as {"hang": True}: its worker and everything
    in the worker's process group is SIGKILLed and replaced."""
    ctx = mp.get_context("fork")
    results = [None] * len(cases)
    pending = list(range(len(cases)))[::-1]
    workers = []  # dict(p, conn, cur, t0)

    def spawn():
        parent, child = ctx.Pipe()
        p = ctx.Process(target=_pool_worker, args=(fn, child), daemon=False)
        p.start()
        child.close()
        w = dict(p=p, conn=parent, cur=None, t0=None)
        workers.append(w)
        return w

    def kill(w):
        try:
            os.killpg(w["p"].pid, signal.SIGKILL)
        except ProcessLookupError:
            pass
        try:
            w["p"].kill()
        except Exception:
            pass
        w["p"].join(5)
        try:
            w["conn"].close()
        except Exception:
            pass

    n = max(1, min(nproc, len(cases)))
    for _ in range(n):
        spawn()
    done = 0
    try:
        while done < len(cases):
            for w in workers:
                if w["cur"] is None and pending and w["p"].is_alive():
                    i = pending.pop()
                    w["cur"], w["t0"] = i, time.time()
                    w["conn"].send((i, cases[i]))
            busy = [w for w in workers if w["cur"] is not None]
            ready = mpc.wait([w["conn"] for w in busy], timeout=0.5) if busy else []
            for w in busy:
                if w["conn"] in ready:
                    try:
                        i, r = w["conn"].recv()
                        results[i] = r
                    except (EOFError, OSError):
                        results[w["cur"]] = {"crashed": w["p"].exitcode}
                        kill(w)
                        workers.remove(w)
                        spawn()
                    w["cur"] = None
                    done += 1
                    if progress and done % progress == 0:
                        print(f"  ... {done}/{len(cases)} cases", flush=True)
                elif time.time() - w["t0"] > timeout:
                    results[w["cur"]] = {"hang": True, "timeout_s": timeout}
                    kill(w)
                    workers.remove(w)
                    spawn()
                    done += 1
                elif not w["p"].is_alive():
                    results[w["cur"]] = {"crashed": w["p"].exitcode}
                    kill(w)
                    workers.remove(w)
                    spawn()
                    done += 1
    finally:
        for w in workers:
            try:
                w["conn"].send(None)
            except Exception:
                pass
        t_end = time.time() + 3
        for w in workers:
            w["p"].join(max(0.1, t_end - time.time()))
            if w["p"].is_alive():
                kill(w)
            else:
                try:
                    os.killpg(w["p"].pid, signal.SIGKILL)  # stray grandchildren
                except (ProcessLookupError, PermissionError):
                    pass
    return results


# ----------------------------------------------------------------------------------------------
# known findings / violations / evidence
def load_findings(pid):
    path = os.path.join(VERIF, "known_findings.json")
    if not os.path.exists(path):
        return []
    return [f for f in json.load(open(path))["findings"] if f["property"] == pid]


class Report:
    def __init__(self, pid, tier, seed):
        self.pid, self.tier, self.seed = pid, tier, seed
        self.t0 = time.time()
        self.violations = []      # (replay path, note)
        self.known_hits = {}      # finding id -> count
        self.findings = load_findings(pid)
        self.n_replay = 0

    def _replay_path(self):
        d = os.path.join(os.environ.get("VERIF_REPLAY_DIR") or os.path.join(VERIF, "replays"), self.pid)
        os.makedirs(d, exist_ok=True)
        self.n_replay += 1
        return os.path.join(d, f"{self.tier}_{self.seed}_{self.n_replay}.json")

    def violation(self, kind, case, detail, matcher=None, no_input=False):
        """Record a violation unless a *known* finding matches this very case."""
        for f in self.findings:
            if f.get("status") == "known" and matcher is not None and matcher(f, case, detail):
                self.known_hits.setdefault(f["id"], [f, 0])[1] += 1
                return False
        if len(self.violations) >= 5:   # enough replays; keep counting
            self.violations.append((None, kind))
            return True
        path = self._replay_path()
        with open(path, "w") as fh:
            json.dump({"property": self.pid, "kind": kind, "case": case, "detail": detail,
                       "seed": self.seed, "tier": self.tier,
                       "replay_cmd": f"./harness/run.sh {self.pid} replay {path}"}, fh, indent=1, default=str)
        tail = " no-failing-input-found" if no_input else ""
        print(f"VIOLATION property={self.pid} replay={path}{tail}", flush=True)
        self.violations.append((path, kind))
        return True

    def finish(self, level, coverage, assumptions):
        for fid, (f, n) in self.known_hits.items():
            print(f"KNOWN-FINDING: property={self.pid} {f['what']} [{fid}; matched {n} case(s) this run]", flush=True)
        ev = {
            "property_id": self.pid, "tier": self.tier, "seed": self.seed, "level": level,
            "coverage": coverage, "assumptions": assumptions,
            "wall_s": round(time.time() - self.t0, 2), "violations": len(self.violations),
        }
        evdir = os.path.join(VERIF, "evidence") if not os.environ.get("VERIF_NO_EVIDENCE") else os.path.join(SCRATCH, "evidence")
        os.makedirs(evdir, exist_ok=True)
        with open(os.path.join(evdir, f"{self.pid}.json"), "w") as fh:
            json.dump(ev, fh, indent=1, default=str)
        print(f"[{self.pid}] {self.tier}: {coverage.get('evaluations', 0)} cases, "
              f"{coverage.get('discharged', 0)}/{coverage.get('obligations', 0)} obligations, "
              f"{len(self.violations)} violation(s), {ev['wall_s']} s", flush=True)
        return 1 if self.violations else 0


def source_hashes(funcs):
    """funcs: list of 'relative/path.py:QualName' ; returns {name: sha1 of the normalised AST}."""
    import ast
    out = {}
    cache = {}
    for spec in funcs:
        path, qual = spec.split(":")
        full = os.path.join(REPO, path)
        if full not in cache:
            try:
                cache[full] = ast.parse(open(full).read())
            except Exception as e:
                cache[full] = None
        tree = cache[full]
        node = tree
        for part in qual.split("."):
            nxt = None
            if node is not None:
                for ch in ast.iter_child_nodes(node):
                    if isinstance(ch, (ast.FunctionDef, ast.ClassDef, ast.AsyncFunctionDef)) and ch.name == part:
                        nxt = ch
                        break
            node = nxt
        if node is None:
            out[spec] = "MISSING"
        else:
            for n in ast.walk(node):  # drop docstrings
                if isinstance(n, (ast.FunctionDef, ast.ClassDef)) and n.body and isinstance(n.body[0], ast.Expr) \
                        and isinstance(getattr(n.body[0], "value", None), ast.Constant) and isinstance(n.body[0].value.value, str):
                    n.body = n.body[1:] or [ast.Pass()]
            out[spec] = hashlib.sha1(ast.dump(node).encode()).hexdigest()[:16]
    return out


def drifted(pid_funcs):
    """Compare the working tree's function hashes with modelmap.json; returns list of changed specs."""
    path = os.path.join(VERIF, "modelmap.json")
    if not os.path.exists(path) or os.environ.get("VERIF_NO_DRIFT"):
        return []
    ref = json.load(open(path))
    cur = source_hashes(pid_funcs)
    return [k for k in pid_funcs if ref.get(k) is not None and ref.get(k) != cur[k]]


# ----------------------------------------------------------------------------------------------
# reading an obs value back from Coq (debugging aid and replay explanations)
def parse_obs(text):
    """Parse Coq's printing of a Base.obs value into Python (OZ -> int, OB -> bool, ON -> None, OS -> str, OL -> list)."""
    toks = re.findall(r'"(?:[^"]|"")*"|\(-\d+\)|-?\d+|OL|OZ|OB|ON|OS|true|false|\[|\]|;', text)
    pos = [0]

    def val():
        t = toks[pos[0]]
        pos[0] += 1
        if t == "ON":
            return None
        if t == "OZ":
            n = toks[pos[0]]
            pos[0] += 1
            return int(n.strip("()"))
        if t == "OB":
            b = toks[pos[0]]
            pos[0] += 1
            return b == "true"
        if t == "OS":
            s = toks[pos[0]]
            pos[0] += 1
            return s[1:-1]
        if t == "OL":
            assert toks[pos[0]] == "[", toks[pos[0]]
            pos[0] += 1
            out = []
            while toks[pos[0]] != "]":
                if toks[pos[0]] == ";":
                    pos[0] += 1
                    continue
                out.append(val())
            pos[0] += 1
            return out
        raise ValueError(f"unexpected token {t!r}")
    return val()


def coq_eval_obs(imports, term, timeout=300):
    os.makedirs(SCRATCH, exist_ok=True)
    work = os.path.join(SCRATCH, f"evalobs_{os.getpid()}")
    shutil.rmtree(work, ignore_errors=True)
    os.makedirs(work)
    path = os.path.join(work, "Show.v")
    with open(path, "w") as f:
        f.write(f"From PD Require Import Base {imports}.\nOpen Scope string_scope.\nOpen Scope list_scope.\n")
        f.write(f"Eval vm_compute in ({term}).\n")
    rc, out = _run(["coqc", "-Q", os.path.join(COQ, "theories"), "PD"] + COQ_WARN + [path], work, timeout)
    shutil.rmtree(work, ignore_errors=True)
    if rc != 0:
        raise CoqError(out[-2000:])
    body = out[out.index("=") + 1:]
    body = body[:body.rindex(": obs")]
    return parse_obs(body)


def plain(v):
    """Python observation with {'__olz': [...]} markers replaced by the plain list"""
    if isinstance(v, dict) and set(v) == {"__olz"}:
        return list(v["__olz"])
    if isinstance(v, (list, tuple)):
        return [plain(x) for x in v]
    return v
