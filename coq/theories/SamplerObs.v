(* SamplerObs.v — observation functions used by the C15 correspondence run: they run the model
   of SamplerModel.v on one case and produce a Base.obs value to be compared with what the real
   samplers did.  The torch generator is instantiated by a table of the actual torch draws:
   generator state = index of the next draw. *)
From PD Require Import Base SamplerModel.

Definition table_gen (tbl : list (list nat)) (g n : nat) : list nat * nat := (nth g tbl [], S g).

Definition onats (l : list nat) : obs := olist onat l.

(* RandomSampler: [epoch1; yielded after k; resumed rest; epoch after the resumed one] *)
Definition c15_rs_obs (tbl : list (list nat)) (c : rs_cfg) (k gx : nat) : obs :=
  let rp := table_gen tbl in
  let run := rs_run nat rp rp c in
  let s0 := rs_init nat rp rp c 0 in
  let sk := rs_advance nat rp rp c k s0 in
  let sd := rs_state_dict nat sk in
  let r0 := rs_load nat rp rp c (rs_init nat rp rp c gx) sd in
  let rest := iter_run (rs_next_opt nat rp rp c) (S (rs_num_samples c)) r0 in
  let rend := rs_advance nat rp rp c (length rest) r0 in
  OL [onats (run s0); onat (fst sd); onats rest; onats (run (rs_init nat rp rp c (rs_g rend)))].

(* BatchSampler over a stateless sampler: [all batches; samples_yielded after j; resumed rest] *)
Definition c15_bs_obs (xs : list nat) (bs : nat) (drop : bool) (j : nat) : obs :=
  let s0 := {| bs_inner := xs; bs_samples_yielded := 0 |} in
  let sj := iter_steps (bs_next list_next bs drop) j s0 in
  OL [olist onats (bs_run_list bs drop xs 0);
      olist onats (chunk bs drop xs);
      onat (bs_samples_yielded sj);
      olist onats (iter_run (bs_next list_next bs drop) (S (length xs)) (bs_load_ff xs (bs_samples_yielded sj)))].

(* StatefulDistributedSampler over the parent's index list:
   [epoch; state right after iter() of the next epoch; state after j; resumed rest; epoch after] *)
Definition c15_ds_obs (idxs : list nat) (j : nat) : obs :=
  let f := S (length idxs) in
  let e1 := ds_iter idxs ds_fresh in
  let s_end := fst (iter_steps ds_next (length idxs) e1) in
  let e2 := ds_iter idxs s_end in
  let sj := fst (iter_steps ds_next j e2) in
  let r := ds_iter idxs (ds_load ds_fresh (ds_state_dict sj)) in
  let r_end := fst (iter_steps ds_next (length idxs) r) in
  OL [onats (iter_run ds_next f e1); onat (ds_state_dict (fst e2)); onat (ds_state_dict sj);
      onats (iter_run ds_next f r); onats (iter_run ds_next f (ds_iter idxs r_end))].
