(* SdlCompat.v — model of how an iterator is constructed from a loaded state dict, as far as
   compatibility checks and the process table are concerned (C16):
   _StatefulSingleProcessDataLoaderIter.load_state_dict, _StatefulMultiProcessingDataLoaderIter.__init__
   / _restore_main_state, StatefulDataLoader._get_iterator / load_state_dict.
   A state dict is abstracted to its SHAPE: single-process, or multi-process with the saved
   num_workers (main snapshot) and the number of worker_<i> keys. *)
From PD Require Import Base.
Open Scope list_scope. Open Scope nat_scope.

Inductive sdshape := ShapeSP | ShapeMP (saved_num_workers : nat) (worker_keys : nat).

(* the shape a loader with W workers produces *)
Definition shape_of (W : nat) : sdshape := match W with 0 => ShapeSP | S _ => ShapeMP W W end.

Inductive stage := StCheckKeys | StStartWorkers | StHandshake | StRestoreMain | StPrime | StReplay | StDone.

Record ctor := {
  ct_stage : stage;
  ct_procs : nat;              (* live worker processes owned by the iterator under construction *)
  ct_error : bool }.

(* the stages of __init__(loader, next_iter_state) with W workers *)
Definition construct_step (W : nat) (sd : sdshape) (c : ctor) : ctor :=
  if ct_error c then c else
  match ct_stage c with
  | StCheckKeys =>
      match W, sd with
      | 0, ShapeSP => {| ct_stage := StDone; ct_procs := 0; ct_error := false |}
      | 0, ShapeMP _ _ => {| ct_stage := StCheckKeys; ct_procs := 0; ct_error := true |}     (* assert _NUM_YIELDED in state_dict *)
      | S _, ShapeSP => {| ct_stage := StCheckKeys; ct_procs := 0; ct_error := true |}       (* assert _SNAPSHOT in next_iter_state *)
      | S _, ShapeMP _ _ => {| ct_stage := StStartWorkers; ct_procs := 0; ct_error := false |}  (* worker-key set assertion: holds for shapes *)
      end
  | StStartWorkers => {| ct_stage := StHandshake; ct_procs := W; ct_error := false |}
  | StHandshake => {| ct_stage := StRestoreMain; ct_procs := ct_procs c; ct_error := false |}
  | StRestoreMain =>
      match sd with
      | ShapeMP nw _ => if nw =? W then {| ct_stage := StPrime; ct_procs := ct_procs c; ct_error := false |}
                        else {| ct_stage := StRestoreMain; ct_procs := ct_procs c; ct_error := true |}  (* assert num_workers == state[NUM_WORKERS] *)
      | ShapeSP => {| ct_stage := StRestoreMain; ct_procs := ct_procs c; ct_error := true |}
      end
  | StPrime => {| ct_stage := StReplay; ct_procs := ct_procs c; ct_error := false |}
  | StReplay => {| ct_stage := StDone; ct_procs := ct_procs c; ct_error := false |}
  | StDone => c
  end.

Fixpoint construct_run (n : nat) (W : nat) (sd : sdshape) (c : ctor) : ctor :=
  match n with 0 => c | S n' => construct_run n' W sd (construct_step W sd c) end.

(* an exception unwinds the constructor; the half-built iterator is dropped and __del__ runs
   _shutdown_workers, which empties the process table (CPython refcounting: assumed) *)
Definition construct (W : nat) (sd : sdshape) : bool * nat :=     (* (accepted, processes left behind) *)
  let c := construct_run 7 W sd {| ct_stage := StCheckKeys; ct_procs := 0; ct_error := false |} in
  if ct_error c then (false, 0) else (true, ct_procs c).

(* StatefulDataLoader: load_state_dict + the next iter() *)
Record feC := { fc_pending : option sdshape; fc_children : nat }.
Definition fc_load (f : feC) (sd : option sdshape) : feC :=      (* None = {} : no-op *)
  {| fc_pending := match sd with Some s => Some s | None => fc_pending f end; fc_children := fc_children f |}.
Inductive iter_result := IterOk | IterRaises.
Definition fc_iter (W : nat) (f : feC) : iter_result * feC :=
  match fc_pending f with
  | None => (IterOk, {| fc_pending := None; fc_children := W |})
  | Some sd => let '(ok, procs) := construct W sd in
               if ok then (IterOk, {| fc_pending := None; fc_children := procs |})
               else (IterRaises, {| fc_pending := Some sd; fc_children := 0 |})   (* next_iter_state is only cleared after success *)
  end.

(* ------------------------------------------------------------------ *)
Lemma construct_accepts_iff (Wl Ws : nat) : fst (construct Wl (shape_of Ws)) = true <-> Ws = Wl.
Proof.
  unfold construct, shape_of. destruct Wl as [|wl]; destruct Ws as [|ws]; cbn; try (split; [discriminate|discriminate]);
    try (split; reflexivity).
  destruct (ws =? wl) eqn:E; cbn.
  - apply Nat.eqb_eq in E. subst. split; reflexivity.
  - apply Nat.eqb_neq in E. split; [discriminate|]. intros H. inversion H. contradiction.
Qed.

Lemma reject_leaves_no_workers (Wl : nat) (sd : sdshape) : fst (construct Wl sd) = false -> snd (construct Wl sd) = 0.
Proof.
  unfold construct. destruct (ct_error (construct_run 7 Wl sd _)); cbn; [reflexivity|discriminate].
Qed.

Lemma accepted_has_all_workers (W : nat) : construct W (shape_of W) = (true, W).
Proof. unfold construct, shape_of. destruct W as [|w]; cbn; [reflexivity|]. rewrite Nat.eqb_refl. reflexivity. Qed.
