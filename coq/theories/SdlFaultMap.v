(* SdlFaultMap.v — C09 "never yields wrong data, never ends the epoch early": map-style datasets under ANY fault schedule
   (worker deaths, poll time-outs, arrivals in any order).  Every next() either delivers exactly the batch (or the dataset
   error) that is due at its position — and leaves the iterator in a good state for the next call — or raises the
   worker-died error / keeps polling; it never returns a wrong batch, never skips one, never reports StopIteration early,
   never trips one of its own assertions.  Reuses the invariant InvG of SdlMapProofs.v: a fault only removes future arrivals. *)
From Coq Require Import List Arith Bool Lia.
From PD Require Import Base SdlModel SdlProofs SdlMapProofs SdlFault.
Import ListNotations.
Open Scope nat_scope.

Section FaultMap.
Variable c : cfg.
Hypothesis Hkind : c_kind c = KMap.
Hypothesis HW : 0 < c_W c.
Hypothesis HP : 0 < c_P c.
Variables off c0 ny0 : nat.
Hypothesis Hnb : c_I c <= 1 \/ c_bad c = [] /\ ny0 = off.

Definition benign (o : foutcome) : Prop := (exists ws, o = FWorkerDied ws) \/ o = FO ODeadlock \/ o = FO OFuel.

Lemma res_not_stop : forall t X (a b : X), match res c off t with RStop => a | _ => b end = b.
Proof. intros. unfold res. destruct (isbad c off t); reflexivity. Qed.

Lemma next_data_f_map : forall fuel k n s cr evs o s' cr' evs',
  InvG c off c0 k n s -> k < n -> m_ny s + nerr c off k = ny0 + k -> n <= k + c_W c * c_P c ->
  next_data_f fuel c s cr evs = (o, s', cr', evs') ->
  (o = FO (expected c off k) /\ InvG c off c0 (S k) (nextn c off n) s' /\ m_ny s' + nerr c off (S k) = ny0 + S k /\ (Snap c off ny0 s -> Snap c off ny0 s')) \/ benign o.
Proof.
  induction fuel as [|f IH]; intros k n s cr evs o s' cr' evs' H Hkn Hny Hn E.
  { cbn in E. injection E as <- _ _ _. right. right. right. reflexivity. }
  cbn [next_data_f] in E. rewrite (skip_retired_hit c HW HP off c0 ny0 Hnb _ k n s H Hkn) in E. cbn [negb] in E.
  rewrite (g_rcvd _ _ _ _ _ _ H) in E.
  assert (fmain c off k = true -> In (k, mst off k) (m_msnaps s)) as Hkin by (intros Hf; apply (g_ms _ _ _ _ _ _ H); [lia | exact Hf]).
  destruct (info_get (m_info s) k) as [[w [[r st]|]]|] eqn:Ei.
  - (* already fetched *)
    destruct (deliver_buffered c HW HP off c0 k n s w r st H Hkn Ei) as (H1 & N1 & -> & -> & ->).
    rewrite (g_rcvd _ _ _ _ _ _ H) in *.
    set (s1 := upd_core s (S k) (info_del (m_info s) k) (m_wsnap s)) in *.
    destruct (process_map c Hkind HW HP off c0 ny0 Hnb k n s1 H1 ltac:(rewrite N1; exact Hny) Hn Hkin) as (sp & Hp & Hi' & Hn' & Hsn).
    rewrite res_not_stop, Hp in E. injection E as <- <- _ _. left. split; [reflexivity|]. split; [exact Hi'|]. split; [exact Hn'|]. intros HSnap. apply Hsn. exact HSnap.
  - (* the wait loop *)
    assert (m_outst s =? 0 = false) as Ho.
    { apply Nat.eqb_neq. pose proof (nans_lt _ _ _ Ei). pose proof (g_cnt _ _ _ _ _ _ H). lia. }
    rewrite Ho in E.
    (* an arrival from worker w' (any live candidate) *)
    assert (forall w' evs0, In w' (candidates s) ->
              (let '((idx, r, st), s1) := arrive c s w' in
               let s2 := match r with
                         | RStop => try_put_index c {| m_send := m_send s1; m_rcvd := m_rcvd s1; m_info := m_info s1; m_outst := m_outst s1;
                                        m_status := fset (m_status s1) w' false; m_cyc := m_cyc s1; m_ny := m_ny s1;
                                        m_siy := m_siy s1; m_samp := m_samp s1; m_msnaps := m_msnaps s1; m_last := m_last s1;
                                        m_wsnap := m_wsnap s1; m_snapshot := m_snapshot s1; m_finished := m_finished s1;
                                        m_workers := m_workers s1; m_assert := m_assert s1 |}
                         | _ => s1
                         end in
               if negb (idx =? m_rcvd s2) then
                 next_data_f f c (upd_core s2 (m_rcvd s2) (info_set (m_info s2) idx (w', Some (r, st))) (m_wsnap s2)) cr evs0
               else
                 let s3 := upd_core s2 (S (m_rcvd s2)) (info_del (m_info s2) idx) (m_wsnap s2) in
                 match r with
                 | RStop => next_data_f f c (upd_core s3 (m_rcvd s3) (m_info s3)
                                               (match st with Some x => fset (m_wsnap s3) w' x | None => m_wsnap s3 end)) cr evs0
                 | _ => let '(o0, s4) := process_data c s3 r w' st in (FO o0, s4, cr, evs0)
                 end) = (o, s', cr', evs') ->
              (o = FO (expected c off k) /\ InvG c off c0 (S k) (nextn c off n) s' /\ m_ny s' + nerr c off (S k) = ny0 + S k /\ (Snap c off ny0 s -> Snap c off ny0 s')) \/ benign o) as Harr.
    { intros w' evs0 Hw'c E0. apply in_candidates in Hw'c. destruct Hw'c as (Hw'lt & _ & Hq'ne). rewrite (g_wlen _ _ _ _ _ _ H) in Hw'lt.
      destruct (wk_q (nth w' (m_workers s) wk_fresh)) as [|tk q'] eqn:Eq; [congruence|].
      destruct (queue_head c HW HP off c0 k n s w' tk q' H Hw'lt Eq) as (Etk & Hr & Hm & Hi & Hs & Hni).
      set (t := t_idx tk) in *. rewrite Etk in Eq.
      rewrite (arrive_map c Hkind off s w' t q' Eq) in E0. rewrite res_not_stop in E0. cbn [m_rcvd arr_state] in E0.
      rewrite (g_rcvd _ _ _ _ _ _ H) in E0.
      destruct (Nat.eqb_spec t k) as [Etk2|Hne]; cbn [negb] in E0.
      - rewrite Etk2 in *.
        destruct (deliver_direct c HW HP off c0 k n s w' q' H Hw'lt Eq) as (H1 & N1 & Hwk).
        cbn [m_rcvd arr_state] in H1, N1. rewrite (g_rcvd _ _ _ _ _ _ H) in H1, N1.
        match type of H1 with InvG _ _ _ _ _ ?s3 =>
          destruct (process_map c Hkind HW HP off c0 ny0 Hnb k n s3 H1 ltac:(rewrite N1; exact Hny) Hn Hkin) as (sp & Hp & Hi' & Hn' & Hsn)
        end.
        rewrite res_not_stop in E0. rewrite <- Hwk in Hp. rewrite Hp in E0. injection E0 as <- <- _ _. left. split; [reflexivity|]. split; [exact Hi'|]. split; [exact Hn'|]. intros HSnap. apply Hsn. exact HSnap.
      - destruct (buffer_inv c HW HP off c0 k n s w' t q' H Hw'lt Eq Hne) as (Hb & Hq & Nb).
        cbn [m_rcvd m_info m_wsnap arr_state] in Hb, Hq, Nb. rewrite (g_rcvd _ _ _ _ _ _ H) in Hb, Hq, Nb.
        destruct (IH k n _ cr evs0 o s' cr' evs' Hb Hkn ltac:(rewrite Nb; exact Hny) Hn E0) as [(A1 & A2 & A3 & A4)|Hbn]; [left | right; exact Hbn].
        split; [exact A1|]. split; [exact A2|]. split; [exact A3|]. intros HSnap. apply A4. exact HSnap. }
    assert (forall w', In w' (fcandidates s cr) -> In w' (candidates s)) as Hsub by (intros w' Hin; unfold fcandidates in Hin; apply filter_In in Hin; tauto).
    set (ev := match evs with e :: _ => e | [] => match fcandidates s cr with [] => FTimeout | _ => FArrive 0 end end) in *.
    set (evs1 := match evs with [] => [] | _ :: r => r end) in *.
    destruct ev as [ch|w0|] eqn:Eev.
    + destruct (fcandidates s cr) as [|cd cds] eqn:Ec.
      * exact (IH k n s cr evs1 o s' cr' evs' H Hkn Hny Hn E).
      * rewrite <- Ec in *. apply (Harr (nth (ch mod length (fcandidates s cr)) (fcandidates s cr) 0) evs1); [|exact E].
        apply Hsub, nth_mod_in. rewrite Ec. discriminate.
    + exact (IH k n s _ evs1 o s' cr' evs' H Hkn Hny Hn E).
    + destruct (crashed_expected s cr) as [|wd wds].
      * destruct evs as [|e0 evs0]; [destruct (fcandidates s cr)|].
        -- injection E as <- _ _ _. right. right. left. reflexivity.
        -- exact (IH k n s cr _ o s' cr' evs' H Hkn Hny Hn E).
        -- exact (IH k n s cr _ o s' cr' evs' H Hkn Hny Hn E).
      * injection E as <- _ _ _. right. left. eexists. reflexivity.
  - exfalso. pose proof (g_info _ _ _ _ _ _ H k) as G. rewrite Ei in G. apply G. lia.
Qed.

(* a whole history of next() calls under one fault schedule *)
Theorem run_f_prefix : forall m k s cr evs,
  k <= L c off -> InvG c off c0 k (Nat.min (L c off) (k + c_W c * c_P c)) s -> m_ny s + nerr c off k = ny0 + k ->
  exists j tail, run_f m c s cr evs = map (fun i => FO (expected c off i)) (seq k j) ++ tail /\ k + j <= L c off /\
    (tail = [] \/ exists o, tail = [o] /\ (benign o \/ (o = FO OStop /\ k + j = L c off))).
Proof.
  induction m as [|m IH]; intros k s cr evs HkL H Hny.
  { exists 0, []. cbn. split; [reflexivity | split; [lia | left; reflexivity]]. }
  cbn [run_f]. unfold sdl_next_f.
  destruct (next_data_f (FUEL c s + length evs) c s cr evs) as [[[o s'] cr'] evs'] eqn:E.
  destruct (Nat.eq_dec k (L c off)) as [->|Hne].
  - (* everything was delivered: the next call reports the end of the epoch *)
    replace (Nat.min (L c off) (L c off + c_W c * c_P c)) with (L c off) in H by lia.
    assert (exists f, FUEL c s + length evs = S f) as [f Ef] by (unfold FUEL; eexists; cbn; reflexivity).
    rewrite Ef in E. cbn [next_data_f] in E.
    assert (skip_retired (S (m_send s)) s = (false, s)) as Hs.
    { cbn [skip_retired]. rewrite (g_rcvd _ _ _ _ _ _ H), (g_send _ _ _ _ _ _ H), Nat.ltb_irrefl. reflexivity. }
    rewrite Hs in E. cbn [negb] in E. injection E as <- _ _ _.
    exists 0, [FO OStop]. cbn. split; [reflexivity | split; [lia|]]. right. eexists. split; [reflexivity|]. right. split; [reflexivity | lia].
  - assert (k < Nat.min (L c off) (k + c_W c * c_P c)) as Hkn by (assert (0 < c_W c * c_P c) by nia; lia).
    destruct (next_data_f_map _ k _ s cr evs o s' cr' evs' H Hkn Hny ltac:(lia) E) as [(-> & H' & Hny' & _)|Hb].
    + rewrite (nextn_min c HW HP off ny0 Hnb) in H'.
      assert (forall rest, match FO (expected c off k) with FO (OBatch _) | FO OErr => FO (expected c off k) :: rest | _ => [FO (expected c off k)] end
                           = FO (expected c off k) :: rest) as Hm by (intros rest; unfold expected; destruct (isbad c off k); reflexivity).
      rewrite Hm. destruct (IH (S k) s' cr' evs' ltac:(lia) H' Hny') as (j & tail & Ej & Hj & Ht).
      exists (S j), tail. rewrite Ej. cbn [seq map app]. split; [reflexivity | split; [lia|]].
      destruct Ht as [->|(o & -> & [Hbn|[-> Hend]])]; [left; reflexivity | right; eexists; split; [reflexivity | left; exact Hbn] |].
      right. eexists. split; [reflexivity|]. right. split; [reflexivity | lia].
    + exists 0, [o]. cbn [seq map app].
      assert (match o with FO (OBatch _) | FO OErr => o :: run_f m c s' cr' evs' | _ => [o] end = [o]) as ->.
      { destruct Hb as [[ws ->]|[->| ->]]; reflexivity. }
      split; [reflexivity | split; [lia|]]. right. exists o. split; [reflexivity | left; exact Hb].
Qed.

End FaultMap.

(* from a fresh iterator: whatever dies and whenever, whatever the arrival order and however often the poll times out, the
   outcomes of the successive next() calls are the sampler's batches (an error outcome standing for a failing batch) from the
   first one on, with no gap and nothing out of place, until ONE closing outcome: the worker-died error (or the poll going
   on for ever / the model's fuel), or StopIteration — and StopIteration only after the LAST batch *)
Theorem fresh_fault_run_never_wrong c : c_kind c = KMap -> 0 < c_W c -> 0 < c_P c -> c_I c <= 1 \/ c_bad c = [] ->
  forall m cr evs, exists j tail,
    run_f m c (sdl_fresh c) cr evs = map (fun i => FO (want c i)) (seq 0 j) ++ tail /\ j <= LL c /\
    (tail = [] \/ exists o, tail = [o] /\ (benign o \/ (o = FO OStop /\ j = LL c))).
Proof.
  intros Hkind HW HP Hnb m cr evs.
  destruct (fresh_good c Hkind HW HP Hnb) as (H & N & _).
  assert (c_I c <= 1 \/ c_bad c = [] /\ 0 = 0) as Hnb' by (destruct Hnb; [left; assumption | right; split; [assumption | reflexivity]]).
  assert (L c 0 = LL c) as EL by (unfold L, LL; lia).
  destruct (run_f_prefix c Hkind HW HP 0 0 0 Hnb' m 0 (sdl_fresh c) cr evs ltac:(lia) H ltac:(rewrite N; reflexivity)) as (j & tail & E & Hj & Ht).
  exists j, tail. rewrite EL in *. split; [exact E | split; [lia|]].
  destruct Ht as [->|(o & -> & [Hb|[-> He]])]; [left; reflexivity | right; eexists; split; [reflexivity | left; exact Hb] |].
  right. eexists. split; [reflexivity|]. right. split; [reflexivity | lia].
Qed.

(* "a checkpoint taken before the death still resumes correctly": every next() that succeeds under faults leaves the iterator
   in a GOOD state (SdlMapProofs.Good: the state from which state_dict() resumes exactly — C01_map_resume_exact), so the
   checkpoint taken after any successfully delivered batch, however many workers have died meanwhile, resumes exactly *)
Section FaultGood.
Variable c : cfg.
Hypothesis Hkind : c_kind c = KMap.
Hypothesis HW : 0 < c_W c.
Hypothesis HP : 0 < c_P c.
Hypothesis Hnobad : c_bad c = [].

Theorem fault_step_keeps_good off c0 k s cr evs o s' cr' evs' : Good c off c0 k s -> k < L c off ->
  sdl_next_f c s cr evs = (o, s', cr', evs') ->
  (o = FO (want c (off + k)) /\ Good c off c0 (S k) s') \/ benign o.
Proof.
  intros (Ho & Hk & H & Hny & HS) Hlt E. unfold sdl_next_f in E.
  assert (k < Nat.min (L c off) (k + c_W c * c_P c)) as Hkn by (assert (0 < c_W c * c_P c) by nia; lia).
  assert (c_I c <= 1 \/ c_bad c = [] /\ off = off) as Hnb by (right; auto).
  assert (nerr c off k = 0) as N0 by (apply nerr_nobad; exact Hnobad).
  assert (nerr c off (S k) = 0) as N1 by (apply nerr_nobad; exact Hnobad).
  destruct (next_data_f_map c Hkind HW HP off c0 off Hnb _ k _ s cr evs o s' cr' evs' H Hkn ltac:(lia) ltac:(lia) E)
    as [(-> & H' & Hny' & Hsn)|Hb]; [left | right; exact Hb].
  rewrite (nextn_min c HW HP off off Hnb) in H'. split; [reflexivity|].
  unfold Good. split; [exact Ho|]. split; [lia|]. split; [exact H'|]. split; [lia|]. apply Hsn. exact HS.
Qed.

(* ... and from a good state state_dict() resumes exactly, under every pair of arrival schedules *)
Corollary checkpoint_after_faulty_step_resumes_exactly off c0 k s cr evs o s' cr' evs' sched : Good c off c0 k s -> k < L c off ->
  sdl_next_f c s cr evs = (o, s', cr', evs') -> o = FO (want c (off + k)) ->
  let '(sr, sched') := sdl_resume c (state_dict s') sched in
  outcomes c (S (LL c - (off + S k))) sr sched' = map (want c) (seq (off + S k) (LL c - (off + S k))) ++ [OStop].
Proof.
  intros G Hlt E Eo. destruct (fault_step_keeps_good off c0 k s cr evs o s' cr' evs' G Hlt E) as [[_ G']|Hb].
  - destruct (resume_good c Hkind HW HP Hnobad off c0 (S k) s' sched G') as (sr & sched' & B & c0' & -> & Gr & HB).
    pose proof (good_continuation c Hkind HW HP Hnobad B c0' (off + S k - B) sr sched' Gr) as Ec.
    replace (B + (off + S k - B)) with (off + S k) in Ec by lia. exact Ec.
  - exfalso. subst o. destruct Hb as [[ws Hx]|[Hx|Hx]]; unfold want in Hx; destruct (badb c (off + k)); discriminate.
Qed.

End FaultGood.

(* the worker-died error is truthful: it names only workers that have really died (and that main still expected to work) *)
Lemma died_report_is_truthful : forall fuel c s cr evs ws s' cr' evs',
  next_data_f fuel c s cr evs = (FWorkerDied ws, s', cr', evs') -> forall w, In w ws -> nth w cr' false = true.
Proof.
  induction fuel as [|f IH]; intros c s cr evs ws s' cr' evs' E w Hw; [cbn in E; discriminate|].
  cbn [next_data_f] in E.
  repeat match type of E with
         | context [let '(_, _) := ?x in _] => destruct x
         | (if ?b then _ else _) = _ => destruct b
         | match ?x with _ => _ end = _ => destruct x eqn:?
         end; try discriminate; try (eapply IH; eauto; fail).
  all: injection E as Hws _ Hcr _; subst ws cr';
    match goal with Hc : crashed_expected ?x ?y = _ |- _ =>
      assert (In w (crashed_expected x y)) as Hin by (rewrite Hc; exact Hw); unfold crashed_expected in Hin; apply filter_In in Hin;
      destruct Hin as [_ Hb]; apply andb_true_iff in Hb; exact (proj2 Hb) end.
Qed.
