(* SamplerProofs.v — proofs about SamplerModel.v (C15). *)
From PD Require Import Base SamplerModel.
From Coq Require Import Permutation.

Section RS.
  Variable G : Type.
  Variable randperm : G -> nat -> list nat * G.
  Variable randint : G -> nat -> list nat * G.
  Variable c : rs_cfg.

  Notation get_perm := (get_perm G randperm randint c).
  Notation rs_init := (rs_init G randperm randint c).
  Notation rs_next := (rs_next G randperm randint c).
  Notation rs_advance := (rs_advance G randperm randint c).
  Notation rs_load := (rs_load G randperm randint c).
  Notation rs_next_opt := (rs_next_opt G randperm randint c).

  (* every drawn chunk / permutation is non-empty (n > 0; chunk size 32) *)
  Hypothesis Hne : forall g, fst (get_perm g) <> [].

  Definition rs_wf (it : rs_iter G) : Prop := rs_perm_index it <= length (rs_perm it).

  Lemma rs_init_wf g : rs_wf (rs_init g).
  Proof. unfold rs_wf, SamplerModel.rs_init. destruct (get_perm g); simpl; lia. Qed.

  Lemma rs_next_ok it :
    rs_wf it -> rs_yielded it < rs_num_samples c ->
    exists v it', rs_next it = (Val v, it') /\ rs_wf it' /\
                  rs_yielded it' = S (rs_yielded it) /\ rs_g0 it' = rs_g0 it.
  Proof.
    intros Hwf Hy. unfold SamplerModel.rs_next.
    destruct (rs_yielded it =? rs_num_samples c) eqn:E; [apply Nat.eqb_eq in E; lia|].
    destruct (rs_perm_index it =? length (rs_perm it)) eqn:E2.
    - pose proof (Hne (rs_g it)) as Hn. destruct (get_perm (rs_g it)) as [p g'] eqn:Ep.
      cbn [fst] in Hn. cbn [rs_perm rs_perm_index].
      destruct p as [|v p]; [congruence|]. cbn [nth_error].
      eexists _, _; split; [reflexivity|]. unfold rs_wf; cbn. repeat split; lia.
    - apply Nat.eqb_neq in E2. unfold rs_wf in Hwf.
      destruct (nth_error (rs_perm it) (rs_perm_index it)) as [v|] eqn:En.
      + eexists _, _; split; [reflexivity|]. unfold rs_wf; cbn. repeat split; lia.
      + apply nth_error_None in En. lia.
  Qed.

  Lemma rs_advance_ok k : forall it,
    rs_wf it -> rs_yielded it + k <= rs_num_samples c ->
    rs_wf (rs_advance k it) /\ rs_yielded (rs_advance k it) = rs_yielded it + k /\
    rs_g0 (rs_advance k it) = rs_g0 it.
  Proof.
    induction k as [|k IH]; intros it Hwf Hy; cbn [SamplerModel.rs_advance].
    - repeat split; [assumption | lia].
    - destruct (rs_next_ok it Hwf) as (v & it' & E & Hwf' & Hy' & Hg); [lia|].
      rewrite E; cbn [snd]. destruct (IH it' Hwf') as (A1 & A2 & A3); [lia|].
      repeat split; [assumption | lia | congruence].
  Qed.

  Lemma rs_init_fields g : rs_yielded (rs_init g) = 0 /\ rs_g0 (rs_init g) = g /\ rs_perm_index (rs_init g) = 0.
  Proof. unfold SamplerModel.rs_init. destruct (get_perm g); simpl; auto. Qed.

  (* Loading the state taken after k indices into ANY freshly created iterator (whose creation
     drew from a different generator state gx) reconstructs the interrupted iterator exactly:
     same permutation, same position, same counters and the same live generator. *)
  Lemma rs_load_unfold it y gs :
    rs_yielded it = 0 -> rs_perm_index it = 0 ->
    rs_load it (y, gs) =
    let it2 := rs_advance y (rs_init gs) in
    {| rs_g0 := rs_g0 it2; rs_g := rs_g it2; rs_yielded := y; rs_perm := rs_perm it2;
       rs_perm_index := rs_perm_index it2 |}.
  Proof.
    intros Hy Hi. unfold SamplerModel.rs_load, SamplerModel.rs_init. rewrite Hy, Hi.
    destruct (get_perm gs) as [p g']. reflexivity.
  Qed.

  Theorem rs_load_exact g gx k :
    k <= rs_num_samples c ->
    rs_load (rs_init gx) (rs_state_dict G (rs_advance k (rs_init g))) = rs_advance k (rs_init g).
  Proof.
    intros Hk.
    destruct (rs_init_fields g) as (Y0 & G0 & _).
    destruct (rs_advance_ok k (rs_init g) (rs_init_wf g)) as (_ & Hy & Hg0); [lia|].
    rewrite Y0 in Hy. rewrite G0 in Hg0. cbn [plus] in Hy.
    unfold rs_state_dict. rewrite Hy, Hg0.
    destruct (rs_init_fields gx) as (Yx & _ & Ix).
    rewrite (rs_load_unfold _ _ _ Yx Ix). cbv zeta.
    destruct (rs_advance k (rs_init g)) as [a b y d e]. cbn in *. subst y. reflexivity.
  Qed.

  Lemma rs_steps_advance k it : iter_steps rs_next_opt k it = rs_advance k it.
  Proof.
    revert it; induction k as [|k IH]; intros it; cbn; [reflexivity|].
    rewrite <- IH. f_equal. unfold SamplerModel.rs_next_opt.
    destruct (rs_next it) as [[v| |] it']; reflexivity.
  Qed.

  Lemma rs_run_len f : forall it, rs_wf it -> rs_yielded it + f <= rs_num_samples c ->
    forall d, f <= length (iter_run rs_next_opt (f + d) it).
  Proof.
    induction f as [|f IH]; intros it Hwf Hy d; [lia|].
    destruct (rs_next_ok it Hwf) as (v & it' & E & Hwf' & Hy' & _); [lia|].
    cbn [plus iter_run]. unfold SamplerModel.rs_next_opt at 1. rewrite E. cbn [length].
    specialize (IH it' Hwf'). specialize (IH ltac:(lia) d). lia.
  Qed.

  (* The resumed iterator yields exactly the remaining indices (stream form). *)
  Theorem rs_resume_stream g gx k :
    k <= rs_num_samples c ->
    iter_run rs_next_opt (S (rs_num_samples c - k))
             (rs_load (rs_init gx) (rs_state_dict G (rs_advance k (rs_init g))))
    = skipn k (iter_run rs_next_opt (S (rs_num_samples c)) (rs_init g)).
  Proof.
    intros Hk. rewrite rs_load_exact by assumption. rewrite <- rs_steps_advance.
    replace (S (rs_num_samples c)) with (k + S (rs_num_samples c - k)) by lia.
    apply iter_run_steps.
    apply rs_run_len; [apply rs_init_wf|]. destruct (rs_init_fields g) as (Y0 & _). lia.
  Qed.

  Lemma rs_advance_add a b it : rs_advance (a + b) it = rs_advance b (rs_advance a it).
  Proof. revert it; induction a as [|a IH]; intros it; cbn; [reflexivity|apply IH]. Qed.

  (* The following epoch is unaffected: after the rest of the epoch the live generator of the
     resumed sampler is the one the uninterrupted sampler ends with. *)
  Theorem rs_next_epoch_unaffected g gx k :
    k <= rs_num_samples c ->
    rs_g (rs_advance (rs_num_samples c - k) (rs_load (rs_init gx) (rs_state_dict G (rs_advance k (rs_init g)))))
    = rs_g (rs_advance (rs_num_samples c) (rs_init g)).
  Proof.
    intros Hk. rewrite rs_load_exact by assumption. rewrite <- rs_advance_add.
    replace (k + (rs_num_samples c - k)) with (rs_num_samples c) by lia. reflexivity.
  Qed.
End RS.

(* ------------------------------------------------------------------ *)
(* without replacement, num_samples = n : the epoch is the drawn permutation *)
Section RSperm.
  Variable G : Type.
  Variable randperm : G -> nat -> list nat * G.
  Variable randint : G -> nat -> list nat * G.
  Variable n : nat.
  Let c := {| rs_n := n; rs_replacement := false; rs_num_samples := n |}.

  Lemma rs_run_perm_from d : forall g0 g p i,
    length p = n -> i + d = n ->
    iter_run (rs_next_opt G randperm randint c) (S d)
      {| rs_g0 := g0; rs_g := g; rs_yielded := i; rs_perm := p; rs_perm_index := i |} = skipn i p.
  Proof.
    induction d as [|d IH]; intros g0 g p i Hl Hi.
    - cbn [iter_run]. unfold rs_next_opt, rs_next. cbn [rs_yielded rs_num_samples c].
      replace (i =? n) with true by (symmetry; apply Nat.eqb_eq; lia).
      rewrite skipn_all2; [reflexivity | lia].
    - cbn [iter_run]. unfold rs_next_opt at 1, rs_next. cbn [rs_yielded rs_num_samples c rs_perm_index rs_perm].
      replace (i =? n) with false by (symmetry; apply Nat.eqb_neq; lia).
      replace (i =? length p) with false by (symmetry; apply Nat.eqb_neq; lia).
      cbn [rs_perm rs_perm_index rs_yielded rs_g rs_g0].
      destruct (nth_error p i) as [v|] eqn:En; [|apply nth_error_None in En; lia].
      cbn [rs_g0 rs_g rs_yielded rs_perm rs_perm_index].
      rewrite (skipn_S_nth i p v En). f_equal. apply IH; [assumption | lia].
  Qed.

  Hypothesis Hlen : forall g, length (fst (randperm g n)) = n.

  Theorem rs_epoch_is_drawn_perm g :
    iter_run (rs_next_opt G randperm randint c) (S n) (rs_init G randperm randint c g) = fst (randperm g n).
  Proof.
    unfold rs_init, get_perm. cbn [rs_replacement rs_n c].
    pose proof (Hlen g) as Hl. destruct (randperm g n) as [p g'] eqn:E. cbn [fst] in *.
    rewrite (rs_run_perm_from n g g' p 0 Hl eq_refl). reflexivity.
  Qed.

  Hypothesis Hperm : forall g, Permutation (fst (randperm g n)) (seq 0 n).

  Corollary rs_epoch_visits_each_once g :
    Permutation (iter_run (rs_next_opt G randperm randint c) (S n) (rs_init G randperm randint c g)) (seq 0 n).
  Proof. rewrite rs_epoch_is_drawn_perm. apply Hperm. Qed.
End RSperm.

(* ------------------------------------------------------------------ *)
(* BatchSampler                                                        *)
Section BS.
  Variable A : Type.

  Lemma bs_collect_list todo : forall (xs acc : list A) cnt,
    bs_collect list_next todo xs acc cnt =
    (acc ++ firstn todo xs, skipn todo xs, cnt + Nat.min todo (length xs), length xs <? todo).
  Proof.
    induction todo as [|t IH]; intros xs acc cnt; cbn [bs_collect].
    - rewrite app_nil_r. cbn. rewrite Nat.add_0_r. reflexivity.
    - destruct xs as [|x xs]; cbn [list_next].
      + cbn. rewrite app_nil_r, Nat.add_0_r. reflexivity.
      + rewrite IH. cbn [firstn skipn length]. rewrite <- app_assoc. cbn [app].
        replace (S cnt + Nat.min t (length xs)) with (cnt + Nat.min (S t) (S (length xs)))
          by (cbn [Nat.min]; lia).
        reflexivity.
  Qed.

  Variables (bs : nat) (drop : bool).
  Hypothesis Hbs : 0 < bs.

  Lemma bs_next_list (xs : list A) cnt :
    bs_next list_next bs drop {| bs_inner := xs; bs_samples_yielded := cnt |} =
    if length xs <? bs then
      (if drop || (match xs with [] => true | _ => false end) then None else Some xs,
       {| bs_inner := @nil A; bs_samples_yielded := cnt + length xs |})
    else (Some (firstn bs xs), {| bs_inner := skipn bs xs; bs_samples_yielded := cnt + bs |}).
  Proof.
    unfold bs_next. cbn [bs_inner bs_samples_yielded]. rewrite bs_collect_list. cbn [app].
    destruct (length xs <? bs) eqn:E.
    - apply Nat.ltb_lt in E. rewrite firstn_all2 by lia. rewrite skipn_all2 by lia.
      rewrite Nat.min_r by lia. destruct (drop || _); reflexivity.
    - apply Nat.ltb_ge in E. rewrite Nat.min_l by lia. reflexivity.
  Qed.

  (* the iterator yields exactly torch's BatchSampler grouping, from any counter value *)
  Lemma bs_run_is_chunk f : forall (xs : list A) cnt,
    iter_run (bs_next list_next bs drop) f {| bs_inner := xs; bs_samples_yielded := cnt |}
    = chunk_fuel f bs drop xs.
  Proof.
    induction f as [|f IH]; intros xs cnt; [reflexivity|].
    cbn [iter_run chunk_fuel]. rewrite bs_next_list.
    destruct xs as [|x xs].
    - cbn [length]. replace (0 <? bs) with true by (symmetry; apply Nat.ltb_lt; lia).
      rewrite orb_true_r. reflexivity.
    - destruct (length (x :: xs) <? bs) eqn:E.
      + rewrite orb_false_r. destruct drop; [reflexivity|].
        f_equal. rewrite IH. destruct f; reflexivity.
      + f_equal. apply IH.
  Qed.

  Theorem bs_is_torch (xs : list A) : bs_run_list bs drop xs 0 = chunk bs drop xs.
  Proof. apply bs_run_is_chunk. Qed.

  (* position invariant: the inner iterator is always the suffix after samples_yielded *)
  Lemma bs_steps_inv (xs : list A) j : forall it,
    bs_inner it = skipn (bs_samples_yielded it) xs ->
    bs_inner (iter_steps (bs_next list_next bs drop) j it)
    = skipn (bs_samples_yielded (iter_steps (bs_next list_next bs drop) j it)) xs.
  Proof.
    induction j as [|j IH]; intros it H; cbn [iter_steps]; [exact H|].
    apply IH. destruct it as [inner cnt]. cbn [bs_inner bs_samples_yielded] in *.
    rewrite bs_next_list. destruct (length inner <? bs) eqn:E; cbn [snd bs_inner bs_samples_yielded].
    - subst inner. rewrite skipn_length in *. apply Nat.ltb_lt in E.
      symmetry. apply skipn_all2. lia.
    - subst inner. rewrite skipn_skipn. reflexivity.
  Qed.

  Lemma pop_skipn k : forall (xs : list A), snd (list_next (skipn k xs)) = skipn (S k) xs.
  Proof.
    induction k as [|k IHk]; intros xs.
    - destruct xs; reflexivity.
    - destruct xs as [|x xs]; [reflexivity|]. cbn [skipn]. apply IHk.
  Qed.

  Lemma pop_iter k : forall (xs : list A),
    snd (Nat.iter k (fun st => list_next (snd st)) (None, xs)) = skipn k xs.
  Proof.
    induction k as [|k IH]; intros xs; [reflexivity|].
    change (Nat.iter (S k) (fun st => list_next (snd st)) (None, xs)) with (list_next (snd (Nat.iter k (fun st : option A * list A => list_next (snd st)) (None, xs)))). rewrite IH. apply pop_skipn.
  Qed.

  (* fast-forward resume over a stateless sampler: skip samples_yielded, get the remaining batches *)
  Theorem bs_resume_ff (xs : list A) j f :
    let s0 := {| bs_inner := xs; bs_samples_yielded := 0 |} in
    let sj := iter_steps (bs_next list_next bs drop) j s0 in
    j <= length (iter_run (bs_next list_next bs drop) (j + f) s0) ->
    iter_run (bs_next list_next bs drop) f (bs_load_ff xs (bs_samples_yielded sj))
    = skipn j (iter_run (bs_next list_next bs drop) (j + f) s0).
  Proof.
    intros s0 sj Hj. rewrite <- (iter_run_steps _ j f s0 Hj). fold sj.
    f_equal. unfold bs_load_ff. rewrite pop_iter.
    pose proof (bs_steps_inv xs j s0 eq_refl) as H. fold sj in H.
    destruct sj as [inner cnt]. cbn in *. subst inner. reflexivity.
  Qed.
End BS.

(* ------------------------------------------------------------------ *)
(* StatefulDistributedSampler                                          *)
Lemma ds_run_list l : forall s f, length l < f -> iter_run ds_next f (s, l) = l.
Proof.
  induction l as [|x l IH]; intros s f Hf; destruct f as [|f]; cbn in *; try lia; [reflexivity|].
  f_equal. apply IH. lia.
Qed.

Lemma ds_steps_yielded l : forall j s, j <= length l ->
  ds_yielded (fst (iter_steps ds_next j (s, l))) = ds_yielded s + j /\
  snd (iter_steps ds_next j (s, l)) = skipn j l.
Proof.
  induction l as [|x l IH]; intros j s Hj; destruct j as [|j]; cbn in *; try lia; try (split; [lia|reflexivity]).
  destruct (IH j {| ds_yielded := S (ds_yielded s); ds_next_yielded := ds_next_yielded s |}) as [A B]; [lia|].
  cbn in *. split; [lia | exact B].
Qed.

(* resumed sampler yields exactly the remaining indices of the parent's list *)
Theorem ds_resume idxs k s :
  iter_run ds_next (S (length idxs)) (ds_iter idxs (ds_load s k)) = skipn k idxs.
Proof.
  unfold ds_iter, ds_load. cbn [ds_next_yielded]. apply ds_run_list.
  rewrite skipn_length. lia.
Qed.

(* uninterrupted epoch = parent's list (torch DistributedSampler), whatever the old counter was *)
Theorem ds_epoch_is_parent idxs s :
  ds_next_yielded s = None ->
  iter_run ds_next (S (length idxs)) (ds_iter idxs s) = idxs.
Proof. intros H. unfold ds_iter. rewrite H. cbn [skipn]. apply ds_run_list. lia. Qed.

(* the saved counter is the number of indices handed out in this epoch, at every point,
   including immediately after iter() of a later epoch (old counter = anything) *)
Theorem ds_state_counts idxs s j :
  ds_next_yielded s = None -> j <= length idxs ->
  ds_state_dict (fst (iter_steps ds_next j (ds_iter idxs s))) = j.
Proof.
  intros H Hj. unfold ds_iter. rewrite H. cbn [skipn]. unfold ds_state_dict.
  destruct (ds_steps_yielded idxs j {| ds_yielded := 0; ds_next_yielded := None |} Hj) as [A _].
  rewrite A. reflexivity.
Qed.

(* hence: state after j, loaded, resumes with the suffix after j *)
Corollary ds_resume_at_any_point idxs s j fresh :
  ds_next_yielded s = None -> j <= length idxs ->
  iter_run ds_next (S (length idxs))
     (ds_iter idxs (ds_load fresh (ds_state_dict (fst (iter_steps ds_next j (ds_iter idxs s))))))
  = skipn j idxs.
Proof. intros H Hj. rewrite ds_state_counts by assumption. apply ds_resume. Qed.

(* The pre-fix lazy generator refutes [ds_state_counts] at j = 0 of a later epoch (D11). *)
Theorem ds_lazy_refuted :
  exists idxs s, ds_next_yielded s = None /\ ds_state_after_iter_lazy idxs s <> 0.
Proof. exists [0;1;2], {| ds_yielded := 3; ds_next_yielded := None |}. split; [reflexivity|]. cbn. lia. Qed.
