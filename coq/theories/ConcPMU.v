(* ConcPMU.v — ParallelMapper(in_order=False), thread workers: the VALUES handed to the consumer (results are delivered in
   completion order, there is no sorter).  A counting invariant over values: for every value y,
       #y among the items delivered  +  #y among the entries in flight  =  #y among map_fn over the source positions read
   in every reachable state of every interleaving without a reader-join timeout.  Hence: nothing is invented, nothing is
   delivered more often than the source (through map_fn) yields it, and when nothing is in flight the delivered items are,
   as a multiset, exactly map_fn over what was read — C04's "the multiset when not in order". *)
From Coq Require Import List Arith Bool Lia.
From RecordUpdate Require Import RecordUpdate.
From PD Require Import ConcModel ConcInv ConcLive ConcOwner ConcSnap ConcPM.
Import ListNotations.
Open Scope nat_scope.

Section PMU.
Variable c : cfg.
Hypothesis Hpm : k_pm c = true.
Hypothesis Hio : k_inorder c = false.

(* value carried by a mapped payload / by a raw source payload once mapped *)
Definition pv (p : payload) : list nat := match p with PItem y => [y] | _ => [] end.
Definition rv (p : payload) : list nat := pv (mapped c p).
Definition wv (w : wpc) : list nat := match w with WPut p _ => pv p | _ => [] end.
Definition cv (p : cpc) : list nat := match p with CRel x _ => [x] | _ => [] end.

Definition V (g : gen) : list nat :=
  flat_map (fun e => rv (fst e)) (g_q1 g) ++ flat_map wv (g_ws g) ++ flat_map (fun e => pv (fst e)) (g_q2 g) ++ cv (g_c g).

Definition spec (base n : nat) : list nat := flat_map (fun k => got c (base + k)) (seq 0 n).

Arguments spec : simpl never.

Lemma spec_S base n : spec base (S n) = spec base n ++ got c (base + n).
Proof. unfold spec. rewrite seq_S, flat_map_app. cbn. rewrite app_nil_r. reflexivity. Qed.

Lemma got_rv pos : got c pos = rv (spay c pos).
Proof. reflexivity. Qed.

(* where the reader is, independent of the snapshot store *)
Definition RP (g : gen) (pos : nat) : Prop :=
  match g_r g with
  | RStart | RInitPut _ => pos = g_base g /\ g_ridx g = 0
  | RChk | RAcq | RPull => pos = g_base g + g_ridx g
  | RStore x i _ => S i = g_ridx g /\ pos = g_base g + g_ridx g /\ PItem x = spay c (g_base g + i)
  | RPut p i last => S i = g_ridx g /\ (last = false -> pos = g_base g + g_ridx g) /\ p = spay c (g_base g + i)
  | RDone => True
  end.

Definition VEq (g : gen) : Prop :=
  forall y, cnt y (g_items g) + cnt y (V g) = cnt y (spec (g_base g) (g_ridx g - rpend (g_r g))).

Definition UInv (g : gen) (pos : nat) : Prop := RP g pos /\ VEq g /\ g_s g = SDone.

Lemma cnt_fm_app {A} y (f : A -> list nat) l x : cnt y (flat_map f (l ++ [x])) = cnt y (flat_map f l) + cnt y (f x).
Proof. rewrite flat_map_app, cnt_app. cbn. rewrite app_nil_r. reflexivity. Qed.

Lemma wv_set_nth y i p ws old : nth_error ws i = Some old ->
  cnt y (flat_map wv (set_nth i p ws)) + cnt y (wv old) = cnt y (flat_map wv ws) + cnt y (wv p).
Proof.
  revert i. induction ws as [|a ws IH]; intros [|i] H; cbn in *; try discriminate.
  - injection H as ->. unfold set_nth. cbn. rewrite !cnt_app. lia.
  - specialize (IH i H). unfold set_nth in *. cbn. rewrite !cnt_app. cbn in IH. lia.
Qed.

Lemma uinv_new base ff : UInv (new_gen c base ff) base.
Proof.
  unfold new_gen. rewrite Hpm, Hio. split; [|split].
  - cbn. auto.
  - intros y. unfold V. cbn. replace (flat_map wv (repeat WStart (k_nw c))) with (@nil nat) by (induction (k_nw c); cbn; auto). reflexivity.
  - reflexivity.
Qed.

Ltac vsimp := unfold V; cbn; rewrite ?flat_map_app, ?cnt_app; cbn; rewrite ?cnt_app, ?app_nil_r.

Lemma veq_frame g g' : VEq g -> g_items g' = g_items g -> V g' = V g -> g_base g' = g_base g -> g_ridx g' = g_ridx g -> g_r g' = g_r g -> VEq g'.
Proof. intros E E1 E2 E3 E4 E5 y. rewrite E1, E2, E3, E4, E5. apply E. Qed.

Lemma rp_frame g g' pos : RP g pos -> g_r g' = g_r g -> g_base g' = g_base g -> g_ridx g' = g_ridx g -> RP g' pos.
Proof. unfold RP. intros R E1 E2 E3. rewrite E1, E2, E3. exact R. Qed.

Lemma uinv_rstep m g pos : UInv g pos -> UInv (fst (rstep c m g pos)) (snd (rstep c m g pos)).
Proof.
  intros (R & E & HS). unfold RP in R.
  (* a step that changes the reader's pc only, between pcs that hold the same number of entries *)
  assert (forall g' pos', g_items g' = g_items g -> V g' = V g -> g_base g' = g_base g -> g_ridx g' = g_ridx g ->
                          rpend (g_r g') = rpend (g_r g) -> g_s g' = g_s g -> RP g' pos' -> UInv g' pos') as HQ.
  { intros g' pos' E1 E2 E3 E4 E5 E6 HR. split; [exact HR | split; [|congruence]]. intros y. rewrite E1, E2, E3, E4, E5. apply E. }
  unfold rstep. destruct (g_r g) eqn:Er; cbn [fst snd].
  - apply HQ; auto.
  - apply HQ; auto; unfold RP; cbn; destruct R; lia.
  - apply HQ; auto; [destruct (g_stop g); reflexivity|]. unfold RP. cbn. destruct (g_stop g); [exact I | exact R].
  - destruct m; [destruct (g_sem g)|]; [split; [unfold RP; cbn; rewrite ?Er; exact R | split; assumption] | |];
      (apply HQ; auto; unfold RP; cbn; exact R).
  - (* RPull *)
    subst pos.
    assert (forall g' pos', rpend (g_r g') = 1 -> g_ridx g' = S (g_ridx g) -> g_base g' = g_base g -> g_items g' = g_items g -> V g' = V g ->
                            g_s g' = g_s g -> RP g' pos' -> UInv g' pos') as HV.
    { intros g' pos' E1 E2 E3 E4 E5 E6 HR. split; [exact HR | split; [|congruence]]. intros y. specialize (E y). rewrite Er in E. cbn in E.
      rewrite E1, E2, E3, E4, E5. replace (S (g_ridx g) - 1) with (g_ridx g - 0) by lia. exact E. }
    destruct (match k_err c with Some e => e =? g_base g + g_ridx g | None => false end) eqn:Ee.
    + apply HV; auto. unfold RP. cbn. repeat split; try lia; try discriminate. unfold spay. rewrite Ee. reflexivity.
    + destruct (nth_error (k_xs c) (g_base g + g_ridx g)) as [x|] eqn:En.
      * destruct ((0 <? k_sf c) && (S (g_ryield g) mod k_sf c =? 0)); apply HV; auto; unfold RP; cbn; repeat split; try lia;
          unfold spay; rewrite Ee, En; reflexivity.
      * apply HV; auto. unfold RP. cbn. repeat split; try lia; try discriminate. unfold spay. rewrite Ee, En. reflexivity.
  - destruct R as (R1 & R2 & R3). apply HQ; auto. unfold RP. cbn. repeat split; auto; discriminate.
  - (* RPut: the entry enters the input queue; one more source position counts as read *)
    destruct R as (R1 & R2 & R3). split; [unfold RP; cbn; destruct last; [exact I | apply R2; reflexivity] | split; [|exact HS]].
    intros y. specialize (E y). rewrite Er in E. cbn in E.
    assert (rpend (if last then RDone else RChk) = 0) as Hz by (destruct last; reflexivity).
    cbn [g_base g_ridx g_items g_r]. unfold V in *. cbn. rewrite Hz.
    replace (g_ridx g - 0) with (S (g_ridx g - 1)) by lia. rewrite spec_S, !cnt_app, cnt_fm_app. cbn [fst].
    replace (g_base g + (g_ridx g - 1)) with (g_base g + i) by lia. rewrite got_rv, <- R3. rewrite !cnt_app in E. lia.
  - split; [unfold RP; rewrite Er; exact I | split; assumption].
Qed.

Lemma uinv_wstep i m g pos : UInv g pos -> UInv (wstep c i m g) pos.
Proof.
  intros (R & E & HS). unfold wstep. destruct (nth_error (g_ws g) i) as [p|] eqn:En; [|split; [|split]; assumption].
  assert (forall p', wv p = [] -> wv p' = [] -> UInv (g <| g_ws ::= set_nth i p' |>) pos) as Hquiet.
  { intros p' Hp Hp'. split; [apply (rp_frame g); auto | split; [|exact HS]]. intros y. specialize (E y). pose proof (wv_set_nth y i p' _ _ En) as HW.
    rewrite Hp, Hp' in HW. unfold V in *. cbn. rewrite !cnt_app in *. cbn in HW. lia. }
  destruct p.
  - apply Hquiet; reflexivity.
  - destruct (g_stop g); apply Hquiet; reflexivity.
  - destruct (g_q1 g); apply Hquiet; reflexivity.
  - destruct m; [|apply Hquiet; reflexivity].
    destruct (g_q1 g) as [|[pl idx] tl] eqn:Eq; [split; [|split]; assumption|].
    split; [apply (rp_frame g); auto | split; [|exact HS]]. intros y. specialize (E y).
    unfold V in *. cbn.
    match goal with |- context [set_nth i ?w _] => pose proof (wv_set_nth y i w _ _ En) as HW end.
    rewrite Eq in E. cbn [flat_map fst] in E. rewrite !cnt_app in *.
    match type of HW with context [cnt y (wv (WPut ?q idx))] => change (wv (WPut q idx)) with (rv pl) in HW end.
    cbn [wv cnt] in HW. lia.
  - split; [apply (rp_frame g); auto | split; [|exact HS]]. intros y. specialize (E y). pose proof (wv_set_nth y i WChk _ _ En) as HW.
    unfold V in *. cbn. rewrite !cnt_app, cnt_fm_app in *. cbn in *. lia.
  - split; [|split]; assumption.
Qed.

Lemma uinv_sstep m g pos : UInv g pos -> UInv (sstep c m g) pos.
Proof. intros (R & E & HS). unfold sstep. rewrite HS. split; [|split]; assumption. Qed.

Lemma outq_u g : outq c g = g_q2 g.
Proof. unfold outq. rewrite Hpm, Hio. reflexivity. Qed.
Lemma set_outq_u q g : set_outq c q g = g <| g_q2 := q |>.
Proof. unfold set_outq. rewrite Hpm, Hio. reflexivity. Qed.

(* a consumer step that moves no entry and delivers nothing *)
Lemma uinv_cquiet g g' pos : UInv g pos ->
  g_r g' = g_r g -> g_base g' = g_base g -> g_ridx g' = g_ridx g -> g_s g' = g_s g -> g_items g' = g_items g ->
  g_q1 g' = g_q1 g -> g_ws g' = g_ws g -> g_q2 g' = g_q2 g -> cv (g_c g') = cv (g_c g) -> UInv g' pos.
Proof.
  intros (R & E & HS) E1 E2 E3 E4 E5 E6 E7 E8 E9. split; [apply (rp_frame g); auto | split; [|congruence]].
  apply (veq_frame g); auto. unfold V. rewrite E6, E7, E8, E9. reflexivity.
Qed.

Lemma uinv_cstep m g pos : UInv g pos -> UInv (fst (cstep c m g)) pos.
Proof.
  intros H. pose proof H as (R & E & HS).
  assert (forall g0 k, UInv g0 pos -> cv (g_c g0) = [] -> UInv (fst (after_join c g0 k)) pos) as Haj.
  { intros g0 k H0 Hc. destruct (after_join_pc c g0 k) as (p & Ep & Hp). rewrite Ep.
    apply (uinv_cquiet g0); auto. cbn. rewrite Hc. destruct Hp as [->|[k' ->]]; reflexivity. }
  unfold cstep. rewrite outq_u, Hpm. destruct (g_c g) eqn:Ec.
  all: try (cbn [fst]; apply (uinv_cquiet g); auto; cbn; rewrite ?Ec; reflexivity).
  - (* CInit *) destruct m; [destruct (g_store g) as [|[v sp] tl]|]; cbn [fst]; try exact H. apply (uinv_cquiet g); auto. cbn. rewrite Ec. reflexivity.
  - (* CChk *) destruct (g_stop g); cbn [fst]; apply (uinv_cquiet g); auto; cbn; rewrite Ec; reflexivity.
  - (* CChk2 *) destruct (g_mpstop g); [|destruct ((g_done g || negb (r_alive g)) && (g_sem g =? kmax c))]; cbn [fst];
      apply (uinv_cquiet g); auto; cbn; rewrite Ec; reflexivity.
  - (* CGet *)
    destruct m; [|cbn [fst]; apply (uinv_cquiet g); auto; cbn; rewrite Ec; reflexivity].
    destruct (g_q2 g) as [|[p i] tl] eqn:Eq; [exact H|]. rewrite set_outq_u.
    assert (forall g', g_r g' = g_r g -> g_base g' = g_base g -> g_ridx g' = g_ridx g -> g_s g' = g_s g -> g_items g' = g_items g ->
                       g_q1 g' = g_q1 g -> g_ws g' = g_ws g -> g_q2 g' = tl -> cv (g_c g') = pv p -> UInv g' pos) as HG.
    { intros g' E1 E2 E3 E4 E5 E6 E7 E8 E9. split; [apply (rp_frame g); auto | split; [|congruence]].
      intros y. specialize (E y). unfold V in *. rewrite E1, E2, E3, E5, E6, E7, E8, E9. rewrite Eq, Ec in E. cbn in E.
      rewrite !cnt_app in *. cbn in E. lia. }
    destruct p as [x| |e]; cbn [fst]; apply HG; reflexivity.
  - (* CRel: the item is handed over *)
    destruct (pop_version (S i) (g_store g)) as [[sp|] rest]; cbn [fst];
      (split; [apply (rp_frame g); auto | split; [|exact HS]]; intros y; specialize (E y); unfold V in *; cbn; rewrite Ec in E; cbn in E;
       rewrite !cnt_app in *; cbn in *; lia).
  - (* CRelErr *)
    destruct e as [|[|e]]; cbn [fst]; try (apply (uinv_cquiet g); auto; cbn; rewrite Ec; reflexivity).
    match goal with |- context [pop_version ?v (g_store ?x)] => change (g_store x) with (g_store g) end.
    destruct (pop_version (S i) (g_store g)) as [[sp|] rest]; cbn [fst]; apply (uinv_cquiet g); auto; cbn; rewrite Ec; reflexivity.
  - (* CShSet2 *) cbn [fst]. apply Haj; [apply (uinv_cquiet g); auto | cbn; rewrite Ec; reflexivity].
  - (* CShJoin *) destruct m; destruct (stage_alive c g k); try exact H; apply Haj; auto; rewrite Ec; reflexivity.
Qed.

Lemma uinv_ff g pos n : UInv g pos -> UInv (g <| g_ff := n |>) pos.
Proof. intros H. apply (uinv_cquiet g); auto. Qed.
Lemma uinv_idle_pc g pos p : UInv g pos -> g_c g = CIdle -> (p = CChk \/ p = CShSet) -> UInv (g <| g_c := p |>) pos.
Proof. intros H Hc Hp. apply (uinv_cquiet g); auto. cbn. rewrite Hc. destruct Hp as [-> | ->]; reflexivity. Qed.

Theorem uinv_reachable script sched : jt_free c (init script) sched = true ->
  forall g, cur (run c sched (init script)) = Some g -> UInv g (s_pos (run c sched (init script))).
Proof.
  intros Hj g Eg.
  exact (p_reachable c UInv uinv_new uinv_ff uinv_idle_pc uinv_cstep uinv_rstep uinv_wstep uinv_sstep script sched Hj g Eg).
Qed.

(* C04, unordered ParallelMapper: along every interleaving of reader, workers and consumer without a reader-join timeout,
   in every reachable state and for every value y: delivered + in flight = what map_fn makes of the source positions read *)
Theorem unordered_values_conserved script sched : jt_free c (init script) sched = true ->
  forall g, cur (run c sched (init script)) = Some g ->
  forall y, cnt y (g_items g) + cnt y (V g) = cnt y (spec (g_base g) (g_ridx g - rpend (g_r g))).
Proof. intros Hj g Eg. exact (proj1 (proj2 (uinv_reachable script sched Hj g Eg))). Qed.

(* nothing is invented or duplicated: every value is delivered at most as often as map_fn yields it over the positions read *)
Corollary unordered_no_invention script sched : jt_free c (init script) sched = true ->
  forall g, cur (run c sched (init script)) = Some g ->
  forall y, cnt y (g_items g) <= cnt y (spec (g_base g) (g_ridx g)).
Proof.
  intros Hj g Eg y. pose proof (unordered_values_conserved script sched Hj g Eg y) as H.
  assert (forall n m, n <= m -> cnt y (spec (g_base g) n) <= cnt y (spec (g_base g) m)) as Hmono.
  { intros n m Hnm. induction Hnm; [lia|]. rewrite spec_S, cnt_app. lia. }
  specialize (Hmono (g_ridx g - rpend (g_r g)) (g_ridx g) ltac:(lia)). lia.
Qed.

(* when nothing is in flight — queues empty, no worker holds a result, the consumer holds none, the reader holds none —
   the delivered items are, as a multiset, exactly map_fn over the positions read *)
Corollary unordered_multiset_when_drained script sched : jt_free c (init script) sched = true ->
  forall g, cur (run c sched (init script)) = Some g ->
  g_q1 g = [] -> g_q2 g = [] -> w_hold (g_ws g) = 0 -> cv (g_c g) = [] -> rpend (g_r g) = 0 ->
  forall y, cnt y (g_items g) = cnt y (spec (g_base g) (g_ridx g)).
Proof.
  intros Hj g Eg H1 H2 H3 H4 H5 y. pose proof (unordered_values_conserved script sched Hj g Eg y) as H.
  unfold V in H. rewrite H1, H2, H4, H5 in H. cbn in H. rewrite app_nil_r in H.
  assert (flat_map wv (g_ws g) = []) as Hw.
  { clear -H3. induction (g_ws g) as [|w ws IH]; [reflexivity|]. cbn in *. destruct w; cbn in *; try (apply IH; lia); lia. }
  rewrite Hw in H. cbn in H. rewrite Nat.sub_0_r in H. lia.
Qed.

End PMU.
