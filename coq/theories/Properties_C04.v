(* Properties_C04.v — placeholder until NodeSeqProofs.v / ConcModel land; see DESIGN.md 4 C04. *)
From PD Require Import Base NodeModel NodeObs.
Open Scope string_scope. Open Scope list_scope.
Example C04_example :
  let xs := map INat [0;1;2;3;4;5;6] in
  node_epochs_obs (PFilter QEven (PMap (FAdd 1) (PSrc xs false))) 1
  = OL [OL [OL [OZ 2; OZ 4; OZ 6]; OL [OZ 2; OZ 4; OZ 6]]].
Proof. vm_compute. reflexivity. Qed.
Theorem C04_placeholder : True. Proof. exact I. Qed.
Print Assumptions C04_placeholder.
