(* Properties_C04.v — C04: nodes pipelines compute exactly their sequential reference semantics.
   Model: NodeModel.v; [sem] is the obvious list function (map f, chunking honouring drop_last,
   concatenation, filter, identity for Prefetcher, the wrapped order for wrappers).
   Statements only; proofs in NodeSeqProofs.v.  The interleaving-level statement for the threads of
   ParallelMapper/Prefetcher is in Properties_C06.v / ConcModel. *)
From PD Require Import Base NodeModel NodeSeqProofs.
Open Scope string_scope. Open Scope list_scope. Open Scope nat_scope.

Theorem C04_first_epoch_is_sem : forall p, pipe_ok p = true ->
  fst (node_run p (FUEL p) (node_reset p RUninit None)) = sem p 0.
Proof. exact first_epoch_is_sem. Qed.
Print Assumptions C04_first_epoch_is_sem.

(* every epoch obtained by resetting and re-iterating is again complete; the sampler epoch
   advances by exactly one per epoch *)
Theorem C04_every_epoch_is_sem : forall p n, pipe_ok p = true ->
  fst (epochs_run p n) = map (sem p) (seq 0 n).
Proof. exact every_epoch_is_sem. Qed.
Print Assumptions C04_every_epoch_is_sem.

(* prebatch does not change results *)
Theorem C04_prebatch_invisible : forall (g : item -> item) n (xs : list item), 0 < n ->
  flat_map batch_items (map (fun b => IList (map g (batch_items b))) (chunk_items (S (length xs)) n false xs)) = map g xs.
Proof. exact prebatch_invisible. Qed.
Print Assumptions C04_prebatch_invisible.

Theorem C04_unbatch_batch_sem : forall n q e, 0 < n -> sem (PUnbatch (PBatch n false q)) e = sem q e.
Proof. exact unbatch_batch_sem. Qed.
Print Assumptions C04_unbatch_batch_sem.

(* after exhaustion every later next() is StopIteration — never an item, never an error *)
Theorem C04_stop_is_sticky : forall p t fuel l t', pipe_ok p = true -> reachable p t ->
  node_run p fuel t = (l, t') -> length l < fuel ->
  forall t'', after p t' t'' -> fst (node_next p t'') = OStop.
Proof. exact stop_is_sticky. Qed.
Print Assumptions C04_stop_is_sticky.

Example C04_example :
  let xs := map INat [0;1;2;3;4;5;6] in
  fst (epochs_run (PFilter QEven (PMap (FAdd 1) (PBatch 2 true (PSrc xs false)))) 2) = [[]; []] /\
  fst (epochs_run (PUnbatch (PMap (FAdd 1) (PBatch 2 true (PSrc xs true)))) 2)
    = [map INat [1;2;3;4;5;6]; map INat [1;2;3;4;5;6]].
Proof. vm_compute. split; reflexivity. Qed.

(* ---- the interleaving level (ConcModel.v): Prefetcher is the identity under EVERY schedule ---- *)
From PD Require ConcModel ConcInv ConcLive ConcOwner ConcSnap ConcPM ConcPMU ConcProg.

(* For the Prefetcher (_SingleThreadedMapper), any prefetch_factor / snapshot_frequency / source (failing or not), any
   consumer script incl. reset and reset(loaded state), along EVERY interleaving of the read thread and the consumer at
   the granularity of their queue / semaphore / event / store primitives (timeouts included; the only exclusion is a
   timeout of the join on an old read thread that is still alive, known finding D10): the items the current iterator has
   handed to the consumer — fast-forward included — are exactly the source's items from the position it was started at,
   in source order, each exactly once; and its state denotes the position right after them. *)
Theorem C04_prefetcher_is_identity : forall (c : ConcModel.cfg), ConcModel.k_pm c = false ->
  forall script sched, ConcOwner.jt_free c (ConcModel.init script) sched = true ->
  forall g, ConcModel.cur (ConcModel.run c sched (ConcModel.init script)) = Some g ->
  ConcModel.g_items g = firstn (ConcModel.g_recv g) (skipn (ConcModel.g_base g) (ConcModel.k_xs c)) /\
  ConcModel.g_snap g + ConcModel.g_steps g = ConcModel.g_base g + ConcModel.g_recv g.
Proof. exact ConcSnap.prefetcher_is_identity. Qed.
Print Assumptions C04_prefetcher_is_identity.

(* ParallelMapper(in_order=True, method="thread"), any num_workers / max_concurrent / snapshot_frequency / map_fn (raising
   or not) / source (failing or not) / consumer script, along EVERY interleaving of the read thread, the worker threads,
   the sort thread and the consumer (same granularity, same exclusion D10): the items the current iterator has handed to
   the consumer are exactly map_fn over the source's items from the position it was started at, in source order, each
   exactly once (an item on which map_fn raised is consumed and yields nothing); its state denotes the position right
   after the consumed entries. *)
Theorem C04_parallel_mapper_is_ordered_map : forall (c : ConcModel.cfg), ConcModel.k_pm c = true -> ConcModel.k_inorder c = true ->
  forall script sched, ConcOwner.jt_free c (ConcModel.init script) sched = true ->
  forall g, ConcModel.cur (ConcModel.run c sched (ConcModel.init script)) = Some g ->
  ConcModel.g_items g = flat_map (ConcPM.fo c) (firstn (ConcModel.g_recv g) (skipn (ConcModel.g_base g) (ConcModel.k_xs c))) /\
  ConcModel.g_snap g + ConcModel.g_steps g = ConcModel.g_base g + ConcModel.g_recv g.
Proof. exact ConcPM.parallel_mapper_is_ordered_map. Qed.
Print Assumptions C04_parallel_mapper_is_ordered_map.

(* the index discipline behind it: every index is in flight at most once between the reader and the sorter's output, only
   inside [cur_idx, next index), and the sorter's output carries consecutive indices starting at the consumer's *)
Theorem C04_parallel_mapper_index_discipline : forall (c : ConcModel.cfg), ConcModel.k_pm c = true -> ConcModel.k_inorder c = true ->
  forall script sched, ConcOwner.jt_free c (ConcModel.init script) sched = true ->
  forall g, ConcModel.cur (ConcModel.run c sched (ConcModel.init script)) = Some g ->
  (forall i, ConcPM.cntU i g + ConcPM.cnt i (ConcPM.hidx (ConcModel.g_s g)) <= 1) /\
  (forall i, 1 <= ConcPM.cntU i g + ConcPM.cnt i (ConcPM.hidx (ConcModel.g_s g)) -> ConcModel.g_scur g <= i < ConcModel.g_ridx g) /\
  map snd (ConcModel.g_q3 g) = seq (ConcModel.g_taken g) (length (ConcModel.g_q3 g)).
Proof. exact ConcPM.parallel_mapper_index_discipline. Qed.
Print Assumptions C04_parallel_mapper_index_discipline.

(* ParallelMapper(in_order=False): results are delivered in completion order, so the claim is about the MULTISET.  Along every
   interleaving of reader, workers and consumer (same granularity, same exclusion D10), in every reachable state, for every
   value y: (#y among the items delivered) + (#y among the entries in flight: input queue — counted through map_fn —, results
   held by workers, output queue, the item the consumer holds) = #y in map_fn over the source positions read so far
   [ConcPMU.spec c base n = the values map_fn yields on positions base .. base+n-1; a position where the source ended or
   raised, or where map_fn raised, yields none] *)
Theorem C04_unordered_values_conserved : forall (c : ConcModel.cfg), ConcModel.k_pm c = true -> ConcModel.k_inorder c = false ->
  forall script sched, ConcOwner.jt_free c (ConcModel.init script) sched = true ->
  forall g, ConcModel.cur (ConcModel.run c sched (ConcModel.init script)) = Some g ->
  forall y, ConcPM.cnt y (ConcModel.g_items g) + ConcPM.cnt y (ConcPMU.V c g) =
            ConcPM.cnt y (ConcPMU.spec c (ConcModel.g_base g) (ConcModel.g_ridx g - ConcSnap.rpend (ConcModel.g_r g))).
Proof. exact ConcPMU.unordered_values_conserved. Qed.
Print Assumptions C04_unordered_values_conserved.

(* nothing is invented or delivered twice ... *)
Theorem C04_unordered_no_invention : forall (c : ConcModel.cfg), ConcModel.k_pm c = true -> ConcModel.k_inorder c = false ->
  forall script sched, ConcOwner.jt_free c (ConcModel.init script) sched = true ->
  forall g, ConcModel.cur (ConcModel.run c sched (ConcModel.init script)) = Some g ->
  forall y, ConcPM.cnt y (ConcModel.g_items g) <= ConcPM.cnt y (ConcPMU.spec c (ConcModel.g_base g) (ConcModel.g_ridx g)).
Proof. exact ConcPMU.unordered_no_invention. Qed.
Print Assumptions C04_unordered_no_invention.

(* ... and once nothing is in flight the delivered items ARE, as a multiset, map_fn over the positions read *)
Theorem C04_unordered_multiset_when_drained : forall (c : ConcModel.cfg), ConcModel.k_pm c = true -> ConcModel.k_inorder c = false ->
  forall script sched, ConcOwner.jt_free c (ConcModel.init script) sched = true ->
  forall g, ConcModel.cur (ConcModel.run c sched (ConcModel.init script)) = Some g ->
  ConcModel.g_q1 g = [] -> ConcModel.g_q2 g = [] -> ConcInv.w_hold (ConcModel.g_ws g) = 0 -> ConcPMU.cv (ConcModel.g_c g) = [] ->
  ConcSnap.rpend (ConcModel.g_r g) = 0 ->
  forall y, ConcPM.cnt y (ConcModel.g_items g) = ConcPM.cnt y (ConcPMU.spec c (ConcModel.g_base g) (ConcModel.g_ridx g)).
Proof. exact ConcPMU.unordered_multiset_when_drained. Qed.
Print Assumptions C04_unordered_multiset_when_drained.

(* non-vacuity: an unordered run that has drained: 5 items delivered, a permutation-insensitive count matches *)
Definition c04u_cfg : ConcModel.cfg :=
  {| ConcModel.k_pm := true; ConcModel.k_nw := 2; ConcModel.k_inorder := false; ConcModel.k_mc := None; ConcModel.k_sf := 1;
     ConcModel.k_xs := [3; 1; 3; 2]; ConcModel.k_err := None; ConcModel.k_f := fun x => Some (x + 10) |}.
Definition c04u_sched : list (ConcModel.tid * ConcModel.mode) :=
  concat (repeat [(ConcModel.TC, ConcModel.Go); (ConcModel.TG 0 ConcModel.GR, ConcModel.Go);
                  (ConcModel.TG 0 (ConcModel.GW 1), ConcModel.Go); (ConcModel.TG 0 (ConcModel.GW 1), ConcModel.Go);
                  (ConcModel.TG 0 (ConcModel.GW 0), ConcModel.Go)] 60).
Example C04_unordered_example :
  let sc := [ConcModel.KReset None; ConcModel.KNext; ConcModel.KNext; ConcModel.KNext; ConcModel.KNext; ConcModel.KNext] in
  ConcOwner.jt_free c04u_cfg (ConcModel.init sc) c04u_sched = true /\
  match ConcModel.cur (ConcModel.run c04u_cfg c04u_sched (ConcModel.init sc)) with
  | Some g => ConcPM.cnt 13 (ConcModel.g_items g) = 2 /\ length (ConcModel.g_items g) = 4 /\ ConcModel.g_q2 g = []
  | None => False
  end.
Proof. vm_compute. repeat split. Qed.

(* ---- the quantities the interleaving-level theorems speak about are the consumer's real outputs ----
   g_items (the items delivered by an iterator) grows by x exactly in the step in which next() returns the item x — in any
   state, for both node kinds — g_recv counts the entries consumed, and no other consumer step touches either; and a
   completed next() outside a fast-forward logs exactly that item in the user-visible log (later straight-line code only appends) *)
Theorem C04_ghost_items_are_outputs : forall c m g,
  let g' := fst (ConcModel.cstep c m g) in
  match snd (ConcModel.cstep c m g) with
  | Some (ConcModel.OutItem x) => ConcModel.g_items g' = ConcModel.g_items g ++ [x] /\ ConcModel.g_recv g' = S (ConcModel.g_recv g)
  | Some (ConcModel.OutErr e) => ConcModel.g_items g' = ConcModel.g_items g /\
      ConcModel.g_recv g' = (match ConcModel.g_c g with
                             | ConcModel.CRelErr 1 _ => if ConcModel.k_pm c then S (ConcModel.g_recv g) else ConcModel.g_recv g
                             | _ => ConcModel.g_recv g end)
  | _ => ConcModel.g_items g' = ConcModel.g_items g /\ ConcModel.g_recv g' = ConcModel.g_recv g
  end.
Proof. exact ConcProg.ghost_items_are_outputs. Qed.
Print Assumptions C04_ghost_items_are_outputs.

Theorem C04_completed_next_logs_its_item : forall c x s g, ConcModel.cur s = Some g -> ConcModel.g_ff g = 0 ->
  exists rest, ConcModel.s_obs (ConcModel.complete c (ConcModel.OutItem x) s) = ConcModel.s_obs s ++ ConcModel.ObsItem x :: rest.
Proof. exact ConcProg.completed_next_logs_its_item. Qed.
Print Assumptions C04_completed_next_logs_its_item.

(* The start-up handshake of Prefetcher / PinMemory / ParallelMapper (QueueSnapshotStore.get_initial_snapshot) with the liveness test as a
   step of its own (InitSnap.v; D20).  A healthy pipeline must come up under EVERY interleaving of the read thread (append the initial
   snapshot, forward the source, return) with the consumer's observations (timed get, thread.is_alive(), and - since commit 1ce2a70 - one
   more get_nowait() when the thread is found dead).  The code before the fix is refuted by a four-move schedule; the code after it never
   fails and obtains the snapshot.  Tie to the source: harness/tables.py check_initsnap runs the REAL method on every schedule of up to 9
   moves on every run and coqc proves the outcomes equal to the model's. *)
From PD Require InitSnap.
Theorem C04_startup_handshake_never_fails : forall sched, InitSnap.cs (InitSnap.run true sched) <> InitSnap.CFail.
Proof. exact InitSnap.fixed_code_never_fails. Qed.
Print Assumptions C04_startup_handshake_never_fails.

Theorem C04_startup_handshake_gets_snapshot : forall sched, InitSnap.rs (InitSnap.run true sched) <> InitSnap.RStart ->
  InitSnap.cs (InitSnap.run true (sched ++ [InitSnap.MConsumer; InitSnap.MConsumer; InitSnap.MConsumer])) = InitSnap.CGot.
Proof. exact InitSnap.fixed_code_gets_snapshot. Qed.
Print Assumptions C04_startup_handshake_gets_snapshot.

Theorem C04_startup_handshake_before_fix_refuted : exists sched, InitSnap.cs (InitSnap.run false sched) = InitSnap.CFail.
Proof. exact InitSnap.old_code_refuted. Qed.
Print Assumptions C04_startup_handshake_before_fix_refuted.
