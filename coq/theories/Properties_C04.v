(* Properties_C04.v — C04: nodes pipelines compute exactly their sequential reference semantics.
   Model: NodeModel.v; [sem] is the obvious list function (map f, chunking honouring drop_last,
   concatenation, filter, identity for Prefetcher, the wrapped order for wrappers).
   Statements only; proofs in NodeSeqProofs.v.  The interleaving-level statement for the threads of
   ParallelMapper/Prefetcher is in Properties_C06.v / ConcModel. *)
From PD Require Import Base NodeModel NodeSeqProofs.
Open Scope string_scope. Open Scope list_scope. Open Scope nat_scope.

Theorem C04_first_epoch_is_sem : forall p, pipe_ok p = true ->
  fst (node_run p (FUEL p) (node_reset p RUninit None)) = sem p 0.
Proof. exact first_epoch_is_sem. Qed.
Print Assumptions C04_first_epoch_is_sem.

(* every epoch obtained by resetting and re-iterating is again complete; the sampler epoch
   advances by exactly one per epoch *)
Theorem C04_every_epoch_is_sem : forall p n, pipe_ok p = true ->
  fst (epochs_run p n) = map (sem p) (seq 0 n).
Proof. exact every_epoch_is_sem. Qed.
Print Assumptions C04_every_epoch_is_sem.

(* prebatch does not change results *)
Theorem C04_prebatch_invisible : forall (g : item -> item) n (xs : list item), 0 < n ->
  flat_map batch_items (map (fun b => IList (map g (batch_items b))) (chunk_items (S (length xs)) n false xs)) = map g xs.
Proof. exact prebatch_invisible. Qed.
Print Assumptions C04_prebatch_invisible.

Theorem C04_unbatch_batch_sem : forall n q e, 0 < n -> sem (PUnbatch (PBatch n false q)) e = sem q e.
Proof. exact unbatch_batch_sem. Qed.
Print Assumptions C04_unbatch_batch_sem.

(* after exhaustion every later next() is StopIteration — never an item, never an error *)
Theorem C04_stop_is_sticky : forall p t fuel l t', pipe_ok p = true -> reachable p t ->
  node_run p fuel t = (l, t') -> length l < fuel ->
  forall t'', after p t' t'' -> fst (node_next p t'') = OStop.
Proof. exact stop_is_sticky. Qed.
Print Assumptions C04_stop_is_sticky.

Example C04_example :
  let xs := map INat [0;1;2;3;4;5;6] in
  fst (epochs_run (PFilter QEven (PMap (FAdd 1) (PBatch 2 true (PSrc xs false)))) 2) = [[]; []] /\
  fst (epochs_run (PUnbatch (PMap (FAdd 1) (PBatch 2 true (PSrc xs true)))) 2)
    = [map INat [1;2;3;4;5;6]; map INat [1;2;3;4;5;6]].
Proof. vm_compute. split; reflexivity. Qed.

(* ---- the interleaving level (ConcModel.v): Prefetcher is the identity under EVERY schedule ---- *)
From PD Require ConcModel ConcInv ConcLive ConcOwner ConcSnap ConcPM.

(* For the Prefetcher (_SingleThreadedMapper), any prefetch_factor / snapshot_frequency / source (failing or not), any
   consumer script incl. reset and reset(loaded state), along EVERY interleaving of the read thread and the consumer at
   the granularity of their queue / semaphore / event / store primitives (timeouts included; the only exclusion is a
   timeout of the join on an old read thread that is still alive, known finding D10): the items the current iterator has
   handed to the consumer — fast-forward included — are exactly the source's items from the position it was started at,
   in source order, each exactly once; and its state denotes the position right after them. *)
Theorem C04_prefetcher_is_identity : forall (c : ConcModel.cfg), ConcModel.k_pm c = false ->
  forall script sched, ConcOwner.jt_free c (ConcModel.init script) sched = true ->
  forall g, ConcModel.cur (ConcModel.run c sched (ConcModel.init script)) = Some g ->
  ConcModel.g_items g = firstn (ConcModel.g_recv g) (skipn (ConcModel.g_base g) (ConcModel.k_xs c)) /\
  ConcModel.g_snap g + ConcModel.g_steps g = ConcModel.g_base g + ConcModel.g_recv g.
Proof. exact ConcSnap.prefetcher_is_identity. Qed.
Print Assumptions C04_prefetcher_is_identity.

(* ParallelMapper(in_order=True, method="thread"), any num_workers / max_concurrent / snapshot_frequency / map_fn (raising
   or not) / source (failing or not) / consumer script, along EVERY interleaving of the read thread, the worker threads,
   the sort thread and the consumer (same granularity, same exclusion D10): the items the current iterator has handed to
   the consumer are exactly map_fn over the source's items from the position it was started at, in source order, each
   exactly once (an item on which map_fn raised is consumed and yields nothing); its state denotes the position right
   after the consumed entries. *)
Theorem C04_parallel_mapper_is_ordered_map : forall (c : ConcModel.cfg), ConcModel.k_pm c = true -> ConcModel.k_inorder c = true ->
  forall script sched, ConcOwner.jt_free c (ConcModel.init script) sched = true ->
  forall g, ConcModel.cur (ConcModel.run c sched (ConcModel.init script)) = Some g ->
  ConcModel.g_items g = flat_map (ConcPM.fo c) (firstn (ConcModel.g_recv g) (skipn (ConcModel.g_base g) (ConcModel.k_xs c))) /\
  ConcModel.g_snap g + ConcModel.g_steps g = ConcModel.g_base g + ConcModel.g_recv g.
Proof. exact ConcPM.parallel_mapper_is_ordered_map. Qed.
Print Assumptions C04_parallel_mapper_is_ordered_map.

(* the index discipline behind it: every index is in flight at most once between the reader and the sorter's output, only
   inside [cur_idx, next index), and the sorter's output carries consecutive indices starting at the consumer's *)
Theorem C04_parallel_mapper_index_discipline : forall (c : ConcModel.cfg), ConcModel.k_pm c = true -> ConcModel.k_inorder c = true ->
  forall script sched, ConcOwner.jt_free c (ConcModel.init script) sched = true ->
  forall g, ConcModel.cur (ConcModel.run c sched (ConcModel.init script)) = Some g ->
  (forall i, ConcPM.cntU i g + ConcPM.cnt i (ConcPM.hidx (ConcModel.g_s g)) <= 1) /\
  (forall i, 1 <= ConcPM.cntU i g + ConcPM.cnt i (ConcPM.hidx (ConcModel.g_s g)) -> ConcModel.g_scur g <= i < ConcModel.g_ridx g) /\
  map snd (ConcModel.g_q3 g) = seq (ConcModel.g_taken g) (length (ConcModel.g_q3 g)).
Proof. exact ConcPM.parallel_mapper_index_discipline. Qed.
Print Assumptions C04_parallel_mapper_index_discipline.

(* in_order=False (no sorter: results in completion order) is decided on every run by the scheduler-driven lockstep
   correspondence only *)
