(* NodeObs.v — observation functions for the nodes correspondence runs (C02, C04, C08, C13). *)
From PD Require Import Base NodeModel.
From Coq Require Import Ascii.
Open Scope string_scope. Open Scope list_scope. Open Scope nat_scope.

Fixpoint obs_of_item (x : item) : obs :=
  match x with
  | INat n => onat n
  | INone => ON
  | IList l => OL (map obs_of_item l)
  end.

Fixpoint str_leb (a b : string) : bool :=
  match a, b with
  | EmptyString, _ => true
  | String _ _, EmptyString => false
  | String c a', String d b' =>
      let x := nat_of_ascii c in let y := nat_of_ascii d in
      if x <? y then true else if y <? x then false else str_leb a' b'
  end.
Fixpoint ins_str (k : string) (o : obs) (l : list (string * obs)) : list (string * obs) :=
  match l with
  | [] => [(k, o)]
  | (k', o') :: r => if str_leb k k' then (k, o) :: l else (k', o') :: ins_str k o r
  end.

(* dict entries sorted by key: Python == ignores insertion order *)
Fixpoint obs_of_sd (s : sd) : obs :=
  match s with
  | SNat n => onat n
  | SNone => ON
  | SD l =>
      OL (map (fun kv => OL [OS (fst kv); snd kv])
              (fold_right (fun kv acc => ins_str (fst kv) (snd kv) acc) []
                 ((fix go (l : list (string * sd)) : list (string * obs) :=
                     match l with [] => [] | (k, v) :: r => (k, obs_of_sd v) :: go r end) l)))
  end.

Definition obs_of_outcome (o : outcome) : obs :=
  match o with
  | OItem x => OL [OS "item"; obs_of_item x]
  | OStop => OS "stop"
  | OErr m => OS ("err:" ++ m)
  end.

(* histories over a Loader *)
Inductive hop := HIter | HNext | HState | HLoad (i : nat) | HFresh.

Fixpoint run_history (p : pipe) (restart : bool) (ops : list hop) (l : loader) (saved : list sd) : list obs :=
  match ops with
  | [] => []
  | HIter :: r => OS "iter" :: run_history p restart r (ld_iter p restart l) saved
  | HNext :: r => let '(o, l') := ld_next p l in obs_of_outcome o :: run_history p restart r l' saved
  | HState :: r => let '(s, l') := ld_state_dict p restart l in
                   OL [OS "state"; obs_of_sd s] :: run_history p restart r l' (saved ++ [s])
  | HLoad i :: r => OS "load" :: run_history p restart r (ld_load l (nth i saved SNone)) saved
  | HFresh :: r => OS "fresh" :: run_history p restart r ld_new saved
  end.

Definition loader_obs (p : pipe) (restart : bool) (ops : list hop) : obs :=
  OL (run_history p restart ops ld_new []).

(* C04: one epoch of a bare node, and the reference semantics *)
Definition node_epochs_obs (p : pipe) (epochs : nat) : obs :=
  let fuel := S (pipe_fuel p) in
  OL ((fix go (e : nat) (k : nat) (t : rt) {struct k} : list obs :=
         match k with
         | 0 => []
         | S k' => let '(l, t') := node_run p fuel (node_reset p t None) in
                   OL [olist obs_of_item l; olist obs_of_item (sem p e)] :: go (S e) k' t'
         end) 0 epochs RUninit).
