(* SdlProofs.v — every arrival schedule delivers the epoch exactly once, in reference order.
   Proofs about SdlModel.v (which is not modified). *)
From PD Require Import Base SdlModel.
Open Scope string_scope. Open Scope list_scope. Open Scope nat_scope.

Definition cfg_ok (c : cfg) : bool :=
  (0 <? c_W c) && (0 <? c_P c) && (match c_kind c with KMap => true | KIter => length (c_shards c) =? c_W c end)
  && match c_bad c with [] => true | _ => false end.

Fixpoint epoch_run (c : cfg) (n : nat) (s : ms) (sched : list nat) : list (list nat) * outcome * ms :=
  match n with 0 => ([], OFuel, s) | S n' =>
    match sdl_next c s sched with
    | (OBatch b, s', sched') => let '(bs, o, s'') := epoch_run c n' s' sched' in (b :: bs, o, s'')
    | (o, s', _) => ([], o, s')
    end end.

(* ------------------------------------------------------------------ *)
(* association lists                                                    *)
Section Info.
  Context {A : Type}.
  Implicit Types l : list (nat * A).

  Definition wf_info l := NoDup (map fst l).

  Lemma info_get_None_iff l k : info_get l k = None <-> ~ In k (map fst l).
  Proof.
    induction l as [|[k' v] l IH]; simpl; [tauto|].
    destruct (Nat.eqb_spec k' k); split; intros H; try discriminate.
    - exfalso; apply H; auto.
    - intros [E|E]; [auto | apply IH in H; auto].
    - apply IH; tauto.
  Qed.

  Lemma info_get_app l k v k' :
    info_get (l ++ [(k, v)]) k' =
    match info_get l k' with Some x => Some x | None => if k =? k' then Some v else None end.
  Proof.
    induction l as [|[k0 v0] l IH]; simpl; [reflexivity|].
    destruct (k0 =? k'); auto.
  Qed.

  Lemma info_get_del_neq l k k' : k <> k' -> info_get (info_del l k) k' = info_get l k'.
  Proof.
    intros N; induction l as [|[k0 v0] l IH]; simpl; [reflexivity|].
    destruct (Nat.eqb_spec k0 k); simpl.
    - subst. destruct (Nat.eqb_spec k k'); [contradiction | reflexivity].
    - rewrite IH; reflexivity.
  Qed.

  Lemma info_del_keys l k k' : In k' (map fst (info_del l k)) -> In k' (map fst l).
  Proof.
    induction l as [|[k0 v0] l IH]; simpl; [tauto|].
    destruct (k0 =? k); simpl; tauto.
  Qed.

  Lemma wf_del l k : wf_info l -> wf_info (info_del l k).
  Proof.
    unfold wf_info; induction l as [|[k0 v0] l IH]; simpl; intros H; [constructor|].
    inversion H; subst. destruct (k0 =? k); simpl; [assumption|].
    constructor; [|auto]. intros HI; apply info_del_keys in HI; contradiction.
  Qed.

  Lemma info_get_del_eq l k : wf_info l -> info_get (info_del l k) k = None.
  Proof.
    unfold wf_info; induction l as [|[k0 v0] l IH]; simpl; intros H; [reflexivity|].
    inversion H; subst. destruct (Nat.eqb_spec k0 k); simpl.
    - subst. apply info_get_None_iff; assumption.
    - destruct (Nat.eqb_spec k0 k); [contradiction|]. auto.
  Qed.

  Lemma wf_app l k v : wf_info l -> info_get l k = None -> wf_info (l ++ [(k, v)]).
  Proof.
    unfold wf_info; intros H G. rewrite map_app; simpl.
    apply info_get_None_iff in G.
    induction l as [|[k0 v0] l IH]; simpl in *.
    - constructor; [tauto | constructor].
    - inversion H; subst. constructor.
      + rewrite in_app_iff; simpl. intros [E|[E|[]]]; [contradiction | subst; tauto].
      + apply IH; tauto.
  Qed.

  Lemma info_get_set l k v k' : wf_info l ->
    info_get (info_set l k v) k' = if k =? k' then Some v else info_get l k'.
  Proof.
    intros H; unfold info_set. rewrite info_get_app.
    destruct (Nat.eqb_spec k k').
    - subst. rewrite info_get_del_eq; auto.
    - rewrite info_get_del_neq by assumption. destruct (info_get l k'); reflexivity.
  Qed.

  Lemma wf_set l k v : wf_info l -> wf_info (info_set l k v).
  Proof.
    intros H. apply wf_app; [apply wf_del; assumption | apply info_get_del_eq; assumption].
  Qed.
End Info.

(* ------------------------------------------------------------------ *)
(* set_nth                                                              *)
Section SetNth.
  Context {A : Type}.
  Lemma set_nth_length (l : list A) i x : length (set_nth l i x) = length l.
  Proof.
    unfold set_nth. revert i; induction l as [|y l IH]; intros [|i]; simpl; auto.
  Qed.
  Lemma nth_set_nth_eq (l : list A) i x d : i < length l -> nth i (set_nth l i x) d = x.
  Proof.
    unfold set_nth. revert i; induction l as [|y l IH]; intros [|i] H; simpl in *; try lia; auto.
    apply IH; lia.
  Qed.
  Lemma nth_set_nth_neq (l : list A) i j x d : i <> j -> nth j (set_nth l i x) d = nth j l d.
  Proof.
    unfold set_nth. revert i j; induction l as [|y l IH]; intros [|i] [|j] H; simpl in *; try lia; auto.
  Qed.
End SetNth.

(* strictly increasing list of naturals, all >= lo *)
Fixpoint sorted_from (lo : nat) (l : list nat) : Prop :=
  match l with [] => True | x :: r => lo <= x /\ sorted_from (S x) r end.

Lemma sorted_from_mono lo lo' l : lo' <= lo -> sorted_from lo l -> sorted_from lo' l.
Proof. destruct l; simpl; intros; [auto | intuition lia]. Qed.

Lemma sorted_from_ge lo l x : sorted_from lo l -> In x l -> lo <= x.
Proof.
  revert lo; induction l as [|y l IH]; simpl; intros lo H HI; [contradiction|].
  destruct H as [H1 H2]. destruct HI as [E|E]; [lia|]. specialize (IH _ H2 E). lia.
Qed.

Lemma sorted_from_app lo l x :
  sorted_from lo l -> lo <= x -> (forall y, In y l -> y < x) -> sorted_from lo (l ++ [x]).
Proof.
  revert lo; induction l as [|y l IH]; simpl; intros lo H L B; [auto|].
  destruct H as [H1 H2]. split; [assumption|]. apply IH; auto.
  specialize (B y (or_introl eq_refl)). lia.
Qed.

Lemma existsb_bad_nil (l : list nat) : existsb (fun i => existsb (Nat.eqb i) []) l = false.
Proof. induction l; simpl; auto. Qed.

Lemma find_worker_hit t W status cyc :
  nth cyc status false = true -> find_worker (S t) W status cyc = (Some cyc, (S cyc) mod W).
Proof. intros H; simpl. rewrite H. reflexivity. Qed.

Lemma in_candidates s w :
  In w (candidates s) <->
  w < length (m_workers s) /\ wk_dead (nth w (m_workers s) wk_fresh) = false /\ wk_q (nth w (m_workers s) wk_fresh) <> [].
Proof.
  unfold candidates. rewrite filter_In, in_seq.
  destruct (wk_dead (nth w (m_workers s) wk_fresh)); simpl;
  destruct (wk_q (nth w (m_workers s) wk_fresh)); simpl; intuition (try lia; try congruence).
Qed.

Lemma nth_mod_in (l : list nat) x : l <> [] -> In (nth (x mod length l) l 0) l.
Proof.
  intros H. apply nth_In. apply Nat.mod_upper_bound. destruct l; simpl; [congruence | lia].
Qed.
