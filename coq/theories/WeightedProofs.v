From PD Require Import Base WeightedModel.

(* ------------------------------------------------------------------ *)
(* Generic list lemmas                                                  *)
Section ListLemmas.
  Context {A : Type}.

  Lemma set_nth_length (l : list A) i x : length (set_nth l i x) = length l.
  Proof. revert i; induction l as [|y l IH]; intros [|i]; simpl; auto. Qed.

  Lemma nth_set_nth_eq (l : list A) i x d : i < length l -> nth i (set_nth l i x) d = x.
  Proof. revert i; induction l as [|y l IH]; intros [|i] H; simpl in *; try lia; auto.
    apply IH; lia. Qed.

  Lemma nth_set_nth_neq (l : list A) i j x d : i <> j -> nth j (set_nth l i x) d = nth j l d.
  Proof. revert i j; induction l as [|y l IH]; intros [|i] [|j] H; simpl in *; try lia; auto. Qed.

  Lemma set_nth_same (l : list A) i d : set_nth l i (nth i l d) = l.
  Proof. revert i; induction l as [|y l IH]; intros [|i]; simpl; auto. f_equal; apply IH. Qed.

  Lemma set_nth_oob (l : list A) i x : length l <= i -> set_nth l i x = l.
  Proof. revert i; induction l as [|y l IH]; intros [|i] H; simpl in *; try lia; auto.
    f_equal; apply IH; lia. Qed.

  Lemma nth_map_const {B} (l : list B) (a : A) k : nth k (map (fun _ => a) l) a = a.
  Proof. revert k; induction l as [|y l IH]; intros [|k]; simpl; auto. Qed.

  Lemma firstn_S_nth (l : list A) p x :
    nth_error l p = Some x -> firstn (S p) l = firstn p l ++ [x].
  Proof. revert p; induction l as [|y l IH]; intros [|p] H; simpl in *; try discriminate.
    - inversion H; reflexivity.
    - f_equal. apply IH; exact H. Qed.

  Lemma nth_error_None_le (l : list A) p : nth_error l p = None -> length l <= p.
  Proof. apply nth_error_None. Qed.

  Lemma nth_error_Some_lt (l : list A) p x : nth_error l p = Some x -> p < length l.
  Proof. intros H. apply nth_error_Some. congruence. Qed.
End ListLemmas.

(* l repeated n times *)
Fixpoint cyc {A} (n : nat) (l : list A) : list A :=
  match n with 0 => [] | S n' => l ++ cyc n' l end.

Definition prefix {A} (a b : list A) : Prop := exists r, b = a ++ r.

Lemma cyc_snoc {A} n (l : list A) : cyc n l ++ l = l ++ cyc n l.
Proof. induction n as [|n IH]; simpl; [rewrite app_nil_r; reflexivity|].
  rewrite <- app_assoc, IH. reflexivity. Qed.

Lemma cyc_length {A} n (l : list A) : length (cyc n l) = n * length l.
Proof. induction n as [|n IH]; simpl; [reflexivity|]. rewrite app_length, IH. reflexivity. Qed.

Lemma all_true_nth l : all_true l = true <-> (forall k, k < length l -> nth k l false = true).
Proof.
  unfold all_true. induction l as [|b l IH]; simpl.
  - split; [intros _ k H; lia | reflexivity].
  - rewrite andb_true_iff, IH. split.
    + intros [Hb Hl] [|k] H; [exact Hb | apply Hl; lia].
    + intros H. split; [apply (H 0); lia | intros k Hk; apply (H (S k)); lia].
Qed.

Lemma any_true_nth l : any_true l = true <-> (exists k, k < length l /\ nth k l false = true).
Proof.
  unfold any_true. induction l as [|b l IH]; simpl.
  - split; [discriminate | intros [k [H _]]; lia].
  - rewrite orb_true_iff, IH. split.
    + intros [Hb | [k [Hk Hn]]]; [exists 0; split; [lia|exact Hb] | exists (S k); split; [lia|exact Hn]].
    + intros [[|k] [Hk Hn]]; [left; exact Hn | right; exists k; split; [lia|exact Hn]].
Qed.

Lemma nth_false_oob (l : list bool) k : nth k l false = true -> k < length l.
Proof. intros H. destruct (Nat.lt_ge_cases k (length l)) as [|Hge]; [assumption|].
  rewrite nth_overflow in H by exact Hge. discriminate. Qed.

(* ------------------------------------------------------------------ *)
(* Vocabulary                                                           *)
Definition nsrc (c : wcfg) : nat := length (w_sources c).
Definition posk (s : wst) (k : nat) : nat := nth k (w_pos s) 0.
Definition exhk (s : wst) (k : nat) : bool := nth k (w_exh s) false.

Definition wfst (c : wcfg) (s : wst) : Prop :=
  length (w_pos s) = nsrc c /\ length (w_exh s) = nsrc c /\
  forall k, k < nsrc c -> posk s k <= length (src_items c k).

Definition no_restart (c : wcfg) : Prop := w_crit c = AllExhausted \/ w_crit c = FirstExhausted.
Definition restart_ok (c : wcfg) : Prop := w_crit c = CycleUntilAll \/ w_crit c = CycleForever.
Definition all_nonempty (c : wcfg) : Prop := forall k, k < nsrc c -> src_items c k <> [].
Definition ch_in_range (ch : nat -> nat -> nat) (c : wcfg) (e : nat) : Prop := forall i, ch e i < nsrc c.

(* outputs of source k, in order *)
Fixpoint proj (k : nat) (outs : list wout) : list nat :=
  match outs with
  | [] => []
  | WItem j x :: r => if j =? k then x :: proj k r else proj k r
  | _ :: r => proj k r
  end.

Lemma proj_app k a b : proj k (a ++ b) = proj k a ++ proj k b.
Proof. induction a as [|[j x| |] a IH]; simpl; auto. destruct (j =? k); simpl; congruence. Qed.

Lemma src_items_oob c k : nsrc c <= k -> src_items c k = [].
Proof. intros H. unfold src_items. apply nth_overflow. exact H. Qed.

Lemma src_items_inrange c k : src_items c k <> [] -> k < nsrc c.
Proof. intros H. destruct (Nat.lt_ge_cases k (nsrc c)); [assumption|].
  exfalso; apply H, src_items_oob; assumption. Qed.

Lemma wfst_pos_le c s k : wfst c s -> posk s k <= length (src_items c k).
Proof. intros (Hp & _ & Hb). destruct (Nat.lt_ge_cases k (nsrc c)) as [H|H]; [apply Hb; exact H|].
  unfold posk. rewrite nth_overflow by lia. lia. Qed.

(* ------------------------------------------------------------------ *)
(* Specification of one call of next()                                  *)
Definition out_spec (ch : nat -> nat -> nat) (c : wcfg) (s : wst) (o : wout) (s' : wst) : Prop :=
  match o with
  | WItem k x =>
      k < nsrc c /\ check_stop c (w_exh s') = false /\ w_yielded s' = S (w_yielded s) /\
      ((nth_error (src_items c k) (posk s k) = Some x /\ w_pos s' = set_nth (w_pos s) k (S (posk s k)))
       \/ (posk s k = length (src_items c k) /\ nth_error (src_items c k) 0 = Some x /\
           w_pos s' = set_nth (w_pos s) k 1 /\ exhk s' k = true /\ restart_ok c))
  | WStop =>
      w_pos s' = w_pos s /\ w_yielded s' = w_yielded s /\
      (check_stop c (w_exh s') = true \/
       (exists i, src_items c (ch (w_epoch s) i) = [] /\ w_crit c <> AllExhausted /\
                  (w_crit c = FirstExhausted -> nsrc c <= ch (w_epoch s) i)))
  | WFuel => w_pos s' = w_pos s /\ w_yielded s' = w_yielded s
  end.

Definition step_spec ch c s o s' : Prop :=
  wfst c s' /\ w_epoch s' = w_epoch s /\ w_off s <= w_off s' /\
  (forall k, exhk s k = true -> exhk s' k = true) /\
  (forall k, exhk s' k = true -> exhk s k = true \/ (k < nsrc c /\ posk s k = length (src_items c k))) /\
  out_spec ch c s o s'.

Lemma w_next_loop_spec ch c fuel : forall s o s',
  wfst c s -> w_next_loop ch c fuel s = (o, s') -> step_spec ch c s o s'.
Proof.
  induction fuel as [|fuel IH]; intros s o s' Hwf E.
  - simpl in E. inversion E; subst. unfold step_spec, out_spec. repeat split; auto; apply Hwf.
  - cbn [w_next_loop] in E.
    destruct (check_stop c (w_exh s)) eqn:Ecs.
    { inversion E; subst. unfold step_spec, out_spec. repeat split; auto; apply Hwf. }
    set (key := ch (w_epoch s) (w_off s)) in *.
    destruct (nth key (w_exh s) false && match w_crit c with AllExhausted => true | _ => false end) eqn:Eskip.
    { apply IH in E; [|exact Hwf].
      destruct E as (W & He & Ho & Hm & Hn & Hout). cbn [w_epoch w_off w_pos w_exh] in *.
      unfold step_spec. repeat split; try apply W; auto; try lia;
      try (destruct o; exact Hout). }
    destruct Hwf as (HLp & HLe & Hb).
    assert (Hwf : wfst c s) by (repeat split; auto).
    destruct (nth_error (src_items c key) (nth key (w_pos s) 0)) as [x|] eqn:Enth.
    { (* ordinary item *)
      inversion E; subst o s'; clear E.
      assert (Hk : key < nsrc c).
      { apply src_items_inrange. intros H0. rewrite H0 in Enth. destruct (nth key (w_pos s) 0); discriminate. }
      unfold step_spec, out_spec, wfst, posk, exhk; cbn [w_epoch w_off w_pos w_exh w_yielded].
      repeat split; auto.
      - rewrite set_nth_length; exact HLp.
      - intros k Hk'. destruct (Nat.eq_dec key k) as [->|Hne].
        + rewrite nth_set_nth_eq by lia. apply nth_error_Some_lt in Enth. exact Enth.
        + rewrite nth_set_nth_neq by exact Hne. apply Hb; exact Hk'. }
    (* source raised StopIteration *)
    assert (Hlen : posk s key = length (src_items c key)).
    { apply nth_error_None_le in Enth. pose proof (wfst_pos_le c s key Hwf). unfold posk in *. lia. }
    assert (Hmono : forall k, exhk s k = true -> nth k (set_nth (w_exh s) key true) false = true).
    { intros k Hk. destruct (Nat.eq_dec key k) as [->|Hne].
      - apply nth_set_nth_eq. apply nth_false_oob; exact Hk.
      - rewrite nth_set_nth_neq by exact Hne. exact Hk. }
    assert (Hnew : forall k, nth k (set_nth (w_exh s) key true) false = true ->
                     exhk s k = true \/ (k < nsrc c /\ posk s k = length (src_items c k))).
    { intros k Hk. destruct (Nat.eq_dec key k) as [<-|Hne].
      - right. split; [|exact Hlen]. apply nth_false_oob in Hk. rewrite set_nth_length in Hk. lia.
      - rewrite nth_set_nth_neq in Hk by exact Hne. left; exact Hk. }
    assert (Hwf2 : forall off yl, wfst c {| w_pos := w_pos s; w_exh := set_nth (w_exh s) key true; w_off := off;
                           w_yielded := yl; w_epoch := w_epoch s; w_started := true |}).
    { intros. unfold wfst, posk; cbn [w_pos w_exh]. rewrite set_nth_length. repeat split; auto. }
    cbn [w_epoch w_off w_pos w_exh w_yielded] in E.
    destruct (check_stop c (set_nth (w_exh s) key true)) eqn:Ecs2.
    { inversion E; subst o s'; clear E.
      unfold step_spec, out_spec; cbn [w_epoch w_off w_pos w_exh w_yielded].
      split; [apply Hwf2|]. repeat split; auto. }
    destruct (w_crit c) eqn:Ecrit.
    + (* CycleUntilAll *)
      destruct (nth_error (src_items c key) 0) as [x|] eqn:E0.
      * inversion E; subst o s'; clear E.
        assert (Hk : key < nsrc c).
        { apply src_items_inrange. intros H0. rewrite H0 in E0. discriminate. }
        unfold step_spec, out_spec, wfst; unfold posk at 1; unfold exhk at 2 4; cbn [w_epoch w_off w_pos w_exh w_yielded].
        repeat split; auto.
        -- rewrite set_nth_length; exact HLp.
        -- rewrite set_nth_length; exact HLe.
        -- intros k Hk'. destruct (Nat.eq_dec key k) as [->|Hne].
           ++ rewrite nth_set_nth_eq by lia. apply nth_error_Some_lt in E0. lia.
           ++ rewrite nth_set_nth_neq by exact Hne. apply Hb; exact Hk'.
        -- right. repeat split; auto.
           ++ unfold exhk; cbn [w_exh]. apply nth_set_nth_eq. lia.
           ++ left; exact Ecrit.
      * inversion E; subst o s'; clear E.
        assert (Hnil : src_items c key = []) by (destruct (src_items c key); [reflexivity|discriminate]).
        assert (Hp0 : set_nth (w_pos s) key 0 = w_pos s).
        { rewrite Hnil in Hlen. simpl in Hlen. unfold posk in Hlen. rewrite <- Hlen at 1. apply set_nth_same. }
        unfold step_spec, out_spec; cbn [w_epoch w_off w_pos w_exh w_yielded]. rewrite Hp0.
        split; [apply Hwf2|]. repeat split; auto.
        right. exists (w_off s). fold key. rewrite Ecrit. repeat split; auto; discriminate.
    + (* AllExhausted: keep looping *)
      apply IH in E; [|apply Hwf2].
      destruct E as (W & He & Ho & Hm & Hn & Hout). cbn [w_epoch w_off w_pos w_exh] in *.
      unfold step_spec. repeat split; try apply W; auto; try lia.
      * intros k Hk. apply Hm. unfold exhk; cbn [w_exh]. apply Hmono; exact Hk.
      * intros k Hk. apply Hn in Hk. destruct Hk as [Hk|Hk]; [|right; exact Hk].
        unfold exhk in Hk; cbn [w_exh] in Hk. apply Hnew; exact Hk.
    + (* FirstExhausted *)
      destruct (nth_error (src_items c key) 0) as [x|] eqn:E0.
      * exfalso.
        assert (Hk : key < nsrc c).
        { apply src_items_inrange. intros H0. rewrite H0 in E0. discriminate. }
        unfold check_stop in Ecs2. rewrite Ecrit in Ecs2. apply orb_false_iff in Ecs2. destruct Ecs2 as [_ Hany].
        assert (any_true (set_nth (w_exh s) key true) = true); [|congruence].
        apply any_true_nth. exists key. rewrite set_nth_length. split; [lia|].
        apply nth_set_nth_eq. lia.
      * inversion E; subst o s'; clear E.
        assert (Hnil : src_items c key = []) by (destruct (src_items c key); [reflexivity|discriminate]).
        assert (Hp0 : set_nth (w_pos s) key 0 = w_pos s).
        { rewrite Hnil in Hlen. simpl in Hlen. unfold posk in Hlen. rewrite <- Hlen at 1. apply set_nth_same. }
        unfold step_spec, out_spec; cbn [w_epoch w_off w_pos w_exh w_yielded]. rewrite Hp0.
        split; [apply Hwf2|]. repeat split; auto.
        right. exists (w_off s). fold key. rewrite Ecrit. repeat split; auto; try discriminate.
        intros _. destruct (Nat.lt_ge_cases key (nsrc c)) as [Hk|Hk]; [exfalso|exact Hk].
        unfold check_stop in Ecs2. rewrite Ecrit in Ecs2. apply orb_false_iff in Ecs2. destruct Ecs2 as [_ Hany].
        assert (any_true (set_nth (w_exh s) key true) = true); [|congruence].
        apply any_true_nth. exists key. rewrite set_nth_length. split; [lia|].
        apply nth_set_nth_eq. lia.
    + (* CycleForever *)
      destruct (nth_error (src_items c key) 0) as [x|] eqn:E0.
      * inversion E; subst o s'; clear E.
        assert (Hk : key < nsrc c).
        { apply src_items_inrange. intros H0. rewrite H0 in E0. discriminate. }
        unfold step_spec, out_spec, wfst; unfold posk at 1; unfold exhk at 2 4; cbn [w_epoch w_off w_pos w_exh w_yielded].
        repeat split; auto.
        -- rewrite set_nth_length; exact HLp.
        -- rewrite set_nth_length; exact HLe.
        -- intros k Hk'. destruct (Nat.eq_dec key k) as [->|Hne].
           ++ rewrite nth_set_nth_eq by lia. apply nth_error_Some_lt in E0. lia.
           ++ rewrite nth_set_nth_neq by exact Hne. apply Hb; exact Hk'.
        -- right. repeat split; auto.
           ++ unfold exhk; cbn [w_exh]. apply nth_set_nth_eq. lia.
           ++ right; exact Ecrit.
      * inversion E; subst o s'; clear E.
        assert (Hnil : src_items c key = []) by (destruct (src_items c key); [reflexivity|discriminate]).
        assert (Hp0 : set_nth (w_pos s) key 0 = w_pos s).
        { rewrite Hnil in Hlen. simpl in Hlen. unfold posk in Hlen. rewrite <- Hlen at 1. apply set_nth_same. }
        unfold step_spec, out_spec; cbn [w_epoch w_off w_pos w_exh w_yielded]. rewrite Hp0.
        split; [apply Hwf2|]. repeat split; auto.
        right. exists (w_off s). fold key. rewrite Ecrit. repeat split; auto; discriminate.
Qed.

Lemma w_next_loop_started ch c fuel : forall s o s',
  w_started s = true -> w_next_loop ch c fuel s = (o, s') -> w_started s' = true.
Proof.
  induction fuel as [|fuel IH]; intros s o s' Hs E.
  - simpl in E. inversion E; subst; exact Hs.
  - cbn [w_next_loop] in E.
    repeat match type of E with
    | (if ?b then _ else _) = _ => destruct b
    | match ?x with _ => _ end = _ => destruct x
    | (_, _) = (_, _) => inversion E; subst; reflexivity || exact Hs
    | w_next_loop _ _ _ _ = _ => apply IH in E; [exact E | reflexivity]
    end.
Qed.

Definition started_view (s : wst) : wst :=
  {| w_pos := w_pos s; w_exh := w_exh s; w_off := w_off s; w_yielded := w_yielded s;
     w_epoch := w_epoch s; w_started := true |}.

Lemma w_next_spec ch c fuel s o s' :
  wfst c s -> w_next ch c fuel s = (o, s') -> step_spec ch c s o s' /\ w_started s' = true.
Proof.
  intros Hwf E. unfold w_next in E. split.
  - apply w_next_loop_spec in E; [exact E | exact Hwf].
  - apply w_next_loop_started in E; [exact E | reflexivity].
Qed.

(* ------------------------------------------------------------------ *)
(* History invariant                                                    *)
Definition hist_inv (c : wcfg) (outs : list wout) (s : wst) : Prop :=
  wfst c s /\
  forall k, exists n,
    proj k outs = cyc n (src_items c k) ++ firstn (posk s k) (src_items c k) /\
    (no_restart c -> n = 0) /\
    (exhk s k = true -> 1 <= n \/ posk s k = length (src_items c k)).

Lemma hist_inv_fresh c so : hist_inv c [] (w_reset_fresh c so).
Proof.
  unfold hist_inv, wfst, posk, exhk, w_reset_fresh, nsrc; cbn [w_pos w_exh].
  rewrite !map_length. split; [repeat split; auto|].
  - intros k _. rewrite nth_map_const. lia.
  - intros k. exists 0. rewrite !nth_map_const. repeat split; auto. discriminate.
Qed.

Lemma hist_inv_step ch c fuel outs s o s' :
  hist_inv c outs s -> w_next ch c fuel s = (o, s') -> hist_inv c (outs ++ [o]) s'.
Proof.
  intros [Hwf H] E. apply w_next_spec in E; [|exact Hwf].
  destruct E as [(W & He & Ho & Hm & Hn & Hout) _].
  split; [exact W|]. intros k. destruct (H k) as (n & Hp & Hnr & Hf).
  rewrite proj_app.
  assert (Hsame : posk s' k = posk s k -> proj k [o] = [] ->
     exists n0, proj k outs ++ proj k [o] = cyc n0 (src_items c k) ++ firstn (posk s' k) (src_items c k) /\
       (no_restart c -> n0 = 0) /\ (exhk s' k = true -> 1 <= n0 \/ posk s' k = length (src_items c k))).
  { intros Hpk Hpr. exists n. rewrite Hpk, Hpr, app_nil_r. repeat split; auto.
    intros Hk. apply Hn in Hk. destruct Hk as [Hk|[_ Hk]]; auto. }
  destruct o as [j x| |]; simpl in Hout.
  - destruct Hout as (Hj & _ & _ & Hcase).
    destruct (Nat.eq_dec j k) as [->|Hne].
    + simpl. rewrite Nat.eqb_refl.
      destruct Hcase as [[Hx Hp']|(Hlen & Hx & Hp' & He' & Hr)].
      * assert (Hpk : posk s' k = S (posk s k)).
        { unfold posk at 1. rewrite Hp'. destruct Hwf as (HLp & _). apply nth_set_nth_eq; lia. }
        exists n. rewrite Hpk.
        rewrite (firstn_S_nth _ _ _ Hx), Hp, <- app_assoc. repeat split; auto.
        intros Hk. apply Hn in Hk. apply nth_error_Some_lt in Hx.
        destruct Hk as [Hk|[_ Hk]]; [|lia]. apply Hf in Hk. destruct Hk; [left; assumption|lia].
      * assert (Hpk : posk s' k = 1).
        { unfold posk at 1. rewrite Hp'. destruct Hwf as (HLp & _). apply nth_set_nth_eq; lia. }
        exists (S n). rewrite Hpk.
        rewrite Hp, Hlen, firstn_all. repeat split.
        -- destruct (src_items c k) as [|y l] eqn:Ei; [discriminate|]. simpl in Hx. inversion Hx; subst y.
           rewrite cyc_snoc. reflexivity.
        -- intros [Hc|Hc]; destruct Hr as [Hr|Hr]; congruence.
        -- intros _. left; lia.
    + apply Hsame.
      * assert (Hp' : w_pos s' = set_nth (w_pos s) j (S (posk s j)) \/ w_pos s' = set_nth (w_pos s) j 1).
        { destruct Hcase as [[_ Hp']|(_ & _ & Hp' & _)]; auto. }
        unfold posk. destruct Hp' as [-> | ->]; apply nth_set_nth_neq; exact Hne.
      * simpl. apply Nat.eqb_neq in Hne. rewrite Hne. reflexivity.
  - destruct Hout as (Hp' & _). apply Hsame; [unfold posk; rewrite Hp'; reflexivity | reflexivity].
  - destruct Hout as (Hp' & _). apply Hsame; [unfold posk; rewrite Hp'; reflexivity | reflexivity].
Qed.

Lemma hist_inv_run ch c fuel n : forall outs s l s',
  hist_inv c outs s -> w_run ch c fuel n s = (l, s') -> hist_inv c (outs ++ l) s'.
Proof.
  induction n as [|n IH]; intros outs s l s' H E.
  - simpl in E. inversion E; subst. rewrite app_nil_r. exact H.
  - cbn [w_run] in E. destruct (w_next ch c fuel s) as [o s1] eqn:E1.
    destruct (w_run ch c fuel n s1) as [l1 s2] eqn:E2. inversion E; subst.
    replace (outs ++ o :: l1) with ((outs ++ [o]) ++ l1) by (rewrite <- app_assoc; reflexivity).
    eapply IH; [|exact E2]. eapply hist_inv_step; eassumption.
Qed.

Lemma hist_inv_wf c outs s : hist_inv c outs s -> wfst c s.
Proof. intros [H _]; exact H. Qed.

(* ------------------------------------------------------------------ *)
(* run-level bookkeeping *)
Lemma w_next_loop_epoch ch c fuel : forall s o s',
  w_next_loop ch c fuel s = (o, s') -> w_epoch s' = w_epoch s.
Proof.
  induction fuel as [|fuel IH]; intros s o s' E.
  - simpl in E. inversion E; subst; reflexivity.
  - cbn [w_next_loop] in E.
    repeat match type of E with
    | (if ?b then _ else _) = _ => destruct b
    | match ?x with _ => _ end = _ => destruct x
    | (_, _) = (_, _) => inversion E; subst; reflexivity
    | w_next_loop _ _ _ _ = _ => apply IH in E; exact E
    end.
Qed.

Lemma w_next_epoch ch c fuel s o s' : w_next ch c fuel s = (o, s') -> w_epoch s' = w_epoch s.
Proof. unfold w_next. intros E. apply w_next_loop_epoch in E. exact E. Qed.

Lemma w_run_cons ch c fuel n s :
  w_run ch c fuel (S n) s =
  (fst (w_next ch c fuel s) :: fst (w_run ch c fuel n (snd (w_next ch c fuel s))),
   snd (w_run ch c fuel n (snd (w_next ch c fuel s)))).
Proof. cbn [w_run]. destruct (w_next ch c fuel s) as [o s1]. cbn [fst snd].
  destruct (w_run ch c fuel n s1); reflexivity. Qed.

Lemma w_run_epoch ch c fuel n : forall s l s', w_run ch c fuel n s = (l, s') -> w_epoch s' = w_epoch s.
Proof.
  induction n as [|n IH]; intros s l s' E.
  - simpl in E. inversion E; reflexivity.
  - cbn [w_run] in E. destruct (w_next ch c fuel s) as [o s1] eqn:E1.
    destruct (w_run ch c fuel n s1) as [l1 s2] eqn:E2. inversion E; subst.
    apply IH in E2. apply w_next_epoch in E1. congruence.
Qed.

Lemma w_run_wf ch c fuel n : forall s l s', wfst c s -> w_run ch c fuel n s = (l, s') -> wfst c s'.
Proof.
  induction n as [|n IH]; intros s l s' W E.
  - simpl in E. inversion E; subst; exact W.
  - cbn [w_run] in E. destruct (w_next ch c fuel s) as [o s1] eqn:E1.
    destruct (w_run ch c fuel n s1) as [l1 s2] eqn:E2. inversion E; subst.
    eapply IH; [|exact E2]. apply w_next_spec in E1; [|exact W]. apply E1.
Qed.

Lemma hist_inv_from_fresh ch c fuel n so outs s :
  w_run ch c fuel n (w_reset_fresh c so) = (outs, s) -> hist_inv c outs s.
Proof. intros E. apply (hist_inv_run ch c fuel n [] _ outs s (hist_inv_fresh c so) E). Qed.

(* ================================================================== *)
(* W1 per_source_order                                                 *)
Theorem per_source_order_inv c outs s k :
  hist_inv c outs s -> exists m, prefix (proj k outs) (cyc m (src_items c k)).
Proof.
  intros [_ H]. destruct (H k) as (n & Hp & _). exists (S n), (skipn (posk s k) (src_items c k)).
  rewrite Hp, <- app_assoc, firstn_skipn. cbn [cyc]. symmetry; apply cyc_snoc.
Qed.

Theorem per_source_order_no_restart_inv c outs s k :
  no_restart c -> hist_inv c outs s -> prefix (proj k outs) (src_items c k).
Proof.
  intros Hnr [_ H]. destruct (H k) as (n & Hp & Hn & _). rewrite (Hn Hnr) in Hp. simpl in Hp.
  exists (skipn (posk s k) (src_items c k)). rewrite Hp, firstn_skipn. reflexivity.
Qed.

Theorem per_source_order ch c fuel n so outs s k :
  w_run ch c fuel n (w_reset_fresh c so) = (outs, s) ->
  exists m, prefix (proj k outs) (cyc m (src_items c k)).
Proof. intros E. eapply per_source_order_inv, hist_inv_from_fresh, E. Qed.

Theorem per_source_order_no_restart ch c fuel n so outs s k :
  w_crit c = AllExhausted \/ w_crit c = FirstExhausted ->
  w_run ch c fuel n (w_reset_fresh c so) = (outs, s) ->
  prefix (proj k outs) (src_items c k).
Proof. intros Hc E. eapply per_source_order_no_restart_inv; [exact Hc|]. eapply hist_inv_from_fresh, E. Qed.

Lemma cyc_add {A} a b (l : list A) : cyc (a + b) l = cyc a l ++ cyc b l.
Proof. induction a as [|a IH]; simpl; [reflexivity|]. rewrite IH, app_assoc. reflexivity. Qed.

(* state-to-state form, valid from ANY well-formed state (no history needed) *)
Lemma per_source_order_step ch c fuel s o s' k :
  wfst c s -> w_next ch c fuel s = (o, s') ->
  exists m, skipn (posk s k) (src_items c k) ++ cyc m (src_items c k)
            = proj k [o] ++ skipn (posk s' k) (src_items c k) /\
            (no_restart c -> m = 0).
Proof.
  intros Hwf E. apply w_next_spec in E; [|exact Hwf].
  destruct E as [(W & He & Ho & Hm & Hn & Hout) _].
  assert (Hsame : posk s' k = posk s k -> proj k [o] = [] ->
    exists m, skipn (posk s k) (src_items c k) ++ cyc m (src_items c k)
            = proj k [o] ++ skipn (posk s' k) (src_items c k) /\ (no_restart c -> m = 0)).
  { intros -> ->. exists 0. simpl. rewrite app_nil_r. auto. }
  destruct o as [j x| |]; simpl in Hout.
  - destruct Hout as (Hj & _ & _ & Hcase).
    destruct (Nat.eq_dec j k) as [->|Hne].
    + simpl. rewrite Nat.eqb_refl.
      destruct Hcase as [[Hx Hp']|(Hlen & Hx & Hp' & He' & Hr)].
      * assert (Hpk : posk s' k = S (posk s k)).
        { unfold posk at 1. rewrite Hp'. destruct Hwf as (HLp & _). apply nth_set_nth_eq; lia. }
        exists 0. rewrite Hpk. simpl. rewrite app_nil_r. split; [|auto].
        apply skipn_S_nth; exact Hx.
      * assert (Hpk : posk s' k = 1).
        { unfold posk at 1. rewrite Hp'. destruct Hwf as (HLp & _). apply nth_set_nth_eq; lia. }
        exists 1. rewrite Hpk, Hlen, skipn_all. split.
        -- destruct (src_items c k) as [|y l]; [discriminate|]. simpl in Hx. inversion Hx; subst y.
           simpl. rewrite app_nil_r. reflexivity.
        -- intros [Hc|Hc]; destruct Hr as [Hr|Hr]; congruence.
    + apply Hsame.
      * assert (Hp' : w_pos s' = set_nth (w_pos s) j (S (posk s j)) \/ w_pos s' = set_nth (w_pos s) j 1).
        { destruct Hcase as [[_ Hp']|(_ & _ & Hp' & _)]; auto. }
        unfold posk. destruct Hp' as [-> | ->]; apply nth_set_nth_neq; exact Hne.
      * simpl. apply Nat.eqb_neq in Hne. rewrite Hne. reflexivity.
  - destruct Hout as (Hp' & _). apply Hsame; [unfold posk; rewrite Hp'; reflexivity | reflexivity].
  - destruct Hout as (Hp' & _). apply Hsame; [unfold posk; rewrite Hp'; reflexivity | reflexivity].
Qed.

Theorem per_source_order_from_any_state ch c fuel n k : forall s outs s',
  wfst c s -> w_run ch c fuel n s = (outs, s') ->
  exists m, skipn (posk s k) (src_items c k) ++ cyc m (src_items c k)
            = proj k outs ++ skipn (posk s' k) (src_items c k) /\
            (no_restart c -> m = 0).
Proof.
  induction n as [|n IH]; intros s outs s' W E.
  - simpl in E. inversion E; subst. exists 0. simpl. rewrite app_nil_r. auto.
  - cbn [w_run] in E. destruct (w_next ch c fuel s) as [o s1] eqn:E1.
    destruct (w_run ch c fuel n s1) as [l1 s2] eqn:E2. inversion E; subst.
    destruct (per_source_order_step _ _ _ _ _ _ k W E1) as (m1 & H1 & N1).
    assert (W1 : wfst c s1) by (apply w_next_spec in E1; [apply E1|exact W]).
    destruct (IH _ _ _ W1 E2) as (m2 & H2 & N2).
    exists (m1 + m2). split; [|intros Hc; rewrite N1, N2; auto].
    change (o :: l1) with ([o] ++ l1). rewrite proj_app, cyc_add, app_assoc, H1, <- !app_assoc, H2.
    reflexivity.
Qed.

Theorem emitted_items_valid ch c fuel n : forall s outs s' k x,
  wfst c s -> w_run ch c fuel n s = (outs, s') -> In (WItem k x) outs ->
  k < nsrc c /\ In x (src_items c k).
Proof.
  induction n as [|n IH]; intros s outs s' k x W E Hin.
  - simpl in E. inversion E; subst. destruct Hin.
  - cbn [w_run] in E. destruct (w_next ch c fuel s) as [o s1] eqn:E1.
    destruct (w_run ch c fuel n s1) as [l1 s2] eqn:E2. inversion E; subst.
    apply w_next_spec in E1; [|exact W]. destruct E1 as [(W1 & _ & _ & _ & _ & Hout) _].
    destruct Hin as [->|Hin]; [|eapply IH; eassumption].
    unfold out_spec in Hout. destruct Hout as (Hk & _ & _ & Hcase). split; [exact Hk|].
    destruct Hcase as [[Hx _]|(_ & Hx & _)]; eapply nth_error_In; exact Hx.
Qed.

(* ================================================================== *)
(* stop is sticky whenever the flags satisfy the stop criterion          *)
Lemma started_view_id s : w_started s = true -> started_view s = s.
Proof. destruct s; simpl; intros ->; reflexivity. Qed.

Lemma stop_sticky ch c fuel s :
  check_stop c (w_exh s) = true -> w_next ch c (S fuel) s = (WStop, started_view s).
Proof. intros H. unfold w_next. cbn [w_next_loop w_exh]. rewrite H. reflexivity. Qed.

Lemma stop_forever ch c fuel n : forall s,
  check_stop c (w_exh s) = true -> w_started s = true ->
  w_run ch c (S fuel) n s = (repeat WStop n, s).
Proof.
  induction n as [|n IH]; intros s H Hs; [reflexivity|].
  cbn [w_run]. rewrite (stop_sticky ch c fuel s H), (started_view_id s Hs), (IH s H Hs). reflexivity.
Qed.

(* ================================================================== *)
(* W2 all_exhausted_complete                                           *)
Lemma hist_inv_no_restart_exh c outs s k :
  no_restart c -> hist_inv c outs s -> exhk s k = true ->
  posk s k = length (src_items c k) /\ proj k outs = src_items c k.
Proof.
  intros Hnr [_ H] He. destruct (H k) as (n & Hp & Hn & Hf). specialize (Hn Hnr). subst n.
  destruct (Hf He) as [Hl|Hl]; [lia|]. split; [exact Hl|].
  rewrite Hp, Hl, firstn_all. reflexivity.
Qed.

Lemma hist_inv_no_restart_len c outs s k :
  no_restart c -> hist_inv c outs s -> length (proj k outs) = posk s k.
Proof.
  intros Hnr [W H]. destruct (H k) as (n & Hp & Hn & Hf). specialize (Hn Hnr). subst n.
  rewrite Hp. simpl. rewrite firstn_length. pose proof (wfst_pos_le c s k W). lia.
Qed.

Theorem all_exhausted_complete_inv ch c fuel outs s s' :
  w_crit c = AllExhausted -> hist_inv c outs s -> w_next ch c fuel s = (WStop, s') ->
  forall k, k < nsrc c ->
    proj k outs = src_items c k /\ posk s' k = length (src_items c k) /\ exhk s' k = true.
Proof.
  intros Hc HI E k Hk.
  pose proof (hist_inv_step _ _ _ _ _ _ _ HI E) as HI'.
  apply w_next_spec in E; [|apply HI]. destruct E as [(W & _ & _ & _ & _ & Hout) _].
  simpl in Hout. destruct Hout as (_ & _ & [Hcs | (i & _ & Hne & _)]); [|congruence].
  unfold check_stop in Hcs. rewrite Hc in Hcs.
  assert (He : exhk s' k = true).
  { apply (proj1 (all_true_nth _) Hcs). destruct W as (_ & -> & _). exact Hk. }
  destruct (hist_inv_no_restart_exh c _ s' k (or_introl Hc) HI' He) as [Hl Hp].
  rewrite proj_app in Hp. simpl in Hp. rewrite app_nil_r in Hp. auto.
Qed.

Theorem all_exhausted_complete ch c fuel fuel' n so outs s s' :
  w_crit c = AllExhausted ->
  w_run ch c fuel n (w_reset_fresh c so) = (outs, s) ->
  w_next ch c fuel' s = (WStop, s') ->
  forall k, k < nsrc c -> proj k outs = src_items c k.
Proof.
  intros Hc E E' k Hk. apply hist_inv_from_fresh in E.
  apply (all_exhausted_complete_inv _ _ _ _ _ _ Hc E E' k Hk).
Qed.

Theorem all_exhausted_no_early_stop_inv ch c fuel outs s :
  w_crit c = AllExhausted -> hist_inv c outs s ->
  (exists k, k < nsrc c /\ posk s k < length (src_items c k)) ->
  fst (w_next ch c fuel s) <> WStop.
Proof.
  intros Hc HI (k & Hk & Hlt) Hst.
  destruct (w_next ch c fuel s) as [o s'] eqn:E. simpl in Hst. subst o.
  destruct (all_exhausted_complete_inv _ _ _ _ _ _ Hc HI E k Hk) as (Hp & _).
  pose proof (hist_inv_no_restart_len c outs s k (or_introl Hc) HI) as Hl.
  rewrite Hp in Hl. lia.
Qed.

Theorem all_exhausted_no_early_stop ch c fuel fuel' n so outs s :
  w_crit c = AllExhausted ->
  w_run ch c fuel n (w_reset_fresh c so) = (outs, s) ->
  (exists k, k < nsrc c /\ length (proj k outs) < length (src_items c k)) ->
  fst (w_next ch c fuel' s) <> WStop.
Proof.
  intros Hc E (k & Hk & Hlt). apply hist_inv_from_fresh in E.
  apply (all_exhausted_no_early_stop_inv _ _ _ _ _ Hc E).
  exists k. split; [exact Hk|].
  rewrite <- (hist_inv_no_restart_len c outs s k (or_introl Hc) E). exact Hlt.
Qed.

Theorem all_exhausted_stop_sticky ch c fuel fuel' outs s s' :
  w_crit c = AllExhausted -> hist_inv c outs s -> w_next ch c fuel s = (WStop, s') ->
  forall n, w_run ch c (S fuel') n s' = (repeat WStop n, s').
Proof.
  intros Hc HI E n. apply w_next_spec in E; [|apply HI].
  destruct E as [(_ & _ & _ & _ & _ & Hout) Hs]. simpl in Hout.
  destruct Hout as (_ & _ & [Hcs | (i & _ & Hne & _)]); [|congruence].
  apply stop_forever; assumption.
Qed.

(* ================================================================== *)
(* W3 first_exhausted_exact                                            *)
Theorem first_exhausted_exact_inv ch c fuel outs s s' :
  w_crit c = FirstExhausted -> ch_in_range ch c (w_epoch s) ->
  hist_inv c outs s -> w_next ch c fuel s = (WStop, s') ->
  (exists k, k < nsrc c /\ exhk s' k = true /\ posk s' k = length (src_items c k) /\
             proj k outs = src_items c k) /\
  (forall j, prefix (proj j outs) (src_items c j)) /\
  (forall fuel' n, w_run ch c (S fuel') n s' = (repeat WStop n, s')).
Proof.
  intros Hc Hr HI E.
  pose proof (hist_inv_step _ _ _ _ _ _ _ HI E) as HI'.
  apply w_next_spec in E; [|apply HI]. destruct E as [(W & _ & _ & _ & _ & Hout) Hs].
  simpl in Hout. destruct Hout as (_ & _ & [Hcs | (i & _ & _ & Hoob)]).
  2:{ specialize (Hoob Hc). specialize (Hr i). lia. }
  split; [|split].
  - assert (Hex : exists k, k < nsrc c /\ exhk s' k = true).
    { unfold check_stop in Hcs. rewrite Hc in Hcs. apply orb_true_iff in Hcs. destruct Hcs as [Hall|Hany].
      - exists 0. pose proof (Hr 0) as H0. split; [lia|].
        apply (proj1 (all_true_nth _) Hall). destruct W as (_ & -> & _). lia.
      - apply any_true_nth in Hany. destruct Hany as (k & Hk & He). exists k.
        destruct W as (_ & <- & _). auto. }
    destruct Hex as (k & Hk & He). exists k.
    destruct (hist_inv_no_restart_exh c _ s' k (or_intror Hc) HI' He) as [Hl Hp].
    rewrite proj_app in Hp. simpl in Hp. rewrite app_nil_r in Hp. auto.
  - intros j. apply (per_source_order_no_restart_inv c outs s j (or_intror Hc) HI).
  - intros fuel' n. apply stop_forever; assumption.
Qed.

Theorem first_exhausted_exact ch c fuel fuel' n so outs s s' :
  w_crit c = FirstExhausted -> ch_in_range ch c (w_epoch (w_reset_fresh c so)) ->
  w_run ch c fuel n (w_reset_fresh c so) = (outs, s) ->
  w_next ch c fuel' s = (WStop, s') ->
  (exists k, k < nsrc c /\ exhk s' k = true /\ posk s' k = length (src_items c k) /\
             proj k outs = src_items c k) /\
  (forall j, prefix (proj j outs) (src_items c j)) /\
  (forall fuel'' m, w_run ch c (S fuel'') m s' = (repeat WStop m, s')).
Proof.
  intros Hc Hr E E'. pose proof (w_run_epoch _ _ _ _ _ _ _ E) as Hep.
  apply hist_inv_from_fresh in E.
  apply (first_exhausted_exact_inv ch c fuel' outs s s' Hc); auto. rewrite Hep. exact Hr.
Qed.

(* out-of-range choices break W3 (and W4, W5): the D12 path raises StopIteration with no flag set *)
Definition tabch (l : list nat) : nat -> nat -> nat := fun _ i => nth i l 0.
Example first_exhausted_out_of_range_refuted :
  let c := {| w_sources := [[1;2];[10]]; w_crit := FirstExhausted; w_batch := 4 |} in
  let r := w_run (tabch [0;5;1;0]) c 10 3 (w_reset_fresh c None) in
  fst r = [WItem 0 1; WStop; WItem 1 10] /\ w_exh (snd r) = [false; false].
Proof. vm_compute. split; reflexivity. Qed.

(* ================================================================== *)
(* W4 cycle_until_all                                                  *)
Theorem cycle_until_all_inv ch c fuel outs s s' :
  w_crit c = CycleUntilAll -> all_nonempty c -> ch_in_range ch c (w_epoch s) ->
  hist_inv c outs s -> w_next ch c fuel s = (WStop, s') ->
  forall k, k < nsrc c -> exhk s' k = true /\ length (src_items c k) <= length (proj k outs).
Proof.
  intros Hc Hne Hr HI E k Hk.
  pose proof (hist_inv_step _ _ _ _ _ _ _ HI E) as HI'.
  apply w_next_spec in E; [|apply HI]. destruct E as [(W & _ & _ & _ & _ & Hout) Hs].
  simpl in Hout. destruct Hout as (_ & _ & [Hcs | (i & Hnil & _ & _)]).
  2:{ exfalso. apply (Hne _ (Hr i)). exact Hnil. }
  unfold check_stop in Hcs. rewrite Hc in Hcs.
  assert (He : exhk s' k = true).
  { apply (proj1 (all_true_nth _) Hcs). destruct W as (_ & -> & _). exact Hk. }
  split; [exact He|].
  destruct HI' as [_ H]. destruct (H k) as (n & Hp & _ & Hf).
  rewrite proj_app in Hp. simpl in Hp. rewrite app_nil_r in Hp.
  rewrite Hp, app_length, cyc_length.
  destruct (Hf He) as [Hn|Hl].
  - destruct n; [lia|]. simpl. lia.
  - rewrite Hl, firstn_all. lia.
Qed.

Theorem cycle_until_all ch c fuel fuel' n so outs s s' :
  w_crit c = CycleUntilAll -> all_nonempty c -> ch_in_range ch c (w_epoch (w_reset_fresh c so)) ->
  w_run ch c fuel n (w_reset_fresh c so) = (outs, s) ->
  w_next ch c fuel' s = (WStop, s') ->
  forall k, k < nsrc c -> exhk s' k = true /\ length (src_items c k) <= length (proj k outs).
Proof.
  intros Hc Hne Hr E E'. pose proof (w_run_epoch _ _ _ _ _ _ _ E) as Hep.
  apply hist_inv_from_fresh in E.
  apply (cycle_until_all_inv ch c fuel' outs s s' Hc Hne); auto. rewrite Hep. exact Hr.
Qed.

Theorem exhausted_source_restarts_from_first ch c fuel s k x s' :
  wfst c s -> posk s k = length (src_items c k) -> w_next ch c fuel s = (WItem k x, s') ->
  nth_error (src_items c k) 0 = Some x /\ posk s' k = 1 /\ exhk s' k = true /\ restart_ok c.
Proof.
  intros W Hl E. apply w_next_spec in E; [|exact W]. destruct E as [(_ & _ & _ & _ & _ & Hout) _].
  unfold out_spec in Hout. destruct Hout as (Hk & _ & _ & [[Hx _]|(_ & Hx & Hp' & He & Hr)]).
  - apply nth_error_Some_lt in Hx. lia.
  - repeat split; auto. unfold posk. rewrite Hp'. apply nth_set_nth_eq. destruct W as (-> & _). exact Hk.
Qed.

(* ================================================================== *)
(* W5 cycle_forever_no_stop                                            *)
Theorem cycle_forever_no_stop ch c fuel s :
  w_crit c = CycleForever -> all_nonempty c -> ch_in_range ch c (w_epoch s) -> wfst c s ->
  fst (w_next ch c fuel s) <> WStop.
Proof.
  intros Hc Hne Hr W Hst. destruct (w_next ch c fuel s) as [o s'] eqn:E. simpl in Hst; subst o.
  apply w_next_spec in E; [|exact W]. destruct E as [(_ & _ & _ & _ & _ & Hout) _].
  simpl in Hout. destruct Hout as (_ & _ & [Hcs | (i & Hnil & _ & _)]).
  - unfold check_stop in Hcs. rewrite Hc in Hcs. discriminate.
  - apply (Hne _ (Hr i)). exact Hnil.
Qed.

Theorem cycle_forever_no_stop_run ch c fuel n : forall s outs s',
  w_crit c = CycleForever -> all_nonempty c -> ch_in_range ch c (w_epoch s) -> wfst c s ->
  w_run ch c fuel n s = (outs, s') -> ~ In WStop outs.
Proof.
  induction n as [|n IH]; intros s outs s' Hc Hne Hr W E Hin.
  - simpl in E. inversion E; subst. destruct Hin.
  - cbn [w_run] in E. destruct (w_next ch c fuel s) as [o s1] eqn:E1.
    destruct (w_run ch c fuel n s1) as [l1 s2] eqn:E2. inversion E; subst.
    destruct Hin as [->|Hin].
    + apply (cycle_forever_no_stop ch c fuel s Hc Hne Hr W). rewrite E1. reflexivity.
    + pose proof (w_next_epoch _ _ _ _ _ _ E1) as Hep.
      apply w_next_spec in E1; [|exact W]. destruct E1 as [(W1 & _) _].
      apply (IH s1 l1 s' Hc Hne); auto. rewrite Hep. exact Hr.
Qed.

Theorem cycle_forever_no_stop_fresh ch c fuel n so outs s' :
  w_crit c = CycleForever -> all_nonempty c -> ch_in_range ch c (w_epoch (w_reset_fresh c so)) ->
  w_run ch c fuel n (w_reset_fresh c so) = (outs, s') -> ~ In WStop outs.
Proof.
  intros Hc Hne Hr E. eapply cycle_forever_no_stop_run; eauto. apply (hist_inv_fresh c so).
Qed.

(* with positive fuel every call even returns an item (no WFuel either) *)
Theorem cycle_forever_always_item ch c fuel s :
  w_crit c = CycleForever -> all_nonempty c -> ch_in_range ch c (w_epoch s) ->
  exists k x, fst (w_next ch c (S fuel) s) = WItem k x.
Proof.
  intros Hc Hne Hr. unfold w_next. cbn [w_next_loop w_exh w_pos w_epoch w_off w_yielded].
  unfold check_stop. rewrite Hc. rewrite andb_false_r.
  set (key := ch (w_epoch s) (w_off s)).
  destruct (nth_error (src_items c key) (nth key (w_pos s) 0)) as [x|]; [exists key, x; reflexivity|].
  destruct (nth_error (src_items c key) 0) as [x|] eqn:E0; [exists key, x; reflexivity|].
  exfalso. apply (Hne key (Hr _)). destruct (src_items c key); [reflexivity|discriminate].
Qed.

(* D12: an EMPTY source under CycleForever makes next() raise StopIteration *)
Example cycle_forever_empty_refuted :
  let c := {| w_sources := [[1;2];[];[20;21;22]]; w_crit := CycleForever; w_batch := 4 |} in
  fst (w_run (fun _ i => i mod 3) c 20 3 (w_reset_fresh c None)) = [WItem 0 1; WStop; WItem 2 20].
Proof. vm_compute. reflexivity. Qed.

Example cycle_forever_out_of_range_refuted :
  let c := {| w_sources := [[1;2];[10]]; w_crit := CycleForever; w_batch := 4 |} in
  fst (w_run (tabch [0;5;1]) c 20 3 (w_reset_fresh c None)) = [WItem 0 1; WStop; WItem 1 10].
Proof. vm_compute. reflexivity. Qed.

(* ================================================================== *)
(* W6 resume_exact                                                     *)
Lemma off_roundtrip b o :
  (let '(bn, off) := if (0 <? o) && (o mod b =? 0) then (o / b - 1, b) else (o / b, o mod b) in
   bn * b + off) = o.
Proof.
  destruct ((0 <? o) && (o mod b =? 0)) eqn:E.
  - apply andb_true_iff in E. destruct E as [Hpos Hmod].
    apply Nat.ltb_lt in Hpos. apply Nat.eqb_eq in Hmod.
    pose proof (Nat.div_mod_eq o b) as Hd. rewrite Hmod in Hd.
    destruct (o / b) as [|q]; [lia|]. simpl. lia.
  - pose proof (Nat.div_mod_eq o b) as Hd. lia.
Qed.

Lemma reset_get_state c s :
  w_reset_state c (w_get_state c s) =
  {| w_pos := w_pos s; w_exh := w_exh s; w_off := w_off s; w_yielded := w_yielded s;
     w_epoch := w_epoch s; w_started := false |}.
Proof.
  pose proof (off_roundtrip (w_batch c) (w_off s)) as H.
  unfold w_reset_state, w_get_state.
  destruct ((0 <? w_off s) && (w_off s mod w_batch c =? 0)); cbn [sd_pos sd_exh sd_batch sd_offset sd_yielded sd_epoch];
    rewrite H; reflexivity.
Qed.

Theorem resume_exact ch c fuel s :
  w_next ch c fuel (w_reset_state c (w_get_state c s)) = w_next ch c fuel s.
Proof. rewrite reset_get_state. reflexivity. Qed.

Theorem resume_exact_run ch c fuel n s :
  w_run ch c fuel (S n) (w_reset_state c (w_get_state c s)) = w_run ch c fuel (S n) s.
Proof. cbn [w_run]. rewrite resume_exact. reflexivity. Qed.

Theorem resume_exact_outputs ch c fuel n s :
  fst (w_run ch c fuel n (w_reset_state c (w_get_state c s))) = fst (w_run ch c fuel n s).
Proof. destruct n; [reflexivity|]. rewrite resume_exact_run. reflexivity. Qed.

(* checkpoint taken after any number of calls, restored, then continued = uninterrupted run *)
Lemma w_run_app ch c fuel a : forall b s,
  w_run ch c fuel (a + b) s =
  (fst (w_run ch c fuel a s) ++ fst (w_run ch c fuel b (snd (w_run ch c fuel a s))),
   snd (w_run ch c fuel b (snd (w_run ch c fuel a s)))).
Proof.
  induction a as [|a IH]; intros b s.
  - simpl. destruct (w_run ch c fuel b s); reflexivity.
  - change (S a + b) with (S (a + b)). rewrite !w_run_cons, IH. cbn [fst snd]. reflexivity.
Qed.

Theorem resume_exact_mid_run ch c fuel a b s :
  let s1 := snd (w_run ch c fuel a s) in
  fst (w_run ch c fuel a s) ++ fst (w_run ch c fuel b (w_reset_state c (w_get_state c s1)))
  = fst (w_run ch c fuel (a + b) s).
Proof. intros s1. rewrite resume_exact_outputs, w_run_app. reflexivity. Qed.

(* ================================================================== *)
(* W7 choices_deterministic                                            *)
Lemma w_next_loop_ext ch ch' c fuel : forall s,
  (forall i, w_off s <= i < w_off s + fuel -> ch (w_epoch s) i = ch' (w_epoch s) i) ->
  w_next_loop ch c fuel s = w_next_loop ch' c fuel s.
Proof.
  induction fuel as [|fuel IH]; intros s H; [reflexivity|].
  cbn [w_next_loop]. rewrite <- (H (w_off s)) by lia.
  repeat match goal with
  | |- (if ?b then _ else _) = _ => destruct b
  | |- match ?x with _ => _ end = _ => destruct x
  end; try reflexivity; apply IH; cbn [w_off w_epoch]; intros i Hi; apply H; lia.
Qed.

Theorem choices_deterministic_window ch ch' c fuel s :
  (forall i, w_off s <= i < w_off s + fuel -> ch (w_epoch s) i = ch' (w_epoch s) i) ->
  w_next ch c fuel s = w_next ch' c fuel s.
Proof. intros H. unfold w_next. apply w_next_loop_ext. exact H. Qed.

Theorem choices_deterministic ch ch' c fuel s :
  (forall i, ch (w_epoch s) i = ch' (w_epoch s) i) ->
  w_next ch c fuel s = w_next ch' c fuel s.
Proof. intros H. apply choices_deterministic_window. intros i _. apply H. Qed.

Theorem choices_deterministic_run ch ch' c fuel n : forall s,
  (forall i, ch (w_epoch s) i = ch' (w_epoch s) i) ->
  w_run ch c fuel n s = w_run ch' c fuel n s.
Proof.
  induction n as [|n IH]; intros s H; [reflexivity|].
  cbn [w_run]. rewrite <- (choices_deterministic ch ch' c fuel s H).
  destruct (w_next ch c fuel s) as [o s1] eqn:E1.
  rewrite IH; [reflexivity|]. apply w_next_epoch in E1. rewrite E1. exact H.
Qed.

(* ================================================================== *)
(* W8 progress                                                         *)
(* outside AllExhausted the loop body never iterates: one unit of fuel suffices *)
Theorem no_fuel_needed_unless_all_exhausted ch c fuel s :
  w_crit c <> AllExhausted -> fst (w_next ch c (S fuel) s) <> WFuel.
Proof.
  intros Hc. unfold w_next. cbn [w_next_loop w_exh w_pos w_epoch w_off w_yielded].
  destruct (w_crit c) eqn:Ec; try congruence; rewrite ?andb_false_r;
  repeat match goal with
  | |- fst (if ?b then _ else _) <> _ => destruct b
  | |- fst (match ?x with _ => _ end) <> _ => destruct x
  end; cbn [fst]; discriminate.
Qed.

Fixpoint count_false (l : list bool) : nat :=
  match l with [] => 0 | b :: r => (if b then 0 else 1) + count_false r end.

(* every source index occurs in every window of B consecutive draws of epoch e *)
Definition fair (ch : nat -> nat -> nat) (e B n : nat) : Prop :=
  forall k, k < n -> forall i, exists j, i <= j < i + B /\ ch e j = k.

Lemma count_false_0 l : count_false l = 0 -> all_true l = true.
Proof. unfold all_true. induction l as [|[|] l IH]; simpl; intros H; auto; discriminate. Qed.

Lemma count_false_pos l : 0 < count_false l -> exists k, k < length l /\ nth k l false = false.
Proof.
  induction l as [|[|] l IH]; simpl; intros H; try lia.
  - destruct (IH H) as (k & Hk & Hn). exists (S k). split; [lia|exact Hn].
  - exists 0. split; [lia|reflexivity].
Qed.

Lemma count_false_set l : forall k, k < length l -> nth k l false = false ->
  count_false l = S (count_false (set_nth l k true)).
Proof.
  induction l as [|b l IH]; intros [|k] Hk Hn; simpl in *; try lia.
  - subst b. reflexivity.
  - rewrite (IH k) by (lia || exact Hn). destruct b; reflexivity.
Qed.

Lemma count_false_le l : count_false l <= length l.
Proof. induction l as [|[|] l IH]; simpl; lia. Qed.

Section Progress.
  Variables (ch : nat -> nat -> nat) (c : wcfg) (B e : nat).
  Hypothesis Hc : w_crit c = AllExhausted.

  Lemma ae_check_stop l : check_stop c l = all_true l.
  Proof. unfold check_stop. rewrite Hc. reflexivity. Qed.

  (* inner induction: an unflagged in-range source is drawn within the next d draws *)
  Lemma progress_inner m
    (IHm : forall fuel s, w_epoch s = e -> length (w_exh s) = nsrc c -> count_false (w_exh s) = m ->
                          fuel > B * m -> fst (w_next_loop ch c fuel s) <> WFuel) :
    forall d fuel s, w_epoch s = e -> length (w_exh s) = nsrc c -> count_false (w_exh s) = S m ->
      (exists j, w_off s <= j < w_off s + d /\ ch e j < nsrc c /\ exhk s (ch e j) = false) ->
      fuel > d + B * m -> fst (w_next_loop ch c fuel s) <> WFuel.
  Proof.
    induction d as [|d IHd]; intros fuel s He HL Hcnt (j & Hj & Hjr & Hjf) Hfuel; [lia|].
    destruct fuel as [|fuel]; [lia|].
    cbn [w_next_loop]. destruct (check_stop c (w_exh s)); [cbn; discriminate|].
    rewrite Hc, He. set (key := ch e (w_off s)).
    destruct (nth key (w_exh s) false) eqn:Ekey; cbn [andb].
    { (* flagged source drawn: skipped *)
      apply IHd; cbn [w_exh w_off w_epoch]; auto; [|lia].
      exists j. repeat split; auto; try lia.
      destruct (Nat.eq_dec j (w_off s)) as [->|]; [|lia].
      unfold exhk in Hjf. fold key in Hjf. congruence. }
    destruct (nth_error (src_items c key) (nth key (w_pos s) 0)); [cbn; discriminate|].
    cbn [w_exh w_pos w_off w_epoch w_yielded].
    destruct (check_stop c (set_nth (w_exh s) key true)); [cbn; discriminate|].
    destruct (Nat.lt_ge_cases key (nsrc c)) as [Hk|Hk].
    - (* an unflagged source hit its end: one flag fewer *)
      apply IHm; cbn [w_exh w_epoch]; auto.
      + rewrite set_nth_length; exact HL.
      + rewrite (count_false_set (w_exh s) key) in Hcnt by (lia || exact Ekey). lia.
      + lia.
    - (* out-of-range draw: nothing changes *)
      rewrite set_nth_oob by lia.
      apply IHd; cbn [w_exh w_off w_epoch]; auto; [|lia].
      exists j. repeat split; auto; try lia.
      destruct (Nat.eq_dec j (w_off s)) as [->|]; [|lia]. fold key in Hjr. lia.
  Qed.

  Hypothesis Hfair : fair ch e B (nsrc c).

  Lemma progress_loop : forall m fuel s,
    w_epoch s = e -> length (w_exh s) = nsrc c -> count_false (w_exh s) = m ->
    fuel > B * m -> fst (w_next_loop ch c fuel s) <> WFuel.
  Proof.
    induction m as [|m IHm]; intros fuel s He HL Hcnt Hfuel.
    - destruct fuel as [|fuel]; [lia|]. cbn [w_next_loop].
      rewrite ae_check_stop, (count_false_0 _ Hcnt). cbn; discriminate.
    - destruct (count_false_pos (w_exh s)) as (k & Hk & Hkf); [lia|].
      assert (Hk' : k < nsrc c) by lia.
      destruct (Hfair k Hk' (w_off s)) as (j & Hj & Hjk).
      apply (progress_inner m IHm B); auto; [|lia].
      exists j. rewrite Hjk. repeat split; auto; lia.
  Qed.
End Progress.

Theorem progress_all_exhausted ch c B fuel s :
  w_crit c = AllExhausted -> length (w_exh s) = nsrc c ->
  fair ch (w_epoch s) B (nsrc c) ->
  fuel > B * count_false (w_exh s) ->
  fst (w_next ch c fuel s) <> WFuel.
Proof.
  intros Hc HL Hfair Hfuel. unfold w_next.
  apply (progress_loop ch c B (w_epoch s) Hc Hfair (count_false (w_exh s))); auto.
Qed.

Corollary progress_all_exhausted_nsrc ch c B fuel s :
  w_crit c = AllExhausted -> wfst c s ->
  fair ch (w_epoch s) B (nsrc c) ->
  fuel > B * nsrc c ->
  fst (w_next ch c fuel s) <> WFuel.
Proof.
  intros Hc (_ & HL & _) Hfair Hfuel. apply (progress_all_exhausted ch c B); auto.
  pose proof (count_false_le (w_exh s)) as Hle. rewrite HL in Hle.
  assert (B * count_false (w_exh s) <= B * nsrc c) by (apply Nat.mul_le_mono_l; exact Hle). lia.
Qed.

Theorem progress_cycle_until_all ch c fuel s :
  w_crit c = CycleUntilAll -> fuel > 0 -> fst (w_next ch c fuel s) <> WFuel.
Proof.
  intros Hc Hf. destruct fuel; [lia|]. apply no_fuel_needed_unless_all_exhausted. congruence.
Qed.

(* the bound is tight-ish: with B = 5, two unflagged sources, fuel 4 < B runs out *)
Example progress_needs_fuel :
  let c := {| w_sources := [[1;2;3;4];[];[20]]; w_crit := AllExhausted; w_batch := 4 |} in
  nth 2 (fst (w_run (fun _ i => nth (i mod 5) [2;7;1;2;0] 0) c 4 3 (w_reset_fresh c None))) WStop = WFuel.
Proof. vm_compute. reflexivity. Qed.

Example cycle_until_all_out_of_range_refuted :
  let c := {| w_sources := [[1;2];[10]]; w_crit := CycleUntilAll; w_batch := 4 |} in
  let r := w_run (tabch [0;5;1]) c 20 2 (w_reset_fresh c None) in
  fst r = [WItem 0 1; WStop] /\ w_exh (snd r) = [false; false].
Proof. vm_compute. split; reflexivity. Qed.

(* ================================================================== *)
Print Assumptions w_next_loop_spec.
Print Assumptions w_next_spec.
Print Assumptions hist_inv_fresh.
Print Assumptions hist_inv_step.
Print Assumptions hist_inv_run.
Print Assumptions per_source_order_inv.
Print Assumptions per_source_order_no_restart_inv.
Print Assumptions per_source_order.
Print Assumptions per_source_order_no_restart.
Print Assumptions per_source_order_from_any_state.
Print Assumptions emitted_items_valid.
Print Assumptions stop_sticky.
Print Assumptions stop_forever.
Print Assumptions all_exhausted_complete_inv.
Print Assumptions all_exhausted_complete.
Print Assumptions all_exhausted_no_early_stop_inv.
Print Assumptions all_exhausted_no_early_stop.
Print Assumptions all_exhausted_stop_sticky.
Print Assumptions first_exhausted_exact_inv.
Print Assumptions first_exhausted_exact.
Print Assumptions first_exhausted_out_of_range_refuted.
Print Assumptions cycle_until_all_inv.
Print Assumptions cycle_until_all.
Print Assumptions cycle_until_all_out_of_range_refuted.
Print Assumptions exhausted_source_restarts_from_first.
Print Assumptions cycle_forever_no_stop.
Print Assumptions cycle_forever_no_stop_run.
Print Assumptions cycle_forever_no_stop_fresh.
Print Assumptions cycle_forever_always_item.
Print Assumptions cycle_forever_empty_refuted.
Print Assumptions cycle_forever_out_of_range_refuted.
Print Assumptions reset_get_state.
Print Assumptions resume_exact.
Print Assumptions resume_exact_run.
Print Assumptions resume_exact_outputs.
Print Assumptions resume_exact_mid_run.
Print Assumptions choices_deterministic_window.
Print Assumptions choices_deterministic.
Print Assumptions choices_deterministic_run.
Print Assumptions no_fuel_needed_unless_all_exhausted.
Print Assumptions progress_all_exhausted.
Print Assumptions progress_all_exhausted_nsrc.
Print Assumptions progress_cycle_until_all.
