From PD Require Import Base WeightedModel.

(* ------------------------------------------------------------------ *)
(* Generic list lemmas                                                  *)
Section ListLemmas.
  Context {A : Type}.

  Lemma set_nth_length (l : list A) i x : length (set_nth l i x) = length l.
  Proof. revert i; induction l as [|y l IH]; intros [|i]; simpl; auto. Qed.

  Lemma nth_set_nth_eq (l : list A) i x d : i < length l -> nth i (set_nth l i x) d = x.
  Proof. revert i; induction l as [|y l IH]; intros [|i] H; simpl in *; try lia; auto.
    apply IH; lia. Qed.

  Lemma nth_set_nth_neq (l : list A) i j x d : i <> j -> nth j (set_nth l i x) d = nth j l d.
  Proof. revert i j; induction l as [|y l IH]; intros [|i] [|j] H; simpl in *; try lia; auto. Qed.

  Lemma set_nth_same (l : list A) i d : set_nth l i (nth i l d) = l.
  Proof. revert i; induction l as [|y l IH]; intros [|i]; simpl; auto. f_equal; apply IH. Qed.

  Lemma set_nth_oob (l : list A) i x : length l <= i -> set_nth l i x = l.
  Proof. revert i; induction l as [|y l IH]; intros [|i] H; simpl in *; try lia; auto.
    f_equal; apply IH; lia. Qed.

  Lemma nth_map_const {B} (l : list B) (a : A) k : nth k (map (fun _ => a) l) a = a.
  Proof. revert k; induction l as [|y l IH]; intros [|k]; simpl; auto. Qed.

  Lemma firstn_S_nth (l : list A) p x :
    nth_error l p = Some x -> firstn (S p) l = firstn p l ++ [x].
  Proof. revert p; induction l as [|y l IH]; intros [|p] H; simpl in *; try discriminate.
    - inversion H; reflexivity.
    - f_equal. apply IH; exact H. Qed.

  Lemma nth_error_None_le (l : list A) p : nth_error l p = None -> length l <= p.
  Proof. apply nth_error_None. Qed.

  Lemma nth_error_Some_lt (l : list A) p x : nth_error l p = Some x -> p < length l.
  Proof. intros H. apply nth_error_Some. congruence. Qed.
End ListLemmas.

(* l repeated n times *)
Fixpoint cyc {A} (n : nat) (l : list A) : list A :=
  match n with 0 => [] | S n' => l ++ cyc n' l end.

Definition prefix {A} (a b : list A) : Prop := exists r, b = a ++ r.

Lemma cyc_snoc {A} n (l : list A) : cyc n l ++ l = l ++ cyc n l.
Proof. induction n as [|n IH]; simpl; [rewrite app_nil_r; reflexivity|].
  rewrite <- app_assoc, IH. reflexivity. Qed.

Lemma cyc_length {A} n (l : list A) : length (cyc n l) = n * length l.
Proof. induction n as [|n IH]; simpl; [reflexivity|]. rewrite app_length, IH. reflexivity. Qed.

Lemma all_true_nth l : all_true l = true <-> (forall k, k < length l -> nth k l false = true).
Proof.
  unfold all_true. induction l as [|b l IH]; simpl.
  - split; [intros _ k H; lia | reflexivity].
  - rewrite andb_true_iff, IH. split.
    + intros [Hb Hl] [|k] H; [exact Hb | apply Hl; lia].
    + intros H. split; [apply (H 0); lia | intros k Hk; apply (H (S k)); lia].
Qed.

Lemma any_true_nth l : any_true l = true <-> (exists k, k < length l /\ nth k l false = true).
Proof.
  unfold any_true. induction l as [|b l IH]; simpl.
  - split; [discriminate | intros [k [H _]]; lia].
  - rewrite orb_true_iff, IH. split.
    + intros [Hb | [k [Hk Hn]]]; [exists 0; split; [lia|exact Hb] | exists (S k); split; [lia|exact Hn]].
    + intros [[|k] [Hk Hn]]; [left; exact Hn | right; exists k; split; [lia|exact Hn]].
Qed.

Lemma nth_false_oob (l : list bool) k : nth k l false = true -> k < length l.
Proof. intros H. destruct (Nat.lt_ge_cases k (length l)) as [|Hge]; [assumption|].
  rewrite nth_overflow in H by exact Hge. discriminate. Qed.

(* ------------------------------------------------------------------ *)
(* Vocabulary                                                           *)
Definition nsrc (c : wcfg) : nat := length (w_sources c).
Definition posk (s : wst) (k : nat) : nat := nth k (w_pos s) 0.
Definition exhk (s : wst) (k : nat) : bool := nth k (w_exh s) false.

Definition wfst (c : wcfg) (s : wst) : Prop :=
  length (w_pos s) = nsrc c /\ length (w_exh s) = nsrc c /\
  forall k, k < nsrc c -> posk s k <= length (src_items c k).

Definition no_restart (c : wcfg) : Prop := w_crit c = AllExhausted \/ w_crit c = FirstExhausted.
Definition restart_ok (c : wcfg) : Prop := w_crit c = CycleUntilAll \/ w_crit c = CycleForever.
Definition all_nonempty (c : wcfg) : Prop := forall k, k < nsrc c -> src_items c k <> [].
Definition ch_in_range (ch : nat -> nat -> nat) (c : wcfg) (e : nat) : Prop := forall i, ch e i < nsrc c.

(* outputs of source k, in order *)
Fixpoint proj (k : nat) (outs : list wout) : list nat :=
  match outs with
  | [] => []
  | WItem j x :: r => if j =? k then x :: proj k r else proj k r
  | _ :: r => proj k r
  end.

Lemma proj_app k a b : proj k (a ++ b) = proj k a ++ proj k b.
Proof. induction a as [|[j x| |] a IH]; simpl; auto. destruct (j =? k); simpl; congruence. Qed.

Lemma src_items_oob c k : nsrc c <= k -> src_items c k = [].
Proof. intros H. unfold src_items. apply nth_overflow. exact H. Qed.

Lemma src_items_inrange c k : src_items c k <> [] -> k < nsrc c.
Proof. intros H. destruct (Nat.lt_ge_cases k (nsrc c)); [assumption|].
  exfalso; apply H, src_items_oob; assumption. Qed.

Lemma wfst_pos_le c s k : wfst c s -> posk s k <= length (src_items c k).
Proof. intros (Hp & _ & Hb). destruct (Nat.lt_ge_cases k (nsrc c)) as [H|H]; [apply Hb; exact H|].
  unfold posk. rewrite nth_overflow by lia. lia. Qed.

(* ------------------------------------------------------------------ *)
(* Specification of one call of next()                                  *)
Definition out_spec (ch : nat -> nat -> nat) (c : wcfg) (s : wst) (o : wout) (s' : wst) : Prop :=
  match o with
  | WItem k x =>
      k < nsrc c /\ check_stop c (w_exh s') = false /\ w_yielded s' = S (w_yielded s) /\
      ((nth_error (src_items c k) (posk s k) = Some x /\ w_pos s' = set_nth (w_pos s) k (S (posk s k)))
       \/ (posk s k = length (src_items c k) /\ nth_error (src_items c k) 0 = Some x /\
           w_pos s' = set_nth (w_pos s) k 1 /\ exhk s' k = true /\ restart_ok c))
  | WStop =>
      w_pos s' = w_pos s /\ w_yielded s' = w_yielded s /\
      (check_stop c (w_exh s') = true \/
       (exists i, src_items c (ch (w_epoch s) i) = [] /\ w_crit c <> AllExhausted /\
                  (w_crit c = FirstExhausted -> nsrc c <= ch (w_epoch s) i)))
  | WFuel => w_pos s' = w_pos s /\ w_yielded s' = w_yielded s
  end.

Definition step_spec ch c s o s' : Prop :=
  wfst c s' /\ w_epoch s' = w_epoch s /\ w_off s <= w_off s' /\
  (forall k, exhk s k = true -> exhk s' k = true) /\
  (forall k, exhk s' k = true -> exhk s k = true \/ (k < nsrc c /\ posk s k = length (src_items c k))) /\
  out_spec ch c s o s'.

Lemma w_next_loop_spec ch c fuel : forall s o s',
  wfst c s -> w_next_loop ch c fuel s = (o, s') -> step_spec ch c s o s'.
Proof.
  induction fuel as [|fuel IH]; intros s o s' Hwf E.
  - simpl in E. inversion E; subst. unfold step_spec, out_spec. repeat split; auto; apply Hwf.
  - cbn [w_next_loop] in E.
    destruct (check_stop c (w_exh s)) eqn:Ecs.
    { inversion E; subst. unfold step_spec, out_spec. repeat split; auto; apply Hwf. }
    set (key := ch (w_epoch s) (w_off s)) in *.
    destruct (nth key (w_exh s) false && match w_crit c with AllExhausted => true | _ => false end) eqn:Eskip.
    { apply IH in E; [|exact Hwf].
      destruct E as (W & He & Ho & Hm & Hn & Hout). cbn [w_epoch w_off w_pos w_exh] in *.
      unfold step_spec. repeat split; try apply W; auto; try lia;
      try (destruct o; exact Hout). }
    destruct Hwf as (HLp & HLe & Hb).
    assert (Hwf : wfst c s) by (repeat split; auto).
    destruct (nth_error (src_items c key) (nth key (w_pos s) 0)) as [x|] eqn:Enth.
    { (* ordinary item *)
      inversion E; subst o s'; clear E.
      assert (Hk : key < nsrc c).
      { apply src_items_inrange. intros H0. rewrite H0 in Enth. destruct (nth key (w_pos s) 0); discriminate. }
      unfold step_spec, out_spec, wfst, posk, exhk; cbn [w_epoch w_off w_pos w_exh w_yielded].
      repeat split; auto.
      - rewrite set_nth_length; exact HLp.
      - intros k Hk'. destruct (Nat.eq_dec key k) as [->|Hne].
        + rewrite nth_set_nth_eq by lia. apply nth_error_Some_lt in Enth. exact Enth.
        + rewrite nth_set_nth_neq by exact Hne. apply Hb; exact Hk'. }
    (* source raised StopIteration *)
    assert (Hlen : posk s key = length (src_items c key)).
    { apply nth_error_None_le in Enth. pose proof (wfst_pos_le c s key Hwf). unfold posk in *. lia. }
    assert (Hmono : forall k, exhk s k = true -> nth k (set_nth (w_exh s) key true) false = true).
    { intros k Hk. destruct (Nat.eq_dec key k) as [->|Hne].
      - apply nth_set_nth_eq. apply nth_false_oob; exact Hk.
      - rewrite nth_set_nth_neq by exact Hne. exact Hk. }
    assert (Hnew : forall k, nth k (set_nth (w_exh s) key true) false = true ->
                     exhk s k = true \/ (k < nsrc c /\ posk s k = length (src_items c k))).
    { intros k Hk. destruct (Nat.eq_dec key k) as [<-|Hne].
      - right. split; [|exact Hlen]. apply nth_false_oob in Hk. rewrite set_nth_length in Hk. lia.
      - rewrite nth_set_nth_neq in Hk by exact Hne. left; exact Hk. }
    assert (Hwf2 : forall off yl, wfst c {| w_pos := w_pos s; w_exh := set_nth (w_exh s) key true; w_off := off;
                           w_yielded := yl; w_epoch := w_epoch s; w_started := true |}).
    { intros. unfold wfst, posk; cbn [w_pos w_exh]. rewrite set_nth_length. repeat split; auto. }
    cbn [w_epoch w_off w_pos w_exh w_yielded] in E.
    destruct (check_stop c (set_nth (w_exh s) key true)) eqn:Ecs2.
    { inversion E; subst o s'; clear E.
      unfold step_spec, out_spec; cbn [w_epoch w_off w_pos w_exh w_yielded].
      split; [apply Hwf2|]. repeat split; auto. }
    destruct (w_crit c) eqn:Ecrit.
    + (* CycleUntilAll *)
      destruct (nth_error (src_items c key) 0) as [x|] eqn:E0.
      * inversion E; subst o s'; clear E.
        assert (Hk : key < nsrc c).
        { apply src_items_inrange. intros H0. rewrite H0 in E0. discriminate. }
        unfold step_spec, out_spec, wfst; unfold posk at 1; unfold exhk at 2 4; cbn [w_epoch w_off w_pos w_exh w_yielded].
        repeat split; auto.
        -- rewrite set_nth_length; exact HLp.
        -- rewrite set_nth_length; exact HLe.
        -- intros k Hk'. destruct (Nat.eq_dec key k) as [->|Hne].
           ++ rewrite nth_set_nth_eq by lia. apply nth_error_Some_lt in E0. lia.
           ++ rewrite nth_set_nth_neq by exact Hne. apply Hb; exact Hk'.
        -- right. repeat split; auto.
           ++ unfold exhk; cbn [w_exh]. apply nth_set_nth_eq. lia.
           ++ left; exact Ecrit.
      * inversion E; subst o s'; clear E.
        assert (Hnil : src_items c key = []) by (destruct (src_items c key); [reflexivity|discriminate]).
        assert (Hp0 : set_nth (w_pos s) key 0 = w_pos s).
        { rewrite Hnil in Hlen. simpl in Hlen. unfold posk in Hlen. rewrite <- Hlen at 1. apply set_nth_same. }
        unfold step_spec, out_spec; cbn [w_epoch w_off w_pos w_exh w_yielded]. rewrite Hp0.
        split; [apply Hwf2|]. repeat split; auto.
        right. exists (w_off s). fold key. rewrite Ecrit. repeat split; auto; discriminate.
    + (* AllExhausted: keep looping *)
      apply IH in E; [|apply Hwf2].
      destruct E as (W & He & Ho & Hm & Hn & Hout). cbn [w_epoch w_off w_pos w_exh] in *.
      unfold step_spec. repeat split; try apply W; auto; try lia.
      * intros k Hk. apply Hm. unfold exhk; cbn [w_exh]. apply Hmono; exact Hk.
      * intros k Hk. apply Hn in Hk. destruct Hk as [Hk|Hk]; [|right; exact Hk].
        unfold exhk in Hk; cbn [w_exh] in Hk. apply Hnew; exact Hk.
    + (* FirstExhausted *)
      destruct (nth_error (src_items c key) 0) as [x|] eqn:E0.
      * exfalso.
        assert (Hk : key < nsrc c).
        { apply src_items_inrange. intros H0. rewrite H0 in E0. discriminate. }
        unfold check_stop in Ecs2. rewrite Ecrit in Ecs2. apply orb_false_iff in Ecs2. destruct Ecs2 as [_ Hany].
        assert (any_true (set_nth (w_exh s) key true) = true); [|congruence].
        apply any_true_nth. exists key. rewrite set_nth_length. split; [lia|].
        apply nth_set_nth_eq. lia.
      * inversion E; subst o s'; clear E.
        assert (Hnil : src_items c key = []) by (destruct (src_items c key); [reflexivity|discriminate]).
        assert (Hp0 : set_nth (w_pos s) key 0 = w_pos s).
        { rewrite Hnil in Hlen. simpl in Hlen. unfold posk in Hlen. rewrite <- Hlen at 1. apply set_nth_same. }
        unfold step_spec, out_spec; cbn [w_epoch w_off w_pos w_exh w_yielded]. rewrite Hp0.
        split; [apply Hwf2|]. repeat split; auto.
        right. exists (w_off s). fold key. rewrite Ecrit. repeat split; auto; try discriminate.
        intros _. destruct (Nat.lt_ge_cases key (nsrc c)) as [Hk|Hk]; [exfalso|exact Hk].
        unfold check_stop in Ecs2. rewrite Ecrit in Ecs2. apply orb_false_iff in Ecs2. destruct Ecs2 as [_ Hany].
        assert (any_true (set_nth (w_exh s) key true) = true); [|congruence].
        apply any_true_nth. exists key. rewrite set_nth_length. split; [lia|].
        apply nth_set_nth_eq. lia.
    + (* CycleForever *)
      destruct (nth_error (src_items c key) 0) as [x|] eqn:E0.
      * inversion E; subst o s'; clear E.
        assert (Hk : key < nsrc c).
        { apply src_items_inrange. intros H0. rewrite H0 in E0. discriminate. }
        unfold step_spec, out_spec, wfst; unfold posk at 1; unfold exhk at 2 4; cbn [w_epoch w_off w_pos w_exh w_yielded].
        repeat split; auto.
        -- rewrite set_nth_length; exact HLp.
        -- rewrite set_nth_length; exact HLe.
        -- intros k Hk'. destruct (Nat.eq_dec key k) as [->|Hne].
           ++ rewrite nth_set_nth_eq by lia. apply nth_error_Some_lt in E0. lia.
           ++ rewrite nth_set_nth_neq by exact Hne. apply Hb; exact Hk'.
        -- right. repeat split; auto.
           ++ unfold exhk; cbn [w_exh]. apply nth_set_nth_eq. lia.
           ++ right; exact Ecrit.
      * inversion E; subst o s'; clear E.
        assert (Hnil : src_items c key = []) by (destruct (src_items c key); [reflexivity|discriminate]).
        assert (Hp0 : set_nth (w_pos s) key 0 = w_pos s).
        { rewrite Hnil in Hlen. simpl in Hlen. unfold posk in Hlen. rewrite <- Hlen at 1. apply set_nth_same. }
        unfold step_spec, out_spec; cbn [w_epoch w_off w_pos w_exh w_yielded]. rewrite Hp0.
        split; [apply Hwf2|]. repeat split; auto.
        right. exists (w_off s). fold key. rewrite Ecrit. repeat split; auto; discriminate.
Qed.

Lemma w_next_loop_started ch c fuel : forall s o s',
  w_started s = true -> w_next_loop ch c fuel s = (o, s') -> w_started s' = true.
Proof.
  induction fuel as [|fuel IH]; intros s o s' Hs E.
  - simpl in E. inversion E; subst; exact Hs.
  - cbn [w_next_loop] in E.
    repeat match type of E with
    | (if ?b then _ else _) = _ => destruct b
    | match ?x with _ => _ end = _ => destruct x
    | (_, _) = (_, _) => inversion E; subst; reflexivity || exact Hs
    | w_next_loop _ _ _ _ = _ => apply IH in E; [exact E | reflexivity]
    end.
Qed.

Definition started_view (s : wst) : wst :=
  {| w_pos := w_pos s; w_exh := w_exh s; w_off := w_off s; w_yielded := w_yielded s;
     w_epoch := w_epoch s; w_started := true |}.

Lemma w_next_spec ch c fuel s o s' :
  wfst c s -> w_next ch c fuel s = (o, s') -> step_spec ch c s o s' /\ w_started s' = true.
Proof.
  intros Hwf E. unfold w_next in E. split.
  - apply w_next_loop_spec in E; [exact E | exact Hwf].
  - apply w_next_loop_started in E; [exact E | reflexivity].
Qed.

(* ------------------------------------------------------------------ *)
(* History invariant                                                    *)
Definition hist_inv (c : wcfg) (outs : list wout) (s : wst) : Prop :=
  wfst c s /\
  forall k, exists n,
    proj k outs = cyc n (src_items c k) ++ firstn (posk s k) (src_items c k) /\
    (no_restart c -> n = 0) /\
    (exhk s k = true -> 1 <= n \/ posk s k = length (src_items c k)).

Lemma hist_inv_fresh c so : hist_inv c [] (w_reset_fresh c so).
Proof.
  unfold hist_inv, wfst, posk, exhk, w_reset_fresh, nsrc; cbn [w_pos w_exh].
  rewrite !map_length. split; [repeat split; auto|].
  - intros k _. rewrite nth_map_const. lia.
  - intros k. exists 0. rewrite !nth_map_const. repeat split; auto. discriminate.
Qed.

Lemma hist_inv_step ch c fuel outs s o s' :
  hist_inv c outs s -> w_next ch c fuel s = (o, s') -> hist_inv c (outs ++ [o]) s'.
Proof.
  intros [Hwf H] E. apply w_next_spec in E; [|exact Hwf].
  destruct E as [(W & He & Ho & Hm & Hn & Hout) _].
  split; [exact W|]. intros k. destruct (H k) as (n & Hp & Hnr & Hf).
  rewrite proj_app.
  assert (Hsame : posk s' k = posk s k -> proj k [o] = [] ->
     exists n0, proj k outs ++ proj k [o] = cyc n0 (src_items c k) ++ firstn (posk s' k) (src_items c k) /\
       (no_restart c -> n0 = 0) /\ (exhk s' k = true -> 1 <= n0 \/ posk s' k = length (src_items c k))).
  { intros Hpk Hpr. exists n. rewrite Hpk, Hpr, app_nil_r. repeat split; auto.
    intros Hk. apply Hn in Hk. destruct Hk as [Hk|[_ Hk]]; auto. }
  destruct o as [j x| |]; simpl in Hout.
  - destruct Hout as (Hj & _ & _ & Hcase).
    destruct (Nat.eq_dec j k) as [->|Hne].
    + simpl. rewrite Nat.eqb_refl.
      destruct Hcase as [[Hx Hp']|(Hlen & Hx & Hp' & He' & Hr)].
      * assert (Hpk : posk s' k = S (posk s k)).
        { unfold posk at 1. rewrite Hp'. destruct Hwf as (HLp & _). apply nth_set_nth_eq; lia. }
        exists n. rewrite Hpk.
        rewrite (firstn_S_nth _ _ _ Hx), Hp, <- app_assoc. repeat split; auto.
        intros Hk. apply Hn in Hk. apply nth_error_Some_lt in Hx.
        destruct Hk as [Hk|[_ Hk]]; [|lia]. apply Hf in Hk. destruct Hk; [left; assumption|lia].
      * assert (Hpk : posk s' k = 1).
        { unfold posk at 1. rewrite Hp'. destruct Hwf as (HLp & _). apply nth_set_nth_eq; lia. }
        exists (S n). rewrite Hpk.
        rewrite Hp, Hlen, firstn_all. repeat split.
        -- destruct (src_items c k) as [|y l] eqn:Ei; [discriminate|]. simpl in Hx. inversion Hx; subst y.
           rewrite cyc_snoc. reflexivity.
        -- intros [Hc|Hc]; destruct Hr as [Hr|Hr]; congruence.
        -- intros _. left; lia.
    + apply Hsame.
      * assert (Hp' : w_pos s' = set_nth (w_pos s) j (S (posk s j)) \/ w_pos s' = set_nth (w_pos s) j 1).
        { destruct Hcase as [[_ Hp']|(_ & _ & Hp' & _)]; auto. }
        unfold posk. destruct Hp' as [-> | ->]; apply nth_set_nth_neq; exact Hne.
      * simpl. apply Nat.eqb_neq in Hne. rewrite Hne. reflexivity.
  - destruct Hout as (Hp' & _). apply Hsame; [unfold posk; rewrite Hp'; reflexivity | reflexivity].
  - destruct Hout as (Hp' & _). apply Hsame; [unfold posk; rewrite Hp'; reflexivity | reflexivity].
Qed.

Lemma hist_inv_run ch c fuel n : forall outs s l s',
  hist_inv c outs s -> w_run ch c fuel n s = (l, s') -> hist_inv c (outs ++ l) s'.
Proof.
  induction n as [|n IH]; intros outs s l s' H E.
  - simpl in E. inversion E; subst. rewrite app_nil_r. exact H.
  - cbn [w_run] in E. destruct (w_next ch c fuel s) as [o s1] eqn:E1.
    destruct (w_run ch c fuel n s1) as [l1 s2] eqn:E2. inversion E; subst.
    replace (outs ++ o :: l1) with ((outs ++ [o]) ++ l1) by (rewrite <- app_assoc; reflexivity).
    eapply IH; [|exact E2]. eapply hist_inv_step; eassumption.
Qed.

Lemma hist_inv_wf c outs s : hist_inv c outs s -> wfst c s.
Proof. intros [H _]; exact H. Qed.

(* ------------------------------------------------------------------ *)
(* run-level bookkeeping *)
Lemma w_next_loop_epoch ch c fuel : forall s o s',
  w_next_loop ch c fuel s = (o, s') -> w_epoch s' = w_epoch s.
Proof.
  induction fuel as [|fuel IH]; intros s o s' E.
  - simpl in E. inversion E; subst; reflexivity.
  - cbn [w_next_loop] in E.
    repeat match type of E with
    | (if ?b then _ else _) = _ => destruct b
    | match ?x with _ => _ end = _ => destruct x
    | (_, _) = (_, _) => inversion E; subst; reflexivity
    | w_next_loop _ _ _ _ = _ => apply IH in E; exact E
    end.
Qed.

Lemma w_next_epoch ch c fuel s o s' : w_next ch c fuel s = (o, s') -> w_epoch s' = w_epoch s.
Proof. unfold w_next. intros E. apply w_next_loop_epoch in E. exact E. Qed.

Lemma w_run_cons ch c fuel n s :
  w_run ch c fuel (S n) s =
  (fst (w_next ch c fuel s) :: fst (w_run ch c fuel n (snd (w_next ch c fuel s))),
   snd (w_run ch c fuel n (snd (w_next ch c fuel s)))).
Proof. cbn [w_run]. destruct (w_next ch c fuel s) as [o s1]. cbn [fst snd].
  destruct (w_run ch c fuel n s1); reflexivity. Qed.

Lemma w_run_epoch ch c fuel n : forall s l s', w_run ch c fuel n s = (l, s') -> w_epoch s' = w_epoch s.
Proof.
  induction n as [|n IH]; intros s l s' E.
  - simpl in E. inversion E; reflexivity.
  - cbn [w_run] in E. destruct (w_next ch c fuel s) as [o s1] eqn:E1.
    destruct (w_run ch c fuel n s1) as [l1 s2] eqn:E2. inversion E; subst.
    apply IH in E2. apply w_next_epoch in E1. congruence.
Qed.

Lemma w_run_wf ch c fuel n : forall s l s', wfst c s -> w_run ch c fuel n s = (l, s') -> wfst c s'.
Proof.
  induction n as [|n IH]; intros s l s' W E.
  - simpl in E. inversion E; subst; exact W.
  - cbn [w_run] in E. destruct (w_next ch c fuel s) as [o s1] eqn:E1.
    destruct (w_run ch c fuel n s1) as [l1 s2] eqn:E2. inversion E; subst.
    eapply IH; [|exact E2]. apply w_next_spec in E1; [|exact W]. apply E1.
Qed.

Lemma hist_inv_from_fresh ch c fuel n so outs s :
  w_run ch c fuel n (w_reset_fresh c so) = (outs, s) -> hist_inv c outs s.
Proof. intros E. apply (hist_inv_run ch c fuel n [] _ outs s (hist_inv_fresh c so) E). Qed.

(* ================================================================== *)
(* W1 per_source_order                                                 *)
Theorem per_source_order_inv c outs s k :
  hist_inv c outs s -> exists m, prefix (proj k outs) (cyc m (src_items c k)).
Proof.
  intros [_ H]. destruct (H k) as (n & Hp & _). exists (S n), (skipn (posk s k) (src_items c k)).
  rewrite Hp, <- app_assoc, firstn_skipn. cbn [cyc]. symmetry; apply cyc_snoc.
Qed.

Theorem per_source_order_no_restart_inv c outs s k :
  no_restart c -> hist_inv c outs s -> prefix (proj k outs) (src_items c k).
Proof.
  intros Hnr [_ H]. destruct (H k) as (n & Hp & Hn & _). rewrite (Hn Hnr) in Hp. simpl in Hp.
  exists (skipn (posk s k) (src_items c k)). rewrite Hp, firstn_skipn. reflexivity.
Qed.

Theorem per_source_order ch c fuel n so outs s k :
  w_run ch c fuel n (w_reset_fresh c so) = (outs, s) ->
  exists m, prefix (proj k outs) (cyc m (src_items c k)).
Proof. intros E. eapply per_source_order_inv, hist_inv_from_fresh, E. Qed.

Theorem per_source_order_no_restart ch c fuel n so outs s k :
  w_crit c = AllExhausted \/ w_crit c = FirstExhausted ->
  w_run ch c fuel n (w_reset_fresh c so) = (outs, s) ->
  prefix (proj k outs) (src_items c k).
Proof. intros Hc E. eapply per_source_order_no_restart_inv; [exact Hc|]. eapply hist_inv_from_fresh, E. Qed.

Lemma cyc_add {A} a b (l : list A) : cyc (a + b) l = cyc a l ++ cyc b l.
Proof. induction a as [|a IH]; simpl; [reflexivity|]. rewrite IH, app_assoc. reflexivity. Qed.

(* state-to-state form, valid from ANY well-formed state (no history needed) *)
Lemma per_source_order_step ch c fuel s o s' k :
  wfst c s -> w_next ch c fuel s = (o, s') ->
  exists m, skipn (posk s k) (src_items c k) ++ cyc m (src_items c k)
            = proj k [o] ++ skipn (posk s' k) (src_items c k) /\
            (no_restart c -> m = 0).
Proof.
  intros Hwf E. apply w_next_spec in E; [|exact Hwf].
  destruct E as [(W & He & Ho & Hm & Hn & Hout) _].
  assert (Hsame : posk s' k = posk s k -> proj k [o] = [] ->
    exists m, skipn (posk s k) (src_items c k) ++ cyc m (src_items c k)
            = proj k [o] ++ skipn (posk s' k) (src_items c k) /\ (no_restart c -> m = 0)).
  { intros -> ->. exists 0. simpl. rewrite app_nil_r. auto. }
  destruct o as [j x| |]; simpl in Hout.
  - destruct Hout as (Hj & _ & _ & Hcase).
    destruct (Nat.eq_dec j k) as [->|Hne].
    + simpl. rewrite Nat.eqb_refl.
      destruct Hcase as [[Hx Hp']|(Hlen & Hx & Hp' & He' & Hr)].
      * assert (Hpk : posk s' k = S (posk s k)).
        { unfold posk at 1. rewrite Hp'. destruct Hwf as (HLp & _). apply nth_set_nth_eq; lia. }
        exists 0. rewrite Hpk. simpl. rewrite app_nil_r. split; [|auto].
        apply skipn_S_nth; exact Hx.
      * assert (Hpk : posk s' k = 1).
        { unfold posk at 1. rewrite Hp'. destruct Hwf as (HLp & _). apply nth_set_nth_eq; lia. }
        exists 1. rewrite Hpk, Hlen, skipn_all. split.
        -- destruct (src_items c k) as [|y l]; [discriminate|]. simpl in Hx. inversion Hx; subst y.
           simpl. rewrite app_nil_r. reflexivity.
        -- intros [Hc|Hc]; destruct Hr as [Hr|Hr]; congruence.
    + apply Hsame.
      * assert (Hp' : w_pos s' = set_nth (w_pos s) j (S (posk s j)) \/ w_pos s' = set_nth (w_pos s) j 1).
        { destruct Hcase as [[_ Hp']|(_ & _ & Hp' & _)]; auto. }
        unfold posk. destruct Hp' as [-> | ->]; apply nth_set_nth_neq; exact Hne.
      * simpl. apply Nat.eqb_neq in Hne. rewrite Hne. reflexivity.
  - destruct Hout as (Hp' & _). apply Hsame; [unfold posk; rewrite Hp'; reflexivity | reflexivity].
  - destruct Hout as (Hp' & _). apply Hsame; [unfold posk; rewrite Hp'; reflexivity | reflexivity].
Qed.

Theorem per_source_order_from_any_state ch c fuel n k : forall s outs s',
  wfst c s -> w_run ch c fuel n s = (outs, s') ->
  exists m, skipn (posk s k) (src_items c k) ++ cyc m (src_items c k)
            = proj k outs ++ skipn (posk s' k) (src_items c k) /\
            (no_restart c -> m = 0).
Proof.
  induction n as [|n IH]; intros s outs s' W E.
  - simpl in E. inversion E; subst. exists 0. simpl. rewrite app_nil_r. auto.
  - cbn [w_run] in E. destruct (w_next ch c fuel s) as [o s1] eqn:E1.
    destruct (w_run ch c fuel n s1) as [l1 s2] eqn:E2. inversion E; subst.
    destruct (per_source_order_step _ _ _ _ _ _ k W E1) as (m1 & H1 & N1).
    assert (W1 : wfst c s1) by (apply w_next_spec in E1; [apply E1|exact W]).
    destruct (IH _ _ _ W1 E2) as (m2 & H2 & N2).
    exists (m1 + m2). split; [|intros Hc; rewrite N1, N2; auto].
    change (o :: l1) with ([o] ++ l1). rewrite proj_app, cyc_add, app_assoc, H1, <- !app_assoc, H2.
    reflexivity.
Qed.

Theorem emitted_items_valid ch c fuel n : forall s outs s' k x,
  wfst c s -> w_run ch c fuel n s = (outs, s') -> In (WItem k x) outs ->
  k < nsrc c /\ In x (src_items c k).
Proof.
  induction n as [|n IH]; intros s outs s' k x W E Hin.
  - simpl in E. inversion E; subst. destruct Hin.
  - cbn [w_run] in E. destruct (w_next ch c fuel s) as [o s1] eqn:E1.
    destruct (w_run ch c fuel n s1) as [l1 s2] eqn:E2. inversion E; subst.
    apply w_next_spec in E1; [|exact W]. destruct E1 as [(W1 & _ & _ & _ & _ & Hout) _].
    destruct Hin as [->|Hin]; [|eapply IH; eassumption].
    unfold out_spec in Hout. destruct Hout as (Hk & _ & _ & Hcase). split; [exact Hk|].
    destruct Hcase as [[Hx _]|(_ & Hx & _)]; eapply nth_error_In; exact Hx.
Qed.
