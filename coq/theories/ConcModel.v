(* ConcModel.v — interleaving-level model of the background-thread protocol of torchdata.nodes:
     torchdata/nodes/_populate_queue.py : _populate_queue            (reader)
     torchdata/nodes/_apply_udf.py      : _apply_udf                 (workers)
     torchdata/nodes/map.py             : _sort_worker, _ParallelMapperIter.{__init__,__next__,_shutdown},
                                          _SingleThreadedMapper.{__init__,__next__,_shutdown},
                                          _ParallelMapperImpl.reset
     torchdata/nodes/prefetch.py        : Prefetcher.reset
     torchdata/nodes/snapshot_store.py  : QueueSnapshotStore.{append,pop_version,get_initial_snapshot}
   One model step = one primitive operation (queue put/get/empty, semaphore acquire/release, event set/is_set,
   sleep, join, entering the source) together with the straight-line code up to the thread's next primitive.
   A schedule is a list of (thread, Go | Timeout); `step` is total (a disabled choice stutters).
   Iterators are GENERATIONS: reset() shuts the old iterator down (join with timeout!) and builds a new one over
   the same source; threads of old generations stay schedulable until they exit.
   No proofs here. *)
From Coq Require Import List Arith Bool Lia.
From RecordUpdate Require Import RecordUpdate.
Import ListNotations.
Open Scope nat_scope.

Inductive payload := PItem (x : nat) | PStop | PErr (e : nat).
(* e: 0 = next(source) raised, 1 = map_fn raised, 2 = duplicate index seen by the sorter *)

Record cfg := {
  k_pm : bool;             (* false: Prefetcher (_SingleThreadedMapper); true: ParallelMapper(method="thread") *)
  k_nw : nat;              (* num_workers (pm) *)
  k_inorder : bool;        (* pm *)
  k_mc : option nat;       (* pf: Some prefetch_factor; pm: max_concurrent *)
  k_sf : nat;              (* snapshot_frequency *)
  k_xs : list nat;         (* the source's items; its state is the position *)
  k_err : option nat;      (* next(source) raises at this position *)
  k_f : nat -> option nat  (* map_fn; None = raises *)
}.
Definition kmax (c : cfg) : nat := match k_mc c with Some m => m | None => 2 * k_nw c end.

Inductive rpc := RStart | RInitPut (p : nat) | RChk | RAcq | RPull | RStore (x i sp : nat) | RPut (p : payload) (i : nat) (last : bool) | RDone.
Inductive wpc := WStart | WChk | WEmpty | WGet | WPut (p : payload) (i : nat) | WDone.
Inductive spc := SStart | SChk | SGet | SPut (p : payload) (i : nat) | SPutDup (i : nat) | SDone.
Inductive cpc :=
| CIdle | CSleep | CInit
| CChk | CChk2 | CStopA | CStopB | CGet
| CRel (x i : nat) | CRelStop | CRelErr (e i : nat) | CSetStop (e : option nat)
| CShSet | CShSet2 | CShJoin (k : nat).

Inductive out := OutItem (x : nat) | OutStop | OutErr (e : nat) | OutInit | OutShut.

Record gen := {
  g_sem : nat;
  g_q1 : list (payload * nat);      (* pf: _q   pm: _in_q *)
  g_q2 : list (payload * nat);      (* pm: _intermed_q *)
  g_q3 : list (payload * nat);      (* pm, in_order: _sort_q *)
  g_store : list (nat * nat);       (* (version + 1, source position); the initial snapshot has version -1 *)
  g_stop : bool; g_mpstop : bool;
  g_r : rpc; g_ryield : nat; g_ridx : nat;
  g_ws : list wpc;
  g_s : spc; g_sbuf : list (nat * payload); g_scur : nat;
  g_c : cpc; g_done : bool; g_snap : nat; g_steps : nat; g_ff : nat;
  g_cyc : bool;                     (* CPython: `raise item` of the queued StopIteration instance, and ExceptionWrapper.reraise(), tie the
                                       iterator into a reference cycle (exception -> traceback -> frame -> the exception), so dropping
                                       the iterator no longer runs __del__ at that point *)
  g_base : nat;                     (* ghost: source position this generation was reset to *)
  g_recv : nat;                     (* ghost: items the consumer received in this generation (fast-forward included) *)
  g_taken : nat;                    (* ghost: entries the consumer has taken out of its output queue *)
  g_term : bool;                    (* ghost: one of them was the end of the stream (StopIteration / a source error) *)
  g_items : list nat                (* ghost: the items handed to the consumer by this generation, in order (fast-forward included) *)
}.
#[export] Instance eta_gen : Settable _ := settable! Build_gen
  <g_sem; g_q1; g_q2; g_q3; g_store; g_stop; g_mpstop; g_r; g_ryield; g_ridx; g_ws; g_s; g_sbuf; g_scur;
   g_c; g_done; g_snap; g_steps; g_ff; g_cyc; g_base; g_recv; g_taken; g_term; g_items>.

Inductive mode := Go | Timeout.
Inductive role := GR | GW (i : nat) | GS.
Inductive tid := TC | TG (g : nat) (r : role).

(* ---------------------------------------------------------------------------------------------------------- *)
(* snapshot store *)
Fixpoint pop_version (v : nat) (l : list (nat * nat)) : option nat * list (nat * nat) :=
  match l with
  | [] => (None, [])
  | (ver, val) :: tl =>
      if ver <=? v then
        let '(res, rest) := pop_version v tl in
        (match res with Some _ => res | None => if ver =? v then Some val else None end, rest)
      else (None, l)
  end.

(* ---------------------------------------------------------------------------------------------------------- *)
(* reader: _populate_queue.  Takes and returns the shared source position. *)
Definition rstep (c : cfg) (m : mode) (g : gen) (pos : nat) : gen * nat :=
  match g_r g with
  | RStart => (g <| g_r := RInitPut pos |>, pos)                       (* source.state_dict() *)
  | RInitPut p => (g <| g_store ::= fun s => s ++ [(0, p)] |> <| g_r := RChk |>, pos)
  | RChk => (g <| g_r := if g_stop g then RDone else RAcq |>, pos)
  | RAcq => match m with
            | Go => match g_sem g with
                    | S n => (g <| g_sem := n |> <| g_r := RPull |>, pos)
                    | O => (g, pos)
                    end
            | Timeout => (g <| g_r := RChk |>, pos)
            end
  | RPull =>
      let i := g_ridx g in
      if match k_err c with Some e => e =? pos | None => false end then
        (g <| g_ridx := S i |> <| g_r := RPut (PErr 0) i true |>, S pos)
      else match nth_error (k_xs c) pos with
           | None => (g <| g_ridx := S i |> <| g_r := RPut PStop i true |>, pos)
           | Some x =>
               let y := S (g_ryield g) in
               (g <| g_ryield := y |> <| g_ridx := S i |>
                  <| g_r := if (0 <? k_sf c) && (y mod (k_sf c) =? 0) then RStore x i (S pos) else RPut (PItem x) i false |>,
                S pos)
           end
  | RStore x i sp => (g <| g_store ::= fun s => s ++ [(S i, sp)] |> <| g_r := RPut (PItem x) i false |>, pos)
  | RPut p i last => (g <| g_q1 ::= fun q => q ++ [(p, i)] |> <| g_r := if last then RDone else RChk |>, pos)
  | RDone => (g, pos)
  end.

(* worker i: _apply_udf *)
Definition set_nth {A} (i : nat) (x : A) (l : list A) : list A :=
  firstn i l ++ match skipn i l with [] => [] | _ :: t => x :: t end.

Definition wstep (c : cfg) (i : nat) (m : mode) (g : gen) : gen :=
  let setw (p : wpc) (g : gen) := g <| g_ws ::= set_nth i p |> in
  match nth_error (g_ws g) i with
  | None => g
  | Some WStart => setw WChk g
  | Some WChk => setw (if g_stop g then WEmpty else WGet) g
  | Some WEmpty => setw (match g_q1 g with [] => WDone | _ => WGet end) g
  | Some WGet => match m with
                 | Go => match g_q1 g with
                         | [] => g
                         | (p, idx) :: tl =>
                             let p' := match p with
                                       | PItem x => match k_f c x with Some y => PItem y | None => PErr 1 end
                                       | _ => p
                                       end in
                             setw (WPut p' idx) (g <| g_q1 := tl |>)
                         end
                 | Timeout => setw WChk g
                 end
  | Some (WPut p idx) => setw WChk (g <| g_q2 ::= fun q => q ++ [(p, idx)] |>)
  | Some WDone => g
  end.

(* sorter: _sort_worker *)
Fixpoint buf_find (i : nat) (b : list (nat * payload)) : option payload :=
  match b with [] => None | (j, p) :: t => if j =? i then Some p else buf_find i t end.
Fixpoint buf_remove (i : nat) (b : list (nat * payload)) : list (nat * payload) :=
  match b with [] => [] | (j, p) :: t => if j =? i then t else (j, p) :: buf_remove i t end.

(* after cur_idx moved: `while cur_idx in buffer: out_q.put(...)` — the next put is the next yield point *)
Definition s_after (g : gen) : gen :=
  match buf_find (g_scur g) (g_sbuf g) with
  | Some p => g <| g_sbuf ::= buf_remove (g_scur g) |> <| g_s := SPut p (g_scur g) |>
  | None => g <| g_s := SChk |>
  end.

Definition sstep (c : cfg) (m : mode) (g : gen) : gen :=
  match g_s g with
  | SStart => g <| g_s := SChk |>
  | SChk => g <| g_s := if g_stop g then SDone else SGet |>
  | SGet => match m with
            | Go => match g_q2 g with
                    | [] => g
                    | (p, i) :: tl =>
                        let g := g <| g_q2 := tl |> in
                        if i =? g_scur g then g <| g_s := SPut p i |>
                        else match buf_find i (g_sbuf g) with
                             | Some _ => g <| g_s := SPutDup i |>
                             | None => s_after (g <| g_sbuf ::= fun b => b ++ [(i, p)] |>)
                             end
                    end
            | Timeout => g <| g_s := SChk |>
            end
  | SPut p i => s_after (g <| g_q3 ::= fun q => q ++ [(p, i)] |> <| g_scur := S (g_scur g) |>)
  | SPutDup i => g <| g_q3 ::= fun q => q ++ [(PErr 2, i)] |> <| g_s := SDone |>
  | SDone => g
  end.

(* ---------------------------------------------------------------------------------------------------------- *)
(* liveness of the background threads of a generation, as read by is_alive() *)
Definition r_alive (g : gen) : bool := match g_r g with RDone => false | _ => true end.
Definition s_alive (g : gen) : bool := match g_s g with SDone => false | _ => true end.
Definition w_alive (g : gen) (i : nat) : bool := match nth_error (g_ws g) i with Some WDone | None => false | _ => true end.

(* _shutdown: join stage k = 0: reader, 1: sorter (pm, in_order), 2+i: worker i.  First stage >= k whose thread is alive. *)
Definition stage_alive (c : cfg) (g : gen) (k : nat) : bool :=
  match k with
  | 0 => r_alive g
  | 1 => k_pm c && k_inorder c && s_alive g
  | S (S i) => k_pm c && w_alive g i
  end.
Fixpoint next_join (c : cfg) (g : gen) (k fuel : nat) : option nat :=
  match fuel with
  | 0 => None
  | S fuel' => if stage_alive c g k then Some k else next_join c g (S k) fuel'
  end.
Definition after_join (c : cfg) (g : gen) (k : nat) : gen * option out :=
  match next_join c g k (2 + k_nw c - k) with
  | Some k' => (g <| g_c := CShJoin k' |>, None)
  | None => (g <| g_c := CIdle |>, Some OutShut)
  end.

Definition outq (c : cfg) (g : gen) : list (payload * nat) :=
  if k_pm c then (if k_inorder c then g_q3 g else g_q2 g) else g_q1 g.
Definition set_outq (c : cfg) (q : list (payload * nat)) (g : gen) : gen :=
  if k_pm c then (if k_inorder c then g <| g_q3 := q |> else g <| g_q2 := q |>) else g <| g_q1 := q |>.

(* consumer, inside an operation on generation g: constructor handshake, __next__, _shutdown *)
Definition cstep (c : cfg) (m : mode) (g : gen) : gen * option out :=
  match g_c g with
  | CIdle => (g, None)
  | CSleep => (g <| g_c := CInit |>, None)
  | CInit => match m with
             | Go => match g_store g with
                     | [] => (g, None)
                     | (_, sp) :: tl => (g <| g_store := tl |> <| g_snap := sp |> <| g_c := CIdle |>, Some OutInit)
                     end
             | Timeout => (g, None)
             end
  | CChk =>
      if g_stop g then (g <| g_c := CIdle |>, Some OutStop)
      else if k_pm c then (g <| g_c := CChk2 |>, None) else (g <| g_c := CGet |>, None)
  | CChk2 =>
      if g_mpstop g then (g <| g_c := CIdle |>, Some OutStop)
      else if (g_done g || negb (r_alive g)) && (g_sem g =? kmax c) then (g <| g_c := CStopA |>, None)
      else (g <| g_c := CGet |>, None)
  | CStopA => (g <| g_stop := true |> <| g_c := CStopB |>, None)
  | CStopB => (g <| g_mpstop := true |> <| g_c := CIdle |>, Some OutStop)
  | CGet => match m with
            | Go => match outq c g with
                    | [] => (g, None)
                    | (p, i) :: tl =>
                        let g := set_outq c tl g <| g_taken ::= S |> in
                        match p with
                        | PItem x => (g <| g_c := CRel x i |>, None)
                        | PStop => (g <| g_done := (if k_pm c then true else g_done g) |> <| g_term := true |> <| g_c := CRelStop |>, None)
                        | PErr e => (g <| g_term := (match e with 1 => g_term g | _ => true end) |> <| g_c := CRelErr e i |>, None)
                        end
                    end
            | Timeout => (g <| g_c := CChk |>, None)
            end
  | CRel x i =>
      let '(res, rest) := pop_version (S i) (g_store g) in
      let g := g <| g_sem ::= S |> <| g_store := rest |> <| g_recv ::= S |> <| g_items ::= fun l => l ++ [x] |> in
      (match res with
       | Some sp => g <| g_snap := sp |> <| g_steps := 0 |>
       | None => g <| g_steps ::= S |>
       end <| g_c := CIdle |>, Some (OutItem x))
  | CRelStop =>
      if k_pm c then (g <| g_sem ::= S |> <| g_c := CChk |>, None)
      else (g <| g_sem ::= S |> <| g_c := CSetStop None |>, None)
  | CRelErr e i =>
      if k_pm c then
        (* a map_fn error (e = 1) consumed its item: it counts as a step and adopts the item's snapshot *)
        (* during the constructor's fast-forward a replayed map_fn error is swallowed (no reraise, hence no cycle) *)
        let g := g <| g_sem ::= S |> <| g_cyc := g_cyc g || negb ((e =? 1) && (0 <? g_ff g)) |> in
        (match e with
         | 1 => let '(res, rest) := pop_version (S i) (g_store g) in
                let g := g <| g_store := rest |> <| g_recv ::= S |> in
                match res with
                | Some sp => g <| g_snap := sp |> <| g_steps := 0 |>
                | None => g <| g_steps ::= S |>
                end
         | _ => g
         end <| g_c := CIdle |>, Some (OutErr e))
      else (g <| g_sem ::= S |> <| g_c := CSetStop (Some e) |>, None)
  | CSetStop e =>
      (g <| g_stop := true |> <| g_cyc := true |> <| g_c := CIdle |>,
       Some (match e with Some e => OutErr e | None => OutStop end))
  | CShSet =>
      let g := g <| g_stop := true |> in
      if k_pm c then (g <| g_c := CShSet2 |>, None) else after_join c g 0
  | CShSet2 => after_join c (g <| g_mpstop := true |>) 0
  | CShJoin k => match m with
                 | Go => if stage_alive c g k then (g, None) else after_join c g (S k)
                 | Timeout => if stage_alive c g k then after_join c g (S k) else (g, None)
                 end
  end.

(* ---------------------------------------------------------------------------------------------------------- *)
(* the consumer's program *)
Inductive cop := KNext | KState | KReset (load : option nat) | KShutdown.
Inductive cact := ANext | AState | AReset (load : option nat) | AShutdown | AConstruct (load : option nat) | ALogShut.
Inductive cobs := ObsItem (x : nat) | ObsStop | ObsErr (e : nat) | ObsState (snap steps : nat) | ObsReset | ObsShut | ObsFFErr.

Definition expand1 (o : cop) : list cact :=
  match o with
  | KNext => [ANext] | KState => [AState] | KReset l => [AReset l] | KShutdown => [AShutdown; ALogShut]
  end.
Definition expand (p : list cop) : list cact := flat_map expand1 p.

Record state := {
  s_pos : nat;                     (* the shared source's position *)
  s_gens : list gen;               (* generations, oldest first; the consumer works on the last one *)
  s_todo : list cact;
  s_started : bool; s_cdone : bool;
  s_obs : list cobs;
  s_states : list (nat * nat);     (* the state dicts handed out so far *)
  s_overlap : bool                 (* monitor: two threads inside source.next/reset/state_dict at once *)
}.
#[export] Instance eta_state : Settable _ := settable! Build_state
  <s_pos; s_gens; s_todo; s_started; s_cdone; s_obs; s_states; s_overlap>.

Definition new_gen (c : cfg) (base ff : nat) : gen :=
  {| g_sem := kmax c; g_q1 := []; g_q2 := []; g_q3 := []; g_store := []; g_stop := false; g_mpstop := false;
     g_r := RStart; g_ryield := 0; g_ridx := 0;
     g_ws := if k_pm c then repeat WStart (k_nw c) else [];
     g_s := if k_pm c && k_inorder c then SStart else SDone; g_sbuf := []; g_scur := 0;
     g_c := if k_pm c then CSleep else CInit; g_done := false; g_snap := base; g_steps := 0; g_ff := ff; g_cyc := false;
     g_base := base; g_recv := 0; g_taken := 0; g_term := false; g_items := [] |}.

Definition inside (gs : list gen) : nat :=
  length (filter (fun g => match g_r g with RPull => true | _ => false end) gs).

Definition cur (s : state) : option gen := last (map Some (s_gens s)) None.
Definition set_cur (g : gen) (s : state) : state :=
  s <| s_gens := removelast (s_gens s) ++ [g] |>.
Definition log (o : cobs) (s : state) : state := s <| s_obs ::= fun l => l ++ [o] |>.

Definition construct (c : cfg) (load : option nat) (s : state) : state :=
  let '(base, ff) := match load with
                     | Some j => nth j (s_states s) (0, 0)
                     | None => (0, 0)
                     end in
  s <| s_pos := base |> <| s_gens ::= fun gs => gs ++ [new_gen c base ff] |>
    <| s_overlap := s_overlap s || (0 <? inside (s_gens s)) |>.

(* run the consumer's straight-line code until its next yield point *)
Fixpoint dispatch (c : cfg) (todo : list cact) (s : state) : state :=
  match todo with
  | [] => s <| s_todo := [] |> <| s_cdone := true |>
  | a :: t =>
      match a, cur s with
      | AState, Some g => dispatch c t (log (ObsState (g_snap g) (g_steps g)) (s <| s_states ::= fun l => l ++ [(g_snap g, g_steps g)] |>))
      | ALogShut, _ => dispatch c t (log ObsShut s)
      | ANext, Some g => set_cur (g <| g_c := CChk |>) s <| s_todo := t |>
      | AShutdown, Some g => set_cur (g <| g_c := CShSet |>) s <| s_todo := t |>
      | AReset l, Some g => (* shut the old iterator down first: reset() calls _shutdown() and then drops it (__del__ -> _shutdown again, unless a cycle defers __del__) *)
          set_cur (g <| g_c := CShSet |>) s <| s_todo := (if g_cyc g then [] else [AShutdown]) ++ AConstruct l :: t |>
      | AReset l, None => construct c l s <| s_todo := t |>
      | AConstruct l, _ => construct c l s <| s_todo := t |>
      | _, None => s <| s_todo := [] |> <| s_cdone := true |>
      end
  end.

(* an operation of the consumer on the current generation has completed with outcome o *)
Definition complete (c : cfg) (o : out) (s : state) : state :=
  match cur s with
  | None => s
  | Some g =>
      match o with
      | OutInit =>
          if 0 <? g_ff g then set_cur (g <| g_c := CChk |>) s
          else dispatch c (s_todo s) (log ObsReset s)
      | OutShut => dispatch c (s_todo s) s
      | OutItem x =>
          match g_ff g with
          | 0 => dispatch c (s_todo s) (log (ObsItem x) s)
          | 1 => dispatch c (s_todo s) (log ObsReset (set_cur (g <| g_ff := 0 |>) s))
          | S n => set_cur (g <| g_ff := n |> <| g_c := CChk |>) s
          end
      | OutStop =>
          match g_ff g with
          | 0 => dispatch c (s_todo s) (log ObsStop s)
          | _ => log ObsFFErr s <| s_todo := [] |> <| s_cdone := true |>
          end
      | OutErr e =>
          match g_ff g with
          | 0 => dispatch c (s_todo s) (log (ObsErr e) s)
          | S n =>
              if k_pm c && (e =? 1) then
                match n with
                | 0 => dispatch c (s_todo s) (log ObsReset (set_cur (g <| g_ff := 0 |>) s))
                | _ => set_cur (g <| g_ff := n |> <| g_c := CChk |>) s
                end
              else log ObsFFErr s <| s_todo := [] |> <| s_cdone := true |>
          end
      end
  end.

Fixpoint upd_nth {A} (i : nat) (f : A -> A) (l : list A) : list A :=
  match l, i with
  | [], _ => []
  | x :: t, 0 => f x :: t
  | x :: t, S i' => x :: upd_nth i' f t
  end.

Definition step (c : cfg) (s : state) (ch : tid * mode) : state :=
  let '(t, m) := ch in
  match t with
  | TC =>
      if s_cdone s then s
      else if negb (s_started s) then dispatch c (s_todo s) (s <| s_started := true |>)
      else match cur s with
           | None => s
           | Some g => let '(g', o) := cstep c m g in
                       let s' := set_cur g' s in
                       match o with Some o => complete c o s' | None => s' end
           end
  | TG gi GR =>
      match nth_error (s_gens s) gi with
      | None => s
      | Some g =>
          let others := inside (upd_nth gi (fun g => g <| g_r := RDone |>) (s_gens s)) in
          let touches := match g_r g, m with RStart, _ => true | RAcq, Go => 0 <? g_sem g | _, _ => false end in
          let '(g', pos') := rstep c m g (s_pos s) in
          s <| s_pos := pos' |> <| s_gens := upd_nth gi (fun _ => g') (s_gens s) |>
            <| s_overlap := s_overlap s || (touches && (0 <? others)) |>
      end
  | TG gi (GW i) => s <| s_gens ::= upd_nth gi (wstep c i m) |>
  | TG gi GS => s <| s_gens ::= upd_nth gi (sstep c m) |>
  end.

Definition init (script : list cop) : state :=
  {| s_pos := 0; s_gens := []; s_todo := expand script; s_started := false; s_cdone := false; s_obs := [];
     s_states := []; s_overlap := false |}.

Definition run (c : cfg) (sched : list (tid * mode)) (s : state) : state := fold_left (step c) sched s.

(* ---------------------------------------------------------------------------------------------------------- *)
(* what each thread is about to do (its pending primitive), and whether Go / Timeout are enabled *)
Inductive lab := LStart | LEvIsSet | LEvSet | LQPut | LQGet | LQEmpty | LSemAcq | LSemRel | LSleep | LJoin | LSrcNext.

Definition r_pending (g : gen) : option (lab * bool * bool) :=
  match g_r g with
  | RStart => Some (LStart, true, false)
  | RInitPut _ | RStore _ _ _ | RPut _ _ _ => Some (LQPut, true, false)
  | RChk => Some (LEvIsSet, true, false)
  | RAcq => Some (LSemAcq, 0 <? g_sem g, true)
  | RPull => Some (LSrcNext, true, false)
  | RDone => None
  end.
Definition w_pending (g : gen) (i : nat) : option (lab * bool * bool) :=
  match nth_error (g_ws g) i with
  | Some WStart => Some (LStart, true, false)
  | Some WChk => Some (LEvIsSet, true, false)
  | Some WEmpty => Some (LQEmpty, true, false)
  | Some WGet => Some (LQGet, match g_q1 g with [] => false | _ => true end, true)
  | Some (WPut _ _) => Some (LQPut, true, false)
  | _ => None
  end.
Definition s_pending (g : gen) : option (lab * bool * bool) :=
  match g_s g with
  | SStart => Some (LStart, true, false)
  | SChk => Some (LEvIsSet, true, false)
  | SGet => Some (LQGet, match g_q2 g with [] => false | _ => true end, true)
  | SPut _ _ | SPutDup _ => Some (LQPut, true, false)
  | SDone => None
  end.
Definition c_pending (c : cfg) (g : gen) : option (lab * bool * bool) :=
  match g_c g with
  | CIdle => None
  | CSleep => Some (LSleep, true, false)
  | CInit => Some (LQGet, match g_store g with [] => false | _ => true end, true)
  | CChk | CChk2 => Some (LEvIsSet, true, false)
  | CStopA | CStopB | CSetStop _ | CShSet | CShSet2 => Some (LEvSet, true, false)
  | CGet => Some (LQGet, match outq c g with [] => false | _ => true end, true)
  | CRel _ _ | CRelStop | CRelErr _ _ => Some (LSemRel, true, false)
  | CShJoin k => Some (LJoin, negb (stage_alive c g k), true)
  end.

Definition pending (c : cfg) (s : state) (t : tid) : option (lab * bool * bool) :=
  match t with
  | TC => if s_cdone s then None
          else if negb (s_started s) then Some (LStart, true, false)
          else match cur s with Some g => c_pending c g | None => None end
  | TG gi GR => match nth_error (s_gens s) gi with Some g => r_pending g | None => None end
  | TG gi (GW i) => match nth_error (s_gens s) gi with Some g => w_pending g i | None => None end
  | TG gi GS => match nth_error (s_gens s) gi with Some g => s_pending g | None => None end
  end.

(* a choice is a MOVE of the scheduler iff the thread has a pending primitive and: Go with the primitive enabled,
   or Timeout with a timed wait that is not enabled (an enabled timed wait proceeds) *)
Definition is_move (c : cfg) (s : state) (ch : tid * mode) : bool :=
  match pending c s (fst ch), snd ch with
  | Some (_, en, _), Go => en
  | Some (_, en, tw), Timeout => tw && negb en
  | None, _ => false
  end.

Definition gen_tids (c : cfg) (gi : nat) : list tid :=
  TG gi GR :: (if k_pm c then map (fun i => TG gi (GW i)) (seq 0 (k_nw c)) ++ (if k_inorder c then [TG gi GS] else []) else []).
Definition all_tids (c : cfg) (s : state) : list tid :=
  TC :: flat_map (gen_tids c) (seq 0 (length (s_gens s))).
Definition moves (c : cfg) (s : state) : list (tid * mode) :=
  filter (is_move c s) (flat_map (fun t => [(t, Go); (t, Timeout)]) (all_tids c s)).
