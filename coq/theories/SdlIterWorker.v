(* SdlIterWorker.v — iterable datasets, the WORKER side of SdlModel.v (worker.py:_worker_loop + the dataset fetcher):
   whatever the batch size (incl. batch_size=None), drop_last and the dataset's rewind-on-exhaustion habit, the answers of a
   worker to its successive tasks are exactly the batches of its shard, in order, then the end-of-shard notice, and from then
   on nothing but that notice; the state it reports with an answer determines every later answer (so a worker restored
   from a reported state continues exactly).  Building blocks of the iterable-dataset targets C01_iter / C03_iter. *)
From Coq Require Import List Arith Bool Lia.
From PD Require Import Base SdlModel.
Import ListNotations.
Open Scope nat_scope.

Section Worker.
Variable c : cfg.
Hypothesis Hk : c_kind c = KIter.
Variable w : nat.
Let sh := shard c w.

(* n successive fetches (the tasks' contents do not matter for an iterable dataset) *)
Fixpoint fetches (k : wk) (ts : list task) : list result * wk :=
  match ts with
  | [] => ([], k)
  | t :: r => let '(res, _, k') := worker_fetch c w k t in let '(l, k'') := fetches k' r in (res :: l, k'')
  end.

(* the answers depend on the worker's (position, ended) only *)
Lemma fetch_congr k1 k2 t : wk_pos k1 = wk_pos k2 -> wk_ended k1 = wk_ended k2 ->
  let '(r1, s1, k1') := worker_fetch c w k1 t in let '(r2, s2, k2') := worker_fetch c w k2 t in
  r1 = r2 /\ s1 = s2 /\ wk_pos k1' = wk_pos k2' /\ wk_ended k1' = wk_ended k2'.
Proof.
  intros E1 E2. unfold worker_fetch. rewrite Hk, E1, E2.
  destruct (wk_ended k2); [cbn; auto|].
  destruct (c_bs c =? 0).
  - destruct (nth_error (shard c w) (wk_pos k2)); cbn; auto.
  - destruct ((length (firstn (c_bs c) (skipn (wk_pos k2) (shard c w))) =? 0) ||
              c_drop c && (length (firstn (c_bs c) (skipn (wk_pos k2) (shard c w))) <? c_bs c)); cbn; auto.
Qed.

Lemma fetches_congr ts : forall k1 k2, wk_pos k1 = wk_pos k2 -> wk_ended k1 = wk_ended k2 -> fst (fetches k1 ts) = fst (fetches k2 ts).
Proof.
  induction ts as [|t r IH]; intros k1 k2 E1 E2; [reflexivity|]. cbn.
  pose proof (fetch_congr k1 k2 t E1 E2) as H.
  destruct (worker_fetch c w k1 t) as [[r1 s1] k1'], (worker_fetch c w k2 t) as [[r2 s2] k2'].
  destruct H as (-> & _ & P & E). specialize (IH k1' k2' P E).
  destruct (fetches k1' r), (fetches k2' r). cbn in *. congruence.
Qed.

(* a worker restored from the state (pos, ended) that an answer carried continues exactly like the worker that sent it *)
Theorem restored_worker_continues k t ts :
  let '(_, st, k') := worker_fetch c w k t in
  forall sv, st = Some sv -> fst (fetches (wk_restored sv) ts) = fst (fetches k' ts).
Proof.
  unfold worker_fetch. rewrite Hk.
  destruct (if wk_ended k then (RStop, wk_pos k, true) else _) as [[r pos'] ended'] eqn:E.
  intros sv Hs. apply fetches_congr; cbn;
    destruct (t_snap t || match r with RStop => true | _ => false end); inversion Hs; reflexivity.
Qed.

(* once the end-of-shard notice has been sent, every later answer is that notice *)
Lemma after_stop_only_stop ts : forall k, wk_ended k = true -> fst (fetches k ts) = map (fun _ => RStop) ts.
Proof.
  induction ts as [|t r IH]; intros k He; [reflexivity|]. cbn. unfold worker_fetch at 1. rewrite Hk, He. cbn.
  specialize (IH {| wk_pos := wk_pos k; wk_ended := true; wk_dead := true; wk_q := wk_q k |} eq_refl).
  destruct (fetches _ r). cbn in *. congruence.
Qed.

Lemma skipn_nth_error {A} (l : list A) pos x : nth_error l pos = Some x -> skipn pos l = x :: skipn (S pos) l.
Proof. revert pos. induction l as [|a l IH]; intros [|pos] H; cbn in *; try discriminate; [congruence | apply IH, H]. Qed.

Lemma skipn_nth_error_none {A} (l : list A) pos : nth_error l pos = None -> skipn pos l = [].
Proof. intros H. apply skipn_all2. apply nth_error_None, H. Qed.

(* n answers: the batches while there are any, then end-of-shard notices *)
Definition answers (n : nat) (bs : list (list nat)) : list result := map RData (firstn n bs) ++ repeat RStop (n - length bs).

Lemma answers_nil n : answers n [] = repeat RStop n.
Proof. unfold answers. rewrite firstn_nil. cbn. rewrite Nat.sub_0_r. reflexivity. Qed.
Lemma answers_cons n b bs : answers (S n) (b :: bs) = RData b :: answers n bs.
Proof. reflexivity. Qed.

(* THE WORKER'S ANSWERS: from position pos (not yet ended), the answers to any number of tasks are the batches of the rest
   of the shard — chunks of batch_size, the short last one kept or dropped as drop_last says; single items when
   batch_size is None — followed by end-of-shard notices only *)
Theorem fetches_are_chunks : forall fuel pos k ts,
  wk_pos k = pos -> wk_ended k = false -> length (skipn pos sh) < fuel ->
  fst (fetches k ts) = answers (length ts) (chunks fuel (c_bs c) (c_drop c) (skipn pos sh)).
Proof.
  induction fuel as [|f IH]; intros pos k ts Hp He Hf; [lia|].
  destruct ts as [|t r]; [reflexivity|].
  assert (forall k', wk_ended k' = true -> fst (fetches k' r) = repeat RStop (length r)) as Hstop.
  { intros k' H'. rewrite after_stop_only_stop by exact H'. clear. induction r; cbn; congruence. }
  cbn [fetches length]. unfold worker_fetch at 1. rewrite Hk, He, Hp. fold sh.
  destruct (c_bs c =? 0) eqn:Eb.
  - (* batch_size None: one item per task *)
    destruct (nth_error sh pos) as [x|] eqn:En.
    + rewrite (skipn_nth_error _ _ _ En). cbn [chunks]. rewrite Eb. cbn [map]. rewrite answers_cons.
      match goal with |- context [fetches ?k' r] => specialize (IH (S pos) k' r eq_refl eq_refl) end.
      assert (length (skipn (S pos) sh) < f) as Hlt by (pose proof (skipn_nth_error _ _ _ En) as Hx; rewrite Hx in Hf; cbn [length] in Hf; lia).
      specialize (IH Hlt).
      destruct (fetches _ r) as [l k'']. cbn [fst] in *. rewrite IH. f_equal.
      destruct f; [lia|]. cbn [chunks]. rewrite Eb. destruct (skipn (S pos) sh); reflexivity.
    + rewrite (skipn_nth_error_none _ _ En). cbn [chunks]. rewrite answers_nil.
      match goal with |- context [fetches ?k' r] => pose proof (Hstop k' eq_refl) as Hs end.
      destruct (fetches _ r) as [l k'']. cbn [fst] in *. rewrite Hs. reflexivity.
  - (* batches of batch_size *)
    apply Nat.eqb_neq in Eb. set (rest := skipn pos sh) in *.
    destruct rest as [|x0 rest0] eqn:Er.
    + (* nothing left *)
      cbn [chunks]. rewrite answers_nil. rewrite firstn_nil. cbn [length Nat.eqb orb].
      match goal with |- context [fetches ?k' r] => pose proof (Hstop k') as Hs end.
      replace (0 <? c_bs c) with true in * by (symmetry; apply Nat.ltb_lt; lia).
      specialize (Hs eq_refl). destruct (fetches _ r) as [l k'']. cbn [fst] in *. rewrite Hs. reflexivity.
    + cbn [chunks]. replace (c_bs c =? 0) with false by (symmetry; apply Nat.eqb_neq; exact Eb).
      destruct (Nat.ltb_spec (length (x0 :: rest0)) (c_bs c)) as [Hshort|Hfull].
      * (* a short last batch *)
        rewrite (firstn_all2 (x0 :: rest0)) by lia.
        replace (length (x0 :: rest0) =? 0) with false by reflexivity.
        replace (length (x0 :: rest0) <? c_bs c) with true by (symmetry; apply Nat.ltb_lt; exact Hshort).
        cbn [orb]. rewrite andb_true_r.
        destruct (c_drop c).
        -- rewrite answers_nil.
           match goal with |- context [fetches ?k' r] => pose proof (Hstop k' eq_refl) as Hs end.
           destruct (fetches _ r) as [l k'']. cbn [fst] in *. rewrite Hs. reflexivity.
        -- rewrite answers_cons, answers_nil.
           match goal with |- context [fetches ?k' r] => pose proof (Hstop k' eq_refl) as Hs end.
           destruct (fetches _ r) as [l k'']. cbn [fst] in *. rewrite Hs. reflexivity.
      * (* a full batch *)
        assert (length (firstn (c_bs c) (x0 :: rest0)) = c_bs c) as Hl by (apply firstn_length_le; exact Hfull).
        rewrite Hl. replace (c_bs c =? 0) with false by (symmetry; apply Nat.eqb_neq; exact Eb).
        replace (c_bs c <? c_bs c) with false by (symmetry; apply Nat.ltb_irrefl).
        cbn [orb andb]. rewrite andb_false_r. cbn [orb]. rewrite answers_cons.
        match goal with |- context [fetches ?k' r] => specialize (IH (pos + c_bs c) k' r eq_refl eq_refl) end.
        assert (skipn (pos + c_bs c) sh = skipn (c_bs c) (x0 :: rest0)) as Hsk.
        { rewrite <- Er. unfold rest. rewrite skipn_skipn. f_equal; lia. }
        rewrite Hsk in IH.
        assert (length (skipn (c_bs c) (x0 :: rest0)) < f) as Hlt.
        { rewrite skipn_length. cbn [length] in *. lia. }
        specialize (IH Hlt). destruct (fetches _ r) as [l k'']. cbn [fst] in *. rewrite IH. reflexivity.
Qed.

(* in particular: a fresh worker's answers are its shard's batches (the per-worker list the reference interleaves) *)
Corollary fresh_worker_answers ts :
  fst (fetches wk_fresh ts) = answers (length ts) (worker_batches c w).
Proof.
  unfold worker_batches. fold sh. change sh with (skipn 0 sh) at 2.
  apply fetches_are_chunks; [reflexivity | reflexivity | cbn; lia].
Qed.

End Worker.
