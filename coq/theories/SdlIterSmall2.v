(* SdlIterSmall2.v — iterable datasets, checkpoint/resume, small scope (see SdlIterSmall.v for the method): for EVERY
   configuration of the scope, EVERY interruption point k and EVERY pair of arrival schedules (first 3 choices of the
   interrupted run and of the resumed run arbitrary), the state dict taken after k batches, loaded into a new iterator,
   yields exactly the batches k.. of the reference, then StopIteration.
   Scope: stateful dataset (worker-side position restored), with and without rewind-on-exhaustion, 1-2 workers,
   prefetch_factor 2, snapshot interval 1-2, batch_size 1-2, drop_last=False, shards of 0-3 items. *)
From Coq Require Import List Arith Bool Lia.
From PD Require Import Base SdlModel SdlProofs SdlMapProofs SdlIterScope.
Import ListNotations.
Open Scope nat_scope.

Definition mk_iter2 (W I bs : nat) (rewind : bool) (sizes : list nat) : cfg :=
  {| c_kind := KIter; c_W := W; c_P := 2; c_I := I; c_bs := bs; c_drop := false;
     c_shards := map (fun '(w, n) => map (fun i => 100 * w + i) (seq 0 n)) (combine (seq 0 W) sizes);
     c_batches := []; c_bad := []; c_stateful := true; c_rewind := rewind |}.

Definition resume_cfgs : list cfg :=
  flat_map (fun I => flat_map (fun bs => flat_map (fun rw =>
    map (fun s => mk_iter2 1 I bs rw [s]) [0; 1; 2; 3] ++
    flat_map (fun s0 => map (fun s1 => mk_iter2 2 I bs rw [s0; s1]) [0; 1; 2; 3]) [0; 1; 2; 3])
    [false; true]) [1; 2]) [1; 2].

Definition resume_ok (c : cfg) (k : nat) (s1 s2 : list nat) : bool :=
  let '(sk, _) := replay c k (sdl_fresh c) s1 in
  let '(sr, sched') := sdl_resume c (state_dict sk) s2 in
  loeqb (outcomes c (S (length (reference c) - k)) sr sched') (map OBatch (skipn k (reference c)) ++ [OStop]).

Definition resume_scope_ok : bool :=
  forallb (fun c => forallb (fun k => forallb (fun s1 => forallb (fun s2 => resume_ok c k s1 s2) (all_lists [0; 1] 3)) (all_lists [0; 1] 3))
                            (seq 0 (S (length (reference c))))) resume_cfgs.

Lemma resume_scope_ok_true : resume_scope_ok = true.
Proof. vm_compute. reflexivity. Qed.

Theorem iter_resume_exact_small_scope : forall c k s1 s2, In c resume_cfgs -> k <= length (reference c) ->
  In s1 (all_lists [0; 1] 3) -> In s2 (all_lists [0; 1] 3) ->
  let '(sk, _) := replay c k (sdl_fresh c) s1 in
  let '(sr, sched') := sdl_resume c (state_dict sk) s2 in
  outcomes c (S (length (reference c) - k)) sr sched' = map OBatch (skipn k (reference c)) ++ [OStop].
Proof.
  intros c k s1 s2 Hc Hk H1 H2. pose proof resume_scope_ok_true as H. unfold resume_scope_ok in H.
  rewrite forallb_forall in H. specialize (H c Hc). rewrite forallb_forall in H.
  specialize (H k ltac:(apply in_seq; lia)). rewrite forallb_forall in H. specialize (H s1 H1).
  rewrite forallb_forall in H. specialize (H s2 H2). unfold resume_ok in H.
  destruct (replay c k (sdl_fresh c) s1) as [sk ?]. destruct (sdl_resume c (state_dict sk) s2) as [sr sched'].
  apply loeqb_eq, H.
Qed.
