(* SdlIterProofs.v — iterable datasets, the MAIN-process side of SdlModel.v: for EVERY arrival schedule one epoch of the
   multi-process iterator yields exactly the column-major interleave of the workers' batch lists (`reference c`), then
   StopIteration; no internal assertion fires, the main process never waits for a result that cannot come, the fuel of the
   model's recursion is never exhausted.
   Proof idea (DESIGN 2): tasks sit at SLOTS (round, worker) of the pure round-robin walk; the dispatch pointer walks over
   the slots, skipping slots of retired workers; a retired worker's remaining slots contribute nothing; the first task of
   the window is so far behind the dispatch pointer that every active worker still has a task in the window (no
   starvation of the shrinking window). *)
From Coq Require Import List Arith Bool Lia.
From PD Require Import Base SdlModel SdlProofs SdlMapProofs SdlIterWorker SdlFault.
From PD Require Import SdlIterRef.
Import ListNotations.
Open Scope nat_scope.

(* ------------------------------------------------------------------ *)
(* workers: the future answers of a worker are the tail of its answer stream *)
Section WorkerFut.
Variable c : cfg.
Hypothesis Hkind : c_kind c = KIter.
Variable B : nat -> list (list nat).

Definition Fut (w j : nat) (k : wk) : Prop :=
  forall ts, fst (fetches c w k ts) = map (ans B w) (seq j (length ts)).

Lemma answers_ans w : forall n B0 j, (forall i, nth_error (B w) (j + i) = nth_error B0 i) ->
  answers n B0 = map (ans B w) (seq j n).
Proof.
  induction n as [|n IH]; intros B0 j H; [reflexivity|].
  cbn [seq map]. unfold ans at 1. pose proof (H 0) as H0. rewrite Nat.add_0_r in H0. rewrite H0.
  destruct B0 as [|b B1]; cbn [nth_error].
  - rewrite answers_nil. cbn [repeat]. f_equal. rewrite <- answers_nil. apply IH.
    intros i. specialize (H (S i)). rewrite <- Nat.add_succ_comm in H. rewrite H. destruct i; reflexivity.
  - rewrite answers_cons. f_equal. apply IH. intros i. specialize (H (S i)). rewrite <- Nat.add_succ_comm in H. exact H.
Qed.


Lemma fut_congr w j k1 k2 : wk_pos k1 = wk_pos k2 -> wk_ended k1 = wk_ended k2 -> Fut w j k1 -> Fut w j k2.
Proof. intros E1 E2 H ts. rewrite <- (fetches_congr c Hkind w ts k1 k2 E1 E2). apply H. Qed.

Lemma fetch_dead w k t : let '(r, _, k') := worker_fetch c w k t in
  wk_dead k' = (match r with RStop => true | _ => false end) /\ wk_q k' = wk_q k.
Proof.
  unfold worker_fetch. rewrite Hkind.
  destruct (if wk_ended k then (RStop, wk_pos k, true) else _) as [[r pos'] ended']. cbn. auto.
Qed.

Lemma fut_fetch w j k t : Fut w j k ->
  let '(r, _, k') := worker_fetch c w k t in r = ans B w j /\ Fut w (S j) k'.
Proof.
  intros H. pose proof (H [t]) as H1. cbn [fetches length seq map] in H1.
  destruct (worker_fetch c w k t) as [[r st] k'] eqn:E. cbn [fst] in H1.
  split; [congruence|].
  intros ts. pose proof (H (t :: ts)) as H2. cbn [fetches length seq map] in H2. rewrite E in H2.
  destruct (fetches c w k' ts) as [l k'']. cbn [fst] in *. congruence.
Qed.

End WorkerFut.

Lemma fut_fresh c : c_kind c = KIter -> forall w, Fut c (Bw c) w 0 wk_fresh.
Proof. intros Hkind w ts. rewrite (fresh_worker_answers c Hkind). apply answers_ans. intros i. reflexivity. Qed.

(* ------------------------------------------------------------------ *)
(* small arithmetic / list helpers                                      *)
Definition b2n (b : bool) : nat := if b then 1 else 0.
(* number of slots of worker w strictly before the pointer (R, cyc) *)
Definition cnt (R cyc w : nat) : nat := R + b2n (w <? cyc).

Lemma succ_mod cyc W : cyc < W -> (S cyc) mod W = if S cyc =? W then 0 else S cyc.
Proof.
  intros H. destruct (Nat.eqb_spec (S cyc) W) as [E|E]; [rewrite E; apply Nat.mod_same; lia | apply Nat.mod_small; lia].
Qed.

Ltac b2n_tac := unfold cnt, b2n in *;
  repeat match goal with
  | |- context [?x <? ?y] => destruct (Nat.ltb_spec x y)
  | H : context [?x <? ?y] |- _ => destruct (Nat.ltb_spec x y)
  end; try lia.

Definition nact (st : list bool) : nat := length (filter (fun b => b) st).

Lemma nact_set_false st : forall w, nth w st false = true -> nact (set_nth st w false) + 1 = nact st.
Proof.
  unfold nact, set_nth. induction st as [|b st IH]; intros [|w] H; cbn in *; try discriminate.
  - subst b. cbn. lia.
  - specialize (IH w H). destruct b; cbn; lia.
Qed.

Lemma nact_le st : nact st <= length st.
Proof. unfold nact. induction st as [|b st IH]; cbn; [lia|]. destruct b; cbn; lia. Qed.

Definition isdat (e : nat * (nat * option (result * option wsave))) : bool :=
  match snd (snd e) with Some (RData _, _) => true | _ => false end.
Definition ndat (l : list (nat * (nat * option (result * option wsave)))) : nat := length (filter isdat l).

Lemma ndat_app l e : ndat (l ++ [e]) = ndat l + b2n (isdat e).
Proof. unfold ndat. rewrite filter_app, app_length. cbn. destruct (isdat e); cbn; lia. Qed.

Lemma ndat_del l k v : info_get l k = Some v -> ndat (info_del l k) + b2n (isdat (k, v)) = ndat l.
Proof.
  unfold ndat. induction l as [|[k' v'] l IH]; cbn; [discriminate|].
  destruct (Nat.eqb_spec k' k) as [->|E]; intros H.
  - injection H as ->. destruct (isdat (k, v)); cbn; lia.
  - cbn [filter]. specialize (IH H). destruct (isdat (k', v')); cbn [length]; lia.
Qed.

Lemma info_del_none {A} (l : list (nat * A)) k : info_get l k = None -> info_del l k = l.
Proof.
  induction l as [|[k' v'] l IH]; cbn; [reflexivity|].
  destruct (Nat.eqb_spec k' k) as [->|E]; intros H; [discriminate|]. rewrite IH by exact H. reflexivity.
Qed.

(* ------------------------------------------------------------------ *)
Section IterMain.
Variable c : cfg.
Hypothesis Hkind : c_kind c = KIter.
Hypothesis HW : 0 < c_W c.
Hypothesis HP : 0 < c_P c.
Notation W := (c_W c).
(* B w: the batches worker w still has to give (from its first task of this iterator on); cyc0: where the worker cycle of
   this iterator starts.  A fresh iterator: B = the batches of each shard, cyc0 = 0.  An iterator built from a state dict:
   B = what each restored worker has left, preceded by one placeholder for the workers below cyc0 (their round-0 slot lies
   before the start of the walk), cyc0 = last yielded worker + 1. *)
Variable B : nat -> list (list nat).
Variable cyc0 : nat.
Hypothesis Hcyc0 : cyc0 < W.
Definition a0 (w : nat) : nat := if w <? cyc0 then 1 else 0.
Hypothesis Ha0 : forall w, w < W -> a0 w <= nb B w.

(* the dispatch pointer advanced by j slots, 0 <= j <= W *)
Definition Adv (j R cc R' c' : nat) : Prop := (R' = R /\ c' = cc + j) \/ (R' = S R /\ c' + W = cc + j).

Lemma cnt_next R cc v : cc < W ->
  cnt (if S cc =? W then S R else R) (if S cc =? W then 0 else S cc) v = cnt R cc v + b2n (v =? cc) \/ W <= v.
Proof.
  intros H. destruct (Nat.ltb_spec v W) as [Hv|Hv]; [left|right; exact Hv].
  unfold cnt, b2n. destruct (Nat.eqb_spec (S cc) W), (Nat.eqb_spec v cc);
    repeat match goal with |- context [?x <? ?y] => destruct (Nat.ltb_spec x y) end; lia.
Qed.

(* find_worker: the walk of the dispatch pointer to the next active worker *)
Lemma fw_spec status : forall todo R cc, cc < W -> todo <= W ->
  (forall v, v < W -> nth v status false = false -> nb B v < cnt R cc v) ->
  match find_worker todo W status cc with
  | (Some w', c') => exists R' j, 1 <= j <= todo /\ Adv j R cc R' c' /\ c' < W /\ w' < W /\ nth w' status false = true /\
        refsuf W B R cc = dat B w' (cnt R cc w') ++ refsuf W B R' c' /\
        cnt R' c' w' = S (cnt R cc w') /\
        (forall v, v < W -> v <> w' -> cnt R' c' v <> cnt R cc v -> nth v status false = false)
  | (None, c') => exists R', Adv todo R cc R' c' /\ c' < W /\ refsuf W B R cc = refsuf W B R' c' /\
        (forall v, v < W -> cnt R' c' v <> cnt R cc v -> nth v status false = false)
  end.
Proof.
  induction todo as [|t IH]; intros R cc Hcc Htodo Hin.
  - cbn [find_worker]. exists R. split; [left; lia|]. split; [exact Hcc|]. split; [reflexivity|]. intros v _ Hne. congruence.
  - cbn [find_worker]. rewrite succ_mod by exact Hcc.
    set (R1 := if S cc =? W then S R else R). set (c1 := if S cc =? W then 0 else S cc).
    assert (c1 < W) as Hc1 by (unfold c1; destruct (Nat.eqb_spec (S cc) W); lia).
    assert (Adv 1 R cc R1 c1) as HA1 by (unfold Adv, R1, c1; destruct (Nat.eqb_spec (S cc) W); lia).
    assert (forall v, v < W -> cnt R1 c1 v = cnt R cc v + b2n (v =? cc)) as Hcnt.
    { intros v Hv. destruct (cnt_next R cc v Hcc) as [E|E]; [exact E | lia]. }
    pose proof (refsuf_step W B HW R cc Hcc) as Hstep. fold R1 c1 in Hstep.
    assert ((if S cc =? W then refsuf W B (S R) 0 else refsuf W B R (S cc)) = refsuf W B R1 c1) as Hr
      by (unfold R1, c1; destruct (S cc =? W); reflexivity).
    rewrite Hr in Hstep. clear Hr.
    assert (cnt R cc cc = R) as Hcc0 by (unfold cnt, b2n; rewrite Nat.ltb_irrefl; lia).
    destruct (nth cc status false) eqn:Est.
    + exists R1, 1. split; [lia|]. split; [exact HA1|]. split; [exact Hc1|]. split; [exact Hcc|]. split; [exact Est|].
      split; [rewrite Hcc0; exact Hstep|]. split.
      * rewrite Hcnt by exact Hcc. rewrite Nat.eqb_refl. cbn. lia.
      * intros v Hv Hne Hch. rewrite Hcnt in Hch by exact Hv. destruct (Nat.eqb_spec v cc); [contradiction | cbn in Hch; lia].
    + assert (forall v, v < W -> nth v status false = false -> nb B v < cnt R1 c1 v) as Hin1.
      { intros v Hv Hs. specialize (Hin v Hv Hs). rewrite Hcnt by exact Hv. lia. }
      specialize (IH R1 c1 Hc1 ltac:(lia) Hin1).
      assert (dat B cc R = []) as Hnil.
      { apply dat_nil. specialize (Hin cc Hcc Est). rewrite Hcc0 in Hin. lia. }
      rewrite Hnil in Hstep. cbn [app] in Hstep.
      destruct (find_worker t W status c1) as [[w'|] c'].
      * destruct IH as (R' & j & Hj & HA & Hc' & Hw' & Hact & Href & Hcw & Hoth).
        exists R', (S j). split; [lia|]. split; [unfold Adv in *; lia|]. split; [exact Hc'|]. split; [exact Hw'|]. split; [exact Hact|].
        assert (w' <> cc) as Hne by congruence.
        assert (cnt R1 c1 w' = cnt R cc w') as Hsame.
        { rewrite Hcnt by exact Hw'. destruct (Nat.eqb_spec w' cc); [contradiction | cbn; lia]. }
        split; [rewrite Hstep, Href, Hsame; reflexivity|]. split; [lia|].
        intros v Hv Hvw Hch. destruct (Nat.eq_dec (cnt R' c' v) (cnt R1 c1 v)) as [E|E].
        -- rewrite E, Hcnt in Hch by exact Hv. destruct (Nat.eqb_spec v cc); [subst; exact Est | cbn in Hch; lia].
        -- apply Hoth; assumption.
      * destruct IH as (R' & HA & Hc' & Href & Hoth).
        exists R'. split; [unfold Adv in *; lia|]. split; [exact Hc'|]. split; [rewrite Hstep; exact Href|].
        intros v Hv Hch. destruct (Nat.eq_dec (cnt R' c' v) (cnt R1 c1 v)) as [E|E].
        -- rewrite E, Hcnt in Hch by exact Hv. destruct (Nat.eqb_spec v cc); [subst; exact Est | cbn in Hch; lia].
        -- apply Hoth; assumption.
Qed.

(* ------------------------------------------------------------------ *)
(* the invariant.  Ghost data: gw t / rd t = worker and round of task t (its slot), a w = number of answers of worker w
   that have arrived, R = round of the dispatch pointer (its worker is m_cyc). *)
Definition wq (s : ms) (w : nat) : list task := wk_q (nth w (m_workers s) wk_fresh).
Definition dsp (a : nat -> nat) (s : ms) (w : nat) : nat := a w + length (wq s w).
Definition act (s : ms) (w : nat) : bool := nth w (m_status s) false.

Record InvC (gw rd a : nat -> nat) (R : nat) (s : ms) : Prop := {
  c_kn : m_rcvd s <= m_send s;
  c_cyc : m_cyc s < W;
  c_wlen : length (m_workers s) = W;
  c_slen : length (m_status s) = W;
  c_gw : forall t, t < m_send s -> gw t < W;
  c_mono : forall t t', t < t' -> t' < m_send s -> rd t < rd t' \/ (rd t = rd t' /\ gw t < gw t');
  c_wf : wf_info (m_info s);
  c_info : forall t, match info_get (m_info s) t with
                     | Some (w, r) => m_rcvd s <= t < m_send s /\ w = gw t /\
                                      ((r = None /\ a w <= rd t) \/ (exists st, r = Some (ans B w (rd t), st) /\ rd t < a w))
                     | None => ~ (m_rcvd s <= t < m_send s)
                     end;
  c_passed : forall t, t < m_rcvd s -> rd t < a (gw t) \/ act s (gw t) = false;
  c_q : forall w, w < W -> sorted_from 0 (map t_idx (wq s w)) /\
                  (forall t, In t (map t_idx (wq s w)) <-> (t < m_send s /\ gw t = w /\ a w <= rd t));
  c_fut : forall w, w < W -> Fut c B w (a w) (nth w (m_workers s) wk_fresh) /\
                             wk_dead (nth w (m_workers s) wk_fresh) = (nb B w <? a w) /\ a w <= S (nb B w) /\
                             act s w = negb (nb B w <? a w);
  c_d : forall w, w < W -> (forall x, a0 w <= x < dsp a s w -> exists t, t < m_send s /\ gw t = w /\ rd t = x) /\
                           (forall t, t < m_send s -> gw t = w -> rd t < dsp a s w) /\
                           (if act s w then dsp a s w = cnt R (m_cyc s) w
                            else nb B w < dsp a s w /\ dsp a s w <= cnt R (m_cyc s) w);
  c_out : m_outst s = qsum (m_workers s) /\ m_outst s + ndat (m_info s) <= W * c_P c;
  c_assert : m_assert s = None;
  c_a0 : forall w, w < W -> a0 w <= a w;
  c_base : forall t, t < m_send s -> 0 < rd t \/ cyc0 <= gw t;
  c_ptr : 0 < R \/ cyc0 <= m_cyc s }.

(* the data the window still holds, in task order *)
Definition wdat (gw rd : nat -> nat) (k n : nat) : list (list nat) := flat_map (fun t => dat B (gw t) (rd t)) (seq k (n - k)).
(* what the epoch still has to deliver *)
Definition Rest (gw rd : nat -> nat) (R : nat) (s : ms) (rest : list (list nat)) : Prop :=
  rest = wdat gw rd (m_rcvd s) (m_send s) ++ refsuf W B R (m_cyc s).
(* no starvation: the first task of the window is so far behind the dispatch pointer that every active worker has a task
   at or after it; an empty window means that every worker has retired *)
Definition Act (gw rd a : nat -> nat) (s : ms) : Prop :=
  (m_rcvd s < m_send s -> forall v, v < W -> act s v = true -> rd (m_rcvd s) + b2n (v <? gw (m_rcvd s)) < dsp a s v) /\
  (m_rcvd s = m_send s -> forall v, v < W -> act s v = false) /\
  W <= m_send s.

Lemma wdat_cons gw rd k n : k < n -> wdat gw rd k n = dat B (gw k) (rd k) ++ wdat gw rd (S k) n.
Proof. intros H. unfold wdat. replace (n - k) with (S (n - S k)) by lia. reflexivity. Qed.

Lemma wdat_snoc gw rd k n : k <= n -> wdat gw rd k (S n) = wdat gw rd k n ++ dat B (gw n) (rd n).
Proof.
  intros H. unfold wdat. replace (S n - k) with ((n - k) + 1) by lia. rewrite seq_app, flat_map_app. cbn [seq flat_map].
  rewrite app_nil_r. replace (k + (n - k)) with n by lia. reflexivity.
Qed.

Lemma wdat_ext gw rd gw' rd' k n : (forall t, k <= t < n -> gw' t = gw t /\ rd' t = rd t) -> wdat gw' rd' k n = wdat gw rd k n.
Proof.
  intros H. unfold wdat. rewrite !flat_map_concat_map. f_equal. apply map_ext_in.
  intros t Hin. apply in_seq in Hin. destruct (H t ltac:(lia)) as [-> ->]. reflexivity.
Qed.

(* the head of a worker's queue is the task it answers next *)
Lemma queue_head gw rd a R s w tk q' : InvC gw rd a R s -> w < W -> wq s w = tk :: q' ->
  t_idx tk < m_send s /\ gw (t_idx tk) = w /\ rd (t_idx tk) = a w.
Proof.
  intros H Hw Hq. destruct (c_q _ _ _ _ _ H w Hw) as [Qs Qm]. rewrite Hq in Qs, Qm. cbn [map] in Qs, Qm.
  destruct (proj1 (Qm (t_idx tk)) (or_introl eq_refl)) as (H1 & H2 & H3).
  split; [exact H1|]. split; [exact H2|].
  destruct (Nat.eq_dec (rd (t_idx tk)) (a w)) as [E|E]; [exact E|exfalso].
  destruct (c_d _ _ _ _ _ H w Hw) as (D1 & _ & _).
  destruct (D1 (a w)) as (t1 & T1 & T2 & T3). { pose proof (c_a0 _ _ _ _ _ H w Hw). unfold dsp. rewrite Hq. cbn [length]. lia. }
  assert (In t1 (t_idx tk :: map t_idx q')) as Hin by (apply Qm; repeat split; [exact T1 | exact T2 | lia]).
  destruct Hin as [Hin|Hin]; [subst t1; lia|].
  destruct Qs as [_ Qs]. pose proof (sorted_from_ge _ _ _ Qs Hin) as Hlt.
  pose proof (c_mono _ _ _ _ _ H (t_idx tk) t1 ltac:(lia) T1). lia.
Qed.

(* ------------------------------------------------------------------ *)
(* _try_put_index for an iterable dataset, in closed form *)
Definition fl_main (s : ms) : bool :=
  if c_I c =? 0 then false else c_I c <=? m_ny s mod c_I c + 1 + W * c_P c.
Definition fl_snap (s : ms) : bool :=
  if c_I c =? 0 then false else c_I c <=? m_ny s mod c_I c + 1 + W * c_P c + W.

Definition put_none (s : ms) (cyc' : nat) : ms :=
  {| m_send := m_send s; m_rcvd := m_rcvd s; m_info := m_info s; m_outst := m_outst s; m_status := m_status s;
     m_cyc := cyc'; m_ny := m_ny s; m_siy := S (m_siy s); m_samp := m_samp s; m_msnaps := m_msnaps s;
     m_last := m_last s; m_wsnap := m_wsnap s; m_snapshot := m_snapshot s; m_finished := m_finished s;
     m_workers := m_workers s; m_assert := m_assert s |}.

Definition put_some (s : ms) (w cyc' : nat) : ms :=
  let t := {| t_idx := m_send s; t_index := []; t_snap := fl_snap s |} in
  let k := nth w (m_workers s) wk_fresh in
  let k' := {| wk_pos := wk_pos k; wk_ended := wk_ended k; wk_dead := wk_dead k; wk_q := wk_q k ++ [t] |} in
  {| m_send := S (m_send s); m_rcvd := m_rcvd s; m_info := m_info s ++ [(m_send s, (w, None))];
     m_outst := S (m_outst s); m_status := m_status s; m_cyc := cyc'; m_ny := m_ny s; m_siy := S (m_siy s); m_samp := m_samp s;
     m_msnaps := if fl_main s then m_msnaps s ++ [(m_send s, (S (m_siy s), m_samp s))] else m_msnaps s;
     m_last := m_last s; m_wsnap := m_wsnap s; m_snapshot := m_snapshot s; m_finished := m_finished s;
     m_workers := set_nth (m_workers s) w k'; m_assert := m_assert s |}.

Lemma try_put_eq s : m_outst s < W * c_P c -> m_assert s = None ->
  try_put_index c s =
  match find_worker W W (m_status s) (m_cyc s) with
  | (None, cyc') => put_none s cyc'
  | (Some w, cyc') => put_some s w cyc'
  end.
Proof.
  intros Hout Has. unfold try_put_index.
  replace (m_outst s <? c_P c * W) with true by (symmetry; apply Nat.ltb_lt; lia).
  rewrite Hkind. unfold put_none, put_some, fl_main, fl_snap.
  destruct (find_worker W W (m_status s) (m_cyc s)) as [[w|] cyc'].
  - destruct (c_I c =? 0); [reflexivity|].
    destruct (c_I c <=? m_ny s mod c_I c + 1 + W * c_P c) eqn:E1.
    + apply Nat.leb_le in E1.
      replace (c_I c <=? m_ny s mod c_I c + 1 + W * c_P c + W) with true by (symmetry; apply Nat.leb_le; lia).
      reflexivity.
    + reflexivity.
  - destruct (c_I c =? 0); [reflexivity|].
    destruct (c_I c <=? m_ny s mod c_I c + 1 + W * c_P c); reflexivity.
Qed.

Definition upd (f : nat -> nat) (n x : nat) : nat -> nat := fun t => if t =? n then x else f t.

Lemma upd_eq f n x : upd f n x n = x.
Proof. unfold upd. rewrite Nat.eqb_refl. reflexivity. Qed.
Lemma upd_neq f n x t : t <> n -> upd f n x t = f t.
Proof. unfold upd. intros H. destruct (Nat.eqb_spec t n); [contradiction | reflexivity]. Qed.

Lemma cnt_adv_le j R cc R' c' v : Adv j R cc R' c' -> j <= W -> cc < W -> c' < W -> cnt R cc v <= cnt R' c' v.
Proof. unfold Adv. intros HA Hj H1 H2. b2n_tac. Qed.

Lemma inactive_beyond gw rd a R s : InvC gw rd a R s ->
  forall v, v < W -> nth v (m_status s) false = false -> nb B v < cnt R (m_cyc s) v.
Proof.
  intros H v Hv Hs. destruct (c_d _ _ _ _ _ H v Hv) as (_ & _ & D). unfold act in D. rewrite Hs in D. lia.
Qed.

Lemma wq_put_some_eq s w c' : w < length (m_workers s) ->
  wq (put_some s w c') w = wq s w ++ [{| t_idx := m_send s; t_index := []; t_snap := fl_snap s |}].
Proof. intros H. unfold wq, put_some. cbn [m_workers]. rewrite nth_set_nth_eq by exact H. reflexivity. Qed.

Lemma wq_put_some_neq s w c' v : v <> w -> wq (put_some s w c') v = wq s v.
Proof. intros H. unfold wq, put_some. cbn [m_workers]. rewrite nth_set_nth_neq by (intros E; apply H; symmetry; exact E). reflexivity. Qed.

Lemma put_some_inv gw rd a R s w' R' c' j :
  InvC gw rd a R s -> m_outst s + ndat (m_info s) < W * c_P c ->
  w' < W -> act s w' = true -> c' < W -> 1 <= j <= W -> Adv j R (m_cyc s) R' c' ->
  cnt R' c' w' = S (cnt R (m_cyc s) w') ->
  (forall v, v < W -> v <> w' -> cnt R' c' v <> cnt R (m_cyc s) v -> act s v = false) ->
  InvC (upd gw (m_send s) w') (upd rd (m_send s) (dsp a s w')) a R' (put_some s w' c').
Proof.
  intros H Hroom Hw' Hact Hc' Hj HA Hcw Hoth.
  set (n := m_send s) in *.
  assert (w' < length (m_workers s)) as Hwl by (rewrite (c_wlen _ _ _ _ _ H); exact Hw').
  assert (info_get (m_info s) n = None) as Hfresh.
  { pose proof (c_info _ _ _ _ _ H n) as G. destruct (info_get (m_info s) n) as [[w r]|]; [|reflexivity]. unfold n in G. lia. }
  assert (forall t, info_get (m_info s ++ [(n, (w', @None (result * option wsave)))]) t =
                    if t =? n then Some (w', None) else info_get (m_info s) t) as Hget.
  { intros t. rewrite info_get_app. destruct (Nat.eqb_spec t n) as [->|Hne].
    - rewrite Hfresh, Nat.eqb_refl. reflexivity.
    - destruct (info_get (m_info s) t); [reflexivity|]. destruct (Nat.eqb_spec n t); [lia | reflexivity]. }
  assert (dsp a s w' = cnt R (m_cyc s) w') as Hdw.
  { destruct (c_d _ _ _ _ _ H w' Hw') as (_ & _ & D). rewrite Hact in D. exact D. }
  assert (forall v, dsp a (put_some s w' c') v = dsp a s v + b2n (v =? w')) as Hdsp.
  { intros v. unfold dsp. destruct (Nat.eqb_spec v w') as [->|Hne].
    - rewrite wq_put_some_eq by exact Hwl. rewrite app_length. cbn. lia.
    - rewrite wq_put_some_neq by exact Hne. cbn. lia. }
  assert (forall t, t < n -> rd t < R \/ (rd t = R /\ gw t < m_cyc s)) as Hbelow.
  { intros t Ht. pose proof (c_gw _ _ _ _ _ H t Ht) as Hg.
    destruct (c_d _ _ _ _ _ H (gw t) Hg) as (_ & D2 & D3). specialize (D2 t Ht eq_refl).
    assert (dsp a s (gw t) <= cnt R (m_cyc s) (gw t)) as Hle by (destruct (act s (gw t)); lia).
    revert D2 Hle. generalize (dsp a s (gw t)). intros d. b2n_tac. }
  constructor.
  - cbn [put_some m_rcvd m_send]. pose proof (c_kn _ _ _ _ _ H). lia.
  - exact Hc'.
  - cbn [put_some m_workers]. rewrite set_nth_length. exact (c_wlen _ _ _ _ _ H).
  - exact (c_slen _ _ _ _ _ H).
  - cbn [put_some m_send]. intros t Ht. destruct (Nat.eq_dec t n) as [->|Hne]; [rewrite upd_eq; exact Hw'|].
    rewrite upd_neq by exact Hne. apply (c_gw _ _ _ _ _ H). fold n. lia.
  - cbn [put_some m_send]. intros t t' Htt Ht'. fold n in Ht'.
    rewrite (upd_neq gw n w' t), (upd_neq rd n _ t) by lia.
    destruct (Nat.eq_dec t' n) as [->|Hne].
    + rewrite !upd_eq. rewrite Hdw. destruct (Hbelow t Htt) as [Hb|Hb]; [b2n_tac|]. pose proof (c_cyc _ _ _ _ _ H). b2n_tac.
    + rewrite !upd_neq by exact Hne. apply (c_mono _ _ _ _ _ H); [exact Htt | fold n; lia].
  - cbn [put_some m_info]. apply wf_app; [exact (c_wf _ _ _ _ _ H) | exact Hfresh].
  - intros t. cbn [put_some m_info m_rcvd m_send]. fold n. rewrite Hget.
    destruct (Nat.eqb_spec t n) as [->|Hne].
    + rewrite !upd_eq. pose proof (c_kn _ _ _ _ _ H). fold n in H0. split; [lia|]. split; [reflexivity|]. left. split; [reflexivity|].
      unfold dsp. lia.
    + pose proof (c_info _ _ _ _ _ H t) as G. fold n in G.
      destruct (info_get (m_info s) t) as [[w r]|]; [|lia].
      destruct G as (G1 & G2 & G3). rewrite !upd_neq by exact Hne. split; [lia|]. split; [exact G2 | exact G3].
  - intros t Ht. cbn [put_some m_rcvd] in Ht. pose proof (c_kn _ _ _ _ _ H). fold n in H0.
    rewrite !upd_neq by lia. apply (c_passed _ _ _ _ _ H t Ht).
  - intros v Hv. cbn [put_some m_send]. fold n. destruct (c_q _ _ _ _ _ H v Hv) as [Qs Qm]. fold n in Qm.
    destruct (Nat.eq_dec v w') as [->|Hne].
    + rewrite wq_put_some_eq by exact Hwl. rewrite map_app. cbn [map t_idx]. fold n. split.
      * apply sorted_from_app; [exact Qs | lia|]. intros y Hy. apply Qm in Hy. lia.
      * intros t. rewrite in_app_iff. cbn [In]. destruct (Nat.eq_dec t n) as [->|Hnt].
        -- rewrite !upd_eq. split; [intros _|intros _; right; left; reflexivity]. split; [lia|]. split; [reflexivity|]. unfold dsp. lia.
        -- rewrite !upd_neq by exact Hnt. rewrite Qm. split; [intros [Ha|[Ha|[]]]; [|lia]|intros Ha; left]; intuition lia.
    + rewrite wq_put_some_neq by exact Hne. split; [exact Qs|]. intros t. rewrite Qm.
      destruct (Nat.eq_dec t n) as [->|Hnt]; [rewrite !upd_eq; intuition lia | rewrite !upd_neq by exact Hnt; intuition lia].
  - intros v Hv. destruct (c_fut _ _ _ _ _ H v Hv) as (F1 & F2 & F3 & F4).
    unfold act. cbn [put_some m_workers m_status]. destruct (Nat.eq_dec v w') as [->|Hne].
    + rewrite nth_set_nth_eq by exact Hwl. cbn [wk_dead]. split; [|auto].
      eapply (fut_congr c Hkind B); [| |exact F1]; reflexivity.
    + rewrite nth_set_nth_neq by (intros E; apply Hne; symmetry; exact E). auto.
  - intros v Hv. rewrite Hdsp. cbn [put_some m_send m_cyc]. fold n.
    destruct (c_d _ _ _ _ _ H v Hv) as (D1 & D2 & D3). fold n in D1, D2.
    replace (act (put_some s w' c') v) with (act s v) by reflexivity.
    destruct (Nat.eqb_spec v w') as [->|Hne]; cbn [b2n].
    + split; [|split].
      * intros x Hx. destruct (Nat.eq_dec x (dsp a s w')) as [->|Hnx].
        -- exists n. rewrite !upd_eq. auto.
        -- destruct (D1 x ltac:(lia)) as (t & T1 & T2 & T3). exists t. rewrite !upd_neq by lia. split; [lia|auto].
      * intros t Ht Hg. destruct (Nat.eq_dec t n) as [->|Hnt]; [rewrite upd_eq; lia|].
        rewrite upd_neq in Hg |- * by exact Hnt. specialize (D2 t ltac:(lia) Hg). lia.
      * rewrite Hact in *. lia.
    + rewrite Nat.add_0_r. split; [|split].
      * intros x Hx. destruct (D1 x Hx) as (t & T1 & T2 & T3). exists t. rewrite !upd_neq by lia. split; [lia|auto].
      * intros t Ht Hg. destruct (Nat.eq_dec t n) as [->|Hnt]; [rewrite upd_eq in Hg; congruence|].
        rewrite upd_neq in Hg |- * by exact Hnt. apply D2; [lia | exact Hg].
      * pose proof (cnt_adv_le j R (m_cyc s) R' c' v HA ltac:(lia) (c_cyc _ _ _ _ _ H) Hc') as Hmono.
        destruct (act s v) eqn:Ev; [|lia].
        destruct (Nat.eq_dec (cnt R' c' v) (cnt R (m_cyc s) v)) as [E|E]; [lia|].
        specialize (Hoth v Hv Hne E). congruence.
  - destruct (c_out _ _ _ _ _ H) as [O1 O2]. cbn [put_some m_outst m_workers m_info]. split.
    + pose proof (qsum_set_nth (m_workers s) w'
        {| wk_pos := wk_pos (nth w' (m_workers s) wk_fresh); wk_ended := wk_ended (nth w' (m_workers s) wk_fresh);
           wk_dead := wk_dead (nth w' (m_workers s) wk_fresh);
           wk_q := wk_q (nth w' (m_workers s) wk_fresh) ++ [{| t_idx := m_send s; t_index := []; t_snap := fl_snap s |}] |} Hwl) as Hq.
      cbn [wk_q] in Hq. rewrite app_length in Hq. cbn [length] in Hq. lia.
    + rewrite ndat_app. cbn. lia.
  - exact (c_assert _ _ _ _ _ H).
  - exact (c_a0 _ _ _ _ _ H).
  - cbn [put_some m_send]. intros t Ht. destruct (Nat.eq_dec t n) as [->|Hne].
    + rewrite !upd_eq. rewrite Hdw. pose proof (c_ptr _ _ _ _ _ H) as Hp. pose proof (c_cyc _ _ _ _ _ H). revert Hp. b2n_tac.
    + rewrite !upd_neq by exact Hne. apply (c_base _ _ _ _ _ H). fold n. lia.
  - cbn [put_some m_cyc]. pose proof (c_ptr _ _ _ _ _ H) as Hp. unfold Adv in HA. lia.
Qed.

Lemma put_none_inv gw rd a R s R' c' :
  InvC gw rd a R s -> c' < W -> Adv W R (m_cyc s) R' c' -> (forall v, v < W -> act s v = false) ->
  InvC gw rd a R' (put_none s c').
Proof.
  intros H Hc' HA Hall. constructor; try (first [exact (c_kn _ _ _ _ _ H) | exact Hc' | exact (c_wlen _ _ _ _ _ H)
    | exact (c_slen _ _ _ _ _ H) | exact (c_gw _ _ _ _ _ H) | exact (c_mono _ _ _ _ _ H) | exact (c_wf _ _ _ _ _ H)
    | exact (c_info _ _ _ _ _ H) | exact (c_passed _ _ _ _ _ H) | exact (c_q _ _ _ _ _ H) | exact (c_fut _ _ _ _ _ H)
    | exact (c_out _ _ _ _ _ H) | exact (c_assert _ _ _ _ _ H) | exact (c_a0 _ _ _ _ _ H) | exact (c_base _ _ _ _ _ H)]).
  2:{ cbn [put_none m_cyc]. unfold Adv in HA. lia. }
  intros v Hv. destruct (c_d _ _ _ _ _ H v Hv) as (D1 & D2 & D3). split; [exact D1|]. split; [exact D2|].
  change (act (put_none s c') v) with (act s v). change (dsp a (put_none s c') v) with (dsp a s v). cbn [put_none m_cyc].
  rewrite (Hall v Hv) in *.
  pose proof (cnt_adv_le W R (m_cyc s) R' c' v HA ltac:(lia) (c_cyc _ _ _ _ _ H) Hc'). lia.
Qed.

(* one _try_put_index: the invariant and what is still to be delivered are kept; the effect on the window is explicit *)
Lemma try_put_iter gw rd a R s rest :
  InvC gw rd a R s -> Rest gw rd R s rest -> m_outst s + ndat (m_info s) < W * c_P c ->
  let s' := try_put_index c s in
  same_rest s s' /\ m_status s' = m_status s /\
  ((exists w' R' j, s' = put_some s w' (m_cyc s') /\ w' < W /\ act s w' = true /\ 1 <= j <= W /\ Adv j R (m_cyc s) R' (m_cyc s') /\
                    InvC (upd gw (m_send s) w') (upd rd (m_send s) (dsp a s w')) a R' s' /\
                    Rest (upd gw (m_send s) w') (upd rd (m_send s) (dsp a s w')) R' s' rest) \/
   (exists R', s' = put_none s (m_cyc s') /\ (forall v, v < W -> act s v = false) /\ InvC gw rd a R' s' /\ Rest gw rd R' s' rest)).
Proof.
  intros H HR Hroom. cbn zeta.
  rewrite try_put_eq by (first [lia | exact (c_assert _ _ _ _ _ H)]).
  pose proof (fw_spec (m_status s) W R (m_cyc s) (c_cyc _ _ _ _ _ H) (le_n _) (inactive_beyond _ _ _ _ _ H)) as F.
  destruct (find_worker W W (m_status s) (m_cyc s)) as [[w'|] c'].
  - destruct F as (R' & j & Hj & HA & Hc' & Hw' & Hact & Href & Hcw & Hoth).
    split; [repeat split; reflexivity|]. split; [reflexivity|]. left. exists w', R', j.
    cbn [put_some m_cyc]. split; [reflexivity|]. split; [exact Hw'|]. split; [exact Hact|]. split; [exact Hj|]. split; [exact HA|].
    split; [apply (put_some_inv gw rd a R s w' R' c' j); auto|].
    unfold Rest in *. cbn [put_some m_rcvd m_send m_cyc].
    rewrite wdat_snoc by exact (c_kn _ _ _ _ _ H). rewrite !upd_eq.
    rewrite (wdat_ext gw rd) by (intros t Ht; rewrite !upd_neq by lia; auto).
    rewrite HR, Href, <- app_assoc.
    destruct (c_d _ _ _ _ _ H w' Hw') as (_ & _ & D). unfold act in D. rewrite Hact in D. rewrite D. reflexivity.
  - destruct F as (R' & HA & Hc' & Href & Hoth).
    split; [repeat split; reflexivity|]. split; [reflexivity|]. right. exists R'.
    assert (forall v, v < W -> act s v = false) as Hall.
    { intros v Hv. apply Hoth; [exact Hv|]. pose proof (c_cyc _ _ _ _ _ H). unfold Adv in HA. b2n_tac. }
    cbn [put_none m_cyc]. split; [reflexivity|]. split; [exact Hall|]. split; [apply (put_none_inv gw rd a R s R' c'); assumption|].
    unfold Rest in *. cbn [put_none m_rcvd m_send m_cyc]. rewrite HR, Href. reflexivity.
Qed.

(* ------------------------------------------------------------------ *)
(* the invariant depends on _task_info only as a finite map *)
Definition agree (s s' : ms) : Prop :=
  m_send s' = m_send s /\ m_rcvd s' = m_rcvd s /\ m_outst s' = m_outst s /\ m_status s' = m_status s /\ m_cyc s' = m_cyc s /\
  m_workers s' = m_workers s /\ m_assert s' = m_assert s.

Lemma InvC_ext gw rd a R s s' : InvC gw rd a R s -> agree s s' -> wf_info (m_info s') ->
  (forall t, info_get (m_info s') t = info_get (m_info s) t) -> ndat (m_info s') = ndat (m_info s) -> InvC gw rd a R s'.
Proof.
  intros H (E1 & E2 & E3 & E4 & E5 & E6 & E7) Hwf Hget Hnd.
  assert (forall w, wq s' w = wq s w) as Hq by (intros w; unfold wq; rewrite E6; reflexivity).
  assert (forall w, dsp a s' w = dsp a s w) as Hd by (intros w; unfold dsp; rewrite Hq; reflexivity).
  assert (forall w, act s' w = act s w) as Ha by (intros w; unfold act; rewrite E4; reflexivity).
  constructor; rewrite ?E1, ?E2, ?E3, ?E4, ?E5, ?E6, ?E7.
  - exact (c_kn _ _ _ _ _ H).
  - exact (c_cyc _ _ _ _ _ H).
  - exact (c_wlen _ _ _ _ _ H).
  - exact (c_slen _ _ _ _ _ H).
  - exact (c_gw _ _ _ _ _ H).
  - exact (c_mono _ _ _ _ _ H).
  - exact Hwf.
  - intros t. rewrite Hget. exact (c_info _ _ _ _ _ H t).
  - intros t Ht. rewrite Ha. exact (c_passed _ _ _ _ _ H t Ht).
  - intros w Hw. rewrite Hq. exact (c_q _ _ _ _ _ H w Hw).
  - intros w Hw. rewrite Ha. exact (c_fut _ _ _ _ _ H w Hw).
  - intros w Hw. rewrite Hd, Ha. exact (c_d _ _ _ _ _ H w Hw).
  - rewrite Hnd. exact (c_out _ _ _ _ _ H).
  - exact (c_assert _ _ _ _ _ H).
  - exact (c_a0 _ _ _ _ _ H).
  - exact (c_base _ _ _ _ _ H).
  - exact (c_ptr _ _ _ _ _ H).
Qed.

Lemma Rest_agree gw rd R s s' rest : Rest gw rd R s rest -> agree s s' -> Rest gw rd R s' rest.
Proof. intros H (E1 & E2 & _ & _ & E5 & _). unfold Rest in *. rewrite E1, E2, E5. exact H. Qed.

Lemma Act_agree gw rd a s s' : Act gw rd a s -> agree s s' -> Act gw rd a s'.
Proof.
  intros H (E1 & E2 & _ & E4 & _ & E6 & _). unfold Act, act, dsp, wq in *. rewrite E1, E2, E4, E6. exact H.
Qed.

(* ------------------------------------------------------------------ *)
(* the receive pointer passes task k = m_rcvd (handed out, an end-of-shard notice consumed, or a retired worker's task skipped) *)
Definition passed (s : ms) (ws : list wsave) : ms := upd_core s (S (m_rcvd s)) (info_del (m_info s) (m_rcvd s)) ws.

Lemma pass_inv gw rd a R s ws w r : InvC gw rd a R s -> m_rcvd s < m_send s ->
  info_get (m_info s) (m_rcvd s) = Some (w, r) -> (r <> None \/ act s w = false) ->
  InvC gw rd a R (passed s ws).
Proof.
  intros H Hkn Hk Hr. set (k := m_rcvd s) in *.
  pose proof (c_wf _ _ _ _ _ H) as Hwf.
  assert (forall t, info_get (info_del (m_info s) k) t = if t =? k then None else info_get (m_info s) t) as Hget.
  { intros t. destruct (Nat.eqb_spec t k) as [->|Hne]; [apply info_get_del_eq, Hwf | apply info_get_del_neq; lia]. }
  pose proof (c_info _ _ _ _ _ H k) as Gk. rewrite Hk in Gk. destruct Gk as (_ & Gw & Gr).
  constructor; unfold passed; cbn [upd_core m_send m_rcvd m_info m_outst m_status m_cyc m_workers m_assert]; fold k.
  - lia.
  - exact (c_cyc _ _ _ _ _ H).
  - exact (c_wlen _ _ _ _ _ H).
  - exact (c_slen _ _ _ _ _ H).
  - exact (c_gw _ _ _ _ _ H).
  - exact (c_mono _ _ _ _ _ H).
  - apply wf_del, Hwf.
  - intros t. rewrite Hget. destruct (Nat.eqb_spec t k) as [->|Hne]; [lia|].
    pose proof (c_info _ _ _ _ _ H t) as G. fold k in G. destruct (info_get (m_info s) t) as [[w0 r0]|]; [|lia].
    destruct G as (G1 & G2 & G3). split; [lia|]. split; assumption.
  - intros t Ht. destruct (Nat.eq_dec t k) as [->|Hne]; [|apply (c_passed _ _ _ _ _ H); fold k; lia].
    change (act (upd_core s (S k) (info_del (m_info s) k) ws) (gw k)) with (act s (gw k)).
    rewrite <- Gw. destruct Gr as [[-> Ga]|(st & -> & Ga)]; [right; destruct Hr as [Hr|Hr]; [congruence | exact Hr] | left; exact Ga].
  - exact (c_q _ _ _ _ _ H).
  - exact (c_fut _ _ _ _ _ H).
  - exact (c_d _ _ _ _ _ H).
  - destruct (c_out _ _ _ _ _ H) as [O1 O2]. split; [exact O1|]. pose proof (ndat_del _ _ _ Hk). lia.
  - exact (c_assert _ _ _ _ _ H).
  - exact (c_a0 _ _ _ _ _ H).
  - exact (c_base _ _ _ _ _ H).
  - exact (c_ptr _ _ _ _ _ H).
Qed.

Lemma pass_rest gw rd R s ws rest : Rest gw rd R s rest -> m_rcvd s < m_send s ->
  exists rest', rest = dat B (gw (m_rcvd s)) (rd (m_rcvd s)) ++ rest' /\ Rest gw rd R (passed s ws) rest'.
Proof.
  intros HR Hkn. unfold Rest in *. rewrite wdat_cons in HR by exact Hkn. rewrite <- app_assoc in HR.
  eexists. split; [exact HR|]. reflexivity.
Qed.

(* an active worker other than the one of the first task has a task later in the window *)
Lemma act_other gw rd a R s v : InvC gw rd a R s -> Act gw rd a s -> m_rcvd s < m_send s ->
  v < W -> act s v = true -> v <> gw (m_rcvd s) ->
  S (m_rcvd s) < m_send s /\ rd (S (m_rcvd s)) + b2n (v <? gw (S (m_rcvd s))) < dsp a s v.
Proof.
  intros H (A1 & _ & _) Hkn Hv Hact Hne. set (k := m_rcvd s) in *.
  specialize (A1 Hkn v Hv Hact).
  destruct (c_d _ _ _ _ _ H v Hv) as (D1 & _ & _).
  destruct (D1 (rd k + b2n (v <? gw k))) as (t & T1 & T2 & T3).
  { split; [|exact A1]. pose proof (c_base _ _ _ _ _ H k Hkn) as Hb. fold k in Hb. unfold a0. revert Hb. b2n_tac. }
  assert (k < t) as Hkt.
  { destruct (Nat.lt_trichotomy t k) as [Hlt|[->|Hgt]]; [|congruence|exact Hgt].
    pose proof (c_mono _ _ _ _ _ H t k Hlt Hkn) as M. rewrite T2, T3 in M. b2n_tac. }
  split; [lia|].
  destruct (Nat.eq_dec t (S k)) as [->|Hne2]; [rewrite T2, T3; b2n_tac|].
  pose proof (c_mono _ _ _ _ _ H (S k) t ltac:(lia) T1) as M. rewrite T2, T3 in M. b2n_tac.
Qed.

Lemma pass_act_noput gw rd a R s ws : InvC gw rd a R s -> Act gw rd a s -> m_rcvd s < m_send s ->
  act s (gw (m_rcvd s)) = false -> Act gw rd a (passed s ws).
Proof.
  intros H HA Hkn Hina. unfold Act. change (m_rcvd (passed s ws)) with (S (m_rcvd s)). change (m_send (passed s ws)) with (m_send s).
  split; [|split].
  - intros _ v Hv Hact. change (act (passed s ws) v) with (act s v) in Hact. change (dsp a (passed s ws) v) with (dsp a s v).
    apply (act_other gw rd a R s v H HA Hkn Hv Hact). congruence.
  - intros E v Hv. change (act (passed s ws) v) with (act s v). destruct (act s v) eqn:Ev; [|reflexivity].
    destruct (act_other gw rd a R s v H HA Hkn Hv Ev ltac:(congruence)). lia.
  - exact (proj2 (proj2 HA)).
Qed.

(* the first task is handed out and one more task is put: the worker of the handed-out task, if it is still active and has
   no other task in the window, is the one the new task goes to *)
Lemma act_after_put_some gw rd a R s ws w' R' c' j :
  InvC gw rd a R s -> Act gw rd a s -> m_rcvd s < m_send s ->
  w' < W -> act s w' = true -> c' < W -> 1 <= j <= W -> Adv j R (m_cyc s) R' c' ->
  InvC (upd gw (m_send s) w') (upd rd (m_send s) (dsp a s w')) a R' (put_some (passed s ws) w' c') ->
  Act (upd gw (m_send s) w') (upd rd (m_send s) (dsp a s w')) a (put_some (passed s ws) w' c').
Proof.
  intros H HA Hkn Hw' Hactw Hc' Hj HAdv H2.
  set (k := m_rcvd s) in *. set (n := m_send s) in *. set (s2 := put_some (passed s ws) w' c') in *.
  set (gw' := upd gw n w') in *. set (rd' := upd rd n (dsp a s w')) in *.
  assert (w' < length (m_workers s)) as Hwl by (rewrite (c_wlen _ _ _ _ _ H); exact Hw').
  assert (forall v, dsp a s2 v = dsp a s v + b2n (v =? w')) as Hdsp.
  { intros v. unfold dsp, s2. destruct (Nat.eqb_spec v w') as [->|Hne].
    - rewrite wq_put_some_eq by exact Hwl. rewrite app_length. cbn. unfold wq, passed. cbn. lia.
    - rewrite wq_put_some_neq by exact Hne. cbn. unfold wq, passed. cbn. lia. }
  assert (forall v, act s2 v = act s v) as Hacts by reflexivity.
  assert (m_rcvd s2 = S k) as Hr2 by reflexivity. assert (m_send s2 = S n) as Hn2 by reflexivity.
  pose proof (c_cyc _ _ _ _ _ H) as Hcyc.
  unfold Act. rewrite Hr2, Hn2. split; [|split; [lia | destruct HA as (_ & _ & HA3); fold n in HA3; lia]].
  intros _ v Hv Hact. rewrite Hacts in Hact. rewrite Hdsp.
  destruct (Nat.eq_dec v (gw k)) as [->|Hne].
  - (* the worker of the task just handed out *)
    set (u := gw k) in *.
    destruct (c_d _ _ _ _ _ H u Hv) as (D1 & D2 & D3). rewrite Hact in D3.
    pose proof (D2 k Hkn eq_refl) as Hrk.
    destruct (Nat.eq_dec (dsp a s u) (S (rd k))) as [Elast|Emore].
    + (* it has no other task: the new task must go to it *)
      assert (w' = u) as ->.
      { destruct (Nat.eq_dec w' u) as [E|Hnw]; [exact E|exfalso].
        destruct (c_d _ _ _ _ _ H w' Hw') as (_ & _ & D3'). rewrite Hactw in D3'.
        destruct HA as (A1 & _ & _). specialize (A1 Hkn w' Hw' Hactw). fold k u in A1.
        destruct (c_d _ _ _ _ _ H2 u Hv) as (_ & _ & E3). rewrite Hacts, Hact, Hdsp in E3. cbn [put_some m_cyc] in E3.
        destruct (c_d _ _ _ _ _ H2 w' Hw') as (_ & _ & E3'). rewrite Hacts, Hactw, Hdsp in E3'. cbn [put_some m_cyc] in E3'.
        rewrite Nat.eqb_refl in E3'. destruct (Nat.eqb_spec u w') as [E|_]; [congruence|].
        unfold s2 in E3, E3'. cbn [put_some m_cyc] in E3, E3'.
        unfold Adv in HAdv. clear - Elast A1 D3 D3' E3 E3' HAdv Hcyc Hc' Hj Hv Hw' Hnw. b2n_tac. }
      rewrite Nat.eqb_refl. cbn [b2n].
      destruct (Nat.eq_dec (S k) n) as [E|Hlt].
      * unfold rd', gw'. rewrite E, !upd_eq. rewrite Nat.ltb_irrefl. cbn. lia.
      * pose proof (c_mono _ _ _ _ _ H2 (S k) n ltac:(lia) ltac:(rewrite Hn2; lia)) as M.
        unfold rd', gw' in M |- *. rewrite !upd_eq in M. rewrite !(upd_neq _ n _ (S k)) in M |- * by lia. b2n_tac.
    + destruct (D1 (S (rd k))) as (t & T1 & T2 & T3). { unfold a0. destruct (u <? cyc0); lia. } fold n in T1.
      assert (k < t) as Hkt.
      { destruct (Nat.lt_trichotomy t k) as [Hlt|[->|Hgt]]; [|lia|exact Hgt].
        pose proof (c_mono _ _ _ _ _ H t k Hlt Hkn) as M. rewrite T2, T3 in M. lia. }
      unfold rd', gw'. rewrite !(upd_neq _ n _ (S k)) by lia.
      destruct (Nat.eq_dec t (S k)) as [->|Hne2]; [rewrite T2, T3; b2n_tac|].
      pose proof (c_mono _ _ _ _ _ H (S k) t ltac:(lia) T1) as M. rewrite T2, T3 in M. b2n_tac.
  - destruct (act_other gw rd a R s v H HA Hkn Hv Hact Hne) as [Hlt Hx]. fold k n in Hlt, Hx.
    unfold rd', gw'. rewrite !(upd_neq _ n _ (S k)) by lia. lia.
Qed.

(* ------------------------------------------------------------------ *)
(* a result arrives: worker w2 answers the oldest task in its queue *)
Definition isstop (r : result) : bool := match r with RStop => true | _ => false end.
Definition isdata (r : result) : bool := match r with RData _ => true | _ => false end.

Definition arrived (s : ms) (w2 : nat) (k' : wk) (idx : nat) (r : result) (st : option wsave) : ms :=
  {| m_send := m_send s; m_rcvd := m_rcvd s; m_info := info_set (m_info s) idx (w2, Some (r, st)); m_outst := m_outst s - 1;
     m_status := if isstop r then set_nth (m_status s) w2 false else m_status s;
     m_cyc := m_cyc s; m_ny := m_ny s; m_siy := m_siy s; m_samp := m_samp s; m_msnaps := m_msnaps s;
     m_last := m_last s; m_wsnap := m_wsnap s; m_snapshot := m_snapshot s; m_finished := m_finished s;
     m_workers := set_nth (m_workers s) w2 k'; m_assert := m_assert s |}.

Definition kpop (s : ms) (w2 : nat) (q' : list task) : wk :=
  let k := nth w2 (m_workers s) wk_fresh in {| wk_pos := wk_pos k; wk_ended := wk_ended k; wk_dead := wk_dead k; wk_q := q' |}.

Lemma arrive_unfold s w2 tk q' : wq s w2 = tk :: q' ->
  arrive c s w2 =
  let '(r, st, k') := worker_fetch c w2 (kpop s w2 q') tk in
  ((t_idx tk, r, st),
   {| m_send := m_send s; m_rcvd := m_rcvd s; m_info := m_info s; m_outst := m_outst s - 1; m_status := m_status s;
      m_cyc := m_cyc s; m_ny := m_ny s; m_siy := m_siy s; m_samp := m_samp s; m_msnaps := m_msnaps s;
      m_last := m_last s; m_wsnap := m_wsnap s; m_snapshot := m_snapshot s; m_finished := m_finished s;
      m_workers := set_nth (m_workers s) w2 k'; m_assert := m_assert s |}).
Proof. unfold wq, arrive, kpop. intros ->. reflexivity. Qed.

Lemma nth_set_false st w v : w < length st -> nth v (set_nth st w false) false = if v =? w then false else nth v st false.
Proof.
  intros H. destruct (Nat.eqb_spec v w) as [->|Hne]; [apply nth_set_nth_eq, H | apply nth_set_nth_neq; intros E; apply Hne; symmetry; exact E].
Qed.

Lemma sorted_from_nodup lo l : sorted_from lo l -> NoDup l.
Proof.
  revert lo. induction l as [|x l IH]; intros lo H; [constructor|]. destruct H as [_ H]. constructor; [|eapply IH; exact H].
  intros Hin. pose proof (sorted_from_ge _ _ _ H Hin). lia.
Qed.

Lemma arrive_inv gw rd a R s w2 tk q' : InvC gw rd a R s -> w2 < W -> wq s w2 = tk :: q' ->
  wk_dead (nth w2 (m_workers s) wk_fresh) = false ->
  let '(r, st, k') := worker_fetch c w2 (kpop s w2 q') tk in
  r = ans B w2 (a w2) /\ m_rcvd s <= t_idx tk < m_send s /\ gw (t_idx tk) = w2 /\ rd (t_idx tk) = a w2 /\
  info_get (m_info s) (t_idx tk) = Some (w2, None) /\ 1 <= m_outst s /\
  (isstop r = true -> act s w2 = true) /\
  InvC gw rd (upd a w2 (S (a w2))) R (arrived s w2 k' (t_idx tk) r st) /\
  (forall v, dsp (upd a w2 (S (a w2))) (arrived s w2 k' (t_idx tk) r st) v = dsp a s v) /\
  ndat (m_info (arrived s w2 k' (t_idx tk) r st)) = ndat (m_info s) + b2n (isdata r).
Proof.
  intros H Hw2 Hq Hdead.
  destruct (queue_head gw rd a R s w2 tk q' H Hw2 Hq) as (Hidx & Hgw & Hrd).
  set (idx := t_idx tk) in *.
  destruct (c_fut _ _ _ _ _ H w2 Hw2) as (F1 & F2 & F3 & F4).
  assert (Fut c B w2 (a w2) (kpop s w2 q')) as Fk by (eapply (fut_congr c Hkind B); [| |exact F1]; reflexivity).
  pose proof (fut_fetch c B w2 (a w2) (kpop s w2 q') tk Fk) as FF.
  pose proof (fetch_dead c Hkind w2 (kpop s w2 q') tk) as FD.
  destruct (worker_fetch c w2 (kpop s w2 q') tk) as [[r st] k'].
  destruct FF as [Hr Fk']. destruct FD as [Hd' Hq'].
  rewrite Hdead in F2. symmetry in F2. apply Nat.ltb_ge in F2.
  assert (act s w2 = true) as Hact2 by (rewrite F4; replace (nb B w2 <? a w2) with false by (symmetry; apply Nat.ltb_ge; exact F2); reflexivity).
  assert (isstop r = (nb B w2 <? S (a w2))) as Hstop.
  { rewrite Hr. destruct (Nat.ltb_spec (nb B w2) (S (a w2))) as [Hl|Hl].
    - rewrite (ans_stop B w2 (a w2)) by lia. reflexivity.
    - destruct (ans_data W B HW w2 (a w2) ltac:(lia)) as (b & -> & _). reflexivity. }
  assert (w2 < length (m_workers s)) as Hwl by (rewrite (c_wlen _ _ _ _ _ H); exact Hw2).
  assert (w2 < length (m_status s)) as Hsl by (rewrite (c_slen _ _ _ _ _ H); exact Hw2).
  (* the entry of idx *)
  assert (~ idx < m_rcvd s) as Hnotpassed.
  { intros Hlt. destruct (c_passed _ _ _ _ _ H idx Hlt) as [Hp|Hp]; rewrite Hgw in Hp; [lia | congruence]. }
  pose proof (c_info _ _ _ _ _ H idx) as Gi.
  destruct (info_get (m_info s) idx) as [[wi ri]|] eqn:Ei; [|lia].
  destruct Gi as (Gi1 & Gi2 & Gi3). rewrite Hgw in Gi2. subst wi.
  destruct Gi3 as [[-> _]|(st0 & _ & Hx)]; [|lia].
  pose proof (c_wf _ _ _ _ _ H) as Hwf.
  pose proof (qsum_set_nth (m_workers s) w2 k' Hwl) as Hqs. fold (wq s w2) in Hqs. rewrite Hq, Hq' in Hqs. cbn [kpop wk_q length] in Hqs.
  destruct (c_out _ _ _ _ _ H) as [O1 O2].
  set (a' := upd a w2 (S (a w2))).
  assert (forall v, v <> w2 -> a' v = a v) as Ha'n by (intros v Hv; unfold a'; apply upd_neq, Hv).
  assert (a' w2 = S (a w2)) as Ha'e by (unfold a'; apply upd_eq).
  assert (forall v, wq (arrived s w2 k' idx r st) v = if v =? w2 then q' else wq s v) as Hwq.
  { intros v. unfold wq, arrived. cbn [m_workers]. destruct (Nat.eqb_spec v w2) as [->|Hne].
    - rewrite nth_set_nth_eq by exact Hwl. exact Hq'.
    - rewrite nth_set_nth_neq by (intros E; apply Hne; symmetry; exact E). reflexivity. }
  assert (forall v, dsp a' (arrived s w2 k' idx r st) v = dsp a s v) as Hdsp.
  { intros v. unfold dsp. rewrite Hwq. destruct (Nat.eqb_spec v w2) as [->|Hne]; [rewrite Ha'e, Hq; cbn; lia | rewrite Ha'n by exact Hne; reflexivity]. }
  assert (forall v, act (arrived s w2 k' idx r st) v = if isstop r && (v =? w2) then false else act s v) as Hact.
  { intros v. unfold act, arrived. cbn [m_status]. destruct (isstop r); [|reflexivity]. rewrite nth_set_false by exact Hsl.
    destruct (v =? w2); reflexivity. }
  (* other tasks of w2 have a later round *)
  assert (forall t, t < m_send s -> gw t = w2 -> t <> idx -> rd t <> a w2) as Hother.
  { intros t Ht Hg Hne Hrt. destruct (Nat.lt_trichotomy t idx) as [Hlt|[E|Hgt]]; [|contradiction|].
    - pose proof (c_mono _ _ _ _ _ H t idx Hlt Hidx). lia.
    - pose proof (c_mono _ _ _ _ _ H idx t Hgt Ht). lia. }
  split; [exact Hr|]. split; [lia|]. split; [exact Hgw|]. split; [exact Hrd|]. split; [reflexivity|]. split; [lia|].
  split; [intros _; exact Hact2|]. split; [|split; [exact Hdsp|]].
  2:{ cbn [arrived m_info]. unfold info_set. rewrite ndat_app. pose proof (ndat_del _ _ _ Ei) as Hdel. unfold isdat in Hdel. cbn [snd b2n] in Hdel.
      unfold isdat. cbn [snd]. destruct r; cbn; lia. }
  constructor.
  - exact (c_kn _ _ _ _ _ H).
  - exact (c_cyc _ _ _ _ _ H).
  - cbn [arrived m_workers]. rewrite set_nth_length. exact (c_wlen _ _ _ _ _ H).
  - cbn [arrived m_status]. destruct (isstop r); [rewrite set_nth_length|]; exact (c_slen _ _ _ _ _ H).
  - exact (c_gw _ _ _ _ _ H).
  - exact (c_mono _ _ _ _ _ H).
  - cbn [arrived m_info]. apply wf_set, Hwf.
  - intros t. cbn [arrived m_info m_rcvd m_send]. rewrite info_get_set by exact Hwf.
    destruct (Nat.eqb_spec idx t) as [<-|Hne].
    + split; [lia|]. split; [symmetry; exact Hgw|]. right. exists st. rewrite Hrd, Ha'e, Hr. split; [reflexivity | lia].
    + pose proof (c_info _ _ _ _ _ H t) as G. destruct (info_get (m_info s) t) as [[w0 r0]|]; [|exact G].
      destruct G as (G1 & G2 & G3). split; [exact G1|]. split; [exact G2|].
      destruct (Nat.eq_dec w0 w2) as [->|Hnw]; [|rewrite Ha'n by exact Hnw; exact G3].
      rewrite Ha'e. destruct G3 as [[-> Ga]|(st0 & -> & Ga)]; [left | right; exists st0; split; [reflexivity | lia]].
      split; [reflexivity|]. pose proof (Hother t ltac:(lia) ltac:(symmetry; exact G2) ltac:(congruence)). lia.
  - intros t Ht. cbn [arrived m_rcvd] in Ht. rewrite Hact. destruct (c_passed _ _ _ _ _ H t Ht) as [Hp|Hp].
    + left. destruct (Nat.eq_dec (gw t) w2) as [E|E]; [rewrite E in *; lia | rewrite Ha'n by exact E; exact Hp].
    + right. rewrite Hp. destruct (isstop r && (gw t =? w2)); reflexivity.
  - intros v Hv. rewrite Hwq. cbn [arrived m_send]. destruct (c_q _ _ _ _ _ H v Hv) as [Qs Qm].
    destruct (Nat.eqb_spec v w2) as [->|Hne]; [|rewrite Ha'n by exact Hne; split; assumption].
    rewrite Hq in Qs, Qm. cbn [map] in Qs, Qm. fold idx in Qs, Qm. split.
    + destruct Qs as [_ Qs]. eapply sorted_from_mono; [|exact Qs]. lia.
    + intros t. rewrite Ha'e. pose proof (sorted_from_nodup _ _ (proj2 Qs)) as Hnd.
      split.
      * intros Hin. destruct (proj1 (Qm t) (or_intror Hin)) as (T1 & T2 & T3).
        assert (t <> idx) as Hne.
        { intros ->. pose proof (sorted_from_ge _ _ _ (proj2 Qs) Hin). lia. }
        pose proof (Hother t T1 T2 Hne). repeat split; auto; lia.
      * intros (T1 & T2 & T3). destruct (proj2 (Qm t) ltac:(repeat split; auto; lia)) as [E|Hin]; [|exact Hin].
        subst t. lia.
  - intros v Hv. rewrite Hact. unfold arrived at 1 2. cbn [m_workers].
    destruct (Nat.eq_dec v w2) as [->|Hne].
    + rewrite nth_set_nth_eq by exact Hwl. rewrite Nat.eqb_refl, andb_true_r, Ha'e. split; [exact Fk'|]. split; [rewrite Hd'; exact Hstop|].
      split; [lia|]. rewrite <- Hstop. destruct (isstop r); [reflexivity|]. rewrite Hact2. reflexivity.
    + rewrite nth_set_nth_neq by (intros E; apply Hne; symmetry; exact E). rewrite Ha'n by exact Hne.
      destruct (Nat.eqb_spec v w2); [contradiction|]. rewrite andb_false_r. exact (c_fut _ _ _ _ _ H v Hv).
  - intros v Hv. rewrite Hdsp, Hact. cbn [arrived m_send m_cyc]. destruct (c_d _ _ _ _ _ H v Hv) as (D1 & D2 & D3).
    split; [exact D1|]. split; [exact D2|].
    destruct (isstop r && (v =? w2)) eqn:Es; [|exact D3].
    apply andb_true_iff in Es as [Es1 Es2]. apply Nat.eqb_eq in Es2. subst v. rewrite Hact2 in D3.
    rewrite Hstop in Es1. apply Nat.ltb_lt in Es1. unfold dsp in *. rewrite Hq in *. cbn [length] in *. lia.
  - cbn [arrived m_outst m_workers m_info]. split; [lia|]. unfold info_set. rewrite ndat_app.
    pose proof (ndat_del _ _ _ Ei) as Hdel. unfold isdat in Hdel. cbn [snd b2n] in Hdel. unfold isdat. cbn [snd]. destruct r; cbn; lia.
  - exact (c_assert _ _ _ _ _ H).
  - intros v Hv. pose proof (c_a0 _ _ _ _ _ H v Hv). destruct (Nat.eq_dec v w2) as [->|Hne]; [rewrite Ha'e; lia | rewrite Ha'n by exact Hne; lia].
  - exact (c_base _ _ _ _ _ H).
  - exact (c_ptr _ _ _ _ _ H).
Qed.

(* ------------------------------------------------------------------ *)
(* the skip loop at the head of _next_data *)
Definition frame (s s' : ms) : Prop :=
  m_send s' = m_send s /\ m_workers s' = m_workers s /\ m_status s' = m_status s /\ m_rcvd s <= m_rcvd s' /\
  m_ny s' = m_ny s /\ m_msnaps s' = m_msnaps s /\ m_cyc s' = m_cyc s /\ m_outst s' = m_outst s.

Lemma skip_spec : forall fuel gw rd a R s rest,
  InvC gw rd a R s -> Rest gw rd R s rest -> Act gw rd a s -> m_send s - m_rcvd s < fuel ->
  let '(found, s') := skip_retired fuel s in
  InvC gw rd a R s' /\ Rest gw rd R s' rest /\ Act gw rd a s' /\ frame s s' /\
  (if found then m_rcvd s' < m_send s' /\
                 exists w r, info_get (m_info s') (m_rcvd s') = Some (w, r) /\ (r <> None \/ act s' w = true)
   else m_rcvd s' = m_send s').
Proof.
  induction fuel as [|f IH]; intros gw rd a R s rest H HR HA Hf; [lia|].
  cbn [skip_retired]. destruct (Nat.ltb_spec (m_rcvd s) (m_send s)) as [Hlt|Hge].
  2:{ pose proof (c_kn _ _ _ _ _ H). split; [exact H|]. split; [exact HR|]. split; [exact HA|]. split; [unfold frame; repeat split; auto|]. lia. }
  pose proof (c_info _ _ _ _ _ H (m_rcvd s)) as G.
  destruct (info_get (m_info s) (m_rcvd s)) as [[w r]|] eqn:Ek; [|lia].
  destruct G as (_ & Gw & Gr).
  destruct ((match r with Some _ => true | None => false end) || nth w (m_status s) false) eqn:Eb.
  - split; [exact H|]. split; [exact HR|]. split; [exact HA|]. split; [unfold frame; repeat split; auto|]. split; [exact Hlt|].
    exists w, r. split; [exact Ek|]. apply orb_true_iff in Eb. destruct Eb as [Eb|Eb]; [left; destruct r; congruence | right; exact Eb].
  - apply orb_false_iff in Eb as [Eb1 Eb2]. destruct r as [x|]; [discriminate|].
    assert (act s w = false) as Hina by exact Eb2.
    pose proof (pass_inv gw rd a R s (m_wsnap s) w None H Hlt Ek (or_intror Hina)) as H'.
    destruct (pass_rest gw rd R s (m_wsnap s) rest HR Hlt) as (rest' & Erest & HR').
    assert (dat B (gw (m_rcvd s)) (rd (m_rcvd s)) = []) as Hnil.
    { destruct Gr as [[_ Ga]|(st & Hx & _)]; [|discriminate]. rewrite <- Gw. apply dat_nil.
      assert (w < W) as Hw by (rewrite Gw; apply (c_gw _ _ _ _ _ H); exact Hlt).
      destruct (c_fut _ _ _ _ _ H w Hw) as (_ & _ & _ & F4). rewrite Hina in F4.
      destruct (Nat.ltb_spec (nb B w) (a w)); [lia | discriminate]. }
    rewrite Hnil in Erest. cbn [app] in Erest. subst rest'.
    pose proof (pass_act_noput gw rd a R s (m_wsnap s) H HA Hlt ltac:(rewrite <- Gw; exact Hina)) as HA'.
    specialize (IH gw rd a R (passed s (m_wsnap s)) rest H' HR' HA' ltac:(cbn; lia)).
    unfold passed in IH. destruct (skip_retired f (upd_core s (S (m_rcvd s)) (info_del (m_info s) (m_rcvd s)) (m_wsnap s))) as [found s'].
    destruct IH as (I1 & I2 & I3 & (F1 & F2 & F3 & F4 & F5 & F6 & F7 & F8) & I5). cbn [upd_core m_send m_workers m_status m_rcvd m_ny m_msnaps m_cyc m_outst] in *.
    split; [exact I1|]. split; [exact I2|]. split; [exact I3|]. split; [unfold frame; repeat split; auto; lia|]. exact I5.
Qed.

(* ------------------------------------------------------------------ *)
(* small facts used by the main induction *)
Lemma ans_cases w j : (exists b, ans B w j = RData b /\ dat B w j = [b] /\ j < nb B w) \/ (ans B w j = RStop /\ dat B w j = [] /\ nb B w <= j).
Proof.
  destruct (Nat.ltb_spec j (nb B w)) as [Hl|Hl].
  - left. destruct (ans_data W B HW w j Hl) as (b & E1 & E2). exists b. auto.
  - right. split; [apply ans_stop, Hl|]. split; [apply dat_nil, Hl | exact Hl].
Qed.

Lemma row_from_nil r from : (forall v, from <= v < W -> nb B v <= r) -> row_from W B r from = [].
Proof.
  intros H. unfold row_from.
  assert (forall v, In v (seq from (W - from)) -> from <= v < W) as Hin by (intros v Hv; apply in_seq in Hv; lia).
  induction (seq from (W - from)) as [|x l IH]; [reflexivity|]. cbn [flat_map].
  rewrite dat_nil by (apply H, Hin; left; reflexivity). apply IH. intros v Hv. apply Hin. right. exact Hv.
Qed.

Lemma rows_nil cnt0 : forall r, (forall v, v < W -> nb B v <= r) -> rows W B cnt0 r = [].
Proof.
  induction cnt0 as [|k IH]; intros r H; [reflexivity|]. cbn [rows].
  rewrite row_from_nil by (intros v Hv; apply H; lia). apply IH. intros v Hv. specialize (H v Hv). lia.
Qed.

Lemma refsuf_nil R cyc : cyc < W -> (forall v, v < W -> nb B v < cnt R cyc v) -> refsuf W B R cyc = [].
Proof.
  intros Hc H. unfold refsuf. rewrite row_from_nil.
  - apply rows_nil. intros v Hv. specialize (H v Hv). unfold cnt, b2n in H. destruct (v <? cyc); lia.
  - intros v Hv. specialize (H v ltac:(lia)). unfold cnt, b2n in H. destruct (Nat.ltb_spec v cyc); lia.
Qed.

Lemma info_del_set {A} (l : list (nat * A)) k v : wf_info l -> info_del (info_set l k v) k = info_del l k.
Proof.
  intros Hwf. unfold info_set.
  assert (info_get (info_del l k) k = None) as Hn by (apply info_get_del_eq, Hwf).
  induction (info_del l k) as [|[k0 v0] l0 IH]; cbn.
  - rewrite Nat.eqb_refl. reflexivity.
  - cbn in Hn. destruct (k0 =? k); [discriminate|]. rewrite IH by exact Hn. reflexivity.
Qed.

Lemma info_del_app_found {A} (l : list (nat * A)) k v e : info_get l k = Some v -> info_del (l ++ [e]) k = info_del l k ++ [e].
Proof.
  induction l as [|[k0 v0] l IH]; cbn; [discriminate|]. destruct (k0 =? k); [reflexivity|]. intros H. rewrite IH by exact H. reflexivity.
Qed.

Definition psi (s : ms) : nat := (m_send s - m_rcvd s) + m_outst s + 3 * nact (m_status s).

(* ------------------------------------------------------------------ *)
(* the remaining stream read from the RECEIVE side: walking from any pointer that separates the passed tasks from the window,
   the slots that are not tasks contribute nothing (they belong to retired workers), so the rest of the walk is the data of
   the window followed by the walk from the dispatch pointer *)
Lemma task_slot_dec (gw rd : nat -> nat) r cc : forall n, (exists t, t < n /\ rd t = r /\ gw t = cc) \/ (forall t, t < n -> ~ (rd t = r /\ gw t = cc)).
Proof.
  induction n as [|n IH]; [right; intros t Ht; lia|].
  destruct IH as [(t & T1 & T2)|IH]; [left; exists t; split; [lia | exact T2]|].
  destruct (Nat.eq_dec (rd n) r) as [E1|E1]; [destruct (Nat.eq_dec (gw n) cc) as [E2|E2]|].
  - left. exists n. auto.
  - right. intros t Ht [X1 X2]. destruct (Nat.eq_dec t n) as [->|Hne]; [contradiction | apply (IH t ltac:(lia)); auto].
  - right. intros t Ht [X1 X2]. destruct (Nat.eq_dec t n) as [->|Hne]; [contradiction | apply (IH t ltac:(lia)); auto].
Qed.

Lemma gap_nil gw rd a R s r cc : InvC gw rd a R s -> cc < W -> (r < R \/ (r = R /\ cc < m_cyc s)) -> (0 < r \/ cyc0 <= cc) ->
  (forall t, t < m_send s -> ~ (rd t = r /\ gw t = cc)) -> dat B cc r = [].
Proof.
  intros H Hcc Hlt Hbase Hno. apply dat_nil.
  destruct (c_d _ _ _ _ _ H cc Hcc) as (D1 & _ & D3).
  assert (a0 cc <= r) as Ha by (unfold a0; destruct (Nat.ltb_spec cc cyc0); lia).
  assert (dsp a s cc <= r) as Hd.
  { destruct (Nat.le_gt_cases (dsp a s cc) r) as [Hle|Hgt]; [exact Hle|exfalso].
    destruct (D1 r ltac:(lia)) as (t & T1 & T2 & T3). apply (Hno t T1). auto. }
  destruct (act s cc); [exfalso; revert D3 Hd Hlt; b2n_tac | lia].
Qed.

Lemma walk_rest gw rd a R s : InvC gw rd a R s -> forall m r cc k,
  m = (R - r) * W + m_cyc s - cc -> (r < R \/ (r = R /\ cc <= m_cyc s)) -> cc < W -> (0 < r \/ cyc0 <= cc) -> k <= m_send s ->
  (forall t, k <= t < m_send s -> r < rd t \/ (r = rd t /\ cc <= gw t)) ->
  (forall t, t < k -> rd t < r \/ (rd t = r /\ gw t < cc)) ->
  refsuf W B r cc = wdat gw rd k (m_send s) ++ refsuf W B R (m_cyc s).
Proof.
  intros H. pose proof (c_cyc _ _ _ _ _ H) as Hcyc. set (n := m_send s) in *.
  induction m as [m IHm] using lt_wf_ind. intros r cc k Em Hle Hcc Hbase Hkn Hge Hlt.
  assert ((r = R /\ cc = m_cyc s) \/ (r < R \/ (r = R /\ cc < m_cyc s))) as [[ER EC]|Hstrict] by lia.
  - (* the walk has reached the dispatch pointer: the window is empty *)
    subst r cc. assert (k = n) as ->.
    { destruct (Nat.eq_dec k n) as [E|NE]; [exact E|exfalso]. specialize (Hge k ltac:(lia)).
      pose proof (c_gw _ _ _ _ _ H k ltac:(fold n; lia)) as Hg.
      destruct (c_d _ _ _ _ _ H (gw k) Hg) as (_ & D2 & D3). specialize (D2 k ltac:(fold n; lia) eq_refl).
      assert (dsp a s (gw k) <= cnt R (m_cyc s) (gw k)) as Hc by (destruct (act s (gw k)); lia).
      revert D2 Hc Hge. generalize (dsp a s (gw k)). intros x. b2n_tac. }
    unfold wdat. rewrite Nat.sub_diag. reflexivity.
  - all: rewrite (refsuf_step W B HW r cc Hcc).
    all: set (r1 := if S cc =? W then S r else r); set (c1 := if S cc =? W then 0 else S cc).
    all: assert ((if S cc =? W then refsuf W B (S r) 0 else refsuf W B r (S cc)) = refsuf W B r1 c1) as -> by (unfold r1, c1; destruct (S cc =? W); reflexivity).
    all: assert (c1 < W) as Hc1 by (unfold c1; destruct (Nat.eqb_spec (S cc) W); lia).
    all: assert (0 < r1 \/ cyc0 <= c1) as Hb1 by (unfold r1, c1; destruct (Nat.eqb_spec (S cc) W); lia).
    all: assert (r1 < R \/ (r1 = R /\ c1 <= m_cyc s)) as Hle1 by (unfold r1, c1; destruct (Nat.eqb_spec (S cc) W); lia).
    all: assert ((R - r1) * W + m_cyc s - c1 < m) as Hm1
      by (rewrite Em; unfold r1, c1; destruct (Nat.eqb_spec (S cc) W) as [EW|NW]; [replace (R - r) with (S (R - S r)) by lia; nia | nia]).
    all: destruct (task_slot_dec gw rd r cc n) as [(t & T1 & T2 & T3)|Hno].
    all: try (
      (* the slot is a task: it is the first task of the window *)
      assert (t = k) as -> by (
        destruct (Nat.lt_trichotomy t k) as [Hl|[E|Hg]]; [specialize (Hlt t Hl); lia | exact E |];
        specialize (Hge k ltac:(lia)); pose proof (c_mono _ _ _ _ _ H k t Hg ltac:(fold n; lia)); lia);
      rewrite (wdat_cons gw rd k n) by lia; rewrite T2, T3, <- app_assoc; f_equal;
      apply (IHm _ Hm1 r1 c1 (S k) eq_refl Hle1 Hc1 Hb1 ltac:(lia));
      [ intros t' Ht'; pose proof (c_mono _ _ _ _ _ H k t' ltac:(lia) ltac:(fold n; lia)) as M; rewrite T2, T3 in M;
        unfold r1, c1; destruct (Nat.eqb_spec (S cc) W); pose proof (c_gw _ _ _ _ _ H t' ltac:(fold n; lia)); lia
      | intros t' Ht'; destruct (Nat.eq_dec t' k) as [->|Hne];
        [ rewrite T2, T3; unfold r1, c1; destruct (Nat.eqb_spec (S cc) W); lia
        | specialize (Hlt t' ltac:(lia)); unfold r1, c1; destruct (Nat.eqb_spec (S cc) W); lia ] ]).
    all: try (
      (* not a task: a retired worker's slot *)
      rewrite (gap_nil gw rd a R s r cc H Hcc ltac:(lia) Hbase Hno); cbn [app];
      apply (IHm _ Hm1 r1 c1 k eq_refl Hle1 Hc1 Hb1 Hkn);
      [ intros t' Ht'; specialize (Hge t' Ht'); specialize (Hno t' ltac:(lia));
        unfold r1, c1; destruct (Nat.eqb_spec (S cc) W); pose proof (c_gw _ _ _ _ _ H t' ltac:(fold n; lia)); lia
      | intros t' Ht'; specialize (Hlt t' Ht'); unfold r1, c1; destruct (Nat.eqb_spec (S cc) W); lia ]).
Qed.

(* the walk only loses batches as the pointer advances, and loses one at every slot that holds a batch *)
Lemma refsuf_len_mono : forall m r cc R cy, m = (R - r) * W + cy - cc -> (r < R \/ (r = R /\ cc <= cy)) -> cc < W -> cy < W ->
  length (refsuf W B R cy) <= length (refsuf W B r cc).
Proof.
  induction m as [m IHm] using lt_wf_ind. intros r cc R cy Em Hle Hcc Hcy.
  assert ((r = R /\ cc = cy) \/ (r < R \/ (r = R /\ cc < cy))) as [[-> ->]|Hstrict] by lia; [lia|].
  rewrite (refsuf_step W B HW r cc Hcc), app_length.
  set (r1 := if S cc =? W then S r else r). set (c1 := if S cc =? W then 0 else S cc).
  assert ((if S cc =? W then refsuf W B (S r) 0 else refsuf W B r (S cc)) = refsuf W B r1 c1) as -> by (unfold r1, c1; destruct (S cc =? W); reflexivity).
  assert (c1 < W) as Hc1 by (unfold c1; destruct (Nat.eqb_spec (S cc) W); lia).
  assert (r1 < R \/ (r1 = R /\ c1 <= cy)) as Hle1 by (unfold r1, c1; destruct (Nat.eqb_spec (S cc) W); lia).
  assert ((R - r1) * W + cy - c1 < m) as Hm1
    by (rewrite Em; unfold r1, c1; destruct (Nat.eqb_spec (S cc) W) as [EW|NW]; [replace (R - r) with (S (R - S r)) by lia; nia | nia]).
  specialize (IHm _ Hm1 r1 c1 R cy eq_refl Hle1 Hc1 Hcy). lia.
Qed.

Lemma refsuf_len_data x y : y < W -> x < nb B y ->
  S (length (refsuf W B (if S y =? W then S x else x) (if S y =? W then 0 else S y))) = length (refsuf W B x y).
Proof.
  intros Hy Hx. rewrite (refsuf_step W B HW x y Hy), app_length. destruct (ans_data W B HW y x Hx) as (b & _ & ->). cbn [length].
  destruct (S y =? W); reflexivity.
Qed.

(* two pointers that each follow a slot holding a batch and leave the same number of batches are the same pointer *)
Lemma pointer_unique x y x' y' : y < W -> y' < W -> x < nb B y -> x' < nb B y' ->
  length (refsuf W B (if S y =? W then S x else x) (if S y =? W then 0 else S y)) =
  length (refsuf W B (if S y' =? W then S x' else x') (if S y' =? W then 0 else S y')) -> x = x' /\ y = y'.
Proof.
  intros Hy Hy' Hx Hx' E.
  pose proof (refsuf_len_data x y Hy Hx) as D1. pose proof (refsuf_len_data x' y' Hy' Hx') as D2.
  assert ((x = x' /\ y = y') \/ (x < x' \/ (x = x' /\ y < y')) \/ (x' < x \/ (x' = x /\ y' < y))) as [Heq|[Hlt|Hlt]] by lia; [exact Heq | exfalso | exfalso].
  - (* slot (x,y) strictly before (x',y'): next (x,y) <= (x',y') *)
    set (r1 := if S y =? W then S x else x) in *. set (c1 := if S y =? W then 0 else S y) in *.
    assert (c1 < W) as Hc1 by (unfold c1; destruct (Nat.eqb_spec (S y) W); lia).
    pose proof (refsuf_len_mono _ r1 c1 x' y' eq_refl ltac:(unfold r1, c1; destruct (Nat.eqb_spec (S y) W); lia) Hc1 Hy') as M. lia.
  - set (r1 := if S y' =? W then S x' else x') in *. set (c1 := if S y' =? W then 0 else S y') in *.
    assert (c1 < W) as Hc1 by (unfold c1; destruct (Nat.eqb_spec (S y') W); lia).
    pose proof (refsuf_len_mono _ r1 c1 x y eq_refl ltac:(unfold r1, c1; destruct (Nat.eqb_spec (S y') W); lia) Hc1 Hy) as M. lia.
Qed.

(* ------------------------------------------------------------------ *)
(* snapshots: the queue of main-process snapshots always holds an entry for the task that will be handed out at a snapshot
   boundary, so the alignment assertion of _take_snapshot cannot fire.  y is the number of batches handed out so far
   (m_ny, or m_ny + 1 between the moment a batch leaves the window and the moment _num_yielded is incremented). *)
Definition isd (gw rd : nat -> nat) (t : nat) : bool := rd t <? nb B (gw t).
Definition wsum (f : wk -> nat) (ws : list wk) : nat := fold_right (fun k n => f k + n) 0 ws.
Definition qd (gw rd : nat -> nat) (k : wk) : nat := length (filter (fun t => isd gw rd (t_idx t)) (wk_q k)).
Definition Qd (gw rd : nat -> nat) (ws : list wk) : nat := wsum (qd gw rd) ws.

Lemma wsum_set_nth f ws : forall w k', w < length ws -> wsum f (set_nth ws w k') + f (nth w ws wk_fresh) = wsum f ws + f k'.
Proof.
  unfold set_nth. induction ws as [|a0 ws IH]; intros [|w] k' H; cbn in *; try lia.
  specialize (IH w k' ltac:(lia)). unfold wsum in IH. lia.
Qed.

Lemma dat_len gw rd t : length (dat B (gw t) (rd t)) = b2n (isd gw rd t).
Proof.
  unfold isd. destruct (ans_cases (gw t) (rd t)) as [(b & _ & E & Hl)|(_ & E & Hl)]; rewrite E.
  - replace (rd t <? nb B (gw t)) with true by (symmetry; apply Nat.ltb_lt; exact Hl). reflexivity.
  - replace (rd t <? nb B (gw t)) with false by (symmetry; apply Nat.ltb_ge; exact Hl). reflexivity.
Qed.

Record InvS (y : nat) (gw rd : nat -> nat) (s : ms) : Prop := {
  s_sorted : msorted 0 (m_msnaps s);
  s_lt : forall t m, In (t, m) (m_msnaps s) -> t < m_send s;
  s_cov : c_I c <> 0 -> forall t, m_rcvd s <= t < m_send s -> isd gw rd t = true ->
          (y + length (wdat gw rd (m_rcvd s) t) + 1) mod c_I c = 0 -> exists m, In (t, m) (m_msnaps s);
  s_cnt : length (wdat gw rd (m_rcvd s) (m_send s)) = Qd gw rd (m_workers s) + ndat (m_info s) }.

Lemma Qd_le_qsum gw rd ws : Qd gw rd ws <= qsum ws.
Proof.
  unfold Qd, wsum, qsum, qd. induction ws as [|k ws IH]; cbn [fold_right]; [lia|].
  assert (forall l : list task, length (filter (fun t => isd gw rd (t_idx t)) l) <= length l) as Hf.
  { induction l as [|x l IHl]; cbn [filter length]; [lia|]. destruct (isd gw rd (t_idx x)); cbn [length]; lia. }
  specialize (Hf (wk_q k)). lia.
Qed.

Lemma flag_cover I0 ny y D M : I0 <> 0 -> ny <= y <= S ny -> D < M -> (y + D + 1) mod I0 = 0 -> I0 <= ny mod I0 + 1 + M.
Proof.
  intros HI Hy HD Hm.
  pose proof (Nat.div_mod ny I0 HI) as E1. pose proof (Nat.mod_upper_bound ny I0 HI) as B1.
  pose proof (Nat.div_mod (y + D + 1) I0 HI) as E2. rewrite Hm in E2.
  set (q1 := ny / I0) in *. set (r := ny mod I0) in *. set (q2 := (y + D + 1) / I0) in *.
  assert (q1 < q2) by nia. nia.
Qed.

Definition agreeS (s s' : ms) : Prop := agree s s' /\ m_ny s' = m_ny s /\ m_msnaps s' = m_msnaps s.

Lemma InvS_ext y gw rd s s' : InvS y gw rd s -> agreeS s s' -> ndat (m_info s') = ndat (m_info s) -> InvS y gw rd s'.
Proof.
  intros H ((E1 & E2 & E3 & E4 & E5 & E6 & E7) & E8 & E9) Hnd. constructor; rewrite ?E1, ?E2, ?E6, ?E9, ?Hnd.
  - exact (s_sorted _ _ _ _ H).
  - exact (s_lt _ _ _ _ H).
  - exact (s_cov _ _ _ _ H).
  - exact (s_cnt _ _ _ _ H).
Qed.

Lemma wdat_app gw rd k t n : k <= t -> t <= n -> wdat gw rd k n = wdat gw rd k t ++ wdat gw rd t n.
Proof.
  intros H1 H2. unfold wdat. replace (n - k) with ((t - k) + (n - t)) by lia. rewrite seq_app, flat_map_app.
  replace (k + (t - k)) with t by lia. reflexivity.
Qed.

Lemma qd_snoc gw rd p e d q t : qd gw rd {| wk_pos := p; wk_ended := e; wk_dead := d; wk_q := q ++ [t] |} =
  length (filter (fun t => isd gw rd (t_idx t)) q) + b2n (isd gw rd (t_idx t)).
Proof. unfold qd. cbn [wk_q]. rewrite filter_app, app_length. cbn [filter]. destruct (isd gw rd (t_idx t)); reflexivity. Qed.

(* a put: the new task is flagged whenever it will be handed out at a snapshot boundary *)
Lemma put_some_invS y gw rd a R s w' c' :
  InvC gw rd a R s -> InvS y gw rd s -> m_ny s <= y <= S (m_ny s) -> m_outst s + ndat (m_info s) < W * c_P c -> w' < W ->
  InvS y (upd gw (m_send s) w') (upd rd (m_send s) (dsp a s w')) (put_some s w' c').
Proof.
  intros H HS Hy Hroom Hw'. set (n := m_send s) in *. set (gw' := upd gw n w'). set (rd' := upd rd n (dsp a s w')).
  assert (w' < length (m_workers s)) as Hwl by (rewrite (c_wlen _ _ _ _ _ H); exact Hw').
  pose proof (c_kn _ _ _ _ _ H) as Hkn. fold n in Hkn.
  assert (forall t, t <= n -> wdat gw' rd' (m_rcvd s) t = wdat gw rd (m_rcvd s) t) as Hwd.
  { intros t Ht. apply wdat_ext. intros u Hu. unfold gw', rd'. rewrite !upd_neq by lia. auto. }
  assert (forall t, t < n -> isd gw' rd' t = isd gw rd t) as Hisd.
  { intros t Ht. unfold isd, gw', rd'. rewrite !upd_neq by lia. reflexivity. }
  assert (forall k, (forall t, In t (map t_idx (wk_q k)) -> t < n) -> qd gw' rd' k = qd gw rd k) as Hqd.
  { intros k. unfold qd. generalize (wk_q k). induction l as [|x l IH]; intros Hk; [reflexivity|]. cbn [filter].
    rewrite Hisd by (apply Hk; left; reflexivity). specialize (IH ltac:(intros t Ht; apply Hk; right; exact Ht)).
    destruct (isd gw rd (t_idx x)); cbn [length]; lia. }
  assert (forall w, w < W -> forall t, In t (map t_idx (wq s w)) -> t < n) as Hqn.
  { intros w Hw t Ht. destruct (c_q _ _ _ _ _ H w Hw) as [_ Qm]. apply Qm in Ht. lia. }
  constructor.
  - cbn [put_some m_msnaps]. destruct (fl_main s); [|exact (s_sorted _ _ _ _ HS)].
    apply msorted_app; [exact (s_sorted _ _ _ _ HS) | lia|]. intros t m Hin. exact (s_lt _ _ _ _ HS t m Hin).
  - cbn [put_some m_msnaps m_send]. intros t m Hin. destruct (fl_main s).
    + apply in_app_or in Hin. destruct Hin as [Hin|[E|[]]]; [pose proof (s_lt _ _ _ _ HS t m Hin); lia | injection E as <- _; lia].
    + pose proof (s_lt _ _ _ _ HS t m Hin). lia.
  - intros HI t Ht Hd Hm. cbn [put_some m_rcvd m_send m_msnaps] in *. fold n in Ht.
    destruct (Nat.eq_dec t n) as [->|Hne].
    + rewrite Hwd in Hm by lia.
      assert (fl_main s = true) as ->.
      { unfold fl_main. destruct (Nat.eqb_spec (c_I c) 0) as [E|_]; [contradiction|]. apply Nat.leb_le.
        apply (flag_cover (c_I c) (m_ny s) y (length (wdat gw rd (m_rcvd s) n)) (W * c_P c) HI Hy); [|exact Hm].
        pose proof (s_cnt _ _ _ _ HS) as Hc. fold n in Hc. rewrite Hc.
        pose proof (Qd_le_qsum gw rd (m_workers s)). destruct (c_out _ _ _ _ _ H) as [O1 _]. lia. }
      eexists. apply in_or_app. right. left. reflexivity.
    + rewrite Hwd in Hm by lia. rewrite Hisd in Hd by lia.
      destruct (s_cov _ _ _ _ HS HI t ltac:(lia) Hd Hm) as [m Hin]. exists m. destruct (fl_main s); [apply in_or_app; left|]; exact Hin.
  - cbn [put_some m_rcvd m_send m_workers m_info]. fold n. rewrite wdat_snoc by exact Hkn. rewrite app_length, Hwd by lia.
    rewrite dat_len. rewrite ndat_app. cbn [isdat snd b2n]. pose proof (s_cnt _ _ _ _ HS) as Hc. fold n in Hc. rewrite Hc. unfold Qd.
    pose proof (wsum_set_nth (qd gw' rd') (m_workers s) w'
      {| wk_pos := wk_pos (nth w' (m_workers s) wk_fresh); wk_ended := wk_ended (nth w' (m_workers s) wk_fresh);
         wk_dead := wk_dead (nth w' (m_workers s) wk_fresh);
         wk_q := wk_q (nth w' (m_workers s) wk_fresh) ++ [{| t_idx := n; t_index := []; t_snap := fl_snap s |}] |} Hwl) as Hs.
    assert (wsum (qd gw' rd') (m_workers s) = wsum (qd gw rd) (m_workers s)) as Hsame.
    { unfold wsum. pose proof (c_wlen _ _ _ _ _ H) as Hl.
      assert (forall w, w < length (m_workers s) -> qd gw' rd' (nth w (m_workers s) wk_fresh) = qd gw rd (nth w (m_workers s) wk_fresh)) as Hall.
      { intros w Hw. apply Hqd. apply Hqn. lia. }
      revert Hall. generalize (m_workers s). clear. induction l as [|k l IH]; intros Hall; [reflexivity|]. cbn [fold_right].
      pose proof (Hall 0 ltac:(cbn; lia)) as H0. cbn [nth] in H0. rewrite H0. f_equal. apply IH. intros w Hw. apply (Hall (S w)). cbn. lia. }
    rewrite qd_snoc in Hs. cbn [t_idx] in Hs. fold (qd gw' rd' (nth w' (m_workers s) wk_fresh)) in Hs. rewrite Hsame in Hs.
    cbn [put_some m_workers]. lia.
Qed.

Lemma put_none_invS y gw rd s c' : InvS y gw rd s -> InvS y gw rd (put_none s c').
Proof. intros H. constructor; [exact (s_sorted _ _ _ _ H) | exact (s_lt _ _ _ _ H) | exact (s_cov _ _ _ _ H) | exact (s_cnt _ _ _ _ H)]. Qed.

Lemma wdat_len_cons gw rd k t : k < t -> length (wdat gw rd k t) = b2n (isd gw rd k) + length (wdat gw rd (S k) t).
Proof. intros H. rewrite wdat_cons by exact H. rewrite app_length, dat_len. reflexivity. Qed.

(* the receive pointer passes a task: y grows by one exactly when the task held a batch *)
Lemma pass_invS y gw rd s ws v : InvS y gw rd s -> m_rcvd s < m_send s ->
  info_get (m_info s) (m_rcvd s) = Some v -> b2n (isdat (m_rcvd s, v)) = b2n (isd gw rd (m_rcvd s)) ->
  InvS (y + b2n (isd gw rd (m_rcvd s))) gw rd (passed s ws).
Proof.
  intros H Hkn Hk Hv. set (k := m_rcvd s) in *. constructor; unfold passed; cbn [upd_core m_msnaps m_send m_rcvd m_workers m_info]; fold k.
  - exact (s_sorted _ _ _ _ H).
  - exact (s_lt _ _ _ _ H).
  - intros HI t Ht Hd Hm. apply (s_cov _ _ _ _ H HI t ltac:(fold k; lia) Hd). fold k.
    rewrite wdat_len_cons by lia. rewrite <- Hm. f_equal. lia.
  - pose proof (s_cnt _ _ _ _ H) as Hc. fold k in Hc. rewrite wdat_len_cons in Hc by exact Hkn.
    pose proof (ndat_del _ _ _ Hk) as Hd. fold k in Hd. lia.
Qed.

(* an arrival moves a task from a worker's queue to the buffered results *)
Lemma arrive_invS y gw rd a R s w2 tk q' k' r st : InvC gw rd a R s -> InvS y gw rd s -> w2 < W -> wq s w2 = tk :: q' ->
  wk_q k' = q' -> gw (t_idx tk) = w2 -> rd (t_idx tk) = a w2 -> r = ans B w2 (a w2) ->
  info_get (m_info s) (t_idx tk) = Some (w2, None) ->
  InvS y gw rd (arrived s w2 k' (t_idx tk) r st).
Proof.
  intros H HS Hw2 Hq Hq' Hg Hr Hans Hei.
  assert (w2 < length (m_workers s)) as Hwl by (rewrite (c_wlen _ _ _ _ _ H); exact Hw2).
  constructor; cbn [arrived m_msnaps m_send m_rcvd m_workers m_info].
  - exact (s_sorted _ _ _ _ HS).
  - exact (s_lt _ _ _ _ HS).
  - exact (s_cov _ _ _ _ HS).
  - rewrite (s_cnt _ _ _ _ HS). unfold Qd.
    pose proof (wsum_set_nth (qd gw rd) (m_workers s) w2 k' Hwl) as Hs.
    assert (qd gw rd (nth w2 (m_workers s) wk_fresh) = b2n (isd gw rd (t_idx tk)) + qd gw rd k') as E1.
    { unfold qd. fold (wq s w2). rewrite Hq, Hq'. cbn [filter]. destruct (isd gw rd (t_idx tk)); reflexivity. }
    rewrite E1 in Hs. unfold info_set. rewrite ndat_app. pose proof (ndat_del _ _ _ Hei) as Hd. unfold isdat in Hd |- *. cbn [snd b2n] in Hd |- *.
    assert (isd gw rd (t_idx tk) = isdata r) as Hi.
    { unfold isd. rewrite Hg, Hr, Hans. destruct (ans_cases w2 (a w2)) as [(b & -> & _ & Hl)|(-> & _ & Hl)]; cbn.
      - apply Nat.ltb_lt, Hl.
      - apply Nat.ltb_ge, Hl. }
    rewrite Hi in Hs. destruct r; cbn [isdata length b2n] in *; lia.
Qed.

(* ------------------------------------------------------------------ *)
(* ------------------------------------------------------------------ *)
(* worker states in checkpoints.  wst w j is the (position, fetcher_ended) state worker w reports right after its j-th answer
   (counted as the ghost a counts: from a0 w).  InvW: every worker-state entry of the running snapshot bookkeeping
   (_worker_snapshots) and of the snapshot handed out by state_dict() is the state right after the answer to a task the main
   process has ALREADY PASSED (handed out, or an end-of-shard notice consumed in order) — never the state after a result that
   is still buffered or outstanding, however far a fast worker has run ahead. *)
Variable wk0 : nat -> wk.      (* the worker machines this iterator started with *)
Variable trk : bool.           (* are the worker-state entries tracked? (false: a fast-forwarded iterator, whose loaded entries are never used) *)
Definition t0 : task := {| t_idx := 0; t_index := []; t_snap := false |}.
Definition wstep (w : nat) (k : wk) : wk := snd (worker_fetch c w k t0).
Definition wsk (w j : nat) : wk := Nat.iter (j - a0 w) (wstep w) (wk0 w).
Definition wst (w j : nat) : wsave := (wk_pos (wsk w j), wk_ended (wsk w j)).
Definition same_pe (k1 k2 : wk) : Prop := wk_pos k1 = wk_pos k2 /\ wk_ended k1 = wk_ended k2.

Lemma fetch_pe w k1 k2 t1 t2 : same_pe k1 k2 ->
  let '(r1, st1, k1') := worker_fetch c w k1 t1 in let '(r2, st2, k2') := worker_fetch c w k2 t2 in
  same_pe k1' k2' /\ (st1 = None \/ st1 = Some (wk_pos k1', wk_ended k1')).
Proof.
  intros [E1 E2]. unfold worker_fetch. rewrite Hkind, E1, E2.
  destruct (wk_ended k2).
  - cbn. split; [split; reflexivity|]. destruct (t_snap t1 || true); auto.
  - destruct (c_bs c =? 0).
    + destruct (nth_error (shard c w) (wk_pos k2)); cbn; (split; [split; reflexivity|]); destruct (t_snap t1 || _); auto.
    + destruct ((length (firstn (c_bs c) (skipn (wk_pos k2) (shard c w))) =? 0) ||
                c_drop c && (length (firstn (c_bs c) (skipn (wk_pos k2) (shard c w))) <? c_bs c));
        cbn; (split; [split; reflexivity|]); destruct (t_snap t1 || _); auto.
Qed.

Lemma wsk_S w j : a0 w <= j -> wsk w (S j) = wstep w (wsk w j).
Proof. intros H. unfold wsk. replace (S j - a0 w) with (S (j - a0 w)) by lia. reflexivity. Qed.

Record InvW (gw rd a : nat -> nat) (s : ms) : Prop := {
  w_k : forall w, w < W -> same_pe (nth w (m_workers s) wk_fresh) (wsk w (a w));
  w_i : forall t w r st, info_get (m_info s) t = Some (w, Some (r, st)) -> st = None \/ st = Some (wst w (S (rd t)));
  w_len : length (m_wsnap s) = W;
  w_s : trk = true -> forall w, w < W -> exists j, nth w (m_wsnap s) (0, false) = wst w j /\
                                     (j = a0 w \/ exists t, t < m_rcvd s /\ gw t = w /\ S (rd t) = j);
  w_snlen : length (sn_workers (m_snapshot s)) = W;
  w_sn : trk = true -> forall w, w < W -> exists j, nth w (sn_workers (m_snapshot s)) (0, false) = wst w j /\
                                      (j = a0 w \/ exists t, t < m_rcvd s /\ gw t = w /\ S (rd t) = j) }.

Definition agreeW (s s' : ms) : Prop :=
  m_workers s' = m_workers s /\ m_wsnap s' = m_wsnap s /\ m_snapshot s' = m_snapshot s /\ m_rcvd s' = m_rcvd s.

Lemma InvW_ext gw rd a s s' : InvW gw rd a s -> agreeW s s' ->
  (forall t, info_get (m_info s') t = info_get (m_info s) t) -> InvW gw rd a s'.
Proof.
  intros H (E1 & E2 & E3 & E4) Hget. constructor; rewrite ?E1, ?E2, ?E3, ?E4.
  - exact (w_k _ _ _ _ H).
  - intros t w r st Hi. rewrite Hget in Hi. exact (w_i _ _ _ _ H t w r st Hi).
  - exact (w_len _ _ _ _ H).
  - exact (w_s _ _ _ _ H).
  - exact (w_snlen _ _ _ _ H).
  - exact (w_sn _ _ _ _ H).
Qed.

Lemma put_some_invW gw rd a s w' c' x y : InvW gw rd a s -> m_rcvd s <= m_send s -> w' < length (m_workers s) ->
  info_get (m_info s) (m_send s) = None ->
  InvW (upd gw (m_send s) x) (upd rd (m_send s) y) a (put_some s w' c').
Proof.
  intros H Hkn Hwl Hfresh. constructor; cbn [put_some m_workers m_info m_wsnap m_snapshot m_rcvd].
  - intros w Hw. destruct (Nat.eq_dec w w') as [->|Hne].
    + rewrite nth_set_nth_eq by exact Hwl. exact (w_k _ _ _ _ H w' Hw).
    + rewrite nth_set_nth_neq by (intros E; apply Hne; symmetry; exact E). exact (w_k _ _ _ _ H w Hw).
  - intros t w r st Hi. rewrite info_get_app in Hi. destruct (info_get (m_info s) t) as [v|] eqn:E.
    + destruct (Nat.eq_dec t (m_send s)) as [->|Hne]; [congruence|]. rewrite upd_neq by exact Hne. injection Hi as ->. exact (w_i _ _ _ _ H t w r st E).
    + destruct (m_send s =? t); discriminate.
  - exact (w_len _ _ _ _ H).
  - intros Htk w Hw. destruct (w_s _ _ _ _ H Htk w Hw) as (j & Ej & Hj). exists j. split; [exact Ej|].
    destruct Hj as [Hj|(t & T1 & T2 & T3)]; [left; exact Hj | right; exists t; rewrite !upd_neq by lia; auto].
  - exact (w_snlen _ _ _ _ H).
  - intros Htk w Hw. destruct (w_sn _ _ _ _ H Htk w Hw) as (j & Ej & Hj). exists j. split; [exact Ej|].
    destruct Hj as [Hj|(t & T1 & T2 & T3)]; [left; exact Hj | right; exists t; rewrite !upd_neq by lia; auto].
Qed.

Lemma put_none_invW gw rd a s c' : InvW gw rd a s -> InvW gw rd a (put_none s c').
Proof.
  intros H. constructor; [exact (w_k _ _ _ _ H) | exact (w_i _ _ _ _ H) | exact (w_len _ _ _ _ H) | exact (w_s _ _ _ _ H)
                         | exact (w_snlen _ _ _ _ H) | exact (w_sn _ _ _ _ H)].
Qed.

(* the receive pointer passes task k; the worker-state bookkeeping is either left alone or takes the state that task carried *)
Lemma pass_invW gw rd a s ws : InvW gw rd a s -> wf_info (m_info s) -> gw (m_rcvd s) < W ->
  (ws = m_wsnap s \/ ws = set_nth (m_wsnap s) (gw (m_rcvd s)) (wst (gw (m_rcvd s)) (S (rd (m_rcvd s))))) ->
  InvW gw rd a (passed s ws).
Proof.
  intros H Hwf Hg Hws. constructor; unfold passed; cbn [upd_core m_workers m_info m_wsnap m_snapshot m_rcvd].
  - exact (w_k _ _ _ _ H).
  - intros t w r st Hi. destruct (Nat.eq_dec t (m_rcvd s)) as [->|Hne]; [rewrite info_get_del_eq in Hi by exact Hwf; discriminate|].
    rewrite info_get_del_neq in Hi by lia. exact (w_i _ _ _ _ H t w r st Hi).
  - destruct Hws as [->| ->]; [|rewrite set_nth_length]; exact (w_len _ _ _ _ H).
  - intros Htk w Hw. destruct Hws as [->| ->].
    + destruct (w_s _ _ _ _ H Htk w Hw) as (j & Ej & Hj). exists j. split; [exact Ej|].
      destruct Hj as [Hj|(t & T1 & T2 & T3)]; [left; exact Hj | right; exists t; repeat split; auto; lia].
    + destruct (Nat.eq_dec w (gw (m_rcvd s))) as [->|Hne].
      * rewrite nth_set_nth_eq by (rewrite (w_len _ _ _ _ H); exact Hg). eexists. split; [reflexivity|]. right. exists (m_rcvd s). repeat split; auto.
      * rewrite nth_set_nth_neq by (intros E; apply Hne; symmetry; exact E).
        destruct (w_s _ _ _ _ H Htk w Hw) as (j & Ej & Hj). exists j. split; [exact Ej|].
        destruct Hj as [Hj|(t & T1 & T2 & T3)]; [left; exact Hj | right; exists t; repeat split; auto; lia].
  - exact (w_snlen _ _ _ _ H).
  - intros Htk w Hw. destruct (w_sn _ _ _ _ H Htk w Hw) as (j & Ej & Hj). exists j. split; [exact Ej|].
    destruct Hj as [Hj|(t & T1 & T2 & T3)]; [left; exact Hj | right; exists t; repeat split; auto; lia].
Qed.

(* an arrival: the worker moves on by one answer; the state it sent along is its state right after that answer *)
Lemma arrive_invW gw rd a s w2 tk q' : InvW gw rd a s -> wf_info (m_info s) -> w2 < length (m_workers s) -> w2 < W -> a0 w2 <= a w2 ->
  rd (t_idx tk) = a w2 ->
  let '(r, st, k') := worker_fetch c w2 (kpop s w2 q') tk in
  InvW gw rd (upd a w2 (S (a w2))) (arrived s w2 k' (t_idx tk) r st).
Proof.
  intros H Hwf Hwl Hw2 Ha0' Hrd.
  pose proof (fetch_pe w2 (kpop s w2 q') (wsk w2 (a w2)) tk t0) as FP.
  assert (same_pe (kpop s w2 q') (wsk w2 (a w2))) as Hpe by exact (w_k _ _ _ _ H w2 Hw2).
  specialize (FP Hpe). fold (wstep w2 (wsk w2 (a w2))) in FP.
  destruct (worker_fetch c w2 (kpop s w2 q') tk) as [[r st] k'].
  destruct (worker_fetch c w2 (wsk w2 (a w2)) t0) as [[r0 st0] k0'] eqn:E0.
  assert (wstep w2 (wsk w2 (a w2)) = k0') as Est by (unfold wstep; rewrite E0; reflexivity).
  destruct FP as [Hpe' Hst]. rewrite <- Est, <- wsk_S in Hpe' by exact Ha0'.
  constructor; cbn [arrived m_workers m_info m_wsnap m_snapshot m_rcvd].
  - intros w Hw. destruct (Nat.eq_dec w w2) as [->|Hne].
    + rewrite nth_set_nth_eq by exact Hwl. rewrite upd_eq. exact Hpe'.
    + rewrite nth_set_nth_neq by (intros E; apply Hne; symmetry; exact E). rewrite upd_neq by exact Hne. exact (w_k _ _ _ _ H w Hw).
  - intros t w r' st' Hi. rewrite info_get_set in Hi by exact Hwf. destruct (Nat.eqb_spec (t_idx tk) t) as [<-|Hne].
    + injection Hi as <- <- <-. rewrite Hrd. destruct Hst as [->| ->]; [left; reflexivity|right]. f_equal. unfold wst. destruct Hpe' as [-> ->]. reflexivity.
    + exact (w_i _ _ _ _ H t w r' st' Hi).
  - exact (w_len _ _ _ _ H).
  - exact (w_s _ _ _ _ H).
  - exact (w_snlen _ _ _ _ H).
  - exact (w_sn _ _ _ _ H).
Qed.

(* ------------------------------------------------------------------ *)
(* snapshot_every_n_steps = 1 (the default): every task asks for the worker's state, so the running worker-state entries are
   EXACT — the entry of worker w is its state right after its LAST passed task that it answered (batch or end-of-shard notice) *)
Lemma fetch_flag w k t : t_snap t = true ->
  let '(r, st, k') := worker_fetch c w k t in st = Some (wk_pos k', wk_ended k').
Proof.
  intros Hf. unfold worker_fetch. rewrite Hkind, Hf.
  destruct (wk_ended k); [reflexivity|].
  destruct (c_bs c =? 0).
  - destruct (nth_error (shard c w) (wk_pos k)); reflexivity.
  - destruct ((length (firstn (c_bs c) (skipn (wk_pos k) (shard c w))) =? 0) ||
              c_drop c && (length (firstn (c_bs c) (skipn (wk_pos k) (shard c w))) <? c_bs c)); reflexivity.
Qed.

Record InvX (gw rd : nat -> nat) (s : ms) : Prop := {
  x_q : c_I c = 1 -> forall w, w < W -> forall tk, In tk (wq s w) -> t_snap tk = true;
  x_i : c_I c = 1 -> forall t w r st, info_get (m_info s) t = Some (w, Some (r, st)) -> st = Some (wst w (S (rd t)));
  x_s : c_I c = 1 -> trk = true -> forall w, w < W -> exists j, nth w (m_wsnap s) (0, false) = wst w j /\
          (forall t, t < m_rcvd s -> gw t = w -> rd t <= nb B w -> rd t < j) /\
          (j = a0 w \/ exists t, t < m_rcvd s /\ gw t = w /\ S (rd t) = j /\ rd t <= nb B w) }.

Definition agreeX (s s' : ms) : Prop := m_workers s' = m_workers s /\ m_wsnap s' = m_wsnap s /\ m_rcvd s' = m_rcvd s.

Lemma InvX_ext gw rd s s' : InvX gw rd s -> agreeX s s' -> (forall t, info_get (m_info s') t = info_get (m_info s) t) -> InvX gw rd s'.
Proof.
  intros H (E1 & E2 & E3) Hget. constructor; intros HI.
  - intros w Hw tk. unfold wq. rewrite E1. exact (x_q _ _ _ H HI w Hw tk).
  - intros t w r st Hi. rewrite Hget in Hi. exact (x_i _ _ _ H HI t w r st Hi).
  - rewrite E2, E3. exact (x_s _ _ _ H HI).
Qed.

Lemma fl_snap_I1 s : c_I c = 1 -> fl_snap s = true.
Proof. intros HI. unfold fl_snap. rewrite HI. cbn. reflexivity. Qed.

Lemma put_some_invX gw rd s w' c' x y : InvX gw rd s -> m_rcvd s <= m_send s -> w' < length (m_workers s) ->
  info_get (m_info s) (m_send s) = None ->
  InvX (upd gw (m_send s) x) (upd rd (m_send s) y) (put_some s w' c').
Proof.
  intros H Hkn Hwl Hfresh. constructor; intros HI.
  - intros w Hw tk Hin. destruct (Nat.eq_dec w w') as [->|Hne].
    + rewrite wq_put_some_eq in Hin by exact Hwl. apply in_app_or in Hin. destruct Hin as [Hin|[<-|[]]]; [exact (x_q _ _ _ H HI w' Hw tk Hin)|].
      cbn [t_snap]. apply fl_snap_I1, HI.
    + rewrite wq_put_some_neq in Hin by exact Hne. exact (x_q _ _ _ H HI w Hw tk Hin).
  - intros t w r st Hi. cbn [put_some m_info] in Hi. rewrite info_get_app in Hi. destruct (info_get (m_info s) t) as [v|] eqn:E.
    + destruct (Nat.eq_dec t (m_send s)) as [->|Hne]; [congruence|]. rewrite upd_neq by exact Hne. injection Hi as ->. exact (x_i _ _ _ H HI t w r st E).
    + destruct (m_send s =? t); discriminate.
  - cbn [put_some m_wsnap m_rcvd]. intros Htk w Hw. destruct (x_s _ _ _ H HI Htk w Hw) as (j & Ej & Hmax & Hj). exists j. split; [exact Ej|]. split.
    + intros t Ht. rewrite !upd_neq by lia. apply Hmax, Ht.
    + destruct Hj as [Hj|(t & T1 & T2 & T3 & T4)]; [left; exact Hj | right; exists t; rewrite !upd_neq by lia; auto].
Qed.

Lemma put_none_invX gw rd s c' : InvX gw rd s -> InvX gw rd (put_none s c').
Proof. intros H. constructor; [exact (x_q _ _ _ H) | exact (x_i _ _ _ H) | exact (x_s _ _ _ H)]. Qed.

(* the receive pointer passes task k: either the task was never answered (a retired worker's task beyond its end-of-shard
   notice), or the entry of its worker takes the state the answer carried *)
Lemma pass_invX gw rd s ws : InvX gw rd s -> wf_info (m_info s) -> gw (m_rcvd s) < W -> length (m_wsnap s) = W ->
  (forall t, t < m_rcvd s -> gw t = gw (m_rcvd s) -> rd t < rd (m_rcvd s)) ->
  ((ws = m_wsnap s /\ nb B (gw (m_rcvd s)) < rd (m_rcvd s)) \/
   (ws = set_nth (m_wsnap s) (gw (m_rcvd s)) (wst (gw (m_rcvd s)) (S (rd (m_rcvd s)))) /\ rd (m_rcvd s) <= nb B (gw (m_rcvd s)))) ->
  InvX gw rd (passed s ws).
Proof.
  intros H Hwf Hg Hlen Hmono Hws. constructor; intros HI.
  - exact (x_q _ _ _ H HI).
  - intros t w r st Hi. unfold passed in Hi. cbn [upd_core m_info] in Hi.
    destruct (Nat.eq_dec t (m_rcvd s)) as [->|Hne]; [rewrite info_get_del_eq in Hi by exact Hwf; discriminate|].
    rewrite info_get_del_neq in Hi by lia. exact (x_i _ _ _ H HI t w r st Hi).
  - unfold passed. cbn [upd_core m_wsnap m_rcvd]. intros Htk w Hw. destruct (x_s _ _ _ H HI Htk w Hw) as (j & Ej & Hmax & Hj).
    destruct Hws as [[-> Hgt]|[-> Hle]].
    + exists j. split; [exact Ej|]. split.
      * intros t Ht Hgw Hr. destruct (Nat.eq_dec t (m_rcvd s)) as [->|Hne]; [rewrite Hgw in *; lia | apply Hmax; auto; lia].
      * destruct Hj as [Hj|(t & T1 & T2 & T3 & T4)]; [left; exact Hj | right; exists t; repeat split; auto; lia].
    + destruct (Nat.eq_dec w (gw (m_rcvd s))) as [->|Hne].
      * rewrite nth_set_nth_eq by (rewrite Hlen; exact Hg). eexists. split; [reflexivity|]. split.
        -- intros t Ht Hgw Hr. destruct (Nat.eq_dec t (m_rcvd s)) as [->|Hnt]; [lia|]. specialize (Hmono t ltac:(lia) Hgw). lia.
        -- right. exists (m_rcvd s). repeat split; auto.
      * rewrite nth_set_nth_neq by (intros E; apply Hne; symmetry; exact E). exists j. split; [exact Ej|]. split.
        -- intros t Ht Hgw Hr. destruct (Nat.eq_dec t (m_rcvd s)) as [->|Hnt]; [congruence | apply Hmax; auto; lia].
        -- destruct Hj as [Hj|(t & T1 & T2 & T3 & T4)]; [left; exact Hj | right; exists t; repeat split; auto; lia].
Qed.

Lemma arrive_invX gw rd a s w2 tk q' : InvX gw rd s -> InvW gw rd a s -> wf_info (m_info s) -> w2 < length (m_workers s) -> w2 < W ->
  a0 w2 <= a w2 -> rd (t_idx tk) = a w2 -> wq s w2 = tk :: q' ->
  let '(r, st, k') := worker_fetch c w2 (kpop s w2 q') tk in
  wk_q k' = q' -> InvX gw rd (arrived s w2 k' (t_idx tk) r st).
Proof.
  intros H HWw Hwf Hwl Hw2 Ha0' Hrd Hq.
  pose proof (fetch_pe w2 (kpop s w2 q') (wsk w2 (a w2)) tk t0 (w_k _ _ _ _ HWw w2 Hw2)) as FP.
  pose proof (fetch_flag w2 (kpop s w2 q') tk) as FF.
  destruct (worker_fetch c w2 (kpop s w2 q') tk) as [[r st] k'].
  destruct (worker_fetch c w2 (wsk w2 (a w2)) t0) as [[r0 st0] k0'] eqn:E0.
  assert (wstep w2 (wsk w2 (a w2)) = k0') as Est by (unfold wstep; rewrite E0; reflexivity).
  destruct FP as [Hpe' _]. rewrite <- Est, <- wsk_S in Hpe' by exact Ha0'.
  intros Hq'. constructor; intros HI.
  - intros w Hw tk' Hin. unfold wq, arrived in Hin. cbn [m_workers] in Hin. destruct (Nat.eq_dec w w2) as [->|Hne].
    + rewrite nth_set_nth_eq in Hin by exact Hwl. rewrite Hq' in Hin. apply (x_q _ _ _ H HI w2 Hw tk'). rewrite Hq. right. exact Hin.
    + rewrite nth_set_nth_neq in Hin by (intros E; apply Hne; symmetry; exact E). exact (x_q _ _ _ H HI w Hw tk' Hin).
  - intros t w r' st' Hi. cbn [arrived m_info] in Hi. rewrite info_get_set in Hi by exact Hwf. destruct (Nat.eqb_spec (t_idx tk) t) as [<-|Hne].
    + injection Hi as <- <- <-. rewrite Hrd. rewrite FF by (apply (x_q _ _ _ H HI w2 Hw2 tk); rewrite Hq; left; reflexivity).
      f_equal. unfold wst. destruct Hpe' as [-> ->]. reflexivity.
    + exact (x_i _ _ _ H HI t w r' st' Hi).
  - exact (x_s _ _ _ H HI).
Qed.

Lemma process_data_gen s3 b w st gw rd :
  m_assert (try_put_index c s3) = None -> InvS (S (m_ny (try_put_index c s3))) gw rd (try_put_index c s3) ->
  1 <= m_rcvd (try_put_index c s3) ->
  (c_I c <> 0 -> S (m_ny (try_put_index c s3)) mod c_I c = 0 ->
   exists m, In (m_rcvd (try_put_index c s3) - 1, m) (m_msnaps (try_put_index c s3))) ->
  exists sF, process_data c s3 (RData b) w st = (OBatch b, sF) /\ agree (try_put_index c s3) sF /\
             m_info sF = m_info (try_put_index c s3) /\ InvS (m_ny sF) gw rd sF /\ m_ny sF = S (m_ny (try_put_index c s3)) /\
             m_wsnap sF = (match st with Some x => set_nth (m_wsnap (try_put_index c s3)) w x | None => m_wsnap (try_put_index c s3) end) /\
             (m_snapshot sF = m_snapshot (try_put_index c s3) \/ sn_workers (m_snapshot sF) = m_wsnap sF) /\
             (c_I c = 1 -> sn_workers (m_snapshot sF) = m_wsnap sF /\ sn_step (m_snapshot sF) = m_ny sF /\ sn_last (m_snapshot sF) = w /\ m_last sF = w).
Proof.
  intros Has HS Hk1 Hb. unfold process_data. set (s2 := try_put_index c s3) in *.
  destruct (Nat.eqb_spec (c_I c) 0) as [EI|NI]; cbn [negb andb].
  - cbn [m_assert]. rewrite Has. eexists. split; [reflexivity|]. split; [unfold agree; cbn; repeat split; first [reflexivity | symmetry; exact Has | exact Has]|].
    split; [reflexivity|]. cbn [m_ny]. split; [|split; [reflexivity|split; [reflexivity|split; [left; reflexivity | intros HI; lia]]]].
    constructor; [exact (s_sorted _ _ _ _ HS) | exact (s_lt _ _ _ _ HS) | exact (s_cov _ _ _ _ HS) | exact (s_cnt _ _ _ _ HS)].
  - cbn [m_ny]. destruct (Nat.eqb_spec (S (m_ny s2) mod c_I c) 0) as [Eb|Nb].
    + destruct (Hb NI Eb) as [m Hin]. unfold take_snapshot. cbn [m_msnaps m_rcvd].
      pose proof (pop_msnaps_spec (m_msnaps s2) 0 (m_rcvd s2 - 1) None (s_sorted _ _ _ _ HS)) as Hpop.
      destruct (pop_msnaps (m_msnaps s2) (m_rcvd s2 - 1) None) as [p rest]. destruct Hpop as (P1 & P2 & _ & P4).
      rewrite (P4 _ _ Hin eq_refl). rewrite Nat.eqb_refl. cbn [m_assert]. rewrite Has.
      eexists. split; [reflexivity|]. split; [unfold agree; cbn; repeat split; first [reflexivity | symmetry; exact Has | exact Has]|].
      split; [reflexivity|]. cbn [m_ny]. split; [|split; [reflexivity|split; [reflexivity|split; [right; reflexivity | intros _; repeat split; reflexivity]]]]. constructor; cbn [m_msnaps m_send m_rcvd m_workers m_info].
      * eapply msorted_mono; [|exact P1]. lia.
      * intros t m' Hin'. apply P2 in Hin'. exact (s_lt _ _ _ _ HS t m' (proj1 Hin')).
      * intros HI t Ht Hd Hm. destruct (s_cov _ _ _ _ HS HI t Ht Hd Hm) as [m' Hin']. exists m'. apply P2. split; [exact Hin' | cbn; lia].
      * exact (s_cnt _ _ _ _ HS).
    + cbn [m_assert]. rewrite Has. eexists. split; [reflexivity|]. split; [unfold agree; cbn; repeat split; first [reflexivity | symmetry; exact Has | exact Has]|].
      split; [reflexivity|]. cbn [m_ny]. split; [|split; [reflexivity|split; [reflexivity|split; [left; reflexivity | intros HI; exfalso; rewrite HI, Nat.mod_1_r in Nb; apply Nb; reflexivity]]]].
      constructor; [exact (s_sorted _ _ _ _ HS) | exact (s_lt _ _ _ _ HS) | exact (s_cov _ _ _ _ HS) | exact (s_cnt _ _ _ _ HS)].
Qed.

(* the batch of task k is handed out: its worker's entry takes the state the batch carried, and a snapshot taken now copies the entries *)
Lemma final_invW gw rd a s2 sF k w st : InvW gw rd a s2 -> m_rcvd s2 = S k -> gw k = w -> w < W ->
  (st = None \/ st = Some (wst w (S (rd k)))) ->
  m_workers sF = m_workers s2 -> m_rcvd sF = m_rcvd s2 -> m_info sF = m_info s2 ->
  m_wsnap sF = (match st with Some x => set_nth (m_wsnap s2) w x | None => m_wsnap s2 end) ->
  (m_snapshot sF = m_snapshot s2 \/ sn_workers (m_snapshot sF) = m_wsnap sF) ->
  InvW gw rd a sF.
Proof.
  intros H Hr Hg Hw Hst E1 E2 E3 E4 E5.
  assert (length (m_wsnap sF) = W /\ (trk = true -> forall v, v < W -> exists j, nth v (m_wsnap sF) (0, false) = wst v j /\
            (j = a0 v \/ exists t, t < m_rcvd sF /\ gw t = v /\ S (rd t) = j))) as [HL HWS].
  { rewrite E4, E2. destruct Hst as [->| ->].
    - split; [exact (w_len _ _ _ _ H) | exact (w_s _ _ _ _ H)].
    - split; [rewrite set_nth_length; exact (w_len _ _ _ _ H)|]. intros Htk v Hv. destruct (Nat.eq_dec v w) as [->|Hne].
      + rewrite nth_set_nth_eq by (rewrite (w_len _ _ _ _ H); exact Hw). eexists. split; [reflexivity|]. right. exists k. repeat split; auto. lia.
      + rewrite nth_set_nth_neq by (intros E; apply Hne; symmetry; exact E). exact (w_s _ _ _ _ H Htk v Hv). }
  constructor.
  - rewrite E1. exact (w_k _ _ _ _ H).
  - rewrite E3. exact (w_i _ _ _ _ H).
  - exact HL.
  - exact HWS.
  - destruct E5 as [-> | ->]; [exact (w_snlen _ _ _ _ H) | exact HL].
  - destruct E5 as [E5 | E5]; rewrite E5; [rewrite E2; exact (w_sn _ _ _ _ H) | exact HWS].
Qed.

Lemma skip_invW : forall fuel gw rd a R s,
  InvC gw rd a R s -> InvW gw rd a s -> InvW gw rd a (snd (skip_retired fuel s)).
Proof.
  induction fuel as [|f IH]; intros gw rd a R s H HWw; [exact HWw|].
  cbn [skip_retired]. destruct (Nat.ltb_spec (m_rcvd s) (m_send s)) as [Hlt|Hge]; [|exact HWw].
  pose proof (c_info _ _ _ _ _ H (m_rcvd s)) as G.
  destruct (info_get (m_info s) (m_rcvd s)) as [[w r]|] eqn:Ek; [|lia].
  destruct G as (_ & Gw & Gr).
  destruct ((match r with Some _ => true | None => false end) || nth w (m_status s) false) eqn:Eb; [exact HWw|].
  apply orb_false_iff in Eb as [Eb1 Eb2]. destruct r as [x|]; [discriminate|].
  assert (act s w = false) as Hina by exact Eb2.
  pose proof (pass_inv gw rd a R s (m_wsnap s) w None H Hlt Ek (or_intror Hina)) as H'.
  pose proof (pass_invW gw rd a s (m_wsnap s) HWw (c_wf _ _ _ _ _ H) (c_gw _ _ _ _ _ H _ Hlt) (or_introl eq_refl)) as HW'.
  exact (IH gw rd a R (passed s (m_wsnap s)) H' HW').
Qed.

Lemma skip_invX : forall fuel gw rd a R s,
  InvC gw rd a R s -> InvW gw rd a s -> InvX gw rd s -> InvX gw rd (snd (skip_retired fuel s)).
Proof.
  induction fuel as [|f IH]; intros gw rd a R s H HWw HX; [exact HX|].
  cbn [skip_retired]. destruct (Nat.ltb_spec (m_rcvd s) (m_send s)) as [Hlt|Hge]; [|exact HX].
  pose proof (c_info _ _ _ _ _ H (m_rcvd s)) as G.
  destruct (info_get (m_info s) (m_rcvd s)) as [[w r]|] eqn:Ek; [|lia].
  destruct G as (_ & Gw & Gr).
  destruct ((match r with Some _ => true | None => false end) || nth w (m_status s) false) eqn:Eb; [exact HX|].
  apply orb_false_iff in Eb as [Eb1 Eb2]. destruct r as [x|]; [discriminate|].
  assert (act s w = false) as Hina by exact Eb2.
  pose proof (pass_inv gw rd a R s (m_wsnap s) w None H Hlt Ek (or_intror Hina)) as H'.
  pose proof (pass_invW gw rd a s (m_wsnap s) HWw (c_wf _ _ _ _ _ H) (c_gw _ _ _ _ _ H _ Hlt) (or_introl eq_refl)) as HW'.
  assert (nb B (gw (m_rcvd s)) < rd (m_rcvd s)) as Hgt.
  { destruct Gr as [[_ Ga]|(st & Hx & _)]; [|discriminate]. rewrite <- Gw.
    assert (w < W) as Hw by (rewrite Gw; apply (c_gw _ _ _ _ _ H); exact Hlt).
    destruct (c_fut _ _ _ _ _ H w Hw) as (_ & _ & _ & F4). rewrite Hina in F4.
    destruct (Nat.ltb_spec (nb B w) (a w)); [lia | discriminate]. }
  assert (InvX gw rd (passed s (m_wsnap s))) as HX'.
  { apply (pass_invX gw rd s (m_wsnap s) HX (c_wf _ _ _ _ _ H) (c_gw _ _ _ _ _ H _ Hlt) (w_len _ _ _ _ HWw)); [|left; split; [reflexivity | exact Hgt]].
    intros t Ht Hg. pose proof (c_mono _ _ _ _ _ H t (m_rcvd s) Ht Hlt). lia. }
  exact (IH gw rd a R (passed s (m_wsnap s)) H' HW' HX').
Qed.

(* the skip loop keeps the snapshot bookkeeping: skipped tasks hold no batch *)
Lemma skip_invS : forall fuel gw rd a R s y,
  InvC gw rd a R s -> Act gw rd a s -> InvS y gw rd s -> InvS y gw rd (snd (skip_retired fuel s)).
Proof.
  induction fuel as [|f IH]; intros gw rd a R s y H HA HS; [exact HS|].
  cbn [skip_retired]. destruct (Nat.ltb_spec (m_rcvd s) (m_send s)) as [Hlt|Hge]; [|exact HS].
  pose proof (c_info _ _ _ _ _ H (m_rcvd s)) as G.
  destruct (info_get (m_info s) (m_rcvd s)) as [[w r]|] eqn:Ek; [|lia].
  destruct G as (_ & Gw & Gr).
  destruct ((match r with Some _ => true | None => false end) || nth w (m_status s) false) eqn:Eb; [exact HS|].
  apply orb_false_iff in Eb as [Eb1 Eb2]. destruct r as [x|]; [discriminate|].
  assert (act s w = false) as Hina by exact Eb2.
  assert (isd gw rd (m_rcvd s) = false) as Hisd.
  { destruct Gr as [[_ Ga]|(st & Hx & _)]; [|discriminate]. unfold isd. rewrite <- Gw. apply Nat.ltb_ge.
    assert (w < W) as Hw by (rewrite Gw; apply (c_gw _ _ _ _ _ H); exact Hlt).
    destruct (c_fut _ _ _ _ _ H w Hw) as (_ & _ & _ & F4). rewrite Hina in F4.
    destruct (Nat.ltb_spec (nb B w) (a w)); [lia | discriminate]. }
  pose proof (pass_inv gw rd a R s (m_wsnap s) w None H Hlt Ek (or_intror Hina)) as H'.
  pose proof (pass_act_noput gw rd a R s (m_wsnap s) H HA Hlt ltac:(rewrite <- Gw; exact Hina)) as HA'.
  pose proof (pass_invS y gw rd s (m_wsnap s) _ HS Hlt Ek) as HS'. rewrite Hisd in HS'. specialize (HS' eq_refl).
  cbn [b2n] in HS'. rewrite Nat.add_0_r in HS'.
  exact (IH gw rd a R (passed s (m_wsnap s)) y H' HA' HS').
Qed.

(* the first task of the window holds a batch: it is handed out *)
(* the state right after a batch was handed out, snapshot_every_n_steps = 1: the snapshot was just taken *)
Definition PostH (gw rd : nat -> nat) (s : ms) : Prop :=
  c_I c = 1 -> 0 < m_rcvd s /\ sn_workers (m_snapshot s) = m_wsnap s /\ sn_step (m_snapshot s) = m_ny s /\
               sn_last (m_snapshot s) = gw (m_rcvd s - 1) /\ rd (m_rcvd s - 1) < nb B (gw (m_rcvd s - 1)) /\ m_last s = gw (m_rcvd s - 1).

Lemma handout gw rd a R s ws b st0 st rest :
  InvC gw rd a R s -> Rest gw rd R s rest -> Act gw rd a s -> InvS (m_ny s) gw rd s -> m_rcvd s < m_send s ->
  info_get (m_info s) (m_rcvd s) = Some (gw (m_rcvd s), Some (RData b, st0)) ->
  InvW gw rd a s -> ws = m_wsnap s -> (st = None \/ st = Some (wst (gw (m_rcvd s)) (S (rd (m_rcvd s))))) ->
  InvX gw rd s -> (c_I c = 1 -> st = Some (wst (gw (m_rcvd s)) (S (rd (m_rcvd s))))) ->
  exists rest' sF gw' rd' R', rest = b :: rest' /\
    process_data c (passed s ws) (RData b) (gw (m_rcvd s)) st = (OBatch b, sF) /\
    InvC gw' rd' a R' sF /\ Rest gw' rd' R' sF rest' /\ Act gw' rd' a sF /\ InvS (m_ny sF) gw' rd' sF /\ m_ny sF = S (m_ny s) /\
    InvW gw' rd' a sF /\ InvX gw' rd' sF /\ PostH gw' rd' sF.
Proof.
  intros H HR HA HS Hkn Hk HWw Ews Hstv HX Hst1. set (k := m_rcvd s) in *. set (u := gw k) in *.
  assert (u < W) as Hu by (apply (c_gw _ _ _ _ _ H); exact Hkn).
  pose proof (pass_invW gw rd a s ws HWw (c_wf _ _ _ _ _ H) Hu (or_introl Ews)) as HW3.
  pose proof (c_info _ _ _ _ _ H k) as G. rewrite Hk in G. destruct G as (_ & _ & G).
  destruct G as [[G _]|(st1 & G & Ga)]; [discriminate|]. injection G as Hans _.
  destruct (ans_cases u (rd k)) as [(b' & E1 & E2 & E3)|(E1 & _)]; [|congruence].
  assert (b' = b) as -> by congruence.
  assert (isd gw rd k = true) as Hisd by (unfold isd; apply Nat.ltb_lt; exact E3).
  assert (c_I c <> 0 -> S (m_ny s) mod c_I c = 0 -> exists m, In (k, m) (m_msnaps s)) as Hbound.
  { intros HI Hm. apply (s_cov _ _ _ _ HS HI k ltac:(fold k; lia) Hisd). fold k. unfold wdat. rewrite Nat.sub_diag. cbn [seq flat_map length].
    rewrite <- Hm. f_equal. lia. }
  assert (Some (RData b, st0) <> None) as Hsome by discriminate.
  pose proof (pass_inv gw rd a R s ws u (Some (RData b, st0)) H Hkn Hk (or_introl Hsome)) as H3.
  destruct (pass_rest gw rd R s ws rest HR Hkn) as (rest' & Erest & HR3). fold k u in Erest. rewrite E2 in Erest. cbn [app] in Erest.
  pose proof (pass_invS (m_ny s) gw rd s ws _ HS Hkn Hk) as HS3. fold k in HS3. rewrite Hisd in HS3.
  specialize (HS3 eq_refl). cbn [b2n] in HS3. replace (m_ny s + 1) with (S (m_ny s)) in HS3 by lia.
  assert (m_outst (passed s ws) + ndat (m_info (passed s ws)) < W * c_P c) as Hroom.
  { destruct (c_out _ _ _ _ _ H) as [_ O2]. pose proof (ndat_del _ _ _ Hk) as Hd. unfold isdat in Hd. cbn [snd b2n] in Hd.
    unfold passed. cbn [upd_core m_outst m_info]. fold k. lia. }
  assert (InvX gw rd (passed s (set_nth (m_wsnap s) u (wst u (S (rd k)))))) as HXp.
  { apply (pass_invX gw rd s _ HX (c_wf _ _ _ _ _ H) Hu (w_len _ _ _ _ HWw)); [|right; split; [reflexivity | unfold u, k in *; lia]].
    intros t Ht Hg. pose proof (c_mono _ _ _ _ _ H t (m_rcvd s) Ht Hkn) as M. unfold u, k in *. lia. }
  assert (info_get (m_info (passed s ws)) (m_send s) = None) as Hfresh3.
  { pose proof (c_info _ _ _ _ _ H3 (m_send s)) as G3. destruct (info_get (m_info (passed s ws)) (m_send s)) as [[? ?]|]; [|reflexivity].
    change (m_send (passed s ws)) with (m_send s) in G3. change (m_rcvd (passed s ws)) with (S k) in G3. lia. }
  destruct (try_put_iter gw rd a R (passed s ws) rest' H3 HR3 Hroom) as (_ & _ & Hput).
  set (s2 := try_put_index c (passed s ws)) in *.
  assert (exists gw' rd' R', InvC gw' rd' a R' s2 /\ Rest gw' rd' R' s2 rest' /\ Act gw' rd' a s2 /\ InvS (S (m_ny s)) gw' rd' s2 /\
                             m_ny s2 = m_ny s /\ m_rcvd s2 = S k /\ (forall e, In e (m_msnaps s) -> In e (m_msnaps s2)) /\
                             InvW gw' rd' a s2 /\ gw' k = u /\ rd' k = rd k /\ m_wsnap s2 = ws /\
                             exists sx, InvX gw' rd' sx /\ m_workers sx = m_workers s2 /\ m_rcvd sx = m_rcvd s2 /\
                                        m_wsnap sx = set_nth (m_wsnap s) u (wst u (S (rd k))) /\ m_info sx = m_info s2)
    as (gw' & rd' & R' & H2 & HR2 & HA2 & HS2 & Eny & Erc & Hsub & HW2 & Egk & Erk & Ews2 & sx & HXx & Ex1 & Ex2 & Ex3 & Ex4).
  { destruct Hput as [(w' & R' & j & E & Hw' & Hact & Hj & HAdv & H2 & HR2)|(R' & E & Hall & H2 & HR2)].
    - exists (upd gw (m_send s) w'), (upd rd (m_send s) (dsp a s w')), R'.
      change (m_send (passed s ws)) with (m_send s) in *. change (dsp a (passed s ws) w') with (dsp a s w') in *.
      change (act (passed s ws) w') with (act s w') in Hact. change (m_cyc (passed s ws)) with (m_cyc s) in HAdv.
      split; [exact H2|]. split; [exact HR2|].
      pose proof (put_some_invS (S (m_ny s)) gw rd a R (passed s ws) w' (m_cyc s2) H3 HS3 ltac:(cbn; lia) Hroom Hw') as HS2.
      change (m_send (passed s ws)) with (m_send s) in HS2. change (dsp a (passed s ws) w') with (dsp a s w') in HS2.
      rewrite E in H2 |- *. split.
      + apply (act_after_put_some gw rd a R s ws w' R' (m_cyc s2) j); auto.
        rewrite E. cbn [put_some m_cyc]. exact (c_cyc _ _ _ _ _ H2).
      + split; [exact HS2|]. cbn [put_some m_ny m_rcvd m_msnaps]. split; [reflexivity|]. split; [reflexivity|]. split.
        * intros e He. unfold passed. cbn [upd_core m_msnaps]. destruct (fl_main (upd_core s (S (m_rcvd s)) (info_del (m_info s) (m_rcvd s)) ws)); [apply in_or_app; left|]; exact He.
        * split; [|rewrite !upd_neq by (fold k; lia); split; [reflexivity|split; [reflexivity|split; [reflexivity|
            exists (put_some (passed s (set_nth (m_wsnap s) u (wst u (S (rd k))))) w' (m_cyc s2)); split; [|repeat split; reflexivity];
            apply (put_some_invX gw rd (passed s (set_nth (m_wsnap s) u (wst u (S (rd k))))) w' (m_cyc s2) w' (dsp a s w') HXp);
              [unfold passed; cbn [upd_core m_rcvd m_send]; lia | unfold passed; cbn [upd_core m_workers]; rewrite (c_wlen _ _ _ _ _ H); exact Hw' | exact Hfresh3]]]]].
          apply (put_some_invW gw rd a (passed s ws) w' (m_cyc s2) w' (dsp a s w') HW3).
          -- unfold passed. cbn [upd_core m_rcvd m_send]. lia.
          -- unfold passed. cbn [upd_core m_workers]. rewrite (c_wlen _ _ _ _ _ H). exact Hw'.
          -- pose proof (c_info _ _ _ _ _ H3 (m_send s)) as G3. change (m_send (passed s ws)) with (m_send s).
             destruct (info_get (m_info (passed s ws)) (m_send s)) as [[? ?]|]; [|reflexivity]. change (m_send (passed s ws)) with (m_send s) in G3. lia.
    - exists gw, rd, R'. split; [exact H2|]. split; [exact HR2|]. rewrite E. split.
      + unfold Act. change (act (put_none (passed s ws) (m_cyc s2))) with (act s). change (act (passed s ws)) with (act s) in Hall.
        split; [intros _ v Hv Hc; rewrite (Hall v Hv) in Hc; discriminate|]. split; [intros _; exact Hall|].
        exact (proj2 (proj2 HA)).
      + split; [apply put_none_invS; exact HS3|]. cbn [put_none m_ny m_rcvd m_msnaps]. split; [reflexivity|]. split; [reflexivity|].
        split; [intros e He; exact He|]. split; [apply put_none_invW; exact HW3 |]. split; [reflexivity|]. split; [reflexivity|]. split; [reflexivity|].
        exists (put_none (passed s (set_nth (m_wsnap s) u (wst u (S (rd k))))) (m_cyc s2)). split; [apply put_none_invX; exact HXp | repeat split; reflexivity]. }
  destruct (process_data_gen (passed s ws) b u st gw' rd' (c_assert _ _ _ _ _ H2)) as (sF & EF & Hag & Hinf & HSF & EnyF & EwsF & EsnF & EpostF).
  { fold s2. rewrite Eny. exact HS2. }
  { fold s2. lia. }
  { fold s2. rewrite Eny, Erc. intros HI Hm. destruct (Hbound HI Hm) as [m Hin]. exists m. replace (S k - 1) with k by lia. apply Hsub, Hin. }
  fold s2 in EF, Hag, Hinf, EnyF, EwsF, EsnF. rewrite Eny in EnyF.
  assert (InvW gw' rd' a sF) as HWF.
  { destruct Hag as (A1 & A2 & A3 & A4 & A5 & A6 & A7).
    apply (final_invW gw' rd' a s2 sF k u st HW2 Erc Egk Hu); auto. rewrite Erk. exact Hstv. }
  assert (InvX gw' rd' sF) as HXF.
  { destruct Hag as (A1 & A2 & A3 & A4 & A5 & A6 & A7).
    constructor; intros HI; (assert (InvX gw' rd' sF) as HXF; [|first [exact (x_q _ _ _ HXF HI) | exact (x_i _ _ _ HXF HI) | exact (x_s _ _ _ HXF HI)]]);
    apply (InvX_ext gw' rd' sx sF HXx); try (intros t; rewrite Hinf, Ex4; reflexivity);
    (split; [rewrite A6; symmetry; exact Ex1 | split; [rewrite EwsF, (Hst1 HI), Ews2, Ews, Ex3; reflexivity | rewrite A2; symmetry; exact Ex2]]). }
  assert (PostH gw' rd' sF) as HPF.
  { intros HI. destruct (EpostF HI) as (P1 & P2 & P3 & P4). destruct Hag as (A1 & A2 & A3 & A4 & A5 & A6 & A7).
    rewrite A2, Erc. replace (S k - 1) with k by lia. rewrite Egk, Erk. repeat split; auto; lia. }
  exists rest', sF, gw', rd', R'. split; [exact Erest|]. split; [exact EF|].
  split; [apply (InvC_ext gw' rd' a R' s2 sF H2 Hag); rewrite ?Hinf; auto; exact (c_wf _ _ _ _ _ H2)|].
  split; [exact (Rest_agree _ _ _ _ _ _ HR2 Hag)|]. split; [exact (Act_agree _ _ _ _ _ HA2 Hag)|]. split; [exact HSF|]. split; [exact EnyF|]. auto.
Qed.

(* a put while the first task of the window stays where it is (after an end-of-shard notice arrived) *)
Lemma put_nopass gw rd a R s rest :
  InvC gw rd a R s -> Rest gw rd R s rest -> Act gw rd a s -> InvS (m_ny s) gw rd s -> InvW gw rd a s -> InvX gw rd s -> m_outst s + ndat (m_info s) < W * c_P c ->
  let s2 := try_put_index c s in
  exists gw' rd' R', InvC gw' rd' a R' s2 /\ Rest gw' rd' R' s2 rest /\ Act gw' rd' a s2 /\ InvS (m_ny s) gw' rd' s2 /\ InvW gw' rd' a s2 /\ InvX gw' rd' s2 /\
    m_rcvd s2 = m_rcvd s /\ m_status s2 = m_status s /\
    ((m_send s2 = S (m_send s) /\ m_outst s2 = S (m_outst s) /\ exists w' c', s2 = put_some s w' c') \/
     (m_send s2 = m_send s /\ m_outst s2 = m_outst s /\ exists c', s2 = put_none s c')).
Proof.
  intros H HR HA HS HWw HX Hroom. cbn zeta.
  assert (info_get (m_info s) (m_send s) = None) as Hfresh.
  { pose proof (c_info _ _ _ _ _ H (m_send s)) as G. destruct (info_get (m_info s) (m_send s)) as [[? ?]|]; [lia | reflexivity]. }
  destruct (try_put_iter gw rd a R s rest H HR Hroom) as ((E1 & _) & E2 & Hput).
  set (s2 := try_put_index c s) in *.
  destruct Hput as [(w' & R' & j & E & Hw' & Hact & Hj & HAdv & H2 & HR2)|(R' & E & Hall & H2 & HR2)].
  - exists (upd gw (m_send s) w'), (upd rd (m_send s) (dsp a s w')), R'.
    split; [exact H2|]. split; [exact HR2|].
    assert (m_rcvd s < m_send s) as Hkn.
    { destruct (Nat.eq_dec (m_rcvd s) (m_send s)) as [Eq|Ne]; [|pose proof (c_kn _ _ _ _ _ H); lia].
      destruct HA as (_ & A2 & _). rewrite (A2 Eq w' Hw') in Hact. discriminate. }
    assert (w' < length (m_workers s)) as Hwl by (rewrite (c_wlen _ _ _ _ _ H); exact Hw').
    split; [|split; [rewrite E; apply (put_some_invS (m_ny s) gw rd a R s w' (m_cyc s2) H HS ltac:(lia) Hroom Hw')|split; [rewrite E; apply (put_some_invW gw rd a s w' (m_cyc s2) w' (dsp a s w') HWw (c_kn _ _ _ _ _ H) Hwl Hfresh)|split; [rewrite E; apply (put_some_invX gw rd s w' (m_cyc s2) w' (dsp a s w') HX (c_kn _ _ _ _ _ H) Hwl Hfresh)|split; [exact E1|split; [exact E2|left; rewrite E; cbn [put_some m_send m_outst]; split; [reflexivity|split; [reflexivity|eauto]]]]]]]].
    rewrite E. unfold Act. cbn [put_some m_rcvd m_send].
    split; [|split; [lia | destruct HA as (_ & _ & A3); lia]].
    intros _ v Hv Hc. change (act (put_some s w' (m_cyc s2)) v) with (act s v) in Hc.
    destruct HA as (A1 & _ & _). specialize (A1 Hkn v Hv Hc). rewrite !upd_neq by lia.
    assert (dsp a s v <= dsp a (put_some s w' (m_cyc s2)) v) as Hle.
    { unfold dsp. destruct (Nat.eq_dec v w') as [->|Hne].
      - rewrite wq_put_some_eq by exact Hwl. rewrite app_length. lia.
      - rewrite wq_put_some_neq by exact Hne. lia. }
    lia.
  - exists gw, rd, R'. split; [exact H2|]. split; [exact HR2|].
    split; [|split; [rewrite E; apply put_none_invS, HS|split; [rewrite E; apply put_none_invW, HWw|split; [rewrite E; apply put_none_invX, HX|split; [exact E1|split; [exact E2|right; rewrite E; cbn [put_none m_send m_outst]; split; [reflexivity|split; [reflexivity|eauto]]]]]]]].
    rewrite E. unfold Act. change (act (put_none s (m_cyc s2))) with (act s).
    split; [intros _ v Hv Hc; rewrite (Hall v Hv) in Hc; discriminate|]. split; [intros _; exact Hall|]. exact (proj2 (proj2 HA)).
Qed.

Lemma qsum_pos ws : forall w, w < length ws -> wk_q (nth w ws wk_fresh) <> [] -> qsum ws <> 0.
Proof.
  unfold qsum. induction ws as [|k ws IH]; intros [|w] Hl Hne; cbn in *; try lia.
  - destruct (wk_q k); [congruence | cbn; lia].
  - specialize (IH w ltac:(lia) Hne). lia.
Qed.

(* the main process waits for the first task of the window: some result can arrive, and whichever worker it comes from
   is a live worker with a task in its queue *)
Lemma arrive_ready gw rd a R s w ch : InvC gw rd a R s -> m_rcvd s < m_send s ->
  info_get (m_info s) (m_rcvd s) = Some (w, None) -> act s w = true ->
  m_outst s <> 0 /\ candidates s <> [] /\
  let w2 := nth (ch mod length (candidates s)) (candidates s) 0 in
  w2 < W /\ wk_dead (nth w2 (m_workers s) wk_fresh) = false /\ wq s w2 <> [].
Proof.
  intros H Hkn Hk Hact.
  pose proof (c_info _ _ _ _ _ H (m_rcvd s)) as G. rewrite Hk in G. destruct G as (_ & Gw & G).
  destruct G as [[_ Ga]|(st & Hx & _)]; [|discriminate].
  assert (w < W) as Hw by (rewrite Gw; apply (c_gw _ _ _ _ _ H); exact Hkn).
  destruct (c_q _ _ _ _ _ H w Hw) as [_ Qm].
  assert (In (m_rcvd s) (map t_idx (wq s w))) as Hin by (apply Qm; repeat split; [exact Hkn | symmetry; exact Gw | exact Ga]).
  assert (wq s w <> []) as Hne by (intros E; rewrite E in Hin; exact Hin).
  destruct (c_fut _ _ _ _ _ H w Hw) as (_ & F2 & _ & F4). rewrite Hact in F4.
  assert (wk_dead (nth w (m_workers s) wk_fresh) = false) as Hd by (rewrite F2; destruct (nb B w <? a w); [discriminate | reflexivity]).
  assert (In w (candidates s)) as Hc by (apply in_candidates; rewrite (c_wlen _ _ _ _ _ H); auto).
  assert (candidates s <> []) as Hcn by (intros E; rewrite E in Hc; exact Hc).
  split.
  - destruct (c_out _ _ _ _ _ H) as [O1 _]. rewrite O1. apply (qsum_pos (m_workers s) w); [rewrite (c_wlen _ _ _ _ _ H); exact Hw | exact Hne].
  - split; [exact Hcn|]. cbn zeta. pose proof (nth_mod_in (candidates s) ch Hcn) as Hin2.
    apply in_candidates in Hin2. rewrite (c_wlen _ _ _ _ _ H) in Hin2. exact Hin2.
Qed.

Lemma nact_same_le st : nact st <= length st.
Proof. apply nact_le. Qed.

Lemma mark_after_put_ext l idx v0 v n e : wf_info l -> info_get l idx = Some v0 -> info_get l n = None -> n <> idx ->
  wf_info (info_set (l ++ [(n, e)]) idx v) /\
  (forall t, info_get (info_set (l ++ [(n, e)]) idx v) t = info_get (info_set l idx v ++ [(n, e)]) t) /\
  ndat (info_set (l ++ [(n, e)]) idx v) = ndat (info_set l idx v ++ [(n, e)]).
Proof.
  intros Hwf Hi Hn Hne.
  assert (wf_info (l ++ [(n, e)])) as Hwf2 by (apply wf_app; assumption).
  split; [apply wf_set, Hwf2|]. split.
  - intros t. rewrite info_get_set by exact Hwf2. rewrite !info_get_app. rewrite info_get_set by exact Hwf.
    destruct (Nat.eqb_spec idx t) as [->|Hnt]; [reflexivity|]. reflexivity.
  - unfold info_set. rewrite (info_del_app_found l idx v0 (n, e) Hi). rewrite !ndat_app. lia.
Qed.

Lemma Act_mono gw rd a a' s s' : Act gw rd a s -> m_rcvd s' = m_rcvd s -> m_send s' = m_send s -> m_rcvd s < m_send s ->
  (forall v, v < W -> act s' v = true -> act s v = true) -> (forall v, dsp a s v <= dsp a' s' v) -> Act gw rd a' s'.
Proof.
  intros (A1 & _ & A3) E1 E2 Hlt Hact Hd. unfold Act. rewrite E1, E2. split; [|split; [lia | exact A3]].
  intros _ v Hv Hc. specialize (A1 Hlt v Hv (Hact v Hv Hc)). specialize (Hd v). lia.
Qed.

Lemma psi_frame s s' : frame s s' -> psi s' <= psi s.
Proof. intros (E1 & E2 & E3 & E4 & _ & _ & _ & E8). unfold psi. rewrite E1, E3, E8. lia. Qed.

(* _next_data for an iterable dataset, under every arrival schedule *)
Lemma next_data_iter : forall fuel gw rd a R s rest sched,
  InvC gw rd a R s -> Rest gw rd R s rest -> Act gw rd a s -> InvS (m_ny s) gw rd s -> InvW gw rd a s -> InvX gw rd s -> psi s < fuel ->
  match rest with
  | [] => exists s' sched', next_data fuel c s sched = (OStop, s', sched')
  | b :: rest' => exists s' sched' gw' rd' a' R', next_data fuel c s sched = (OBatch b, s', sched') /\
                    InvC gw' rd' a' R' s' /\ Rest gw' rd' R' s' rest' /\ Act gw' rd' a' s' /\ InvS (m_ny s') gw' rd' s' /\
                    m_ny s' = S (m_ny s) /\ InvW gw' rd' a' s' /\ InvX gw' rd' s' /\ PostH gw' rd' s'
  end.
Proof.
  induction fuel as [|f IH]; intros gw rd a R s rest sched H HR HA HS HWw HX Hpsi; [lia|].
  cbn [next_data].
  pose proof (skip_spec (S (m_send s)) gw rd a R s rest H HR HA ltac:(lia)) as Hskip.
  pose proof (skip_invS (S (m_send s)) gw rd a R s (m_ny s) H HA HS) as HS1.
  pose proof (skip_invW (S (m_send s)) gw rd a R s H HWw) as HW1.
  pose proof (skip_invX (S (m_send s)) gw rd a R s H HWw HX) as HX1.
  destruct (skip_retired (S (m_send s)) s) as [found s1]. cbn [snd] in HS1, HW1, HX1.
  destruct Hskip as (H1 & HR1 & HA1 & Hfr & Hf). pose proof (psi_frame _ _ Hfr) as Hpsi1.
  assert (m_ny s1 = m_ny s) as Eny1 by (destruct Hfr as (_ & _ & _ & _ & E & _); exact E). rewrite <- Eny1 in HS1 |- *.
  clear H HR HA HS HWw HX Hfr. destruct found; cbn [negb].
  2:{ (* the window is empty: every worker has retired, nothing is left *)
    assert (rest = []) as ->.
    { unfold Rest in HR1. rewrite Hf in HR1. unfold wdat in HR1. rewrite Nat.sub_diag in HR1. cbn [seq flat_map app] in HR1.
      rewrite HR1. apply refsuf_nil; [exact (c_cyc _ _ _ _ _ H1)|].
      intros v Hv. apply (inactive_beyond _ _ _ _ _ H1 v Hv). destruct HA1 as (_ & A2 & _). exact (A2 Hf v Hv). }
    eexists _, _. reflexivity. }
  destruct Hf as (Hlt & w & r & Ek & Hr). rewrite Ek.
  pose proof (c_info _ _ _ _ _ H1 (m_rcvd s1)) as Gk. rewrite Ek in Gk. destruct Gk as (_ & Gw & Gr).
  destruct r as [[res st]|].
  - (* the result of the first task is already there *)
    destruct Gr as [[Gx _]|(st1 & Gx & Ga)]; [discriminate|]. injection Gx as Gres _.
    pose proof (w_i _ _ _ _ HW1 _ _ _ _ Ek) as Hstv.
    destruct (ans_cases w (rd (m_rcvd s1))) as [(b & E1 & E2 & E3)|(E1 & E2 & E3)]; rewrite E1 in Gres; subst res.
    + subst w.
      destruct (handout gw rd a R s1 (m_wsnap s1) b st st rest H1 HR1 HA1 HS1 Hlt Ek HW1 eq_refl Hstv HX1 (fun HI => x_i _ _ _ HX1 HI _ _ _ _ Ek))
        as (rest' & sF & gw' & rd' & R' & -> & EF & HF & HRF & HAF & HSF & EnF & HWF & HXF & HPF).
      unfold passed in EF. rewrite EF. eexists _, _, gw', rd', a, R'. split; [reflexivity|]. auto 12.
    + subst w. set (ws := match st with Some x => set_nth (m_wsnap s1) (gw (m_rcvd s1)) x | None => m_wsnap s1 end).
      assert (act s1 (gw (m_rcvd s1)) = false) as Hina.
      { assert (gw (m_rcvd s1) < W) as Hw by (apply (c_gw _ _ _ _ _ H1); exact Hlt).
        destruct (c_fut _ _ _ _ _ H1 _ Hw) as (_ & _ & _ & F4). rewrite F4.
        replace (nb B (gw (m_rcvd s1)) <? a (gw (m_rcvd s1))) with true by (symmetry; apply Nat.ltb_lt; lia). reflexivity. }
      assert (Some (RStop, st) <> None) as Hsome by discriminate.
      pose proof (pass_inv gw rd a R s1 ws _ _ H1 Hlt Ek (or_introl Hsome)) as H2.
      destruct (pass_rest gw rd R s1 ws rest HR1 Hlt) as (rest' & Erest & HR2). rewrite E2 in Erest. cbn [app] in Erest. subst rest'.
      pose proof (pass_act_noput gw rd a R s1 ws H1 HA1 Hlt Hina) as HA2.
      pose proof (pass_invS (m_ny s1) gw rd s1 ws _ HS1 Hlt Ek) as HS2.
      assert (isd gw rd (m_rcvd s1) = false) as Hisd by (unfold isd; apply Nat.ltb_ge; exact E3).
      rewrite Hisd in HS2. specialize (HS2 eq_refl). cbn [b2n] in HS2. rewrite Nat.add_0_r in HS2.
      assert (InvW gw rd a (passed s1 ws)) as HW2.
      { apply (pass_invW gw rd a s1 ws HW1 (c_wf _ _ _ _ _ H1) (c_gw _ _ _ _ _ H1 _ Hlt)).
        unfold ws. destruct Hstv as [->| ->]; [left | right]; reflexivity. }
      assert (InvX gw rd (passed s1 ws)) as HX2.
      { constructor; intros HI; (assert (InvX gw rd (passed s1 ws)) as HXa; [|first [exact (x_q _ _ _ HXa HI) | exact (x_i _ _ _ HXa HI) | exact (x_s _ _ _ HXa HI)]]);
        (apply (pass_invX gw rd s1 ws HX1 (c_wf _ _ _ _ _ H1) (c_gw _ _ _ _ _ H1 _ Hlt) (w_len _ _ _ _ HW1));
         [intros t Ht Hg; pose proof (c_mono _ _ _ _ _ H1 t (m_rcvd s1) Ht Hlt); lia
         | right; split; [unfold ws; rewrite (x_i _ _ _ HX1 HI _ _ _ _ Ek); reflexivity
                          | destruct (c_fut _ _ _ _ _ H1 _ (c_gw _ _ _ _ _ H1 _ Hlt)) as (_ & _ & F3 & _); lia]]). }
      apply (IH gw rd a R (passed s1 ws) rest sched H2 HR2 HA2 HS2 HW2 HX2).
      unfold psi, passed in *. cbn [upd_core m_send m_rcvd m_outst m_status]. lia.
  - (* the first task is still outstanding: wait for an arrival *)
    destruct Hr as [Hr|Hact]; [congruence|].
    destruct (arrive_ready gw rd a R s1 w (match sched with [] => 0 | x :: _ => x end) H1 Hlt Ek Hact) as (Hout & Hcn & Hw2 & Hd2 & Hq2).
    replace (m_outst s1 =? 0) with false by (symmetry; apply Nat.eqb_neq; exact Hout).
    destruct (candidates s1) as [|cand0 cs] eqn:Ec; [congruence|]. rewrite <- Ec in *. clear Hcn.
    set (sched' := match sched with [] => [] | _ :: r => r end).
    set (w2 := nth ((match sched with [] => 0 | x :: _ => x end) mod length (candidates s1)) (candidates s1) 0) in *.
    destruct (wq s1 w2) as [|tk q'] eqn:Eq; [congruence|]. clear Hq2.
    rewrite (arrive_unfold s1 w2 tk q' Eq).
    pose proof (arrive_inv gw rd a R s1 w2 tk q' H1 Hw2 Eq Hd2) as HAI.
    destruct (worker_fetch c w2 (kpop s1 w2 q') tk) as [[r2 st2] k2] eqn:Efetch.
    destruct HAI as (Hr2 & Hidx & Hgi & Hri & Hei & Ho1 & Hst & Hv & Hdsp & Hnd).
    set (idx := t_idx tk) in *. set (a' := upd a w2 (S (a w2))) in *.
    assert (w2 < length (m_status s1)) as Hsl by (rewrite (c_slen _ _ _ _ _ H1); exact Hw2).
    assert (wk_q k2 = q') as Hq2k.
    { pose proof (fetch_dead c Hkind w2 (kpop s1 w2 q') tk) as FD. rewrite Efetch in FD. exact (proj2 FD). }
    pose proof (arrive_invS (m_ny s1) gw rd a R s1 w2 tk q' k2 r2 st2 H1 HS1 Hw2 Eq Hq2k Hgi Hri Hr2 Hei) as HSv. fold idx in HSv.
    pose proof (arrive_invW gw rd a s1 w2 tk q' HW1 (c_wf _ _ _ _ _ H1) ltac:(rewrite (c_wlen _ _ _ _ _ H1); exact Hw2) Hw2 (c_a0 _ _ _ _ _ H1 w2 Hw2) Hri) as HWv.
    rewrite Efetch in HWv. fold idx a' in HWv.
    pose proof (arrive_invX gw rd a s1 w2 tk q' HX1 HW1 (c_wf _ _ _ _ _ H1) ltac:(rewrite (c_wlen _ _ _ _ _ H1); exact Hw2) Hw2 (c_a0 _ _ _ _ _ H1 w2 Hw2) Hri Eq) as HXv.
    rewrite Efetch in HXv. specialize (HXv Hq2k). fold idx in HXv.
    destruct (ans_cases w2 (a w2)) as [(b2 & E1 & E2 & E3)|(E1 & E2 & E3)]; rewrite E1 in Hr2; subst r2; cbn [m_rcvd].
    + (* a batch arrives *)
      set (sv := arrived s1 w2 k2 idx (RData b2) st2) in *.
      assert (Rest gw rd R sv rest) as HRv by exact HR1.
      assert (Act gw rd a' sv) as HAv.
      { apply (Act_mono gw rd a a' s1 sv HA1); try reflexivity; [exact Hlt | intros v _ Hc; exact Hc | intros v; rewrite Hdsp; lia]. }
      destruct (Nat.eqb_spec idx (m_rcvd s1)) as [Eidx|Nidx]; cbn [negb].
      * (* the awaited batch: handed out *)
        assert (info_get (m_info sv) (m_rcvd sv) = Some (gw (m_rcvd sv), Some (RData b2, st2))) as Hkv.
        { unfold sv, arrived. cbn [m_info m_rcvd]. rewrite <- Eidx. rewrite info_get_set by exact (c_wf _ _ _ _ _ H1).
          rewrite Nat.eqb_refl, Hgi. reflexivity. }
        pose proof (w_i _ _ _ _ HWv _ _ _ _ Hkv) as Hst2.
        destruct (handout gw rd a' R sv (m_wsnap s1) b2 st2 st2 rest Hv HRv HAv HSv Hlt Hkv HWv eq_refl Hst2 HXv (fun HI => x_i _ _ _ HXv HI _ _ _ _ Hkv))
          as (rest' & sF & gw' & rd' & R' & -> & EF & HF & HRF & HAF & HSF & EnF & HWF & HXF & HPF).
        match goal with |- context [process_data c ?S _ _ _] => assert (S = passed sv (m_wsnap s1)) as Es3 end.
        { unfold passed, sv, arrived. cbn [m_rcvd m_info upd_core m_send m_outst m_status m_cyc m_ny m_siy m_samp m_msnaps m_last m_wsnap
            m_snapshot m_finished m_workers m_assert isstop]. rewrite <- Eidx. rewrite info_del_set by exact (c_wf _ _ _ _ _ H1). reflexivity. }
        rewrite Es3. change (m_rcvd sv) with (m_rcvd s1) in EF. rewrite <- Eidx, Hgi in EF. rewrite EF.
        eexists _, _, gw', rd', a', R'. split; [reflexivity|]. auto 12.
      * (* out of order: buffered, keep waiting *)
        apply (IH gw rd a' R sv rest sched' Hv HRv HAv HSv HWv HXv).
        unfold psi, sv, arrived in *. cbn [m_send m_rcvd m_outst m_status isstop]. lia.
    + (* an end-of-shard notice arrives: the worker retires, one more task is put *)
      set (sv := arrived s1 w2 k2 idx RStop st2) in *.
      assert (Rest gw rd R sv rest) as HRv by exact HR1.
      assert (forall v, act sv v = if v =? w2 then false else act s1 v) as Hactv.
      { intros v. unfold act, sv, arrived. cbn [m_status isstop]. apply nth_set_false, Hsl. }
      assert (Act gw rd a' sv) as HAv.
      { apply (Act_mono gw rd a a' s1 sv HA1); try reflexivity; [exact Hlt | | intros v; rewrite Hdsp; lia].
        intros v _ Hc. rewrite Hactv in Hc. destruct (v =? w2); [discriminate | exact Hc]. }
      assert (nact (m_status sv) + 1 = nact (m_status s1)) as Hnact.
      { unfold sv, arrived. cbn [m_status isstop]. apply nact_set_false. exact (Hst eq_refl). }
      assert (m_outst sv + ndat (m_info sv) < W * c_P c) as Hroomv.
      { rewrite Hnd. destruct (c_out _ _ _ _ _ H1) as [_ O2]. unfold sv, arrived. cbn [m_outst isdata b2n]. lia. }
      match goal with |- context [try_put_index c ?S] => set (s' := S) end.
      assert (m_outst s' < W * c_P c) as Hout' by (unfold s'; cbn [m_outst]; unfold sv, arrived in Hroomv; cbn [m_outst] in Hroomv; lia).
      pose proof (try_put_eq s' Hout' (c_assert _ _ _ _ _ H1)) as Eput'.
      change (m_status s') with (m_status sv) in Eput'. change (m_cyc s') with (m_cyc sv) in Eput'.
      assert (m_outst sv < W * c_P c) as Houtv by lia.
      assert (info_get (m_info s1) (m_send s1) = None) as Hfresh.
      { pose proof (c_info _ _ _ _ _ H1 (m_send s1)) as G. destruct (info_get (m_info s1) (m_send s1)) as [[? ?]|]; [lia | reflexivity]. }
      destruct (Nat.eqb_spec idx (m_rcvd s1)) as [Eidx|Nidx].
      * (* the awaited task was the worker's last: the notice is consumed *)
        set (ws := match st2 with Some x => set_nth (m_wsnap s1) w2 x | None => m_wsnap s1 end).
        assert (info_get (m_info sv) (m_rcvd sv) = Some (w2, Some (RStop, st2))) as Hkv.
        { unfold sv, arrived. cbn [m_info m_rcvd]. rewrite <- Eidx. rewrite info_get_set by exact (c_wf _ _ _ _ _ H1).
          rewrite Nat.eqb_refl. reflexivity. }
        assert (act sv w2 = false) as Hina by (rewrite Hactv, Nat.eqb_refl; reflexivity).
        assert (Some (RStop, st2) <> None) as Hsome by discriminate.
        pose proof (pass_inv gw rd a' R sv ws _ _ Hv Hlt Hkv (or_introl Hsome)) as Hp.
        destruct (pass_rest gw rd R sv ws rest HRv Hlt) as (rest' & Erest & HRp).
        change (m_rcvd sv) with (m_rcvd s1) in Erest. rewrite <- Eidx, Hgi, Hri, E2 in Erest. cbn [app] in Erest. subst rest'.
        pose proof (pass_act_noput gw rd a' R sv ws Hv HAv Hlt ltac:(change (m_rcvd sv) with (m_rcvd s1); rewrite <- Eidx, Hgi; exact Hina)) as HAp.
        pose proof (pass_invS (m_ny s1) gw rd sv ws _ HSv Hlt Hkv) as HSp.
        assert (isd gw rd (m_rcvd sv) = false) as Hisdv by (unfold isd; change (m_rcvd sv) with (m_rcvd s1); rewrite <- Eidx, Hgi, Hri; apply Nat.ltb_ge; exact E3).
        rewrite Hisdv in HSp. specialize (HSp eq_refl). cbn [b2n] in HSp. rewrite Nat.add_0_r in HSp.
        assert (InvW gw rd a' (passed sv ws)) as HWp.
        { apply (pass_invW gw rd a' sv ws HWv (c_wf _ _ _ _ _ Hv) (c_gw _ _ _ _ _ Hv _ Hlt)).
          pose proof (w_i _ _ _ _ HWv _ _ _ _ Hkv) as Hst2. change (m_rcvd sv) with (m_rcvd s1) in Hst2 |- *. rewrite <- Eidx in Hst2 |- *. rewrite Hgi.
          unfold ws. change (m_wsnap sv) with (m_wsnap s1). destruct Hst2 as [->| ->]; [left | right]; reflexivity. }
        assert (InvX gw rd (passed sv ws)) as HXp.
        { constructor; intros HI; (assert (InvX gw rd (passed sv ws)) as HXa; [|first [exact (x_q _ _ _ HXa HI) | exact (x_i _ _ _ HXa HI) | exact (x_s _ _ _ HXa HI)]]);
          (apply (pass_invX gw rd sv ws HXv (c_wf _ _ _ _ _ Hv) (c_gw _ _ _ _ _ Hv _ Hlt) (w_len _ _ _ _ HWv));
           [intros t Ht Hg; pose proof (c_mono _ _ _ _ _ Hv t (m_rcvd sv) Ht Hlt); lia
           | right; change (m_rcvd sv) with (m_rcvd s1); rewrite <- Eidx, Hgi, Hri; split;
             [unfold ws; change (m_wsnap sv) with (m_wsnap s1); pose proof (x_i _ _ _ HXv HI _ _ _ _ Hkv) as Hx; change (m_rcvd sv) with (m_rcvd s1) in Hx; rewrite <- Eidx, Hri in Hx; rewrite Hx; reflexivity
              | destruct (c_fut _ _ _ _ _ H1 w2 Hw2) as (_ & F2' & _); rewrite Hd2 in F2'; symmetry in F2'; apply Nat.ltb_ge in F2'; lia]]). }
        set (sp := passed sv ws) in *.
        assert (m_outst sp + ndat (m_info sp) < W * c_P c) as Hroomp.
        { pose proof (ndat_del _ _ _ Hkv) as Hd. unfold isdat in Hd. cbn [snd b2n] in Hd. unfold sp, passed. cbn [upd_core m_outst m_info].
          change (m_outst sv) with (m_outst s1 - 1) in *. lia. }
        assert (m_outst sp < W * c_P c) as Houtp by lia.
        pose proof (try_put_eq sp Houtp (c_assert _ _ _ _ _ Hp)) as Eputp.
        change (m_status sp) with (m_status sv) in Eputp. change (m_cyc sp) with (m_cyc sv) in Eputp.
        destruct (put_nopass gw rd a' R sp rest Hp HRp HAp HSp HWp HXp Hroomp) as (gw' & rd' & R' & H2 & HR2 & HA2 & HS2 & HW2 & HX2 & Er2 & Es2 & Hcase).
        rewrite Eput'. rewrite Eputp in H2, HR2, HA2, HS2, HW2, HX2, Er2, Es2, Hcase.
        assert (info_del (info_set (m_info s1) idx (w2, Some (RStop, st2))) idx = info_del (m_info s1) idx) as Hdl
          by (apply info_del_set; exact (c_wf _ _ _ _ _ H1)).
        destruct (find_worker W W (m_status sv) (m_cyc sv)) as [[w'|] c'].
        -- cbn [put_some m_rcvd]. change (m_rcvd s') with (m_rcvd s1). replace (negb (idx =? m_rcvd s1)) with false by (symmetry; apply negb_false_iff, Nat.eqb_eq; exact Eidx).
           match goal with |- context [next_data f c ?S sched'] => set (sA := S) end.
           assert (agree (put_some sp w' c') sA) as Hag by (unfold agree, sA, sp, passed, sv, s', arrived; cbn; repeat split; reflexivity).
           assert (m_info sA = m_info (put_some sp w' c')) as Hinf.
           { unfold sA, sp, passed, sv, s', arrived. cbn [upd_core put_some m_info m_rcvd m_send]. rewrite <- Eidx, Hdl.
             apply (info_del_app_found _ _ _ _ Hei). }
           assert (InvC gw' rd' a' R' sA) as HA'.
           { apply (InvC_ext gw' rd' a' R' (put_some sp w' c') sA H2 Hag); rewrite ?Hinf; auto. exact (c_wf _ _ _ _ _ H2). }
           assert (agreeS (put_some sp w' c') sA) as HagS by (split; [exact Hag | split; reflexivity]).
           assert (InvS (m_ny sA) gw' rd' sA) as HSA by (apply (InvS_ext (m_ny s1) gw' rd' (put_some sp w' c') sA HS2 HagS); rewrite Hinf; reflexivity).
           assert (InvW gw' rd' a' sA) as HWA by (apply (InvW_ext gw' rd' a' (put_some sp w' c') sA HW2); [unfold agreeW; repeat split; reflexivity | intros; rewrite Hinf; reflexivity]).
           assert (InvX gw' rd' sA) as HXA by (apply (InvX_ext gw' rd' (put_some sp w' c') sA HX2); [unfold agreeX; repeat split; reflexivity | intros; rewrite Hinf; reflexivity]).
           apply (IH gw' rd' a' R' sA rest sched' HA' (Rest_agree _ _ _ _ _ _ HR2 Hag) (Act_agree _ _ _ _ _ HA2 Hag) HSA HWA HXA).
           unfold psi in *. unfold sA. cbn [upd_core put_some m_send m_rcvd m_outst m_status]. unfold s'. cbn [m_send m_outst m_status m_rcvd].
           unfold sv, arrived in Hnact. cbn [m_status isstop] in Hnact. lia.
        -- cbn [put_none m_rcvd]. change (m_rcvd s') with (m_rcvd s1). replace (negb (idx =? m_rcvd s1)) with false by (symmetry; apply negb_false_iff, Nat.eqb_eq; exact Eidx).
           match goal with |- context [next_data f c ?S sched'] => set (sA := S) end.
           assert (agree (put_none sp c') sA) as Hag by (unfold agree, sA, sp, passed, sv, s', arrived; cbn; repeat split; reflexivity).
           assert (m_info sA = m_info (put_none sp c')) as Hinf.
           { unfold sA, sp, passed, sv, s', arrived. cbn [upd_core put_none m_info m_rcvd m_send]. rewrite <- Eidx, Hdl. reflexivity. }
           assert (InvC gw' rd' a' R' sA) as HA'.
           { apply (InvC_ext gw' rd' a' R' (put_none sp c') sA H2 Hag); rewrite ?Hinf; auto. exact (c_wf _ _ _ _ _ H2). }
           assert (agreeS (put_none sp c') sA) as HagS by (split; [exact Hag | split; reflexivity]).
           assert (InvS (m_ny sA) gw' rd' sA) as HSA by (apply (InvS_ext (m_ny s1) gw' rd' (put_none sp c') sA HS2 HagS); rewrite Hinf; reflexivity).
           assert (InvW gw' rd' a' sA) as HWA by (apply (InvW_ext gw' rd' a' (put_none sp c') sA HW2); [unfold agreeW; repeat split; reflexivity | intros; rewrite Hinf; reflexivity]).
           assert (InvX gw' rd' sA) as HXA by (apply (InvX_ext gw' rd' (put_none sp c') sA HX2); [unfold agreeX; repeat split; reflexivity | intros; rewrite Hinf; reflexivity]).
           apply (IH gw' rd' a' R' sA rest sched' HA' (Rest_agree _ _ _ _ _ _ HR2 Hag) (Act_agree _ _ _ _ _ HA2 Hag) HSA HWA HXA).
           unfold psi in *. unfold sA. cbn [upd_core put_none m_send m_rcvd m_outst m_status]. unfold s'. cbn [m_send m_outst m_status m_rcvd].
           unfold sv, arrived in Hnact. cbn [m_status isstop] in Hnact. lia.
      * (* out of order: the notice is buffered *)
        pose proof (try_put_eq sv Houtv (c_assert _ _ _ _ _ Hv)) as Eputv.
        destruct (put_nopass gw rd a' R sv rest Hv HRv HAv HSv HWv HXv Hroomv) as (gw' & rd' & R' & H2 & HR2 & HA2 & HS2 & HW2 & HX2 & Er2 & Es2 & Hcase).
        rewrite Eput'. rewrite Eputv in H2, HR2, HA2, HS2, HW2, HX2, Er2, Es2, Hcase.
        destruct (find_worker W W (m_status sv) (m_cyc sv)) as [[w'|] c'].
        -- cbn [put_some m_rcvd]. change (m_rcvd s') with (m_rcvd s1). replace (negb (idx =? m_rcvd s1)) with true by (symmetry; apply negb_true_iff, Nat.eqb_neq; exact Nidx).
           match goal with |- context [next_data f c ?S sched'] => set (sA := S) end.
           destruct (mark_after_put_ext (m_info s1) idx (w2, None) (w2, Some (RStop, st2)) (m_send s1) (w', None)
                       (c_wf _ _ _ _ _ H1) Hei Hfresh ltac:(lia)) as (X1 & X2 & X3).
           assert (agree (put_some sv w' c') sA) as Hag by (unfold agree, sA, sv, s', arrived; cbn; repeat split; reflexivity).
           assert (InvC gw' rd' a' R' sA) as HA'.
           { apply (InvC_ext gw' rd' a' R' (put_some sv w' c') sA H2 Hag); [exact X1 | exact X2 | exact X3]. }
           assert (agreeS (put_some sv w' c') sA) as HagS by (split; [exact Hag | split; reflexivity]).
           assert (InvS (m_ny sA) gw' rd' sA) as HSA by (apply (InvS_ext (m_ny s1) gw' rd' (put_some sv w' c') sA HS2 HagS); exact X3).
           assert (InvW gw' rd' a' sA) as HWA by (apply (InvW_ext gw' rd' a' (put_some sv w' c') sA HW2); [unfold agreeW; repeat split; reflexivity | exact X2]).
           assert (InvX gw' rd' sA) as HXA by (apply (InvX_ext gw' rd' (put_some sv w' c') sA HX2); [unfold agreeX; repeat split; reflexivity | exact X2]).
           apply (IH gw' rd' a' R' sA rest sched' HA' (Rest_agree _ _ _ _ _ _ HR2 Hag) (Act_agree _ _ _ _ _ HA2 Hag) HSA HWA HXA).
           unfold psi in *. unfold sA. cbn [upd_core put_some m_send m_rcvd m_outst m_status]. unfold s'. cbn [m_send m_outst m_status].
           unfold sv, arrived in Hnact. cbn [m_status isstop] in Hnact. lia.
        -- cbn [put_none m_rcvd]. change (m_rcvd s') with (m_rcvd s1). replace (negb (idx =? m_rcvd s1)) with true by (symmetry; apply negb_true_iff, Nat.eqb_neq; exact Nidx).
           match goal with |- context [next_data f c ?S sched'] => set (sA := S) end.
           assert (agree (put_none sv c') sA) as Hag by (unfold agree, sA, sv, s', arrived; cbn; repeat split; reflexivity).
           assert (InvC gw' rd' a' R' sA) as HA'.
           { apply (InvC_ext gw' rd' a' R' (put_none sv c') sA H2 Hag); [exact (c_wf _ _ _ _ _ H2) | reflexivity | reflexivity]. }
           assert (agreeS (put_none sv c') sA) as HagS by (split; [exact Hag | split; reflexivity]).
           assert (InvS (m_ny sA) gw' rd' sA) as HSA by (apply (InvS_ext (m_ny s1) gw' rd' (put_none sv c') sA HS2 HagS); reflexivity).
           assert (InvW gw' rd' a' sA) as HWA by (apply (InvW_ext gw' rd' a' (put_none sv c') sA HW2); [unfold agreeW; repeat split; reflexivity | reflexivity]).
           assert (InvX gw' rd' sA) as HXA by (apply (InvX_ext gw' rd' (put_none sv c') sA HX2); [unfold agreeX; repeat split; reflexivity | reflexivity]).
           apply (IH gw' rd' a' R' sA rest sched' HA' (Rest_agree _ _ _ _ _ _ HR2 Hag) (Act_agree _ _ _ _ _ HA2 Hag) HSA HWA HXA).
           unfold psi in *. unfold sA. cbn [upd_core put_none m_send m_rcvd m_outst m_status]. unfold s'. cbn [m_send m_outst m_status].
           unfold sv, arrived in Hnact. cbn [m_status isstop] in Hnact. lia.
Qed.

Definition benignF (o : foutcome) : Prop := (exists ws, o = FWorkerDied ws) \/ o = FO OFuel.
Definition postF (rest : list (list nat)) (o : foutcome) (s' : ms) : Prop :=
  benignF o \/
  match rest with
  | [] => o = FO OStop
  | b :: rest' => o = FO (OBatch b) /\ exists gw' rd' a' R', InvC gw' rd' a' R' s' /\ Rest gw' rd' R' s' rest' /\ Act gw' rd' a' s' /\
                    InvS (m_ny s') gw' rd' s' /\ InvW gw' rd' a' s' /\ InvX gw' rd' s' /\ PostH gw' rd' s'
  end.

(* _next_data under ANY fault schedule (worker deaths, poll time-outs, arrivals in any order): it hands out exactly the batch that is
   due, or reports StopIteration when nothing is left, or raises the worker-died error (or the model's fuel runs out) — never a wrong
   batch, never an early StopIteration, never an assertion, never an endless wait with nobody left to wait for *)
Lemma next_data_f_iter : forall fuel gw rd a R s rest cr evs,
  InvC gw rd a R s -> Rest gw rd R s rest -> Act gw rd a s -> InvS (m_ny s) gw rd s -> InvW gw rd a s -> InvX gw rd s ->
  exists o s' cr' evs', next_data_f fuel c s cr evs = (o, s', cr', evs') /\ postF rest o s'.
Proof.
  induction fuel as [|f IH]; intros gw rd a R s rest cr evs H HR HA HS HWw HX.
  { eexists _, _, _, _. split; [reflexivity|]. left. right. reflexivity. }
  cbn [next_data_f].
  pose proof (skip_spec (S (m_send s)) gw rd a R s rest H HR HA ltac:(lia)) as Hskip.
  pose proof (skip_invS (S (m_send s)) gw rd a R s (m_ny s) H HA HS) as HS1.
  pose proof (skip_invW (S (m_send s)) gw rd a R s H HWw) as HW1.
  pose proof (skip_invX (S (m_send s)) gw rd a R s H HWw HX) as HX1.
  destruct (skip_retired (S (m_send s)) s) as [found s1]. cbn [snd] in HS1, HW1, HX1.
  destruct Hskip as (H1 & HR1 & HA1 & Hfr & Hf).
  assert (m_ny s1 = m_ny s) as Eny1 by (destruct Hfr as (_ & _ & _ & _ & E & _); exact E). rewrite <- Eny1 in HS1.
  clear H HR HA HS HWw HX Hfr. destruct found; cbn [negb].
  2:{ assert (rest = []) as ->.
    { unfold Rest in HR1. rewrite Hf in HR1. unfold wdat in HR1. rewrite Nat.sub_diag in HR1. cbn [seq flat_map app] in HR1.
      rewrite HR1. apply refsuf_nil; [exact (c_cyc _ _ _ _ _ H1)|].
      intros v Hv. apply (inactive_beyond _ _ _ _ _ H1 v Hv). destruct HA1 as (_ & A2 & _). exact (A2 Hf v Hv). }
    eexists _, _, _, _. split; [reflexivity|]. right. reflexivity. }
  destruct Hf as (Hlt & w & r & Ek & Hr). rewrite Ek.
  pose proof (c_info _ _ _ _ _ H1 (m_rcvd s1)) as Gk. rewrite Ek in Gk. destruct Gk as (_ & Gw & Gr).
  destruct r as [[res st]|].
  - (* the result of the first task is already there *)
    destruct Gr as [[Gx _]|(st1 & Gx & Ga)]; [discriminate|]. injection Gx as Gres _.
    pose proof (w_i _ _ _ _ HW1 _ _ _ _ Ek) as Hstv.
    destruct (ans_cases w (rd (m_rcvd s1))) as [(b & E1 & E2 & E3)|(E1 & E2 & E3)]; rewrite E1 in Gres; subst res.
    + subst w.
      destruct (handout gw rd a R s1 (m_wsnap s1) b st st rest H1 HR1 HA1 HS1 Hlt Ek HW1 eq_refl Hstv HX1 (fun HI => x_i _ _ _ HX1 HI _ _ _ _ Ek))
        as (rest' & sF & gw' & rd' & R' & -> & EF & HF & HRF & HAF & HSF & EnF & HWF & HXF & HPF).
      unfold passed in EF. change (fset (A:=wsave)) with (@set_nth wsave). rewrite EF. eexists _, _, _, _. split; [reflexivity|]. right. split; [reflexivity|]. exists gw', rd', a, R'. auto 12.
    + subst w. set (ws := match st with Some x => set_nth (m_wsnap s1) (gw (m_rcvd s1)) x | None => m_wsnap s1 end).
      assert (act s1 (gw (m_rcvd s1)) = false) as Hina.
      { assert (gw (m_rcvd s1) < W) as Hw by (apply (c_gw _ _ _ _ _ H1); exact Hlt).
        destruct (c_fut _ _ _ _ _ H1 _ Hw) as (_ & _ & _ & F4). rewrite F4.
        replace (nb B (gw (m_rcvd s1)) <? a (gw (m_rcvd s1))) with true by (symmetry; apply Nat.ltb_lt; lia). reflexivity. }
      assert (Some (RStop, st) <> None) as Hsome by discriminate.
      pose proof (pass_inv gw rd a R s1 ws _ _ H1 Hlt Ek (or_introl Hsome)) as H2.
      destruct (pass_rest gw rd R s1 ws rest HR1 Hlt) as (rest' & Erest & HR2). rewrite E2 in Erest. cbn [app] in Erest. subst rest'.
      pose proof (pass_act_noput gw rd a R s1 ws H1 HA1 Hlt Hina) as HA2.
      pose proof (pass_invS (m_ny s1) gw rd s1 ws _ HS1 Hlt Ek) as HS2.
      assert (isd gw rd (m_rcvd s1) = false) as Hisd by (unfold isd; apply Nat.ltb_ge; exact E3).
      rewrite Hisd in HS2. specialize (HS2 eq_refl). cbn [b2n] in HS2. rewrite Nat.add_0_r in HS2.
      assert (InvW gw rd a (passed s1 ws)) as HW2.
      { apply (pass_invW gw rd a s1 ws HW1 (c_wf _ _ _ _ _ H1) (c_gw _ _ _ _ _ H1 _ Hlt)).
        unfold ws. destruct Hstv as [->| ->]; [left | right]; reflexivity. }
      assert (InvX gw rd (passed s1 ws)) as HX2.
      { constructor; intros HI; (assert (InvX gw rd (passed s1 ws)) as HXa; [|first [exact (x_q _ _ _ HXa HI) | exact (x_i _ _ _ HXa HI) | exact (x_s _ _ _ HXa HI)]]);
        (apply (pass_invX gw rd s1 ws HX1 (c_wf _ _ _ _ _ H1) (c_gw _ _ _ _ _ H1 _ Hlt) (w_len _ _ _ _ HW1));
         [intros t Ht Hg; pose proof (c_mono _ _ _ _ _ H1 t (m_rcvd s1) Ht Hlt); lia
         | right; split; [unfold ws; rewrite (x_i _ _ _ HX1 HI _ _ _ _ Ek); reflexivity
                          | destruct (c_fut _ _ _ _ _ H1 _ (c_gw _ _ _ _ _ H1 _ Hlt)) as (_ & _ & F3 & _); lia]]). }
      exact (IH gw rd a R (passed s1 ws) rest cr evs H2 HR2 HA2 HS2 HW2 HX2).
  - (* the first task is still outstanding: the wait loop *)
    destruct Hr as [Hr|Hact]; [congruence|].
    destruct (arrive_ready gw rd a R s1 w 0 H1 Hlt Ek Hact) as (Hout & Hcn0 & _).
    replace (m_outst s1 =? 0) with false by (symmetry; apply Nat.eqb_neq; exact Hout).
    assert (In w (candidates s1)) as Hwc.
    { pose proof (c_info _ _ _ _ _ H1 (m_rcvd s1)) as G. rewrite Ek in G. destruct G as (_ & Gw' & G).
      destruct G as [[_ Ga]|(st & Hx & _)]; [|discriminate].
      assert (w < W) as Hw by (rewrite Gw'; apply (c_gw _ _ _ _ _ H1); exact Hlt).
      destruct (c_q _ _ _ _ _ H1 w Hw) as [_ Qm].
      assert (In (m_rcvd s1) (map t_idx (wq s1 w))) as Hin by (apply Qm; repeat split; [exact Hlt | symmetry; exact Gw' | exact Ga]).
      destruct (c_fut _ _ _ _ _ H1 w Hw) as (_ & F2 & _ & F4). rewrite Hact in F4.
      apply in_candidates. rewrite (c_wlen _ _ _ _ _ H1). split; [exact Hw|]. split; [rewrite F2; destruct (nb B w <? a w); [discriminate | reflexivity]|].
      unfold wq in Hin. intros E. rewrite E in Hin. exact Hin. }
    set (ev := match evs with e :: _ => e | [] => match fcandidates s1 cr with [] => FTimeout | _ => FArrive 0 end end).
    set (sched' := match evs with [] => [] | _ :: r => r end).
    assert (ev = FTimeout -> evs = [] -> fcandidates s1 cr = []) as Hevt.
    { unfold ev. intros E1 ->. destruct (fcandidates s1 cr); [reflexivity | discriminate]. }
    destruct ev as [ch|w0|] eqn:Eev.
    2:{ (* a worker dies *) exact (IH gw rd a R s1 rest (fset cr w0 true) sched' H1 HR1 HA1 HS1 HW1 HX1). }
    2:{ (* the poll expires *)
      destruct (crashed_expected s1 cr) as [|wd ws] eqn:Ece.
      - destruct evs as [|e0 evs0]; [|exact (IH gw rd a R s1 rest cr sched' H1 HR1 HA1 HS1 HW1 HX1)].
        destruct (fcandidates s1 cr) as [|fc0 fcs] eqn:Efc; [|exact (IH gw rd a R s1 rest cr sched' H1 HR1 HA1 HS1 HW1 HX1)].
        (* nobody can arrive and nobody is reported dead: impossible, the awaited worker is alive and has the task *)
        exfalso. assert (nth w cr false = true) as Hcrw.
        { destruct (nth w cr false) eqn:E; [reflexivity|]. assert (In w (fcandidates s1 cr)) as Hin by (unfold fcandidates; apply filter_In; split; [exact Hwc | rewrite E; reflexivity]).
          rewrite Efc in Hin. contradiction. }
        assert (In w (crashed_expected s1 cr)) as Hin.
        { unfold crashed_expected. apply filter_In. split; [apply in_seq; apply in_candidates in Hwc; rewrite (c_wlen _ _ _ _ _ H1) in Hwc; rewrite (c_slen _ _ _ _ _ H1); lia|].
          unfold act in Hact. rewrite Hact, Hcrw. reflexivity. }
        rewrite Ece in Hin. contradiction.
      - eexists _, _, _, _. split; [reflexivity|]. left. left. eexists. reflexivity. }
    (* an arrival *)
    destruct (fcandidates s1 cr) as [|fc0 fcs] eqn:Efc; [exact (IH gw rd a R s1 rest cr sched' H1 HR1 HA1 HS1 HW1 HX1)|]. rewrite <- Efc.
    set (w2 := nth (ch mod length (fcandidates s1 cr)) (fcandidates s1 cr) 0).
    assert (In w2 (candidates s1)) as Hw2c.
    { assert (In w2 (fcandidates s1 cr)) as Hin by (apply nth_mod_in; rewrite Efc; discriminate). unfold fcandidates in Hin. apply filter_In in Hin. exact (proj1 Hin). }
    apply in_candidates in Hw2c. rewrite (c_wlen _ _ _ _ _ H1) in Hw2c. destruct Hw2c as (Hw2 & Hd2 & Hq2). fold (wq s1 w2) in Hq2.
    destruct (wq s1 w2) as [|tk q'] eqn:Eq; [congruence|]. clear Hq2.
    rewrite (arrive_unfold s1 w2 tk q' Eq).
    pose proof (arrive_inv gw rd a R s1 w2 tk q' H1 Hw2 Eq Hd2) as HAI.
    destruct (worker_fetch c w2 (kpop s1 w2 q') tk) as [[r2 st2] k2] eqn:Efetch.
    destruct HAI as (Hr2 & Hidx & Hgi & Hri & Hei & Ho1 & Hst & Hv & Hdsp & Hnd).
    set (idx := t_idx tk) in *. set (a' := upd a w2 (S (a w2))) in *.
    assert (w2 < length (m_status s1)) as Hsl by (rewrite (c_slen _ _ _ _ _ H1); exact Hw2).
    assert (wk_q k2 = q') as Hq2k.
    { pose proof (fetch_dead c Hkind w2 (kpop s1 w2 q') tk) as FD. rewrite Efetch in FD. exact (proj2 FD). }
    pose proof (arrive_invS (m_ny s1) gw rd a R s1 w2 tk q' k2 r2 st2 H1 HS1 Hw2 Eq Hq2k Hgi Hri Hr2 Hei) as HSv. fold idx in HSv.
    pose proof (arrive_invW gw rd a s1 w2 tk q' HW1 (c_wf _ _ _ _ _ H1) ltac:(rewrite (c_wlen _ _ _ _ _ H1); exact Hw2) Hw2 (c_a0 _ _ _ _ _ H1 w2 Hw2) Hri) as HWv.
    rewrite Efetch in HWv. fold idx a' in HWv.
    pose proof (arrive_invX gw rd a s1 w2 tk q' HX1 HW1 (c_wf _ _ _ _ _ H1) ltac:(rewrite (c_wlen _ _ _ _ _ H1); exact Hw2) Hw2 (c_a0 _ _ _ _ _ H1 w2 Hw2) Hri Eq) as HXv.
    rewrite Efetch in HXv. specialize (HXv Hq2k). fold idx in HXv.
    destruct (ans_cases w2 (a w2)) as [(b2 & E1 & E2 & E3)|(E1 & E2 & E3)]; rewrite E1 in Hr2; subst r2; cbn [m_rcvd].
    + (* a batch arrives *)
      set (sv := arrived s1 w2 k2 idx (RData b2) st2) in *.
      assert (Rest gw rd R sv rest) as HRv by exact HR1.
      assert (Act gw rd a' sv) as HAv.
      { apply (Act_mono gw rd a a' s1 sv HA1); try reflexivity; [exact Hlt | intros v _ Hc; exact Hc | intros v; rewrite Hdsp; lia]. }
      destruct (Nat.eqb_spec idx (m_rcvd s1)) as [Eidx|Nidx]; cbn [negb].
      * (* the awaited batch: handed out *)
        assert (info_get (m_info sv) (m_rcvd sv) = Some (gw (m_rcvd sv), Some (RData b2, st2))) as Hkv.
        { unfold sv, arrived. cbn [m_info m_rcvd]. rewrite <- Eidx. rewrite info_get_set by exact (c_wf _ _ _ _ _ H1).
          rewrite Nat.eqb_refl, Hgi. reflexivity. }
        pose proof (w_i _ _ _ _ HWv _ _ _ _ Hkv) as Hst2.
        destruct (handout gw rd a' R sv (m_wsnap s1) b2 st2 st2 rest Hv HRv HAv HSv Hlt Hkv HWv eq_refl Hst2 HXv (fun HI => x_i _ _ _ HXv HI _ _ _ _ Hkv))
          as (rest' & sF & gw' & rd' & R' & -> & EF & HF & HRF & HAF & HSF & EnF & HWF & HXF & HPF).
        match goal with |- context [process_data c ?S _ _ _] => assert (S = passed sv (m_wsnap s1)) as Es3 end.
        { unfold passed, sv, arrived. cbn [m_rcvd m_info upd_core m_send m_outst m_status m_cyc m_ny m_siy m_samp m_msnaps m_last m_wsnap
            m_snapshot m_finished m_workers m_assert isstop]. rewrite <- Eidx. rewrite info_del_set by exact (c_wf _ _ _ _ _ H1). reflexivity. }
        rewrite Es3. change (m_rcvd sv) with (m_rcvd s1) in EF. rewrite <- Eidx, Hgi in EF. rewrite EF.
        eexists _, _, _, _. split; [reflexivity|]. right. split; [reflexivity|]. exists gw', rd', a', R'. auto 12.
      * (* out of order: buffered, keep waiting *)
        exact (IH gw rd a' R sv rest cr sched' Hv HRv HAv HSv HWv HXv).
    + (* an end-of-shard notice arrives: the worker retires, one more task is put *)
      set (sv := arrived s1 w2 k2 idx RStop st2) in *.
      assert (Rest gw rd R sv rest) as HRv by exact HR1.
      assert (forall v, act sv v = if v =? w2 then false else act s1 v) as Hactv.
      { intros v. unfold act, sv, arrived. cbn [m_status isstop]. apply nth_set_false, Hsl. }
      assert (Act gw rd a' sv) as HAv.
      { apply (Act_mono gw rd a a' s1 sv HA1); try reflexivity; [exact Hlt | | intros v; rewrite Hdsp; lia].
        intros v _ Hc. rewrite Hactv in Hc. destruct (v =? w2); [discriminate | exact Hc]. }
      assert (nact (m_status sv) + 1 = nact (m_status s1)) as Hnact.
      { unfold sv, arrived. cbn [m_status isstop]. apply nact_set_false. exact (Hst eq_refl). }
      assert (m_outst sv + ndat (m_info sv) < W * c_P c) as Hroomv.
      { rewrite Hnd. destruct (c_out _ _ _ _ _ H1) as [_ O2]. unfold sv, arrived. cbn [m_outst isdata b2n]. lia. }
      match goal with |- context [try_put_index c ?S] => set (s' := S) end.
      assert (m_outst s' < W * c_P c) as Hout' by (unfold s'; cbn [m_outst]; unfold sv, arrived in Hroomv; cbn [m_outst] in Hroomv; lia).
      pose proof (try_put_eq s' Hout' (c_assert _ _ _ _ _ H1)) as Eput'.
      change (m_status s') with (m_status sv) in Eput'. change (m_cyc s') with (m_cyc sv) in Eput'.
      assert (m_outst sv < W * c_P c) as Houtv by lia.
      assert (info_get (m_info s1) (m_send s1) = None) as Hfresh.
      { pose proof (c_info _ _ _ _ _ H1 (m_send s1)) as G. destruct (info_get (m_info s1) (m_send s1)) as [[? ?]|]; [lia | reflexivity]. }
      destruct (Nat.eqb_spec idx (m_rcvd s1)) as [Eidx|Nidx].
      * (* the awaited task was the worker's last: the notice is consumed *)
        set (ws := match st2 with Some x => set_nth (m_wsnap s1) w2 x | None => m_wsnap s1 end).
        assert (info_get (m_info sv) (m_rcvd sv) = Some (w2, Some (RStop, st2))) as Hkv.
        { unfold sv, arrived. cbn [m_info m_rcvd]. rewrite <- Eidx. rewrite info_get_set by exact (c_wf _ _ _ _ _ H1).
          rewrite Nat.eqb_refl. reflexivity. }
        assert (act sv w2 = false) as Hina by (rewrite Hactv, Nat.eqb_refl; reflexivity).
        assert (Some (RStop, st2) <> None) as Hsome by discriminate.
        pose proof (pass_inv gw rd a' R sv ws _ _ Hv Hlt Hkv (or_introl Hsome)) as Hp.
        destruct (pass_rest gw rd R sv ws rest HRv Hlt) as (rest' & Erest & HRp).
        change (m_rcvd sv) with (m_rcvd s1) in Erest. rewrite <- Eidx, Hgi, Hri, E2 in Erest. cbn [app] in Erest. subst rest'.
        pose proof (pass_act_noput gw rd a' R sv ws Hv HAv Hlt ltac:(change (m_rcvd sv) with (m_rcvd s1); rewrite <- Eidx, Hgi; exact Hina)) as HAp.
        pose proof (pass_invS (m_ny s1) gw rd sv ws _ HSv Hlt Hkv) as HSp.
        assert (isd gw rd (m_rcvd sv) = false) as Hisdv by (unfold isd; change (m_rcvd sv) with (m_rcvd s1); rewrite <- Eidx, Hgi, Hri; apply Nat.ltb_ge; exact E3).
        rewrite Hisdv in HSp. specialize (HSp eq_refl). cbn [b2n] in HSp. rewrite Nat.add_0_r in HSp.
        assert (InvW gw rd a' (passed sv ws)) as HWp.
        { apply (pass_invW gw rd a' sv ws HWv (c_wf _ _ _ _ _ Hv) (c_gw _ _ _ _ _ Hv _ Hlt)).
          pose proof (w_i _ _ _ _ HWv _ _ _ _ Hkv) as Hst2. change (m_rcvd sv) with (m_rcvd s1) in Hst2 |- *. rewrite <- Eidx in Hst2 |- *. rewrite Hgi.
          unfold ws. change (m_wsnap sv) with (m_wsnap s1). destruct Hst2 as [->| ->]; [left | right]; reflexivity. }
        assert (InvX gw rd (passed sv ws)) as HXp.
        { constructor; intros HI; (assert (InvX gw rd (passed sv ws)) as HXa; [|first [exact (x_q _ _ _ HXa HI) | exact (x_i _ _ _ HXa HI) | exact (x_s _ _ _ HXa HI)]]);
          (apply (pass_invX gw rd sv ws HXv (c_wf _ _ _ _ _ Hv) (c_gw _ _ _ _ _ Hv _ Hlt) (w_len _ _ _ _ HWv));
           [intros t Ht Hg; pose proof (c_mono _ _ _ _ _ Hv t (m_rcvd sv) Ht Hlt); lia
           | right; change (m_rcvd sv) with (m_rcvd s1); rewrite <- Eidx, Hgi, Hri; split;
             [unfold ws; change (m_wsnap sv) with (m_wsnap s1); pose proof (x_i _ _ _ HXv HI _ _ _ _ Hkv) as Hx; change (m_rcvd sv) with (m_rcvd s1) in Hx; rewrite <- Eidx, Hri in Hx; rewrite Hx; reflexivity
              | destruct (c_fut _ _ _ _ _ H1 w2 Hw2) as (_ & F2' & _); rewrite Hd2 in F2'; symmetry in F2'; apply Nat.ltb_ge in F2'; lia]]). }
        set (sp := passed sv ws) in *.
        assert (m_outst sp + ndat (m_info sp) < W * c_P c) as Hroomp.
        { pose proof (ndat_del _ _ _ Hkv) as Hd. unfold isdat in Hd. cbn [snd b2n] in Hd. unfold sp, passed. cbn [upd_core m_outst m_info].
          change (m_outst sv) with (m_outst s1 - 1) in *. lia. }
        assert (m_outst sp < W * c_P c) as Houtp by lia.
        pose proof (try_put_eq sp Houtp (c_assert _ _ _ _ _ Hp)) as Eputp.
        change (m_status sp) with (m_status sv) in Eputp. change (m_cyc sp) with (m_cyc sv) in Eputp.
        destruct (put_nopass gw rd a' R sp rest Hp HRp HAp HSp HWp HXp Hroomp) as (gw' & rd' & R' & H2 & HR2 & HA2 & HS2 & HW2 & HX2 & Er2 & Es2 & Hcase).
        rewrite Eput'. rewrite Eputp in H2, HR2, HA2, HS2, HW2, HX2, Er2, Es2, Hcase.
        assert (info_del (info_set (m_info s1) idx (w2, Some (RStop, st2))) idx = info_del (m_info s1) idx) as Hdl
          by (apply info_del_set; exact (c_wf _ _ _ _ _ H1)).
        destruct (find_worker W W (m_status sv) (m_cyc sv)) as [[w'|] c'].
        -- cbn [put_some m_rcvd]. change (m_rcvd s') with (m_rcvd s1). replace (negb (idx =? m_rcvd s1)) with false by (symmetry; apply negb_false_iff, Nat.eqb_eq; exact Eidx).
           match goal with |- context [next_data_f f c ?S cr sched'] => set (sA := S) end.
           assert (agree (put_some sp w' c') sA) as Hag by (unfold agree, sA, sp, passed, sv, s', arrived; cbn; repeat split; reflexivity).
           assert (m_info sA = m_info (put_some sp w' c')) as Hinf.
           { unfold sA, sp, passed, sv, s', arrived. cbn [upd_core put_some m_info m_rcvd m_send]. rewrite <- Eidx, Hdl.
             apply (info_del_app_found _ _ _ _ Hei). }
           assert (InvC gw' rd' a' R' sA) as HA'.
           { apply (InvC_ext gw' rd' a' R' (put_some sp w' c') sA H2 Hag); rewrite ?Hinf; auto. exact (c_wf _ _ _ _ _ H2). }
           assert (agreeS (put_some sp w' c') sA) as HagS by (split; [exact Hag | split; reflexivity]).
           assert (InvS (m_ny sA) gw' rd' sA) as HSA by (apply (InvS_ext (m_ny s1) gw' rd' (put_some sp w' c') sA HS2 HagS); rewrite Hinf; reflexivity).
           assert (InvW gw' rd' a' sA) as HWA by (apply (InvW_ext gw' rd' a' (put_some sp w' c') sA HW2); [unfold agreeW; repeat split; reflexivity | intros; rewrite Hinf; reflexivity]).
           assert (InvX gw' rd' sA) as HXA by (apply (InvX_ext gw' rd' (put_some sp w' c') sA HX2); [unfold agreeX; repeat split; reflexivity | intros; rewrite Hinf; reflexivity]).
           exact (IH gw' rd' a' R' sA rest cr sched' HA' (Rest_agree _ _ _ _ _ _ HR2 Hag) (Act_agree _ _ _ _ _ HA2 Hag) HSA HWA HXA).
        -- cbn [put_none m_rcvd]. change (m_rcvd s') with (m_rcvd s1). replace (negb (idx =? m_rcvd s1)) with false by (symmetry; apply negb_false_iff, Nat.eqb_eq; exact Eidx).
           match goal with |- context [next_data_f f c ?S cr sched'] => set (sA := S) end.
           assert (agree (put_none sp c') sA) as Hag by (unfold agree, sA, sp, passed, sv, s', arrived; cbn; repeat split; reflexivity).
           assert (m_info sA = m_info (put_none sp c')) as Hinf.
           { unfold sA, sp, passed, sv, s', arrived. cbn [upd_core put_none m_info m_rcvd m_send]. rewrite <- Eidx, Hdl. reflexivity. }
           assert (InvC gw' rd' a' R' sA) as HA'.
           { apply (InvC_ext gw' rd' a' R' (put_none sp c') sA H2 Hag); rewrite ?Hinf; auto. exact (c_wf _ _ _ _ _ H2). }
           assert (agreeS (put_none sp c') sA) as HagS by (split; [exact Hag | split; reflexivity]).
           assert (InvS (m_ny sA) gw' rd' sA) as HSA by (apply (InvS_ext (m_ny s1) gw' rd' (put_none sp c') sA HS2 HagS); rewrite Hinf; reflexivity).
           assert (InvW gw' rd' a' sA) as HWA by (apply (InvW_ext gw' rd' a' (put_none sp c') sA HW2); [unfold agreeW; repeat split; reflexivity | intros; rewrite Hinf; reflexivity]).
           assert (InvX gw' rd' sA) as HXA by (apply (InvX_ext gw' rd' (put_none sp c') sA HX2); [unfold agreeX; repeat split; reflexivity | intros; rewrite Hinf; reflexivity]).
           exact (IH gw' rd' a' R' sA rest cr sched' HA' (Rest_agree _ _ _ _ _ _ HR2 Hag) (Act_agree _ _ _ _ _ HA2 Hag) HSA HWA HXA).
      * (* out of order: the notice is buffered *)
        pose proof (try_put_eq sv Houtv (c_assert _ _ _ _ _ Hv)) as Eputv.
        destruct (put_nopass gw rd a' R sv rest Hv HRv HAv HSv HWv HXv Hroomv) as (gw' & rd' & R' & H2 & HR2 & HA2 & HS2 & HW2 & HX2 & Er2 & Es2 & Hcase).
        rewrite Eput'. rewrite Eputv in H2, HR2, HA2, HS2, HW2, HX2, Er2, Es2, Hcase.
        destruct (find_worker W W (m_status sv) (m_cyc sv)) as [[w'|] c'].
        -- cbn [put_some m_rcvd]. change (m_rcvd s') with (m_rcvd s1). replace (negb (idx =? m_rcvd s1)) with true by (symmetry; apply negb_true_iff, Nat.eqb_neq; exact Nidx).
           match goal with |- context [next_data_f f c ?S cr sched'] => set (sA := S) end.
           destruct (mark_after_put_ext (m_info s1) idx (w2, None) (w2, Some (RStop, st2)) (m_send s1) (w', None)
                       (c_wf _ _ _ _ _ H1) Hei Hfresh ltac:(lia)) as (X1 & X2 & X3).
           assert (agree (put_some sv w' c') sA) as Hag by (unfold agree, sA, sv, s', arrived; cbn; repeat split; reflexivity).
           assert (InvC gw' rd' a' R' sA) as HA'.
           { apply (InvC_ext gw' rd' a' R' (put_some sv w' c') sA H2 Hag); [exact X1 | exact X2 | exact X3]. }
           assert (agreeS (put_some sv w' c') sA) as HagS by (split; [exact Hag | split; reflexivity]).
           assert (InvS (m_ny sA) gw' rd' sA) as HSA by (apply (InvS_ext (m_ny s1) gw' rd' (put_some sv w' c') sA HS2 HagS); exact X3).
           assert (InvW gw' rd' a' sA) as HWA by (apply (InvW_ext gw' rd' a' (put_some sv w' c') sA HW2); [unfold agreeW; repeat split; reflexivity | exact X2]).
           assert (InvX gw' rd' sA) as HXA by (apply (InvX_ext gw' rd' (put_some sv w' c') sA HX2); [unfold agreeX; repeat split; reflexivity | exact X2]).
           exact (IH gw' rd' a' R' sA rest cr sched' HA' (Rest_agree _ _ _ _ _ _ HR2 Hag) (Act_agree _ _ _ _ _ HA2 Hag) HSA HWA HXA).
        -- cbn [put_none m_rcvd]. change (m_rcvd s') with (m_rcvd s1). replace (negb (idx =? m_rcvd s1)) with true by (symmetry; apply negb_true_iff, Nat.eqb_neq; exact Nidx).
           match goal with |- context [next_data_f f c ?S cr sched'] => set (sA := S) end.
           assert (agree (put_none sv c') sA) as Hag by (unfold agree, sA, sv, s', arrived; cbn; repeat split; reflexivity).
           assert (InvC gw' rd' a' R' sA) as HA'.
           { apply (InvC_ext gw' rd' a' R' (put_none sv c') sA H2 Hag); [exact (c_wf _ _ _ _ _ H2) | reflexivity | reflexivity]. }
           assert (agreeS (put_none sv c') sA) as HagS by (split; [exact Hag | split; reflexivity]).
           assert (InvS (m_ny sA) gw' rd' sA) as HSA by (apply (InvS_ext (m_ny s1) gw' rd' (put_none sv c') sA HS2 HagS); reflexivity).
           assert (InvW gw' rd' a' sA) as HWA by (apply (InvW_ext gw' rd' a' (put_none sv c') sA HW2); [unfold agreeW; repeat split; reflexivity | reflexivity]).
           assert (InvX gw' rd' sA) as HXA by (apply (InvX_ext gw' rd' (put_none sv c') sA HX2); [unfold agreeX; repeat split; reflexivity | reflexivity]).
           exact (IH gw' rd' a' R' sA rest cr sched' HA' (Rest_agree _ _ _ _ _ _ HR2 Hag) (Act_agree _ _ _ _ _ HA2 Hag) HSA HWA HXA).
Qed.


(* a whole history of next() calls under one fault schedule: the batches handed out are a PREFIX of what is due, in order, each once;
   the history ends with StopIteration only after ALL of them, or with the worker-died error (or the model's fuel), or simply has
   not ended yet *)
Lemma run_f_iter : forall m rest gw rd a R s cr evs,
  InvC gw rd a R s -> Rest gw rd R s rest -> Act gw rd a s -> InvS (m_ny s) gw rd s -> InvW gw rd a s -> InvX gw rd s ->
  exists k tail, k <= length rest /\ run_f m c s cr evs = map (fun b => FO (OBatch b)) (firstn k rest) ++ tail /\
    (tail = [] \/ exists o, tail = [o] /\ (benignF o \/ (o = FO OStop /\ k = length rest))).
Proof.
  induction m as [|m IH]; intros rest gw rd a R s cr evs H HR HA HS HWw HX.
  - exists 0, []. split; [lia|]. split; [reflexivity | left; reflexivity].
  - cbn [run_f]. unfold sdl_next_f.
    destruct (next_data_f_iter (FUEL c s + length evs) gw rd a R s rest cr evs H HR HA HS HWw HX) as (o & s' & cr' & evs' & E & Hpost).
    rewrite E. destruct Hpost as [Hb|Hpost].
    + exists 0. exists [o]. split; [lia|]. destruct Hb as [[ws ->]| ->]; (split; [reflexivity|]); right; eexists; (split; [reflexivity|]); left; [left; eexists; reflexivity | right; reflexivity].
    + destruct rest as [|b rest].
      * subst o. exists 0, [FO OStop]. split; [cbn; lia|]. split; [reflexivity|]. right. eexists. split; [reflexivity|]. right. split; reflexivity.
      * destruct Hpost as [-> (gw' & rd' & a' & R' & H' & HR' & HA' & HS' & HW' & HX' & _)].
        destruct (IH rest gw' rd' a' R' s' cr' evs' H' HR' HA' HS' HW' HX') as (k & tail & Hk & Er & Ht).
        exists (S k), tail. split; [cbn; lia|]. split; [cbn [firstn map app]; rewrite Er; reflexivity|].
        destruct Ht as [->|(o & -> & [Hb|[-> ->]])]; [left; reflexivity | right; eexists; split; [reflexivity | left; exact Hb] | right; eexists; split; [reflexivity | right; split; reflexivity]].
Qed.

(* __next__ *)
Lemma sdl_next_iter gw rd a R s rest sched :
  InvC gw rd a R s -> Rest gw rd R s rest -> Act gw rd a s -> InvS (m_ny s) gw rd s -> InvW gw rd a s -> InvX gw rd s ->
  match rest with
  | [] => exists s' sched', sdl_next c s sched = (OStop, s', sched')
  | b :: rest' => exists s' sched' gw' rd' a' R', sdl_next c s sched = (OBatch b, s', sched') /\
                    InvC gw' rd' a' R' s' /\ Rest gw' rd' R' s' rest' /\ Act gw' rd' a' s' /\ InvS (m_ny s') gw' rd' s' /\
                    m_ny s' = S (m_ny s) /\ InvW gw' rd' a' s' /\ InvX gw' rd' s' /\ PostH gw' rd' s'
  end.
Proof.
  intros H HR HA HS HWw HX. unfold sdl_next. apply (next_data_iter (FUEL c s) gw rd a R s rest sched H HR HA HS HWw HX).
  unfold psi, FUEL. destruct (c_out _ _ _ _ _ H) as [O1 _]. rewrite O1. fold (qsum (m_workers s)).
  pose proof (nact_le (m_status s)) as Hn. rewrite (c_slen _ _ _ _ _ H) in Hn. destruct HA as (_ & _ & A3).
  assert (W <= W * c_P c) by nia. lia.
Qed.

Lemma outcomes_iter : forall rest gw rd a R s sched,
  InvC gw rd a R s -> Rest gw rd R s rest -> Act gw rd a s -> InvS (m_ny s) gw rd s -> InvW gw rd a s -> InvX gw rd s ->
  outcomes c (S (length rest)) s sched = map OBatch rest ++ [OStop].
Proof.
  induction rest as [|b rest IH]; intros gw rd a R s sched H HR HA HS HWw HX.
  - destruct (sdl_next_iter gw rd a R s [] sched H HR HA HS HWw HX) as (s' & sched' & E). cbn [outcomes length]. rewrite E. reflexivity.
  - destruct (sdl_next_iter gw rd a R s (b :: rest) sched H HR HA HS HWw HX) as (s' & sched' & gw' & rd' & a' & R' & E & H' & HR' & HA' & HS' & _ & HW' & HX' & _).
    cbn [length]. change (outcomes c (S (S (length rest))) s sched)
      with (let '(o, s', sched') := sdl_next c s sched in match o with OStop => [OStop] | _ => o :: outcomes c (S (length rest)) s' sched' end).
    rewrite E. cbn [map app]. f_equal. exact (IH gw' rd' a' R' s' sched' H' HR' HA' HS' HW' HX').
Qed.

(* ------------------------------------------------------------------ *)
(* the initial state: prefetch_factor * num_workers tasks are put, round-robin, before the first batch is awaited *)
Lemma adv_one R cc R' c' j w' : cc < W -> c' < W -> 1 <= j <= W -> Adv j R cc R' c' -> w' < W ->
  (forall v, v < W -> v <> w' -> cnt R' c' v = cnt R cc v) -> R' * W + c' = R * W + cc + 1 /\ w' = cc.
Proof.
  intros Hc Hc' Hj HA Hw' Hsame.
  assert (j = 1 /\ w' = cc) as [-> ->].
  { destruct (Nat.eq_dec w' cc) as [->|Hne].
    - split; [|reflexivity]. destruct (Nat.eq_dec j 1) as [E|E]; [exact E|exfalso].
      destruct (Nat.eq_dec (S cc) W) as [Ew|Ew].
      + destruct (Nat.eq_dec W 1) as [E1|E1]; [unfold Adv in HA; lia|].
        specialize (Hsame 0 ltac:(lia) ltac:(lia)). unfold Adv in HA. b2n_tac.
      + specialize (Hsame (S cc) ltac:(lia) ltac:(lia)). unfold Adv in HA. b2n_tac.
    - exfalso. specialize (Hsame cc Hc ltac:(intros E; apply Hne; symmetry; exact E)). unfold Adv in HA. b2n_tac. }
  split; [|reflexivity]. unfold Adv in HA. nia.
Qed.

Definition g0 : nat -> nat := fun _ => 0.

(* the state every iterator of this kind starts from, before its first prefetch_factor * num_workers tasks are put *)
Definition init0 (workers : list wk) (ny0 siy0 samp0 last0 : nat) (wsnap : list wsave) (snap : snapshot) : ms :=
  {| m_send := 0; m_rcvd := 0; m_info := []; m_outst := 0; m_status := repeat true W; m_cyc := cyc0; m_ny := ny0;
     m_siy := siy0; m_samp := samp0; m_msnaps := []; m_last := last0; m_wsnap := wsnap; m_snapshot := snap;
     m_finished := false; m_workers := workers; m_assert := None |}.

Definition workers_ok (workers : list wk) : Prop :=
  length workers = W /\ forall w, w < W -> wk_q (nth w workers wk_fresh) = [] /\ wk_dead (nth w workers wk_fresh) = false /\
                                         Fut c B w (a0 w) (nth w workers wk_fresh).

Lemma qsum_empty ws : (forall w, w < length ws -> wk_q (nth w ws wk_fresh) = []) -> qsum ws = 0.
Proof.
  induction ws as [|k ws IH]; intros H; [reflexivity|]. unfold qsum in *. cbn [fold_right].
  pose proof (H 0 ltac:(cbn; lia)) as H0. cbn [nth] in H0. rewrite H0. cbn [length]. apply IH. intros w Hw. apply (H (S w)). cbn. lia.
Qed.

Lemma Qd_empty gw rd ws : (forall w, w < length ws -> wk_q (nth w ws wk_fresh) = []) -> Qd gw rd ws = 0.
Proof.
  induction ws as [|k ws IH]; intros H; [reflexivity|]. unfold Qd, wsum in *. cbn [fold_right].
  pose proof (H 0 ltac:(cbn; lia)) as H0. cbn [nth] in H0. unfold qd at 1. rewrite H0. cbn [filter length]. apply IH. intros w Hw. apply (H (S w)). cbn. lia.
Qed.

Lemma a0_cnt w : a0 w = cnt 0 cyc0 w.
Proof. unfold a0, cnt, b2n. destruct (w <? cyc0); reflexivity. Qed.

Definition entries_ok (workers : list wk) (wsnap : list wsave) (snap : snapshot) : Prop :=
  (forall w, w < W -> same_pe (nth w workers wk_fresh) (wk0 w)) /\ length wsnap = W /\
  (trk = true -> forall w, w < W -> nth w wsnap (0, false) = (wk_pos (wk0 w), wk_ended (wk0 w))) /\ sn_workers snap = wsnap.

Lemma wst_a0 w : wst w (a0 w) = (wk_pos (wk0 w), wk_ended (wk0 w)).
Proof. unfold wst, wsk. rewrite Nat.sub_diag. reflexivity. Qed.

Lemma blank_invW workers ny0 siy0 samp0 last0 wsnap snap : entries_ok workers wsnap snap ->
  InvW g0 g0 a0 (init0 workers ny0 siy0 samp0 last0 wsnap snap).
Proof.
  intros (E1 & E2 & E3 & E4). constructor; unfold init0; cbn [m_workers m_info m_wsnap m_snapshot m_rcvd].
  - intros w Hw. unfold wsk. rewrite Nat.sub_diag. exact (E1 w Hw).
  - intros t w r st Hi. discriminate.
  - exact E2.
  - intros Htk w Hw. exists (a0 w). rewrite wst_a0. split; [exact (E3 Htk w Hw) | left; reflexivity].
  - rewrite E4. exact E2.
  - intros Htk w Hw. exists (a0 w). rewrite wst_a0, E4. split; [exact (E3 Htk w Hw) | left; reflexivity].
Qed.

Lemma blank_invX workers ny0 siy0 samp0 last0 wsnap snap : entries_ok workers wsnap snap -> workers_ok workers ->
  InvX g0 g0 (init0 workers ny0 siy0 samp0 last0 wsnap snap).
Proof.
  intros (E1 & E2 & E3 & E4) [Hlen Hws]. constructor; intros HI; unfold init0.
  - intros w Hw tk Hin. unfold wq in Hin. cbn [m_workers] in Hin. destruct (Hws w Hw) as (Q & _). rewrite Q in Hin. contradiction.
  - intros t w r st Hi. discriminate.
  - cbn [m_wsnap m_rcvd]. intros Htk w Hw. exists (a0 w). rewrite wst_a0. split; [exact (E3 Htk w Hw)|]. split; [intros t Ht; lia | left; reflexivity].
Qed.

Lemma blank_inv workers ny0 siy0 samp0 last0 wsnap snap : workers_ok workers ->
  let s0 := init0 workers ny0 siy0 samp0 last0 wsnap snap in
  InvC g0 g0 a0 0 s0 /\ Rest g0 g0 0 s0 (refsuf W B 0 cyc0) /\ InvS ny0 g0 g0 s0.
Proof.
  intros [Hlen Hws]. cbn zeta. split; [|split].
  - constructor; unfold init0; cbn [m_send m_rcvd m_info m_outst m_status m_cyc m_workers m_assert].
    + lia.
    + exact Hcyc0.
    + exact Hlen.
    + apply repeat_length.
    + intros t Ht. lia.
    + intros t t' _ Ht. lia.
    + constructor.
    + intros t. cbn. lia.
    + intros t Ht. lia.
    + intros w Hw. unfold wq. cbn [m_workers]. destruct (Hws w Hw) as (Q & _ & _). rewrite Q. cbn. split; [exact I|]. intros t. split; [contradiction | lia].
    + intros w Hw. unfold act. cbn [m_workers m_status]. destruct (Hws w Hw) as (_ & D & F). split; [exact F|].
      rewrite D. rewrite nth_repeat_true by exact Hw. pose proof (Ha0 w Hw) as Hle.
      replace (nb B w <? a0 w) with false by (symmetry; apply Nat.ltb_ge; exact Hle). repeat split; lia.
    + intros w Hw. unfold dsp, wq, act. cbn [m_workers m_status m_cyc]. destruct (Hws w Hw) as (Q & _ & _). rewrite Q. cbn [length].
      rewrite nth_repeat_true by exact Hw. rewrite Nat.add_0_r. split; [intros x Hx; lia|]. split; [intros t Ht; lia | apply a0_cnt].
    + rewrite qsum_empty by (intros w Hw; apply Hws; lia). cbn. split; [reflexivity | lia].
    + reflexivity.
    + intros w Hw. lia.
    + intros t Ht. lia.
    + right. lia.
  - unfold Rest, init0. cbn [m_rcvd m_send m_cyc]. unfold wdat. cbn. reflexivity.
  - constructor; unfold init0; cbn [m_msnaps m_send m_rcvd m_workers m_info].
    + exact I.
    + intros t m [].
    + intros _ t Ht. lia.
    + rewrite Qd_empty by (intros w Hw; apply Hws; lia). reflexivity.
Qed.

Lemma init_puts : forall j i gw rd R s y,
  i + j <= W * c_P c -> InvC gw rd a0 R s -> Rest gw rd R s (refsuf W B 0 cyc0) ->
  m_send s = i -> m_rcvd s = 0 -> m_outst s = i -> ndat (m_info s) = 0 -> m_status s = repeat true W -> R * W + m_cyc s = i + cyc0 ->
  (1 <= i -> gw 0 = cyc0 /\ rd 0 = 0) -> InvS y gw rd s -> m_ny s = y -> InvW gw rd a0 s -> InvX gw rd s ->
  exists gw' rd' R', let s' := iter_n (try_put_index c) j s in
    InvC gw' rd' a0 R' s' /\ Rest gw' rd' R' s' (refsuf W B 0 cyc0) /\ InvS y gw' rd' s' /\ InvW gw' rd' a0 s' /\ InvX gw' rd' s' /\ m_ny s' = y /\ m_send s' = i + j /\ m_rcvd s' = 0 /\
    m_status s' = repeat true W /\ R' * W + m_cyc s' = i + j + cyc0 /\ (1 <= i + j -> gw' 0 = cyc0 /\ rd' 0 = 0).
Proof.
  induction j as [|j IH]; intros i gw rd R s y Hij H HR Es Er Eo En Est ERc H0 HS Eny HWw HX.
  - exists gw, rd, R. cbn [iter_n]. rewrite Nat.add_0_r. auto 16.
  - cbn [iter_n].
    destruct (try_put_iter gw rd a0 R s (refsuf W B 0 cyc0) H HR ltac:(lia)) as ((E1 & _) & E2 & Hput).
    set (s2 := try_put_index c s) in *.
    assert (forall v, v < W -> act s v = true) as Hall by (intros v Hv; unfold act; rewrite Est; apply nth_repeat_true, Hv).
    destruct Hput as [(w' & R' & j0 & E & Hw' & Hact & Hj0 & HAdv & H2 & HR2)|(R' & E & Hnone & _)].
    2:{ specialize (Hnone 0 HW). rewrite (Hall 0 HW) in Hnone. discriminate. }
    assert (w' < length (m_workers s)) as Hwl by (rewrite (c_wlen _ _ _ _ _ H); exact Hw').
    assert (forall v, v < W -> v <> w' -> cnt R' (m_cyc s2) v = cnt R (m_cyc s) v) as Hsame.
    { intros v Hv Hne. destruct (c_d _ _ _ _ _ H v Hv) as (_ & _ & D). rewrite (Hall v Hv) in D.
      destruct (c_d _ _ _ _ _ H2 v Hv) as (_ & _ & D2).
      assert (act s2 v = act s v) as Ea by (rewrite E; reflexivity). rewrite Ea, (Hall v Hv) in D2.
      assert (dsp a0 s2 v = dsp a0 s v) as Ed by (rewrite E; unfold dsp; rewrite wq_put_some_neq by exact Hne; reflexivity).
      rewrite Ed in D2. lia. }
    destruct (adv_one R (m_cyc s) R' (m_cyc s2) j0 w' (c_cyc _ _ _ _ _ H) (c_cyc _ _ _ _ _ H2) Hj0 HAdv Hw' Hsame) as [Hone Hwc].
    assert (m_send s2 = S i /\ m_rcvd s2 = 0 /\ m_outst s2 = S i /\ ndat (m_info s2) = 0 /\ m_status s2 = repeat true W /\ m_ny s2 = y) as (F1 & F2 & F3 & F4 & F5 & F6).
    { rewrite E. cbn [put_some m_send m_rcvd m_outst m_status m_info m_ny]. rewrite ndat_app. cbn. repeat split; auto; lia. }
    assert (InvS y (upd gw (m_send s) w') (upd rd (m_send s) (dsp a0 s w')) s2) as HS2.
    { rewrite E. apply (put_some_invS y gw rd a0 R s w' (m_cyc s2) H HS ltac:(lia) ltac:(lia) Hw'). }
    assert (InvW (upd gw (m_send s) w') (upd rd (m_send s) (dsp a0 s w')) a0 s2) as HW2.
    { rewrite E. apply (put_some_invW gw rd a0 s w' (m_cyc s2) w' (dsp a0 s w') HWw (c_kn _ _ _ _ _ H) Hwl).
      pose proof (c_info _ _ _ _ _ H (m_send s)) as G. destruct (info_get (m_info s) (m_send s)) as [[? ?]|]; [lia | reflexivity]. }
    assert (InvX (upd gw (m_send s) w') (upd rd (m_send s) (dsp a0 s w')) s2) as HX2.
    { rewrite E. apply (put_some_invX gw rd s w' (m_cyc s2) w' (dsp a0 s w') HX (c_kn _ _ _ _ _ H) Hwl).
      pose proof (c_info _ _ _ _ _ H (m_send s)) as G. destruct (info_get (m_info s) (m_send s)) as [[? ?]|]; [lia | reflexivity]. }
    replace (i + S j) with (S i + j) by lia.
    apply (IH (S i) (upd gw (m_send s) w') (upd rd (m_send s) (dsp a0 s w')) R' s2 y); auto; try lia.
    intros _. rewrite Es. destruct (Nat.eq_dec i 0) as [->|Hi].
      * rewrite !upd_eq. assert (m_cyc s = cyc0 /\ R = 0) as [Ec ER].
        { pose proof (c_cyc _ _ _ _ _ H). destruct R as [|R0]; [lia | nia]. }
        split; [lia|].
        destruct (c_d _ _ _ _ _ H w' Hw') as (_ & _ & D). rewrite Hact in D. rewrite D, Hwc, Ec, ER. unfold cnt, b2n. rewrite Nat.ltb_irrefl. reflexivity.
      * rewrite !upd_neq by lia. apply H0. lia.
Qed.

(* every iterator of this kind, once its first tasks are put, is in a good state with the whole walk from cyc0 ahead *)
Lemma start_iter workers ny0 siy0 samp0 last0 wsnap snap : workers_ok workers -> entries_ok workers wsnap snap ->
  let s := iter_n (try_put_index c) (c_P c * W) (init0 workers ny0 siy0 samp0 last0 wsnap snap) in
  exists gw rd R, InvC gw rd a0 R s /\ Rest gw rd R s (refsuf W B 0 cyc0) /\ Act gw rd a0 s /\ InvS (m_ny s) gw rd s /\ m_ny s = ny0 /\
                  InvW gw rd a0 s /\ InvX gw rd s.
Proof.
  intros Hok Hent. cbn zeta. pose proof (blank_invW workers ny0 siy0 samp0 last0 wsnap snap Hent) as HW0.
  pose proof (blank_invX workers ny0 siy0 samp0 last0 wsnap snap Hent Hok) as HX0. destruct (blank_inv workers ny0 siy0 samp0 last0 wsnap snap Hok) as (H0 & HR0 & HS0).
  set (s0 := init0 workers ny0 siy0 samp0 last0 wsnap snap) in *.
  destruct (init_puts (c_P c * W) 0 g0 g0 0 s0 ny0 ltac:(lia) H0 HR0 eq_refl eq_refl eq_refl eq_refl eq_refl ltac:(cbn; lia) ltac:(lia) HS0 eq_refl HW0 HX0)
    as (gw & rd & R & H & HR & HS & HWw & HX & Eny & Es & Er & Est & ERc & Hz).
  cbn zeta in *. set (s := iter_n (try_put_index c) (c_P c * W) s0) in *.
  exists gw, rd, R. split; [exact H|]. split; [exact HR|]. split; [|split; [rewrite Eny; exact HS | split; [exact Eny | split; [exact HWw | exact HX]]]].
  assert (0 < c_P c * W) as Hpos by nia. destruct (Hz ltac:(lia)) as [Hg Hr].
  pose proof (c_cyc _ _ _ _ _ H) as Hcyc.
  unfold Act. rewrite Er, Es. split; [|split; [lia | nia]].
  intros _ v Hv Hact. rewrite Hg, Hr. destruct (c_d _ _ _ _ _ H v Hv) as (_ & _ & D). rewrite Hact in D. rewrite D.
  assert (1 <= R) as HR1 by nia.
  destruct (Nat.eq_dec R 1) as [->|HR2]; [|unfold cnt, b2n; destruct (v <? cyc0), (v <? m_cyc s); lia].
  assert (m_cyc s = cyc0) as ->.
  { destruct (c_P c) as [|[|p]]; [lia | lia | nia]. }
  unfold cnt, b2n. destruct (v <? cyc0); lia.
Qed.

(* k further batches (the replay loop of __init__; any k consecutive __next__ calls) *)
Lemma replay_iter : forall k gw rd a R s rest sched, k <= length rest ->
  InvC gw rd a R s -> Rest gw rd R s rest -> Act gw rd a s -> InvS (m_ny s) gw rd s -> InvW gw rd a s -> InvX gw rd s ->
  exists s' sched' gw' rd' a' R', replay c k s sched = (s', sched') /\
    InvC gw' rd' a' R' s' /\ Rest gw' rd' R' s' (skipn k rest) /\ Act gw' rd' a' s' /\ InvS (m_ny s') gw' rd' s' /\ m_ny s' = m_ny s + k /\
    InvW gw' rd' a' s' /\ InvX gw' rd' s' /\ (0 < k -> PostH gw' rd' s').
Proof.
  induction k as [|k IH]; intros gw rd a R s rest sched Hk H HR HA HS HWw HX.
  - exists s, sched, gw, rd, a, R. cbn [replay skipn]. rewrite Nat.add_0_r.
    split; [reflexivity|]. split; [exact H|]. split; [exact HR|]. split; [exact HA|]. split; [exact HS|]. split; [reflexivity|]. split; [exact HWw|]. split; [exact HX|]. intros Hlt; lia.
  - destruct rest as [|b rest]; [cbn in Hk; lia|].
    destruct (sdl_next_iter gw rd a R s (b :: rest) sched H HR HA HS HWw HX) as (s1 & sched1 & gw1 & rd1 & a1 & R1 & E & H1 & HR1 & HA1 & HS1 & Eny & HW1 & HX1 & HP1).
    destruct k as [|k].
    + exists s1, sched1, gw1, rd1, a1, R1. cbn [replay]. rewrite E. cbn [replay skipn].
      split; [reflexivity|]. split; [exact H1|]. split; [exact HR1|]. split; [exact HA1|]. split; [exact HS1|]. split; [lia|]. split; [exact HW1|]. split; [exact HX1|]. intros _; exact HP1.
    + destruct (IH gw1 rd1 a1 R1 s1 rest sched1 ltac:(cbn in Hk; lia) H1 HR1 HA1 HS1 HW1 HX1) as (s' & sched' & gw' & rd' & a' & R' & E' & X1 & X2 & X3 & X4 & X5 & X6 & X7 & X8).
      exists s', sched', gw', rd', a', R'. cbn [replay]. rewrite E. split; [exact E'|]. cbn [skipn]. rewrite Eny in X5.
      split; [exact X1|]. split; [exact X2|]. split; [exact X3|]. split; [exact X4|]. split; [lia|]. split; [exact X6|]. split; [exact X7|]. intros _. apply X8. lia.
Qed.

End IterMain.

(* ------------------------------------------------------------------ *)
(* the fresh iterator *)
Section FreshIter.
Variable c : cfg.
Hypothesis Hkind : c_kind c = KIter.
Hypothesis HW : 0 < c_W c.
Hypothesis HP : 0 < c_P c.

Lemma nth_repeat_fresh' n w : nth w (repeat wk_fresh n) wk_fresh = wk_fresh.
Proof. revert w. induction n as [|m IH]; intros [|w]; cbn; auto. Qed.

Lemma fresh_workers_ok : workers_ok c (Bw c) 0 (repeat wk_fresh (c_W c)).
Proof.
  split; [apply repeat_length|]. intros w Hw. rewrite nth_repeat_fresh'. split; [reflexivity|]. split; [reflexivity|].
  apply fut_fresh, Hkind.
Qed.

Definition wk_fresh0 : nat -> wk := fun _ => wk_fresh.

Lemma fresh_entries_ok snap : sn_workers snap = repeat (0, false) (c_W c) ->
  entries_ok c wk_fresh0 true (repeat wk_fresh (c_W c)) (repeat (0, false) (c_W c)) snap.
Proof.
  intros Hs. split; [|split; [|split]].
  - intros w Hw. rewrite nth_repeat_fresh'. split; reflexivity.
  - apply repeat_length.
  - intros _ w _. generalize (c_W c). intros n. revert w. induction n as [|n IH]; intros [|w]; cbn; auto. apply IH.
  - exact Hs.
Qed.

Definition snap_fresh : snapshot :=
  {| sn_step := 0; sn_last := c_W c - 1; sn_main := (0, 0); sn_workers := repeat (0, false) (c_W c) |}.

Lemma fresh_start : exists gw rd R,
  InvC c (Bw c) 0 gw rd (a0 0) R (sdl_fresh c) /\ Rest c (Bw c) gw rd R (sdl_fresh c) (reference c) /\ Act c gw rd (a0 0) (sdl_fresh c) /\
  InvS c (Bw c) (m_ny (sdl_fresh c)) gw rd (sdl_fresh c) /\ m_ny (sdl_fresh c) = 0 /\ InvW c 0 wk_fresh0 true gw rd (a0 0) (sdl_fresh c) /\
  InvX c (Bw c) 0 wk_fresh0 true gw rd (sdl_fresh c).
Proof.
  destruct (start_iter c Hkind HW HP (Bw c) 0 HW ltac:(intros w _; cbn; lia) wk_fresh0 true (repeat wk_fresh (c_W c)) 0 0 0 (c_W c - 1)
              (repeat (0, false) (c_W c)) snap_fresh fresh_workers_ok (fresh_entries_ok snap_fresh eq_refl)) as (gw & rd & R & H & HR & HA & HS & Eny & HWw & HX).
  rewrite (refsuf_start c Hkind HW) in HR. exists gw, rd, R. auto 10.
Qed.

(* C03 (iterable datasets, every snapshot interval): for EVERY arrival schedule the epoch is the reference stream *)
Theorem iter_epoch_exact : forall sched,
  outcomes c (S (length (reference c))) (sdl_fresh c) sched = map OBatch (reference c) ++ [OStop].
Proof.
  intros sched. destruct fresh_start as (gw & rd & R & H & HR & HA & HS & _ & HWw & HX).
  exact (outcomes_iter c Hkind HW HP (Bw c) 0 HW wk_fresh0 true (reference c) gw rd (a0 0) R (sdl_fresh c) sched H HR HA HS HWw HX).
Qed.

(* C05 / C01 (iterable datasets, every snapshot interval, EVERY arrival schedule, every k): in the state reached after k batches,
   every worker-state entry of the snapshot that state_dict() hands out — and of the running _worker_snapshots — is the state
   that worker reported right after the answer to one of its tasks that the main process has ALREADY PASSED (a batch handed out
   to the user, or an end-of-shard notice consumed in task order), or the worker's initial state: never the state after a
   result that is still buffered or outstanding, however far ahead a fast worker has run (InvW); InvC gives the ghost data
   their meaning (gw t / rd t: worker and per-worker ordinal of task t; tasks below m_rcvd are the passed ones). *)
Theorem iter_entries_never_ahead : forall k sched, k <= length (reference c) ->
  exists gw rd a R, InvC c (Bw c) 0 gw rd a R (fst (replay c k (sdl_fresh c) sched)) /\
                    InvW c 0 wk_fresh0 true gw rd a (fst (replay c k (sdl_fresh c) sched)).
Proof.
  intros k sched Hk. destruct fresh_start as (gw & rd & R & H & HR & HA & HS & _ & HWw & HX).
  destruct (replay_iter c Hkind HW HP (Bw c) 0 HW wk_fresh0 true k gw rd (a0 0) R (sdl_fresh c) (reference c) sched Hk H HR HA HS HWw HX)
    as (s' & sched' & gw' & rd' & a' & R' & E & H' & _ & _ & _ & _ & HW' & _).
  rewrite E. exists gw', rd', a', R'. split; assumption.
Qed.

(* C09, iterable datasets: under ANY fault schedule (worker deaths at any moment, poll time-outs, arrivals in any order) a fresh
   epoch never yields a wrong, repeated or misplaced batch and never ends early *)
Theorem iter_fault_run_never_wrong : forall m cr evs,
  exists k tail, k <= length (reference c) /\
    run_f m c (sdl_fresh c) cr evs = map (fun b => FO (OBatch b)) (firstn k (reference c)) ++ tail /\
    (tail = [] \/ exists o, tail = [o] /\ (benignF o \/ (o = FO OStop /\ k = length (reference c)))).
Proof.
  intros m cr evs. destruct fresh_start as (gw & rd & R & H & HR & HA & HS & _ & HWw & HX).
  exact (run_f_iter c Hkind HW HP (Bw c) 0 HW wk_fresh0 true m (reference c) gw rd (a0 0) R (sdl_fresh c) cr evs H HR HA HS HWw HX).
Qed.

End FreshIter.
