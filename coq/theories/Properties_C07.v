(* Properties_C07.v — C07: worker state in a checkpoint is exactly what the worker reported.
   Model: IncrModel.v (incremental_state.py).  Statements only. *)
From PD Require Import Base IncrModel.

(* the worker's retained base after generating a delta is the flattened reported state *)
Theorem C07_base_is_reported :
  forall base new_state, snd (gen_delta base new_state) = flatten new_state [].
Proof. reflexivity. Qed.
Print Assumptions C07_base_is_reported.

(* non-vacuity / regression examples evaluated in the kernel *)
Example C07_roundtrip_example :
  let v := VDict [(1, VLeaf 5); (2, VDict [(3, VDict []); (4, VLeaf 0)]); (7, VDict [(1, VDict [(1, VLeaf 9)])])] in
  wf v = true /\ get_state (flatten v []) = Some v.
Proof. vm_compute. split; reflexivity. Qed.

Example C07_delta_example :
  let old := VDict [(1, VLeaf 5); (2, VDict [(3, VLeaf 6)])] in
  let new := VDict [(2, VLeaf 7); (1, VLeaf 5); (4, VDict [])] in
  let d := fst (gen_delta (flatten old []) new) in
  d = [([2; 3], Tomb); ([2], DVal (VLeaf 7)); ([4], DVal (VDict []))] /\
  get_state (apply_delta (flatten old []) d) = Some (VDict [(1, VLeaf 5); (2, VLeaf 7); (4, VDict [])]).
Proof. vm_compute. split; reflexivity. Qed.
