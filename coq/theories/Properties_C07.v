(* Properties_C07.v — C07: worker dataset state in a checkpoint is exactly what the worker reported.
   Model: IncrModel.v (incremental_state.py).  Statements only; proofs in IncrProofs.v.
   Reading: [flatmap]s are Python dicts keyed by path tuples (association lists, insertion order);
   [feq] is equality as finite maps; [lookup u p] is the leaf found in tree u at path p, so
   "forall p, lookup u p = lookup v p" says u and v are equal as nested Python dicts (==, which
   ignores insertion order) for well-formed trees (no duplicate keys — always true of dicts). *)
From PD Require Import Base IncrModel IncrProofs.

(* the worker's retained base after generating a delta is the flattened reported state *)
Theorem C07_base_is_reported :
  forall base new_state, snd (gen_delta base new_state) = flatten new_state [].
Proof. reflexivity. Qed.
Print Assumptions C07_base_is_reported.

(* one delta is lossless: main side m (equal as a map to the worker's base) after applying the
   delta equals the flattened new state at every path — whatever changed: keys added, removed,
   leaf <-> dict, {} leaves *)
Theorem C07_delta_exact :
  forall (m base : flatmap) (new_state : value),
    feq m base -> knodup m -> knodup base ->
    feq (apply_delta m (fst (gen_delta base new_state))) (flatten new_state [])
    /\ knodup (apply_delta m (fst (gen_delta base new_state))).
Proof. exact delta_exact. Qed.
Print Assumptions C07_delta_exact.

(* any history of reported states: the main side ends up with the last one *)
Theorem C07_history_exact :
  forall states m base last, feq m base -> knodup m -> knodup base ->
    (forall s, In s states -> wf s = true) -> wf last = true ->
    feq (fst (run_history m base (states ++ [last]))) (flatten last []).
Proof. exact history_exact. Qed.
Print Assumptions C07_history_exact.

(* flattening loses nothing: the flat map has exactly the tree's leaves *)
Theorem C07_flatten_lookup :
  forall v, wf v = true -> forall p, aget path_eqb (flatten v []) p = lookup v p.
Proof. exact flatten_lookup. Qed.
Print Assumptions C07_flatten_lookup.

(* rebuilding the checkpoint tree from ANY flat map that equals the flattened reported state as a
   map (its order may differ: it is the insertion order accumulated over the history) succeeds
   and gives a tree with exactly the reported leaf at every path *)
Theorem C07_get_state_lookup :
  forall (f : flatmap) (v : value), wf v = true -> feq f (flatten v []) -> knodup f ->
    exists u, get_state f = Some u /\ (forall p, lookup u p = lookup v p).
Proof. exact get_state_lookup. Qed.
Print Assumptions C07_get_state_lookup.

(* THE PROPERTY on the model: after any history of snapshot-flagged reports, the state stored in
   the checkpoint is (==) the state the worker reported last *)
Theorem C07_checkpoint_exact :
  forall states m base last, feq m base -> knodup m -> knodup base ->
    (forall s, In s states -> wf s = true) -> wf last = true ->
    exists u, get_state (fst (run_history m base (states ++ [last]))) = Some u /\
              forall p, lookup u p = lookup last p.
Proof. exact checkpoint_exact. Qed.
Print Assumptions C07_checkpoint_exact.

(* direct round trip, syntactically (same key order) *)
Theorem C07_unflatten_flatten :
  forall v, wf v = true -> get_state (flatten v []) = Some v.
Proof. exact unflatten_flatten. Qed.
Print Assumptions C07_unflatten_flatten.

(* non-vacuity / regression examples evaluated in the kernel *)
Example C07_roundtrip_example :
  let v := VDict [(1, VLeaf 5); (2, VDict [(3, VDict []); (4, VLeaf 0)]); (7, VDict [(1, VDict [(1, VLeaf 9)])])] in
  wf v = true /\ get_state (flatten v []) = Some v.
Proof. vm_compute. split; reflexivity. Qed.

Example C07_delta_example :
  let old := VDict [(1, VLeaf 5); (2, VDict [(3, VLeaf 6)])] in
  let new := VDict [(2, VLeaf 7); (1, VLeaf 5); (4, VDict [])] in
  let d := fst (gen_delta (flatten old []) new) in
  d = [([2; 3], Tomb); ([2], DVal (VLeaf 7)); ([4], DVal (VDict []))] /\
  get_state (apply_delta (flatten old []) d) = Some (VDict [(1, VLeaf 5); (2, VLeaf 7); (4, VDict [])]).
Proof. vm_compute. split; reflexivity. Qed.

(* the hypotheses of C07_checkpoint_exact are met at worker start: main and worker hold the same flat map *)
Example C07_hyps_satisfiable :
  let v := VDict [(1, VLeaf 5); (2, VDict [(3, VLeaf 6)])] in
  feq (is_init v) (is_init v) /\ knodup (is_init v) /\ wf v = true.
Proof. cbv zeta. split; [intro; reflexivity|]. split; [|reflexivity].
  apply flatten_knodup. reflexivity. Qed.
