(* Base.v — shared vocabulary: the universal observation type used by the
   correspondence check, a few list lemmas, and small tactics.
   Stdlib only. No proofs about the models live here. *)
From Coq Require Export String.
From Coq Require Export List Arith ZArith Bool Lia.
Export ListNotations.
Close Scope string_scope.

(* ------------------------------------------------------------------ *)
(* Observations: what the harness compares between model and code.     *)
Inductive obs :=
| OZ (z : Z)
| OB (b : bool)
| ON                      (* Python None *)
| OS (s : string)         (* tags: "stop", "err:ValueError", ... *)
| OL (l : list obs).

Fixpoint obs_eqb (a b : obs) {struct a} : bool :=
  match a, b with
  | OZ x, OZ y => Z.eqb x y
  | OB x, OB y => Bool.eqb x y
  | ON, ON => true
  | OS x, OS y => String.eqb x y
  | OL xs, OL ys =>
      (fix go (xs ys : list obs) {struct xs} : bool :=
         match xs, ys with
         | [], [] => true
         | x :: xs', y :: ys' => obs_eqb x y && go xs' ys'
         | _, _ => false
         end) xs ys
  | _, _ => false
  end.

Definition onat (n : nat) : obs := OZ (Z.of_nat n).
Definition olz (l : list Z) : obs := OL (map OZ l).          (* compact literal for long integer lists *)
Definition olist {A} (f : A -> obs) (l : list A) : obs := OL (map f l).
Definition oopt {A} (f : A -> obs) (o : option A) : obs :=
  match o with Some x => f x | None => ON end.

(* indices (0-based) at which model and expected observation differ *)
Fixpoint mismatches_from (i : nat) (got want : list obs) {struct got} : list nat :=
  match got, want with
  | [], [] => []
  | g :: gs, w :: ws =>
      if obs_eqb g w then mismatches_from (S i) gs ws else i :: mismatches_from (S i) gs ws
  | _, _ => [i]           (* different number of observations: flagged once *)
  end.
Definition mismatches := mismatches_from 0.

(* ------------------------------------------------------------------ *)
(* List helpers                                                         *)
Section Lists.
  Context {A : Type}.

  Lemma skipn_skipn (n m : nat) (l : list A) : skipn n (skipn m l) = skipn (m + n) l.
  Proof.
    revert l; induction m as [|m IH]; intros l; simpl; [reflexivity|].
    destruct l as [|x l]; simpl; [destruct n; reflexivity | apply IH].
  Qed.

  Lemma firstn_skipn_app (n : nat) (l : list A) : firstn n l ++ skipn n l = l.
  Proof. apply firstn_skipn. Qed.

  Lemma skipn_all' (n : nat) (l : list A) : length l <= n -> skipn n l = [].
  Proof. intros H. apply skipn_all2. exact H. Qed.

  Lemma skipn_length' (n : nat) (l : list A) : length (skipn n l) = length l - n.
  Proof. apply skipn_length. Qed.

  Lemma nth_error_skipn (n m : nat) (l : list A) :
    nth_error (skipn n l) m = nth_error l (n + m).
  Proof.
    revert l; induction n as [|n IH]; intros l; simpl; [reflexivity|].
    destruct l as [|x l]; simpl; [destruct m; reflexivity | apply IH].
  Qed.

  Lemma skipn_S_nth (n : nat) (l : list A) (x : A) :
    nth_error l n = Some x -> skipn n l = x :: skipn (S n) l.
  Proof.
    revert l; induction n as [|n IH]; intros [|y l] H; simpl in *; try discriminate.
    - inversion H; reflexivity.
    - apply IH; exact H.
  Qed.
End Lists.

(* destruct every match scrutinee in the goal, remembering the equation *)
Ltac break_match_goal :=
  repeat match goal with
  | |- context [match ?x with _ => _ end] => destruct x eqn:?
  end.

(* ------------------------------------------------------------------ *)
(* Generic iterators: [next : S -> option A * S]                        *)
Section Iter.
  Context {St A : Type} (next : St -> option A * St).

  Fixpoint iter_run (fuel : nat) (s : St) : list A :=
    match fuel with
    | 0 => []
    | S f => match next s with
             | (Some a, s') => a :: iter_run f s'
             | (None, _) => []
             end
    end.

  Fixpoint iter_steps (k : nat) (s : St) : St :=
    match k with 0 => s | S k' => iter_steps k' (snd (next s)) end.

  (* state after k successful steps is where the suffix of the run starts *)
  Lemma iter_run_steps (k f : nat) (s : St) :
    k <= length (iter_run (k + f) s) ->
    iter_run f (iter_steps k s) = skipn k (iter_run (k + f) s).
  Proof.
    revert s; induction k as [|k IH]; intros s Hk; [reflexivity|].
    cbn [plus iter_run iter_steps] in *.
    destruct (next s) as [[a|] s'] eqn:E; cbn [snd skipn length] in *; [|lia].
    apply IH. lia.
  Qed.

  Lemma iter_run_length (f : nat) (s : St) : length (iter_run f s) <= f.
  Proof. revert s; induction f as [|f IH]; intros s; simpl; [lia|].
    destruct (next s) as [[a|] s']; simpl; [specialize (IH s')|]; lia. Qed.
End Iter.
