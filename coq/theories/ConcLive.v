(* ConcLive.v — liveness-side facts about ConcModel: every wait is timed (a live thread always has a move), the consumer
   is always inside an operation until its script ends (so no reachable state is a deadlock), next() after stop is
   immediate, and — the heart of C17 for nodes — once an iterator's stop event is set its background threads can make
   only boundedly many further moves (a strictly decreasing measure), so they all terminate. *)
From Coq Require Import List Arith Bool Lia.
From RecordUpdate Require Import RecordUpdate.
From PD Require Import ConcModel ConcInv.
Import ListNotations.
Open Scope nat_scope.

(* ---------------------------------------------------------------------------------------------------------- *)
(* every wait is timed *)
Lemma r_pending_wf g l en tw : r_pending g = Some (l, en, tw) -> en = true \/ tw = true.
Proof. unfold r_pending. destruct (g_r g); intros H; inversion H; auto. Qed.
Lemma w_pending_wf g i l en tw : w_pending g i = Some (l, en, tw) -> en = true \/ tw = true.
Proof. unfold w_pending. destruct (nth_error (g_ws g) i) as [[]|]; intros H; inversion H; auto. Qed.
Lemma s_pending_wf g l en tw : s_pending g = Some (l, en, tw) -> en = true \/ tw = true.
Proof. unfold s_pending. destruct (g_s g); intros H; inversion H; auto. Qed.
Lemma c_pending_wf c g l en tw : c_pending c g = Some (l, en, tw) -> en = true \/ tw = true.
Proof. unfold c_pending. destruct (g_c g); intros H; inversion H; auto. Qed.

Lemma pending_wf c s t l en tw : pending c s t = Some (l, en, tw) -> en = true \/ tw = true.
Proof.
  unfold pending. destruct t as [|gi [|i|]].
  - destruct (s_cdone s); [discriminate|]. destruct (negb (s_started s)); [intros H; inversion H; auto|].
    destruct (cur s); [apply c_pending_wf | discriminate].
  - destruct (nth_error (s_gens s) gi); [apply r_pending_wf | discriminate].
  - destruct (nth_error (s_gens s) gi); [apply w_pending_wf | discriminate].
  - destruct (nth_error (s_gens s) gi); [apply s_pending_wf | discriminate].
Qed.

Theorem pending_has_move c s t :
  pending c s t <> None -> is_move c s (t, Go) = true \/ is_move c s (t, Timeout) = true.
Proof.
  unfold is_move. cbn. destruct (pending c s t) as [[[l en] tw]|] eqn:E; [|congruence]. intros _.
  destruct (pending_wf _ _ _ _ _ _ E) as [->| ->]; [left; reflexivity|]. destruct en; [left | right]; reflexivity.
Qed.

Theorem next_after_stop_prompt c m g : g_stop g = true -> g_c g = CChk -> snd (cstep c m g) = Some OutStop.
Proof. intros Hs Hc. unfold cstep. rewrite Hc, Hs. reflexivity. Qed.

(* ---------------------------------------------------------------------------------------------------------- *)
(* the consumer is inside an operation until its script is over *)
Definition Busy (s : state) : Prop :=
  s_cdone s = false -> s_started s = true -> exists g, cur s = Some g /\ g_c g <> CIdle.

Lemma busy_set_cur g s : g_c g <> CIdle -> Busy (set_cur g s).
Proof. intros H _ _. exists g. split; [apply cur_set_cur | exact H]. Qed.

Lemma cur_app_last gs g s : cur (s <| s_gens := gs ++ [g] |>) = Some g.
Proof. unfold cur. cbn. rewrite map_app. cbn. apply last_app_single. Qed.

Lemma busy_construct c l s : Busy (construct c l s).
Proof.
  intros _ _. unfold construct. destruct (match l with Some j => nth j (s_states s) (0, 0) | None => (0, 0) end) as [base ff].
  exists (new_gen c base ff). split.
  - unfold cur. cbn. rewrite map_app. cbn. apply last_app_single.
  - unfold new_gen. cbn. destruct (k_pm c); discriminate.
Qed.

Lemma busy_todo s t : Busy s -> Busy (s <| s_todo := t |>).
Proof. unfold Busy, cur. cbn. auto. Qed.

Lemma busy_dispatch c todo s : Busy (dispatch c todo s).
Proof.
  revert s. induction todo as [|a t IH]; intros s; cbn.
  - intros H. cbn in H. discriminate.
  - destruct a; destruct (cur s) as [g|] eqn:Ec; try (intros H; cbn in H; discriminate); try apply IH.
    all: try (apply busy_todo, busy_set_cur; cbn; discriminate).
    all: try (apply busy_todo, busy_construct).
Qed.

Lemma busy_complete c o s : (exists g, cur s = Some g) -> Busy (complete c o s).
Proof.
  intros [g Ec]. unfold complete. rewrite Ec.
  destruct o; repeat match goal with |- context [match ?x with _ => _ end] => destruct x end;
    try apply busy_dispatch; try (apply busy_set_cur; cbn; discriminate);
    try (intros H; cbn in H; discriminate).
Qed.

Lemma cstep_none_busy c m g : g_c g <> CIdle -> snd (cstep c m g) = None -> g_c (fst (cstep c m g)) <> CIdle.
Proof.
  unfold cstep. destruct (g_c g) eqn:Ec; try congruence; intros _;
    repeat match goal with |- context [match ?x with _ => _ end] => destruct x eqn:? end; cbn;
    try discriminate; try congruence.
  all: try (unfold after_join; destruct (next_join _ _ _ _); cbn; try discriminate; try congruence).
Qed.

Lemma upd_nth_nil {A} i (f : A -> A) : upd_nth i f [] = [].
Proof. destruct i; reflexivity. Qed.

Lemma last_upd_nth {A} (P : A -> Prop) (f : A -> A) i (l : list A) :
  (forall x, P x -> P (f x)) ->
  (exists x, last (map Some l) None = Some x /\ P x) ->
  exists x, last (map Some (upd_nth i f l)) None = Some x /\ P x.
Proof.
  intros Hf. revert i. induction l as [|a l IH]; intros i [x [E Px]]; [destruct i; cbn in E; discriminate|].
  destruct l as [|b l].
  - cbn in E. injection E as <-. destruct i; cbn; rewrite ?upd_nth_nil; cbn; eauto.
  - destruct i; cbn.
    + exists x. split; [exact E | exact Px].
    + specialize (IH i (ex_intro _ x (conj E Px))). destruct IH as [y [Ey Py]].
      exists y. split; [|exact Py]. cbn in Ey. destruct (upd_nth i f (b :: l)) eqn:Eu; [destruct i; discriminate|]. exact Ey.
Qed.

Lemma rstep_c c m g pos : g_c (fst (rstep c m g pos)) = g_c g.
Proof. unfold rstep. repeat match goal with |- context [match ?x with _ => _ end] => destruct x end; reflexivity. Qed.
Lemma wstep_c c i m g : g_c (wstep c i m g) = g_c g.
Proof. unfold wstep. repeat match goal with |- context [match ?x with _ => _ end] => destruct x end; reflexivity. Qed.
Lemma sstep_c c m g : g_c (sstep c m g) = g_c g.
Proof.
  unfold sstep, s_after. repeat match goal with |- context [match ?x with _ => _ end] => destruct x end; reflexivity.
Qed.

Lemma busy_step c s ch : Busy s -> Busy (step c s ch).
Proof.
  intros HB. destruct ch as [t m]. unfold step. destruct t as [|gi r].
  - destruct (s_cdone s) eqn:Ed; [exact HB|].
    destruct (s_started s) eqn:Est; cbn.
    + destruct (HB Ed Est) as [g [Ec Hg]]. rewrite Ec.
      destruct (cstep c m g) as [g' o] eqn:Estep. destruct o as [o|].
      * apply busy_complete. exists g'. apply cur_set_cur.
      * apply busy_set_cur. replace g' with (fst (cstep c m g)) by (rewrite Estep; reflexivity).
        apply cstep_none_busy; [exact Hg | rewrite Estep; reflexivity].
    + apply busy_dispatch.
  - assert (forall f, (forall g, g_c (f g) = g_c g) -> Busy (s <| s_gens := upd_nth gi f (s_gens s) |>)) as HU.
    { intros f Hf Hd Hs. cbn in Hd, Hs. destruct (HB Hd Hs) as [g [Ec Hg]].
      unfold cur. cbn. apply last_upd_nth; [intros x Hx; rewrite Hf; exact Hx|]. exists g. split; [exact Ec | exact Hg]. }
    destruct r as [|i|].
    + destruct (nth_error (s_gens s) gi) as [g|] eqn:En; [|exact HB].
      destruct (rstep c m g (s_pos s)) as [g' pos'] eqn:Er.
      intros Hd Hs. cbn in Hd, Hs. destruct (HB Hd Hs) as [g0 [Ec Hg]].
      unfold cur. cbn.
      assert (upd_nth gi (fun _ => g') (s_gens s) = upd_nth gi (fun x => fst (rstep c m x (s_pos s))) (s_gens s)) as ->.
      { clear -En Er. revert gi En. induction (s_gens s) as [|a l IH]; intros gi En; [destruct gi; reflexivity|].
        destruct gi; cbn in *; [injection En as ->; rewrite Er; reflexivity | f_equal; apply IH, En]. }
      apply last_upd_nth; [intros x Hx; rewrite rstep_c; exact Hx|]. exists g0. split; [exact Ec | exact Hg].
    + apply (HU (wstep c i m)). intros g. apply wstep_c.
    + apply (HU (sstep c m)). intros g. apply sstep_c.
Qed.

Lemma busy_init script : Busy (init script).
Proof. intros _ H. cbn in H. discriminate. Qed.

Theorem busy_reachable c script sched : Busy (run c sched (init script)).
Proof.
  unfold run. generalize (busy_init script). generalize (init script).
  induction sched as [|ch sched IH]; intros s H; cbn [fold_left]; [exact H|]. apply IH, busy_step, H.
Qed.

(* no reachable state is a deadlock while the consumer's script is unfinished *)
Theorem no_deadlock c script sched :
  let s := run c sched (init script) in
  s_cdone s = false -> exists t m, is_move c s (t, m) = true.
Proof.
  intros s Hd. exists TC.
  assert (pending c s TC <> None) as HP.
  { unfold pending. rewrite Hd. destruct (s_started s) eqn:Est; cbn; [|discriminate].
    destruct (busy_reachable c script sched Hd Est) as [g [Ec Hg]]. fold s in Ec. rewrite Ec.
    unfold c_pending. destruct (g_c g); try discriminate. congruence. }
  destruct (pending_has_move c s TC HP) as [H|H]; eauto.
Qed.

(* ---------------------------------------------------------------------------------------------------------- *)
(* C17 (nodes): after the stop event of an iterator is set, its background threads terminate.
   A potential mu : gen -> nat that strictly decreases with every MOVE of the reader, a worker or the sorter of a
   generation whose stop event is set, and that no consumer step increases. *)
Definition rrank (p : rpc) : nat :=
  match p with RStart => 7 | RInitPut _ => 6 | RAcq => 5 | RPull => 4 | RStore _ _ _ => 3 | RPut _ _ _ => 2 | RChk => 1 | RDone => 0 end.
(* a worker waiting in get() on an empty queue is "further from the exit" than one waiting on a non-empty queue *)
Definition wrank (p : wpc) (n : nat) : nat :=
  match p with
  | WDone => 0
  | WGet => match n with 0 => 4 | S _ => 1 end
  | WEmpty => 2
  | WChk => 3
  | WStart => 5
  | WPut _ _ => 6
  end + 4 * n.
Fixpoint wpot (l : list wpc) (n : nat) : nat := match l with [] => 0 | p :: t => wrank p n + wpot t n end.
Definition srank (p : spc) : nat :=
  match p with SDone => 0 | SChk => 1 | SPut _ _ => 2 | SPutDup _ => 2 | SGet => 3 | SStart => 4 end.

Definition mu (g : gen) : nat :=
  rrank (g_r g) * (4 * length (g_ws g) + 7) + 6 * length (g_q1 g) + wpot (g_ws g) (length (g_q1 g))
  + 2 * length (g_q2 g) + srank (g_s g) + length (g_sbuf g).

Lemma wpot_set_nth i p l old n :
  nth_error l i = Some old -> wpot (set_nth i p l) n + wrank old n = wpot l n + wrank p n.
Proof.
  revert i. induction l as [|a l IH]; intros [|i] H; cbn in *; try discriminate.
  - injection H as ->. unfold set_nth. cbn. lia.
  - specialize (IH i H). unfold set_nth in *. cbn. lia.
Qed.
Lemma set_nth_length {A} i (p : A) l : length (set_nth i p l) = length l.
Proof.
  unfold set_nth. revert i. induction l as [|a l IH]; intros [|i]; cbn; auto.
Qed.
(* one item fewer in the input queue: every worker gets closer to the exit *)
Lemma wpot_dec l n : wpot l n + length l <= wpot l (S n).
Proof. induction l as [|p l IH]; cbn; [lia|]. unfold wrank. destruct p, n; lia. Qed.
(* one item more: at most 4 per worker *)
Lemma wpot_inc l n : wpot l (S n) <= wpot l n + 4 * length l.
Proof. induction l as [|p l IH]; cbn; [lia|]. unfold wrank. destruct p, n; lia. Qed.

(* the moves of a generation's own threads *)
Definition r_move (m : mode) (g : gen) : Prop :=
  match r_pending g with Some (_, en, tw) => match m with Go => en = true | Timeout => tw = true /\ en = false end | None => False end.
Definition w_move (i : nat) (m : mode) (g : gen) : Prop :=
  match w_pending g i with Some (_, en, tw) => match m with Go => en = true | Timeout => tw = true /\ en = false end | None => False end.
Definition s_move (m : mode) (g : gen) : Prop :=
  match s_pending g with Some (_, en, tw) => match m with Go => en = true | Timeout => tw = true /\ en = false end | None => False end.

Local Arguments Nat.mul : simpl never.

Theorem stop_reader_decreases c m g pos :
  g_stop g = true -> r_move m g -> mu (fst (rstep c m g pos)) < mu g /\ g_stop (fst (rstep c m g pos)) = true.
Proof.
  intros Hs Hm. unfold r_move, r_pending in Hm. unfold rstep, mu.
  pose proof (wpot_inc (g_ws g) (length (g_q1 g))) as Hinc.
  destruct (g_r g) eqn:Er; cbn [rrank] in *; try contradiction.
  - cbn. rewrite Hs. split; [lia | reflexivity].
  - cbn. rewrite Hs. split; [lia | reflexivity].
  - rewrite Hs. cbn. rewrite Hs. split; [lia | reflexivity].
  - destruct m.
    + apply Nat.ltb_lt in Hm. destruct (g_sem g) eqn:Esem; [lia|]. cbn. rewrite Hs. split; [lia | reflexivity].
    + cbn. rewrite Hs. split; [lia | reflexivity].
  - destruct (match k_err c with Some e => e =? pos | None => false end).
    + cbn. rewrite Hs. split; [lia | reflexivity].
    + destruct (nth_error (k_xs c) pos).
      * destruct ((0 <? k_sf c) && (S (g_ryield g) mod k_sf c =? 0)); cbn; rewrite Hs; (split; [lia | reflexivity]).
      * cbn. rewrite Hs. split; [lia | reflexivity].
  - cbn. rewrite Hs. split; [lia | reflexivity].
  - destruct last; cbn; rewrite Hs, app_length; cbn; rewrite Nat.add_1_r; (split; [lia | reflexivity]).
Qed.

Theorem stop_worker_decreases c i m g :
  g_stop g = true -> w_move i m g -> mu (wstep c i m g) < mu g /\ g_stop (wstep c i m g) = true.
Proof.
  intros Hs Hm. unfold w_move, w_pending in Hm. unfold wstep, mu.
  destruct (nth_error (g_ws g) i) as [p|] eqn:E; [|contradiction].
  assert (forall q n, wpot (set_nth i q (g_ws g)) n + wrank p n = wpot (g_ws g) n + wrank q n) as HW
      by (intros q n; apply wpot_set_nth, E).
  destruct p; try contradiction.
  - cbn. rewrite set_nth_length, Hs. specialize (HW WChk (length (g_q1 g))). unfold wrank in HW. split; [lia | reflexivity].
  - rewrite Hs. cbn. rewrite set_nth_length, Hs. specialize (HW WEmpty (length (g_q1 g))). unfold wrank in HW. split; [lia | reflexivity].
  - destruct (g_q1 g) as [|e tl] eqn:Eq; cbn; rewrite set_nth_length, Hs, ?Eq; cbn.
    + specialize (HW WDone 0). unfold wrank in HW. split; [lia | reflexivity].
    + specialize (HW WGet (S (length tl))). unfold wrank in HW. split; [lia | reflexivity].
  - destruct m.
    + destruct (g_q1 g) as [|[pl idx] tl] eqn:Eq; [discriminate|]. cbn.
      rewrite set_nth_length, Hs. cbn [length].
      pose proof (wpot_dec (g_ws g) (length tl)) as Hd.
      match goal with |- context [WPut ?a ?b] => specialize (HW (WPut a b) (length tl)) end.
      unfold wrank in HW. destruct (length tl); split; try lia; reflexivity.
    + destruct Hm as [_ Hm]. destruct (g_q1 g) eqn:Eq; [|discriminate]. cbn. rewrite set_nth_length, Hs, Eq. cbn.
      specialize (HW WChk 0). unfold wrank in HW. split; [lia | reflexivity].
  - cbn. rewrite set_nth_length, Hs, app_length. cbn. specialize (HW WChk (length (g_q1 g))). unfold wrank in HW. split; [lia | reflexivity].
Qed.

Lemma buf_remove_le i b : length (buf_remove i b) <= length b.
Proof. induction b as [|[j q] b IH]; cbn; [lia|]. destruct (j =? i); cbn; lia. Qed.

Lemma s_after_mu g n :
  rrank (g_r g) * (4 * length (g_ws g) + 7) + 6 * length (g_q1 g) + wpot (g_ws g) (length (g_q1 g))
  + 2 * length (g_q2 g) + 1 + length (g_sbuf g) <= n ->
  mu (s_after g) <= n /\ g_stop (s_after g) = g_stop g.
Proof.
  unfold s_after, mu. intros H. destruct (buf_find (g_scur g) (g_sbuf g)) eqn:E; cbn.
  - pose proof (buf_remove_len _ _ _ E). split; [lia | reflexivity].
  - split; [lia | reflexivity].
Qed.

Theorem stop_sorter_decreases c m g :
  g_stop g = true -> s_move m g -> mu (sstep c m g) < mu g /\ g_stop (sstep c m g) = true.
Proof.
  intros Hs Hm. unfold s_move, s_pending in Hm. unfold sstep.
  destruct (g_s g) eqn:Es; try contradiction.
  - unfold mu. cbn. rewrite Es, Hs. cbn. split; [lia | reflexivity].
  - unfold mu. rewrite Hs. cbn. rewrite Es, Hs. cbn. split; [lia | reflexivity].
  - destruct m.
    + destruct (g_q2 g) as [|[p i] tl] eqn:Eq; [discriminate|].
      destruct (i =? g_scur (g <| g_q2 := tl |>)).
      * unfold mu. cbn. rewrite Es, Hs, Eq. cbn. split; [lia | reflexivity].
      * destruct (buf_find i (g_sbuf (g <| g_q2 := tl |>))).
        -- unfold mu. cbn. rewrite Es, Hs, Eq. cbn. split; [lia | reflexivity].
        -- match goal with |- context [s_after ?x] => destruct (s_after_mu x (mu g - 1)) as [H1 H2] end.
           { unfold mu. cbn. rewrite Es, Eq, app_length. cbn. lia. }
           rewrite H2. cbn. assert (0 < mu g) by (unfold mu; rewrite Es; cbn; lia). split; [lia | exact Hs].
    + unfold mu. cbn. rewrite Es, Hs. cbn. split; [lia | reflexivity].
  - match goal with |- context [s_after ?x] => destruct (s_after_mu x (mu g - 1)) as [H1 H2] end.
    { unfold mu. cbn. rewrite Es. cbn. lia. }
    rewrite H2. cbn. assert (0 < mu g) by (unfold mu; rewrite Es; cbn; lia). split; [lia | exact Hs].
  - unfold mu. cbn. rewrite Es, Hs. cbn. split; [lia | reflexivity].
Qed.

(* no step of the consumer increases the potential or clears the stop event *)
Lemma after_join_mu c g k : mu (fst (after_join c g k)) = mu g /\ g_stop (fst (after_join c g k)) = g_stop g.
Proof. unfold after_join. destruct (next_join c g k (2 + k_nw c - k)); cbn; split; reflexivity. Qed.

Ltac fin := cbn; split; [unfold mu; cbn; lia | intros; cbn; first [assumption | reflexivity | congruence]].

Theorem consumer_never_increases c m g :
  mu (fst (cstep c m g)) <= mu g /\ (g_stop g = true -> g_stop (fst (cstep c m g)) = true).
Proof.
  unfold cstep. destruct (g_c g) eqn:Ec.
  - (* CIdle *) cbn. split; [lia | auto].
  - (* CSleep *) fin.
  - (* CInit *) destruct m; [destruct (g_store g) as [|[v sp] tl]|]; fin.
  - (* CChk *) destruct (g_stop g) eqn:Es; [|destruct (k_pm c)]; fin.
  - (* CChk2 *) destruct (g_mpstop g); [|destruct ((g_done g || negb (r_alive g)) && (g_sem g =? kmax c))]; fin.
  - (* CStopA *) fin.
  - (* CStopB *) fin.
  - (* CGet *) destruct m; [|fin].
    destruct (outq c g) as [|[p i] tl] eqn:Eq; [cbn; split; [lia | auto]|].
    destruct (outq_cases c g) as [[E1 E2]|[[E1 E2]|[E1 E2]]]; rewrite E2; rewrite E1 in Eq.
    + pose proof (wpot_dec (g_ws g) (length tl)) as Hd.
      destruct p; cbn; (split; [unfold mu; cbn; rewrite Eq; cbn [length]; lia | auto]).
    + destruct p; cbn; (split; [unfold mu; cbn; rewrite Eq; cbn [length]; lia | auto]).
    + destruct p; fin.
  - (* CRel *) destruct (pop_version (S i) (g_store g)) as [[sp|] rest]; fin.
  - (* CRelStop *) destruct (k_pm c); fin.
  - (* CRelErr *) destruct (k_pm c); [|fin].
    destruct e as [|[|e]]; try fin.
    cbn. destruct (pop_version (S i) (g_store g)) as [[sp|] rest]; fin.
  - (* CSetStop *) fin.
  - (* CShSet *) destruct (k_pm c); [fin|].
    destruct (after_join_mu c (g <| g_stop := true |>) 0) as [H1 H2]. rewrite H1, H2. fin.
  - (* CShSet2 *) destruct (after_join_mu c (g <| g_mpstop := true |>) 0) as [H1 H2]. rewrite H1, H2. fin.
  - (* CShJoin *) destruct (after_join_mu c g (S k)) as [H1 H2].
    destruct m; destruct (stage_alive c g k); rewrite ?H1, ?H2; split; auto; lia.
Qed.

(* a thread that has not terminated always has a move (so, with the decreasing potential: under any schedule that keeps
   scheduling it, it terminates after at most mu moves of its generation's background threads) *)
Theorem live_thread_can_move_r g : g_r g <> RDone -> r_move Go g \/ r_move Timeout g.
Proof.
  unfold r_move, r_pending. destruct (g_r g); try congruence; intros _; cbn; auto.
  destruct (g_sem g); cbn; [right; split; reflexivity | left; reflexivity].
Qed.
Theorem live_thread_can_move_s g : g_s g <> SDone -> s_move Go g \/ s_move Timeout g.
Proof.
  unfold s_move, s_pending. destruct (g_s g); try congruence; intros _; cbn; auto.
  destruct (g_q2 g); [right; split; reflexivity | left; reflexivity].
Qed.
Theorem live_thread_can_move_w g i p : nth_error (g_ws g) i = Some p -> p <> WDone -> w_move i Go g \/ w_move i Timeout g.
Proof.
  unfold w_move, w_pending. intros -> Hp. destruct p; try congruence; cbn; auto.
  destruct (g_q1 g); [right; split; reflexivity | left; reflexivity].
Qed.
