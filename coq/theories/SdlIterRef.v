(* SdlIterRef.v — iterable datasets: the reference stream (column-major interleave of per-worker batch lists) read as a
   walk over SLOTS.  Slot (r, w) is round r of worker w; the walk goes (0,0), (0,1), ..., (0,W-1), (1,0), ...; a slot
   contributes the r-th batch of worker w if there is one.  `refsuf R cyc` is what the walk still contributes from slot
   (R, cyc) on.  Everything is stated for an ARBITRARY family B of per-worker batch lists (a fresh iterator: the batches of
   each shard; a resumed iterator: what each restored worker still has to give); for B = worker_batches c,
   `refsuf 0 0` is `reference c`.  Building block of SdlIterProofs.v. *)
From Coq Require Import List Arith Bool Lia.
From PD Require Import Base SdlModel SdlIterWorker.
Import ListNotations.
Open Scope nat_scope.

Section Ref.
Variable W : nat.
Variable B : nat -> list (list nat).
Hypothesis HW : 0 < W.

Definition nb (w : nat) : nat := length (B w).
(* the answer of worker w to its j-th task (while it answers at all: j <= nb w) *)
Definition ans (w j : nat) : result := match nth_error (B w) j with Some b => RData b | None => RStop end.
(* what slot (r, w) contributes to the epoch *)
Definition dat (w r : nat) : list (list nat) := match nth_error (B w) r with Some b => [b] | None => [] end.

Lemma dat_nil w r : nb w <= r -> dat w r = [].
Proof. unfold dat, nb. intros H. apply nth_error_None in H. rewrite H. reflexivity. Qed.

Lemma ans_data w j : j < nb w -> exists b, ans w j = RData b /\ dat w j = [b].
Proof.
  unfold ans, dat, nb. intros H. destruct (nth_error (B w) j) as [b|] eqn:E; [eauto|].
  apply nth_error_None in E. lia.
Qed.

Lemma ans_stop w j : nb w <= j -> ans w j = RStop.
Proof. unfold ans, nb. intros H. apply nth_error_None in H. rewrite H. reflexivity. Qed.

Definition Mx : nat := fold_right (fun w m => Nat.max (nb w) m) 0 (seq 0 W).

Lemma nb_le_Mx w : w < W -> nb w <= Mx.
Proof.
  unfold Mx. intros H.
  assert (In w (seq 0 W)) as Hin by (apply in_seq; lia).
  induction (seq 0 W) as [|x l IH]; [contradiction|].
  cbn [fold_right]. destruct Hin as [->|Hin]; [lia | specialize (IH Hin); lia].
Qed.

(* row r from worker `from` on *)
Definition row_from (r from : nat) : list (list nat) := flat_map (fun w => dat w r) (seq from (W - from)).
Fixpoint rows (cnt r : nat) : list (list nat) := match cnt with 0 => [] | S k => row_from r 0 ++ rows k (S r) end.
Definition refsuf (R cyc : nat) : list (list nat) := row_from R cyc ++ rows (Mx - S R) (S R).

Lemma row_beyond r from : Mx <= r -> row_from r from = [].
Proof.
  intros H. unfold row_from.
  assert (forall w, In w (seq from (W - from)) -> w < W) as Hlt by (intros w Hin; apply in_seq in Hin; lia).
  induction (seq from (W - from)) as [|x l IH]; [reflexivity|].
  cbn [flat_map]. rewrite dat_nil by (pose proof (nb_le_Mx x (Hlt x (or_introl eq_refl))); lia).
  apply IH. intros w Hin. apply Hlt. right. exact Hin.
Qed.

Lemma rows_beyond cnt : forall r, Mx <= r -> rows cnt r = [].
Proof. induction cnt as [|k IH]; intros r H; [reflexivity|]. cbn [rows]. rewrite row_beyond by exact H. apply IH. lia. Qed.

(* the number of rows does not matter once it reaches past the longest list *)
Lemma rows_enough : forall n r, Mx <= r + n -> rows n r = rows (Mx - r) r.
Proof.
  induction n as [|n IH]; intros r H.
  - replace (Mx - r) with 0 by lia. reflexivity.
  - destruct (Nat.le_gt_cases Mx r) as [Hle|Hgt].
    + rewrite rows_beyond by exact Hle. replace (Mx - r) with 0 by lia. reflexivity.
    + replace (Mx - r) with (S (Mx - S r)) by lia. cbn [rows]. rewrite (IH (S r)) by lia. reflexivity.
Qed.

Lemma refsuf_enough R cyc n : Mx <= S R + n -> refsuf R cyc = row_from R cyc ++ rows n (S R).
Proof. intros H. unfold refsuf. rewrite (rows_enough n (S R)) by exact H. reflexivity. Qed.

(* one step of the walk *)
Lemma refsuf_step R cyc : cyc < W ->
  refsuf R cyc = dat cyc R ++ (if S cyc =? W then refsuf (S R) 0 else refsuf R (S cyc)).
Proof.
  intros Hc. unfold refsuf at 1. unfold row_from at 1.
  replace (W - cyc) with (S (W - S cyc)) by lia. cbn [seq flat_map]. rewrite <- app_assoc. f_equal.
  destruct (Nat.eqb_spec (S cyc) W) as [E|E].
  - replace (W - S cyc) with 0 by lia. cbn [seq flat_map app]. unfold refsuf.
    destruct (Mx - S R) as [|m] eqn:EM.
    + cbn [rows]. rewrite row_beyond by lia. rewrite rows_beyond by lia. reflexivity.
    + cbn [rows]. replace (Mx - S (S R)) with m by lia. reflexivity.
  - unfold refsuf, row_from. reflexivity.
Qed.

End Ref.

(* the walk from pointer (R, cyc) over B is the walk from (0, cyc) over what every worker has left at that pointer — the form in
   which an iterator built from a state dict sees it: workers below cyc have their round-0 slot behind them (one placeholder) *)
Section Canon.
Variable W : nat.
Variable B : nat -> list (list nat).
Hypothesis HW : 0 < W.
Variables R cyc : nat.
Hypothesis Hcyc : cyc < W.

Definition Brem (w : nat) : list (list nat) :=
  if w <? cyc then [] :: skipn (S R) (B w) else skipn R (B w).

Lemma dat_rem w r : (0 < r \/ cyc <= w) -> dat Brem w r = dat B w (R + r).
Proof.
  intros H. unfold dat, Brem. destruct (Nat.ltb_spec w cyc) as [Hl|Hl].
  - destruct r as [|r]; [lia|]. cbn [nth_error]. rewrite nth_error_skipn. replace (S R + r) with (R + S r) by lia. reflexivity.
  - rewrite nth_error_skipn. reflexivity.
Qed.

Lemma row_rem r from : (0 < r \/ cyc <= from) -> row_from W Brem r from = row_from W B (R + r) from.
Proof.
  intros H. unfold row_from. rewrite !flat_map_concat_map. f_equal. apply map_ext_in. intros w Hin. apply in_seq in Hin.
  apply dat_rem. lia.
Qed.

Lemma rows_rem n : forall r, 0 < r -> rows W Brem n r = rows W B n (R + r).
Proof.
  induction n as [|n IH]; intros r Hr; [reflexivity|]. cbn [rows]. rewrite row_rem by lia. rewrite IH by lia.
  replace (R + S r) with (S (R + r)) by lia. reflexivity.
Qed.

Lemma refsuf_canon : refsuf W Brem 0 cyc = refsuf W B R cyc.
Proof.
  set (n := Mx W B + Mx W Brem).
  rewrite (refsuf_enough W Brem HW 0 cyc n) by (unfold n; lia).
  rewrite (refsuf_enough W B HW R cyc n) by (unfold n; lia).
  rewrite row_rem by lia. rewrite rows_rem by lia. rewrite Nat.add_0_r. replace (R + 1) with (S R) by lia. reflexivity.
Qed.

End Canon.

(* the fresh iterator: B = the batches of each worker's shard *)
Section Fresh.
Variable c : cfg.
Hypothesis Hkind : c_kind c = KIter.
Hypothesis HW : 0 < c_W c.

Definition Bw (w : nat) : list (list nat) := worker_batches c w.

Lemma Mx_fresh : Mx (c_W c) Bw = fold_right (fun l m => Nat.max (length l) m) 0 (map (worker_batches c) (seq 0 (c_W c))).
Proof. unfold Mx, nb, Bw. induction (seq 0 (c_W c)) as [|x l IH]; [reflexivity|]. cbn [fold_right map]. rewrite IH. reflexivity. Qed.

Lemma interleave_is_rows : forall k r,
  interleave_rounds k r (map (worker_batches c) (seq 0 (c_W c))) = rows (c_W c) Bw k r.
Proof.
  induction k as [|k IH]; intros r; [reflexivity|]. cbn [interleave_rounds rows]. rewrite IH. f_equal.
  unfold row_from. rewrite Nat.sub_0_r. rewrite flat_map_concat_map, map_map, <- flat_map_concat_map. reflexivity.
Qed.

Lemma refsuf_start : refsuf (c_W c) Bw 0 0 = reference c.
Proof.
  unfold reference. rewrite Hkind. rewrite <- Mx_fresh. rewrite interleave_is_rows. unfold refsuf.
  destruct (Mx (c_W c) Bw) as [|m] eqn:E; [|cbn [rows Nat.sub]; rewrite ?Nat.sub_0_r; reflexivity].
  cbn [rows]. rewrite app_nil_r. apply row_beyond; [exact HW | lia].
Qed.

End Fresh.
