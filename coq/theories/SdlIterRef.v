(* SdlIterRef.v — iterable datasets: the reference stream (column-major interleave of the per-worker batch lists) read as a
   walk over SLOTS.  Slot (r, w) is round r of worker w; the walk goes (0,0), (0,1), ..., (0,W-1), (1,0), ...; a slot
   contributes the r-th batch of worker w if there is one.  `refsuf R cyc` is what the walk still contributes from slot
   (R, cyc) on; `refsuf 0 0` is `reference c`.  Building block of SdlIterProofs.v. *)
From Coq Require Import List Arith Bool Lia.
From PD Require Import Base SdlModel SdlIterWorker.
Import ListNotations.
Open Scope nat_scope.

Section Ref.
Variable c : cfg.
Hypothesis Hkind : c_kind c = KIter.
Hypothesis HW : 0 < c_W c.

Definition Bw (w : nat) : list (list nat) := worker_batches c w.
Definition nb (w : nat) : nat := length (Bw w).
(* the answer of worker w to its j-th task (while it answers at all: j <= nb w) *)
Definition ans (w j : nat) : result := match nth_error (Bw w) j with Some b => RData b | None => RStop end.
(* what slot (r, w) contributes to the epoch *)
Definition dat (w r : nat) : list (list nat) := match nth_error (Bw w) r with Some b => [b] | None => [] end.

Lemma dat_nil w r : nb w <= r -> dat w r = [].
Proof. unfold dat, nb. intros H. apply nth_error_None in H. rewrite H. reflexivity. Qed.

Lemma ans_data w j : j < nb w -> exists b, ans w j = RData b /\ dat w j = [b].
Proof.
  unfold ans, dat, nb. intros H. destruct (nth_error (Bw w) j) as [b|] eqn:E; [eauto|].
  apply nth_error_None in E. lia.
Qed.

Lemma ans_stop w j : nb w <= j -> ans w j = RStop.
Proof. unfold ans, nb. intros H. apply nth_error_None in H. rewrite H. reflexivity. Qed.

Definition Mx : nat := fold_right (fun l m => Nat.max (length l) m) 0 (map (worker_batches c) (seq 0 (c_W c))).

Lemma nb_le_Mx w : w < c_W c -> nb w <= Mx.
Proof.
  unfold Mx, nb, Bw. intros H.
  assert (In w (seq 0 (c_W c))) as Hin by (apply in_seq; lia).
  induction (seq 0 (c_W c)) as [|x l IH]; [contradiction|].
  cbn [map fold_right]. destruct Hin as [->|Hin]; [lia | specialize (IH Hin); lia].
Qed.

(* row r from worker `from` on *)
Definition row_from (r from : nat) : list (list nat) := flat_map (fun w => dat w r) (seq from (c_W c - from)).
Fixpoint rows (cnt r : nat) : list (list nat) := match cnt with 0 => [] | S k => row_from r 0 ++ rows k (S r) end.
Definition refsuf (R cyc : nat) : list (list nat) := row_from R cyc ++ rows (Mx - S R) (S R).

Lemma row_beyond r from : Mx <= r -> row_from r from = [].
Proof.
  intros H. unfold row_from.
  assert (forall w, In w (seq from (c_W c - from)) -> w < c_W c) as Hlt by (intros w Hin; apply in_seq in Hin; lia).
  induction (seq from (c_W c - from)) as [|x l IH]; [reflexivity|].
  cbn [flat_map]. rewrite dat_nil by (pose proof (nb_le_Mx x (Hlt x (or_introl eq_refl))); lia).
  apply IH. intros w Hin. apply Hlt. right. exact Hin.
Qed.

Lemma rows_beyond cnt : forall r, Mx <= r -> rows cnt r = [].
Proof. induction cnt as [|k IH]; intros r H; [reflexivity|]. cbn [rows]. rewrite row_beyond by exact H. apply IH. lia. Qed.

Lemma interleave_is_rows : forall k r,
  interleave_rounds k r (map (worker_batches c) (seq 0 (c_W c))) = rows k r.
Proof.
  induction k as [|k IH]; intros r; [reflexivity|]. cbn [interleave_rounds rows]. rewrite IH. f_equal.
  unfold row_from. rewrite Nat.sub_0_r. rewrite flat_map_concat_map, map_map, <- flat_map_concat_map. reflexivity.
Qed.

Lemma refsuf_start : refsuf 0 0 = reference c.
Proof.
  unfold reference. rewrite Hkind. fold Mx. rewrite interleave_is_rows. unfold refsuf.
  destruct Mx as [|m] eqn:E; [|cbn [rows Nat.sub]; rewrite ?Nat.sub_0_r; reflexivity].
  cbn [rows]. rewrite app_nil_r. apply row_beyond. lia.
Qed.

(* one step of the walk *)
Lemma refsuf_step R cyc : cyc < c_W c ->
  refsuf R cyc = dat cyc R ++ (if S cyc =? c_W c then refsuf (S R) 0 else refsuf R (S cyc)).
Proof.
  intros Hc. unfold refsuf at 1. unfold row_from at 1.
  replace (c_W c - cyc) with (S (c_W c - S cyc)) by lia. cbn [seq flat_map]. rewrite <- app_assoc. f_equal.
  destruct (Nat.eqb_spec (S cyc) (c_W c)) as [E|E].
  - replace (c_W c - S cyc) with 0 by lia. cbn [seq flat_map app]. unfold refsuf.
    destruct (Mx - S R) as [|m] eqn:EM.
    + cbn [rows]. rewrite row_beyond by lia. rewrite rows_beyond by lia. reflexivity.
    + cbn [rows]. replace (Mx - S (S R)) with m by lia. reflexivity.
  - unfold refsuf, row_from. reflexivity.
Qed.

End Ref.
