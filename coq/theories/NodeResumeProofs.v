From PD Require Import Base NodeModel.
Open Scope string_scope.
Open Scope list_scope.
Open Scope nat_scope.
(* NodeResumeProofs.v -- "a checkpoint at any item resumes the exact remaining stream":
   node-level (R1-R3) and Loader-level (R4) resume theorems over NodeModel.v.
   Structure: standalone copies of the local loops of NodeModel (convertible, equations by
   reflexivity); list lemmas; a representation invariant [Rep p e k b t] ("t is a runtime state of
   p in epoch e after exactly k items, internal caches consistent; b = next() was called since the
   last reset"), defined by recursion on p; one lemma group per operator, bundled in [Good];
   the theorems. *)

(* ------------------------------------------------------------------ *)
(* definitions used in the statements                                  *)
Fixpoint pipe_ok (p : pipe) : bool :=
  match p with
  | PSrc _ _ | PSampler _ => true
  | PBatch n _ q => (0 <? n) && pipe_ok q
  | PMap _ q | PParMap _ _ q | PPrefetch _ q | PUnbatch q | PFilter _ q => pipe_ok q
  end.
Definition FUEL (p : pipe) := S (pipe_fuel p).
Fixpoint nexts (p : pipe) (k : nat) (t : rt) : rt :=
  match k with 0 => t | S k' => nexts p k' (snd (node_next p t)) end.
Definition at_k (p : pipe) (k : nat) : rt := nexts p k (node_reset p RUninit None).

(* ------------------------------------------------------------------ *)
(* standalone versions of the local loops of NodeModel, and unfolding equations *)
Section Loops.
  Variable nxt : rt -> outcome * rt.
  Variable stt : rt -> sd * rt.

  Variable d : bool.
  Fixpoint collect_ (todo : nat) (s : rt) (acc : list item) {struct todo} : outcome * rt :=
    match todo with
    | 0 => (OItem (IList acc), ROne s)
    | S todo' =>
        match nxt s with
        | (OItem x, s') => collect_ todo' s' (acc ++ [x])
        | (OStop, s') => match acc with
                         | [] => (OStop, ROne s')
                         | _ => if d then (OStop, ROne s') else (OItem (IList acc), ROne s')
                         end
        | (o, s') => (o, ROne s')
        end
    end.

  Variable pr : pred.
  Variable ny : nat.
  Fixpoint fil_loop (fuel : nat) (s : rt) (nf : nat) {struct fuel} : outcome * rt :=
    match fuel with
    | 0 => (OErr "fuel", RFil s nf ny)
    | S fuel' =>
        match nxt s with
        | (OItem x, s') => if apply_pred pr x then (OItem x, RFil s' nf (S ny)) else fil_loop fuel' s' (S nf)
        | (o, s') => (o, RFil s' nf ny)
        end
    end.

  Fixpoint unb_loop (fuel : nat) (s : rt) (batch : list item) (idx : nat) (cached : option sd) {struct fuel}
    : outcome * rt :=
    match fuel with
    | 0 => (OErr "fuel", RUnb s batch idx cached)
    | S fuel' =>
        if Nat.leb (length batch) idx then
          let '(c, s1) := stt s in
          match nxt s1 with
          | (OItem b, s2) => unb_loop fuel' s2 (batch_items b) 0 (Some c)
          | (o, s2) => (o, RUnb s2 batch idx (Some c))
          end
        else (match nth_error batch idx with Some x => OItem x | None => OErr "index" end,
              RUnb s batch (S idx) cached)
    end.

  Variable f : option fn.
  Variable sf : nat.
  Fixpoint ffb_ (k : nat) (t : rt) {struct k} : rt :=
    match k with 0 => t | S k' => ffb_ k' (snd (buf_next_gen nxt stt f sf t)) end.
End Loops.

Lemma next_src xs st t : node_next_ (PSrc xs st) t =
  match t with
  | RSrc pos => match nth_error xs pos with Some x => (OItem x, RSrc (S pos)) | None => (OStop, t) end
  | _ => (OErr "shape", t) end.
Proof. reflexivity. Qed.
Lemma next_sampler orders t : node_next_ (PSampler orders) t =
  match t with
  | RSampler e _ pos =>
      match nth_error (epoch_order orders e) pos with
      | Some x => (OItem x, RSampler e true (S pos))
      | None => (OStop, RSampler e true pos)
      end
  | _ => (OErr "shape", t) end.
Proof. reflexivity. Qed.
Lemma next_map f q t : node_next_ (PMap f q) t =
  match node_next_ q (src_of t) with
  | (OItem x, s) => (OItem (apply_fn f x), ROne s)
  | (o, s) => (o, ROne s) end.
Proof. reflexivity. Qed.
Lemma next_batch n d q t : node_next_ (PBatch n d q) t = collect_ (node_next_ q) d n (src_of t) [].
Proof. reflexivity. Qed.
Lemma next_filter pr q t : node_next_ (PFilter pr q) t =
  match t with
  | RFil s nf ny => fil_loop (node_next_ q) pr ny (pipe_fuel (PFilter pr q)) s nf
  | _ => (OErr "shape", t) end.
Proof. reflexivity. Qed.
Lemma next_unbatch q t : node_next_ (PUnbatch q) t =
  match t with
  | RUnb s batch idx cached => unb_loop (node_next_ q) (node_state_ q) (pipe_fuel (PUnbatch q)) s batch idx cached
  | _ => (OErr "shape", t) end.
Proof. reflexivity. Qed.
Lemma next_prefetch sf q t : node_next_ (PPrefetch sf q) t = buf_next_gen (node_next_ q) (node_state_ q) None sf t.
Proof. reflexivity. Qed.
Lemma next_parmap f sf q t : node_next_ (PParMap f sf q) t = buf_next_gen (node_next_ q) (node_state_ q) (Some f) sf t.
Proof. reflexivity. Qed.

Lemma state_src xs st t : node_state_ (PSrc xs st) t =
  match t with
  | RSrc pos => (SD (("_num_yielded", SNat pos) :: (if st then [("iterable", SD [("i", SNat pos)])] else [])), t)
  | _ => (SNone, t) end.
Proof. reflexivity. Qed.
Lemma state_sampler o t : node_state_ (PSampler o) t =
  match t with
  | RSampler e _ pos => (SD [("_num_yielded", SNat pos); ("_epoch", SNat e)], t)
  | _ => (SNone, t) end.
Proof. reflexivity. Qed.
Lemma state_map f q t : node_state_ (PMap f q) t =
  let '(c, s) := node_state_ q (src_of t) in (SD [("it_state", SD [("source", c)])], ROne s).
Proof. reflexivity. Qed.
Lemma state_batch n d q t : node_state_ (PBatch n d q) t =
  let '(c, s) := node_state_ q (src_of t) in (SD [("source", c)], ROne s).
Proof. reflexivity. Qed.
Lemma state_filter pr q t : node_state_ (PFilter pr q) t =
  match t with
  | RFil s nf ny => let '(c, s') := node_state_ q s in
                    (SD [("source", c); ("num_filtered", SNat nf); ("num_yielded", SNat ny)], RFil s' nf ny)
  | _ => (SNone, t) end.
Proof. reflexivity. Qed.
Lemma state_unbatch q t : node_state_ (PUnbatch q) t =
  match t with
  | RUnb s batch idx (Some c) => (SD [("source", c); ("batch_idx", SNat idx)], t)
  | RUnb s batch idx None => let '(c, s') := node_state_ q s in
                             (SD [("source", c); ("batch_idx", SNat idx)], RUnb s' batch idx (Some c))
  | _ => (SNone, t) end.
Proof. reflexivity. Qed.
Lemma state_prefetch sf q t : node_state_ (PPrefetch sf q) t =
  match t with
  | RBuf s snap steps _ _ => (SD [("snapshot", snap); ("steps_since_snapshot", SNat steps)], t)
  | _ => (SNone, t) end.
Proof. reflexivity. Qed.
Lemma state_parmap f sf q t : node_state_ (PParMap f sf q) t =
  match t with
  | RBuf s snap steps _ _ => (SD [("it_state", SD [("snapshot", snap); ("steps_since_snapshot", SNat steps)])], t)
  | _ => (SNone, t) end.
Proof. reflexivity. Qed.

Lemma reset_src xs st t o : node_reset (PSrc xs st) t o =
  match o with
  | None => RSrc 0
  | Some s => if st then RSrc (sd_nat (sd_field (sd_field s "iterable") "i"))
              else RSrc (sd_nat (sd_field s "_num_yielded")) end.
Proof. reflexivity. Qed.
Lemma reset_sampler orders t o : node_reset (PSampler orders) t o =
  match o with
  | Some s => RSampler (sd_nat (sd_field s "_epoch")) false (sd_nat (sd_field s "_num_yielded"))
  | None => match t with
            | RSampler e started _ => RSampler (if started then S e else e) false 0
            | _ => RSampler 0 false 0 end
  end.
Proof. reflexivity. Qed.
Lemma reset_map f q t o : node_reset (PMap f q) t o =
  ROne (node_reset q (src_of t) (option_map (fun s => sd_field (sd_field s "it_state") "source") o)).
Proof. reflexivity. Qed.
Lemma reset_batch n d q t o : node_reset (PBatch n d q) t o =
  ROne (node_reset q (src_of t) (option_map (fun s => sd_field s "source") o)).
Proof. reflexivity. Qed.
Lemma reset_filter pr q t o : node_reset (PFilter pr q) t o =
  match o with
  | Some s => RFil (node_reset q (src_of t) (Some (sd_field s "source")))
                   (sd_nat (sd_field s "num_filtered")) (sd_nat (sd_field s "num_yielded"))
  | None => RFil (node_reset q (src_of t) None) 0 0 end.
Proof. reflexivity. Qed.
Lemma reset_unbatch q t o : node_reset (PUnbatch q) t o =
  match o with
  | Some s =>
      let s0 := node_reset q (src_of t) (Some (sd_field s "source")) in
      match node_next_ q s0 with
      | (OItem b, s1) => RUnb s1 (batch_items b) (sd_nat (sd_field s "batch_idx")) (Some (sd_field s "source"))
      | (_, s1) => RUnb s1 [] 0 (Some (sd_field s "source"))
      end
  | None => RUnb (node_reset q (src_of t) None) [] 0 None end.
Proof. reflexivity. Qed.
Lemma reset_prefetch sf q t o : node_reset (PPrefetch sf q) t o =
  match o with
  | Some s =>
      let s0 := node_reset q (src_of t) (Some (sd_field s "snapshot")) in
      let '(snap, s1) := node_state_ q s0 in
      ffb_ (node_next_ q) (node_state_ q) None sf (sd_nat (sd_field s "steps_since_snapshot")) (RBuf s1 snap 0 0 false)
  | None =>
      let s0 := node_reset q (src_of t) None in
      let '(snap, s1) := node_state_ q s0 in RBuf s1 snap 0 0 false
  end.
Proof. reflexivity. Qed.
Lemma reset_parmap f sf q t o : node_reset (PParMap f sf q) t o =
  match o with
  | Some s =>
      let s' := sd_field s "it_state" in
      let s0 := node_reset q (src_of t) (Some (sd_field s' "snapshot")) in
      let '(snap, s1) := node_state_ q s0 in
      ffb_ (node_next_ q) (node_state_ q) (Some f) sf (sd_nat (sd_field s' "steps_since_snapshot")) (RBuf s1 snap 0 0 false)
  | None =>
      let s0 := node_reset q (src_of t) None in
      let '(snap, s1) := node_state_ q s0 in RBuf s1 snap 0 0 false
  end.
Proof. reflexivity. Qed.

(* ------------------------------------------------------------------ *)
(* list lemmas                                                          *)
Definition outc (o : option item) : outcome := match o with Some x => OItem x | None => OStop end.
Definition adv (k : nat) (l : list item) : nat := if k <? length l then S k else k.

Lemma nth_error_hd {A} (l : list A) k : nth_error l k = hd_error (skipn k l).
Proof.
  revert l; induction k; intros [|x l]; simpl; auto.
Qed.

Lemma skipn_cons_S {A} (l : list A) k x r :
  skipn k l = x :: r -> skipn (S k) l = r /\ k < length l /\ nth_error l k = Some x.
Proof.
  revert l; induction k; intros [|y l] H; simpl in *; try discriminate.
  - inversion H; subst. repeat split; auto. lia.
  - destruct (IHk _ H) as (a & b & c). repeat split; auto. lia.
Qed.

Lemma skipn_nil_len {A} (l : list A) k : skipn k l = [] -> length l <= k.
Proof.
  intros H. pose proof (skipn_length k l) as E. rewrite H in E. simpl in E. lia.
Qed.

Lemma nth_error_None_skipn {A} (l : list A) k : nth_error l k = None -> skipn k l = [].
Proof. intros H. apply skipn_all2. apply nth_error_None. exact H. Qed.

Lemma nth_error_Some_lt {A} (l : list A) k x : nth_error l k = Some x -> k < length l.
Proof. intros H. apply nth_error_Some. congruence. Qed.

Lemma adv_some l k x : nth_error l k = Some x -> adv k l = S k.
Proof. intros H. unfold adv. apply nth_error_Some_lt in H. apply Nat.ltb_lt in H. now rewrite H. Qed.
Lemma adv_none l k : nth_error l k = None -> adv k l = k.
Proof. intros H. unfold adv. apply nth_error_None in H. destruct (k <? length l) eqn:E; auto.
  apply Nat.ltb_lt in E. lia. Qed.

(* chunking *)
Definition chunk (n : nat) (d : bool) (l : list item) : list item := chunk_items (S (length l)) n d l.

Lemma chunk_items_fuel n d : 0 < n -> forall f f' xs, length xs < f -> length xs < f' ->
  chunk_items f n d xs = chunk_items f' n d xs.
Proof.
  intros Hn. induction f as [|f IH]; intros f' xs H1 H2; [lia|].
  destruct f' as [|f']; [lia|]. simpl.
  destruct xs as [|x xs]; [reflexivity|].
  destruct (length (x :: xs) <? n) eqn:E; [reflexivity|].
  apply Nat.ltb_ge in E.
  f_equal. apply IH; rewrite skipn_length; cbn [length] in *; lia.
Qed.

Lemma chunk_items_S f n d x xs : chunk_items (S f) n d (x :: xs) =
  if length (x :: xs) <? n then (if d then [] else [IList (x :: xs)])
  else IList (firstn n (x :: xs)) :: chunk_items f n d (skipn n (x :: xs)).
Proof. reflexivity. Qed.

Lemma chunk_nil n d : chunk n d [] = [].
Proof. reflexivity. Qed.

Lemma chunk_ge n d l : 0 < n -> n <= length l ->
  chunk n d l = IList (firstn n l) :: chunk n d (skipn n l).
Proof.
  intros Hn Hl. unfold chunk. destruct l as [|x l]; [simpl in Hl; lia|].
  rewrite chunk_items_S. assert (E : (length (x :: l) <? n) = false) by (apply Nat.ltb_ge; exact Hl).
  rewrite E. f_equal. apply chunk_items_fuel; auto; rewrite skipn_length; cbn [length] in *; lia.
Qed.

Lemma chunk_lt n d l : l <> [] -> length l < n ->
  chunk n d l = if d then [] else [IList l].
Proof.
  intros Hne Hl. unfold chunk. destruct l as [|x l]; [congruence|].
  rewrite chunk_items_S. assert (E : (length (x :: l) <? n) = true) by (apply Nat.ltb_lt; exact Hl).
  rewrite E. reflexivity.
Qed.

(* the "yield budget" measure: bounds the length of every stream derived from a source *)
Fixpoint msz (x : item) : nat :=
  match x with
  | IList l => Nat.max 1 (fold_right (fun y m => msz y + m) 0 l)
  | _ => 1
  end.
Definition msum (xs : list item) : nat := fold_right (fun y m => msz y + m) 0 xs.

Section ItemInd.
  Variable P : item -> Prop.
  Hypothesis HN : forall n, P (INat n).
  Hypothesis H0 : P INone.
  Hypothesis HL : forall l, Forall P l -> P (IList l).
  Fixpoint item_ind' (x : item) : P x :=
    match x with
    | INat n => HN n
    | INone => H0
    | IList l => HL l ((fix go (l : list item) : Forall P l :=
                          match l with [] => Forall_nil P | y :: r => Forall_cons y (item_ind' y) (go r) end) l)
    end.
End ItemInd.

Lemma msz_IList l : msz (IList l) = Nat.max 1 (msum l).
Proof. reflexivity. Qed.
Lemma msum_cons x l : msum (x :: l) = msz x + msum l.
Proof. reflexivity. Qed.
Lemma item_size_IList l : item_size (IList l) = S (items_size l).
Proof. reflexivity. Qed.
Lemma items_size_cons x l : items_size (x :: l) = item_size x + items_size l.
Proof. reflexivity. Qed.

Lemma msz_pos x : 1 <= msz x.
Proof. destruct x; [simpl; lia | simpl; lia | rewrite msz_IList; lia]. Qed.

Lemma msum_app a b : msum (a ++ b) = msum a + msum b.
Proof. induction a as [|x a IH]; [reflexivity|]. rewrite <- app_comm_cons, !msum_cons, IH. lia. Qed.

Lemma length_le_msum l : length l <= msum l.
Proof. induction l as [|x l IH]; [simpl; lia|]. rewrite msum_cons. pose proof (msz_pos x). simpl. lia. Qed.

Lemma msz_le_size x : msz x <= item_size x.
Proof.
  induction x using item_ind'; [simpl; lia | simpl; lia |].
  rewrite msz_IList, item_size_IList.
  assert (msum l <= items_size l).
  { induction H as [|y r Hy Hr IH]; [simpl; lia|]. rewrite msum_cons, items_size_cons. lia. }
  lia.
Qed.

Lemma msum_le_size l : msum l <= items_size l.
Proof. induction l as [|x l IH]; [simpl; lia|]. rewrite msum_cons, items_size_cons.
  pose proof (msz_le_size x). lia. Qed.

Lemma msz_apply_fn f x : msz (apply_fn f x) <= msz x.
Proof.
  destruct f.
  - induction x using item_ind'; [simpl; lia | simpl; lia |].
    change (apply_fn (FAdd k) (IList l)) with (IList (map (apply_fn (FAdd k)) l)).
    rewrite !msz_IList.
    assert (msum (map (apply_fn (FAdd k)) l) <= msum l).
    { induction H as [|y r Hy Hr IH]; [simpl; lia|]. cbn [map]. rewrite !msum_cons. lia. }
    lia.
  - pose proof (msz_pos x).
    assert (E : apply_fn FWrap x = IList [x]) by (destruct x; reflexivity).
    rewrite E, msz_IList, msum_cons. change (msum []) with 0. lia.
  - destruct x; try (simpl; lia). cbn [apply_fn]. destruct (Nat.even n); simpl; lia.
Qed.

Lemma msum_map f l : msum (map (apply_fn f) l) <= msum l.
Proof. induction l as [|x l IH]; [simpl; lia|]. cbn [map]. rewrite !msum_cons.
  pose proof (msz_apply_fn f x). lia. Qed.

Lemma msum_filter (g : item -> bool) l : msum (filter g l) <= msum l.
Proof. induction l as [|x l IH]; [simpl; lia|]. cbn [filter]. destruct (g x); rewrite ?msum_cons; lia. Qed.

Lemma msum_batch_items x : msum (batch_items x) <= msz x.
Proof. destruct x; [simpl; lia | simpl; lia |]. cbn [batch_items]. rewrite msz_IList. lia. Qed.

Lemma msum_flat l : msum (flat_map batch_items l) <= msum l.
Proof. induction l as [|x l IH]; [simpl; lia|]. cbn [flat_map]. rewrite msum_app, msum_cons.
  pose proof (msum_batch_items x). lia. Qed.

Lemma msz_IList_ne l : l <> [] -> msz (IList l) = msum l.
Proof. intros H. rewrite msz_IList. destruct l as [|x l]; [congruence|].
  rewrite msum_cons. pose proof (msz_pos x). lia. Qed.

Lemma msum_firstn_skipn n l : msum (firstn n l) + msum (skipn n l) = msum l.
Proof. rewrite <- msum_app, firstn_skipn. reflexivity. Qed.

Lemma msum_chunk_items n d : 0 < n -> forall f l, msum (chunk_items f n d l) <= msum l.
Proof.
  intros Hn. induction f as [|f IH]; intros l; [simpl; lia|].
  destruct l as [|x l]; [simpl; lia|]. rewrite chunk_items_S.
  destruct (length (x :: l) <? n).
  - destruct d; [simpl; lia|]. rewrite msum_cons. change (msum []) with 0.
    rewrite msz_IList_ne by discriminate. lia.
  - rewrite msum_cons. specialize (IH (skipn n (x :: l))).
    pose proof (msum_firstn_skipn n (x :: l)).
    rewrite msz_IList_ne; [lia|]. destruct n; [lia|]. discriminate.
Qed.

Lemma last_In {A} (l : list A) d : l <> [] -> In (last l d) l.
Proof.
  induction l as [|x l IH]; [congruence|]. intros _. destruct l as [|y l]; [left; reflexivity|].
  right. apply IH. discriminate.
Qed.

Lemma items_size_epoch_order orders e :
  items_size (epoch_order orders e) <= fold_right (fun o m => Nat.max (items_size o) m) 0 orders.
Proof.
  assert (HIn : forall o, In o orders -> items_size o <= fold_right (fun o m => Nat.max (items_size o) m) 0 orders).
  { induction orders as [|o' r IH]; intros o Hi; [destruct Hi|]. cbn [fold_right].
    destruct Hi as [->|Hi]; [lia|]. specialize (IH _ Hi). lia. }
  unfold epoch_order. destruct (Nat.lt_ge_cases e (length orders)) as [Hlt|Hge].
  - apply HIn. apply nth_In. exact Hlt.
  - rewrite nth_overflow by exact Hge. destruct orders as [|o r]; [simpl; lia|].
    apply HIn. apply last_In. discriminate.
Qed.

(* every stream is shorter than the fuel of its pipeline *)
Lemma msum_sem_fuel p e : pipe_ok p = true -> msum (sem p e) < pipe_fuel p.
Proof.
  induction p; cbn [pipe_ok]; intros Hok; cbn [sem pipe_fuel].
  - pose proof (msum_le_size xs). lia.
  - pose proof (msum_le_size (epoch_order orders e)). pose proof (items_size_epoch_order orders e). lia.
  - specialize (IHp Hok). pose proof (msum_map f (sem p e)). lia.
  - specialize (IHp Hok). pose proof (msum_map f (sem p e)). lia.
  - specialize (IHp Hok). lia.
  - apply andb_prop in Hok. destruct Hok as [Hn Hok]. apply Nat.ltb_lt in Hn. specialize (IHp Hok).
    pose proof (msum_chunk_items n drop Hn (S (length (sem p e))) (sem p e)). lia.
  - specialize (IHp Hok). pose proof (msum_flat (sem p e)). lia.
  - specialize (IHp Hok). pose proof (msum_filter (apply_pred q) (sem p e)). lia.
Qed.

Lemma sem_fuel p e : pipe_ok p = true -> length (sem p e) < pipe_fuel p.
Proof. intros H. pose proof (msum_sem_fuel p e H). pose proof (length_le_msum (sem p e)). lia. Qed.

(* ------------------------------------------------------------------ *)
(* the representation invariant                                         *)
(* per-operator invariants, parametrised by the invariant [R j b s] of the source ("source is at
   position j") and by [StR j c] ("restoring the source from state dict c puts it at position j") *)
Definition BatchInv (R : nat -> bool -> rt -> Prop) (n : nat) (d : bool) (l : list item)
    (k : nat) (b : bool) (t : rt) : Prop :=
  exists s j, t = ROne s /\ R j b s /\
    chunk n d (skipn j l) = skipn k (chunk n d l) /\ k <= length (chunk n d l).

Definition FilInv (R : nat -> bool -> rt -> Prop) (g : item -> bool) (l : list item)
    (k : nat) (b : bool) (t : rt) : Prop :=
  exists s nf ny j, t = RFil s nf ny /\ R j b s /\
    filter g (skipn j l) = skipn k (filter g l) /\ k <= length (filter g l).

Definition UnbCache (StR : nat -> sd -> Prop) (l : list item) (j : nat) (b : bool)
    (batch : list item) (idx : nat) (cached : option sd) : Prop :=
  (exists c j0 x, cached = Some c /\ j = S j0 /\ nth_error l j0 = Some x /\ batch = batch_items x /\
                  StR j0 c /\ b = true)
  \/ (length batch <= idx /\ (idx = 0 \/ j = length l) /\
      match cached with Some c => StR j c | None => True end).

Definition UnbInv (R : nat -> bool -> rt -> Prop) (StR : nat -> sd -> Prop) (l : list item)
    (k : nat) (b : bool) (t : rt) : Prop :=
  exists s batch idx cached j, t = RUnb s batch idx cached /\ R j b s /\
    skipn idx batch ++ flat_map batch_items (skipn j l) = skipn k (flat_map batch_items l) /\
    k <= length (flat_map batch_items l) /\
    UnbCache StR l j b batch idx cached.

Definition BufInv (R : nat -> bool -> rt -> Prop) (StR : nat -> sd -> Prop) (L : nat)
    (k : nat) (b : bool) (t : rt) : Prop :=
  exists s snap steps y stopped, t = RBuf s snap steps y stopped /\ R k b s /\ steps <= k /\
    StR (k - steps) snap /\ (stopped = true -> k = L /\ b = true).

Fixpoint Rep (p : pipe) (e k : nat) (b : bool) (t : rt) {struct p} : Prop :=
  match p with
  | PSrc xs _ => t = RSrc k /\ k <= length xs
  | PSampler orders => t = RSampler e b k /\ k <= length (epoch_order orders e)
  | PMap f q => exists s, t = ROne s /\ Rep q e k b s
  | PBatch n d q => BatchInv (Rep q e) n d (sem q e) k b t
  | PFilter pr q => FilInv (Rep q e) (apply_pred pr) (sem q e) k b t
  | PUnbatch q =>
      UnbInv (Rep q e) (fun j c => forall t0, exists b', Rep q e j b' (node_reset q t0 (Some c))) (sem q e) k b t
  | PPrefetch sf q | PParMap _ sf q =>
      BufInv (Rep q e) (fun j c => forall t0, exists b', Rep q e j b' (node_reset q t0 (Some c)))
             (length (sem q e)) k b t
  end.

Definition StRep (p : pipe) (e k : nat) (c : sd) : Prop :=
  forall t0, exists b', Rep p e k b' (node_reset p t0 (Some c)).

(* what reset(None) may be applied to: a fresh object, or a represented state *)
Definition Pre (p : pipe) (e' : nat) (t : rt) : Prop :=
  (t = RUninit /\ e' = 0) \/ exists e k b, Rep p e k b t /\ e' = (if b then S e else e).

Record Good (p : pipe) : Prop := {
  g_len : forall e k b t, Rep p e k b t -> k <= length (sem p e);
  g_next : forall e k b t, Rep p e k b t ->
      exists t', node_next_ p t = (outc (nth_error (sem p e) k), t') /\ Rep p e (adv k (sem p e)) true t';
  g_state : forall e k b t, Rep p e k b t ->
      exists c t', node_state_ p t = (c, t') /\ Rep p e k b t' /\ StRep p e k c;
  g_reset : forall e' t, Pre p e' t -> Rep p e' 0 false (node_reset p t None) }.

Lemma next_some q (G : Good q) e j b s x : Rep q e j b s -> nth_error (sem q e) j = Some x ->
  exists s', node_next_ q s = (OItem x, s') /\ Rep q e (S j) true s'.
Proof.
  intros HR HE. destruct (g_next q G _ _ _ _ HR) as (s' & H1 & H2).
  rewrite HE in H1. rewrite (adv_some _ _ _ HE) in H2. eauto.
Qed.
Lemma next_none q (G : Good q) e j b s : Rep q e j b s -> nth_error (sem q e) j = None ->
  exists s', node_next_ q s = (OStop, s') /\ Rep q e j true s' /\ j = length (sem q e).
Proof.
  intros HR HE. destruct (g_next q G _ _ _ _ HR) as (s' & H1 & H2).
  rewrite HE in H1. rewrite (adv_none _ _ HE) in H2.
  pose proof (g_len q G _ _ _ _ HR). apply nth_error_None in HE. exists s'. repeat split; auto. lia.
Qed.

Lemma Rep_not_uninit p e k b t : Rep p e k b t -> lazy_init p t = t.
Proof.
  destruct p; cbn [Rep]; unfold BatchInv, FilInv, UnbInv, BufInv; intros H;
    repeat match goal with
           | H : exists _, _ |- _ => destruct H
           | H : _ /\ _ |- _ => destruct H
           end; subst; reflexivity.
Qed.

(* source of a represented composite state *)
Lemma Pre_src_map f q e' t : Pre (PMap f q) e' t -> Pre q e' (src_of t).
Proof.
  intros [[-> ->]|(e & k & b & H & ->)]; [left; auto|right].
  cbn [Rep] in H. destruct H as (s & -> & H). exists e, k, b. auto.
Qed.
Lemma Pre_src_batch n d q e' t : Pre (PBatch n d q) e' t -> Pre q e' (src_of t).
Proof.
  intros [[-> ->]|(e & k & b & H & ->)]; [left; auto|right].
  cbn [Rep] in H. destruct H as (s & j & -> & H & _). exists e, j, b. auto.
Qed.
Lemma Pre_src_filter pr q e' t : Pre (PFilter pr q) e' t -> Pre q e' (src_of t).
Proof.
  intros [[-> ->]|(e & k & b & H & ->)]; [left; auto|right].
  cbn [Rep] in H. destruct H as (s & nf & ny & j & -> & H & _). exists e, j, b. auto.
Qed.
Lemma Pre_src_unbatch q e' t : Pre (PUnbatch q) e' t -> Pre q e' (src_of t).
Proof.
  intros [[-> ->]|(e & k & b & H & ->)]; [left; auto|right].
  cbn [Rep] in H. destruct H as (s & ba & idx & ca & j & -> & H & _). exists e, j, b. auto.
Qed.
Lemma Pre_src_prefetch sf q e' t : Pre (PPrefetch sf q) e' t -> Pre q e' (src_of t).
Proof.
  intros [[-> ->]|(e & k & b & H & ->)]; [left; auto|right].
  cbn [Rep] in H. destruct H as (s & sn & st & y & sp & -> & H & _). exists e, k, b. auto.
Qed.
Lemma Pre_src_parmap f sf q e' t : Pre (PParMap f sf q) e' t -> Pre q e' (src_of t).
Proof.
  intros [[-> ->]|(e & k & b & H & ->)]; [left; auto|right].
  cbn [Rep] in H. destruct H as (s & sn & st & y & sp & -> & H & _). exists e, k, b. auto.
Qed.

(* ------------------------------------------------------------------ *)
(* sources                                                              *)
Lemma good_src xs st : Good (PSrc xs st).
Proof.
  constructor.
  - intros e k b t [_ H]. exact H.
  - intros e k b t [-> H]. rewrite next_src. cbn [sem].
    destruct (nth_error xs k) eqn:E.
    + rewrite (adv_some _ _ _ E). eexists; split; [reflexivity|]. split; auto.
      apply nth_error_Some_lt in E. lia.
    + rewrite (adv_none _ _ E). eexists; split; [reflexivity|]. split; auto.
  - intros e k b t [-> H]. rewrite state_src. do 2 eexists. split; [reflexivity|]. split; [split; auto|].
    intros t0. exists false. rewrite reset_src. destruct st; cbn; split; auto.
  - intros e' t _. rewrite reset_src. split; auto. lia.
Qed.

Lemma good_sampler orders : Good (PSampler orders).
Proof.
  constructor.
  - intros e k b t [_ H]. exact H.
  - intros e k b t [-> H]. rewrite next_sampler. cbn [sem].
    destruct (nth_error (epoch_order orders e) k) eqn:E.
    + rewrite (adv_some _ _ _ E). eexists; split; [reflexivity|]. split; auto.
      apply nth_error_Some_lt in E. lia.
    + rewrite (adv_none _ _ E). eexists; split; [reflexivity|]. split; auto.
  - intros e k b t [-> H]. rewrite state_sampler. do 2 eexists. split; [reflexivity|]. split; [split; auto|].
    intros t0. exists false. rewrite reset_sampler. cbn. split; auto.
  - intros e' t [[-> ->]|(e & k & b & [-> H] & ->)]; rewrite reset_sampler; split; auto; lia.
Qed.

(* ------------------------------------------------------------------ *)
(* Mapper                                                               *)
Lemma good_map f q : Good q -> Good (PMap f q).
Proof.
  intros G. constructor.
  - intros e k b t (s & -> & H). cbn [sem]. rewrite map_length. eapply g_len; eauto.
  - intros e k b t (s & -> & H). rewrite next_map. cbn [src_of sem]. rewrite nth_error_map.
    assert (EA : adv k (map (apply_fn f) (sem q e)) = adv k (sem q e)) by (unfold adv; now rewrite map_length).
    rewrite EA.
    destruct (g_next q G _ _ _ _ H) as (s' & H1 & H2). rewrite H1.
    destruct (nth_error (sem q e) k); cbn [outc option_map]; eexists; (split; [reflexivity|]); exists s'; auto.
  - intros e k b t (s & -> & H). rewrite state_map. cbn [src_of].
    destruct (g_state q G _ _ _ _ H) as (c & s' & H1 & H2 & H3). rewrite H1.
    do 2 eexists. split; [reflexivity|]. split; [exists s'; auto|].
    intros t0. rewrite reset_map. cbn. destruct (H3 (src_of t0)) as (b' & Hb). exists b'. eexists; eauto.
  - intros e' t HP. rewrite reset_map. cbn [option_map]. eexists; split; [reflexivity|].
    apply (g_reset q G). eapply Pre_src_map; eauto.
Qed.

(* ------------------------------------------------------------------ *)
(* Filter                                                               *)
Lemma fil_loop_spec q pr ny e (G : Good q) :
  forall fuel j b s nf, Rep q e j b s -> length (sem q e) - j < fuel ->
  exists s' nf' j', Rep q e j' true s' /\
    match filter (apply_pred pr) (skipn j (sem q e)) with
    | [] => fil_loop (node_next_ q) pr ny fuel s nf = (OStop, RFil s' nf' ny) /\
            filter (apply_pred pr) (skipn j' (sem q e)) = []
    | x :: r => fil_loop (node_next_ q) pr ny fuel s nf = (OItem x, RFil s' nf' (S ny)) /\
                filter (apply_pred pr) (skipn j' (sem q e)) = r
    end.
Proof.
  induction fuel as [|fuel IH]; intros j b s nf HR Hf; [lia|].
  cbn [fil_loop]. destruct (nth_error (sem q e) j) as [x|] eqn:E.
  - destruct (next_some q G _ _ _ _ _ HR E) as (s' & H1 & H2). rewrite H1.
    rewrite (skipn_S_nth _ _ _ E). cbn [filter].
    destruct (apply_pred pr x) eqn:Ep.
    + exists s', nf, (S j). split; auto.
    + apply nth_error_Some_lt in E.
      destruct (IH (S j) true s' (S nf) H2 ltac:(lia)) as (s'' & nf' & j' & H3 & H4).
      exists s'', nf', j'. split; auto.
  - destruct (next_none q G _ _ _ _ HR E) as (s' & H1 & H2 & H3). rewrite H1.
    rewrite (nth_error_None_skipn _ _ E). cbn [filter].
    exists s', nf, j. split; auto. split; auto. rewrite (nth_error_None_skipn _ _ E). reflexivity.
Qed.

Lemma good_filter pr q : pipe_ok q = true -> Good q -> Good (PFilter pr q).
Proof.
  intros Hok G. constructor.
  - intros e k b t (s & nf & ny & j & -> & H & H1 & H2). exact H2.
  - intros e k b t (s & nf & ny & j & -> & H & H1 & H2). rewrite next_filter. cbn [sem pipe_fuel].
    pose proof (sem_fuel q e Hok) as HF.
    destruct (fil_loop_spec q pr ny e G (S (pipe_fuel q)) j b s nf H ltac:(lia)) as (s' & nf' & j' & H3 & H4).
    rewrite nth_error_hd. rewrite H1 in H4.
    destruct (skipn k (filter (apply_pred pr) (sem q e))) as [|x r] eqn:Ek.
    + destruct H4 as [H4 H5]. rewrite H4. cbn [hd_error outc]. eexists; split; [reflexivity|].
      apply skipn_nil_len in Ek. assert (k = length (filter (apply_pred pr) (sem q e))) by lia.
      unfold adv. rewrite (proj2 (Nat.ltb_ge _ _)) by lia.
      exists s', nf', ny, j'. repeat split; auto. rewrite H5. symmetry. apply skipn_all2. lia.
    + destruct H4 as [H4 H5]. rewrite H4. cbn [hd_error outc]. eexists; split; [reflexivity|].
      destruct (skipn_cons_S _ _ _ _ Ek) as (E1 & E2 & E3).
      rewrite (adv_some _ _ _ E3).
      exists s', nf', (S ny), j'. repeat split; auto. congruence.
  - intros e k b t (s & nf & ny & j & -> & H & H1 & H2). rewrite state_filter.
    destruct (g_state q G _ _ _ _ H) as (c & s' & H3 & H4 & H5). rewrite H3.
    do 2 eexists. split; [reflexivity|]. split; [exists s', nf, ny, j; auto|].
    intros t0. rewrite reset_filter. cbn. destruct (H5 (src_of t0)) as (b' & Hb). exists b'.
    exists (node_reset q (src_of t0) (Some c)), nf, ny, j. auto.
  - intros e' t HP. rewrite reset_filter.
    exists (node_reset q (src_of t) None), 0, 0, 0. split; [reflexivity|].
    split; [apply (g_reset q G); eapply Pre_src_filter; eauto|]. split; [reflexivity|lia].
Qed.

(* ------------------------------------------------------------------ *)
(* Batcher                                                              *)
Lemma collect_spec q d e (G : Good q) :
  forall todo j b s acc, Rep q e j b s ->
  exists s' j', Rep q e j' (match todo with 0 => b | _ => true end) s' /\
    if todo <=? length (skipn j (sem q e))
    then collect_ (node_next_ q) d todo s acc
           = (OItem (IList (acc ++ firstn todo (skipn j (sem q e)))), ROne s') /\ j' = j + todo
    else collect_ (node_next_ q) d todo s acc
           = (match acc ++ skipn j (sem q e) with
              | [] => OStop
              | _ => if d then OStop else OItem (IList (acc ++ skipn j (sem q e)))
              end, ROne s') /\ j' = length (sem q e).
Proof.
  induction todo as [|todo IH]; intros j b s acc HR.
  - exists s, j. split; auto. cbn [Nat.leb collect_ firstn]. rewrite app_nil_r. split; auto.
  - cbn [collect_]. destruct (nth_error (sem q e) j) as [x|] eqn:E.
    + destruct (next_some q G _ _ _ _ _ HR E) as (s' & H1 & H2). rewrite H1.
      rewrite (skipn_S_nth _ _ _ E). cbn [length Nat.leb firstn].
      destruct (IH (S j) true s' (acc ++ [x]) H2) as (s'' & j'' & H3 & H4).
      exists s'', j''. split; [destruct todo; exact H3|].
      destruct (todo <=? length (skipn (S j) (sem q e))).
      * destruct H4 as [H4 ->]. rewrite H4. rewrite <- app_assoc. cbn [app]. split; auto. lia.
      * destruct H4 as [H4 ->]. rewrite H4. rewrite <- app_assoc. cbn [app]. split; auto.
    + destruct (next_none q G _ _ _ _ HR E) as (s' & H1 & H2 & H3). rewrite H1.
      rewrite (nth_error_None_skipn _ _ E). cbn [length Nat.leb]. rewrite app_nil_r.
      exists s', j. split; auto. split; auto. destruct acc; destruct d; reflexivity.
Qed.

Lemma good_batch n d q : 0 < n -> Good q -> Good (PBatch n d q).
Proof.
  intros Hn G. constructor.
  - intros e k b t (s & j & -> & H & H1 & H2). exact H2.
  - intros e k b t (s & j & -> & H & H1 & H2). rewrite next_batch. cbn [sem src_of].
    fold (chunk n d (sem q e)).
    destruct (collect_spec q d e G n j b s [] H) as (s' & j' & H3 & H4).
    assert (H3' : Rep q e j' true s') by (destruct n; [lia|exact H3]). clear H3.
    rewrite nth_error_hd, <- H1. cbn [app] in H4.
    destruct (n <=? length (skipn j (sem q e))) eqn:En.
    + apply Nat.leb_le in En. destruct H4 as [H4 ->]. rewrite H4.
      rewrite (chunk_ge n d _ Hn En) in *. cbn [hd_error outc].
      eexists; split; [reflexivity|].
      symmetry in H1. destruct (skipn_cons_S _ _ _ _ H1) as (E1 & E2 & E3).
      rewrite (adv_some _ _ _ E3).
      exists s', (j + n). split; [reflexivity|]. split; [exact H3'|]. split; [|lia].
      rewrite <- skipn_skipn. congruence.
    + apply Nat.leb_gt in En. destruct H4 as [H4 ->]. rewrite H4.
      assert (EL : chunk n d (skipn (length (sem q e)) (sem q e)) = []) by (rewrite skipn_all; reflexivity).
      destruct (skipn j (sem q e)) as [|y r] eqn:Er.
      * rewrite chunk_nil in *. cbn [hd_error outc]. eexists; split; [reflexivity|].
        symmetry in H1. apply skipn_nil_len in H1.
        unfold adv. rewrite (proj2 (Nat.ltb_ge _ _)) by lia.
        exists s', (length (sem q e)). repeat split; auto. rewrite EL. symmetry. apply skipn_all2. lia.
      * rewrite (chunk_lt n d (y :: r)) in * by (auto; discriminate). destruct d.
        -- cbn [hd_error outc]. eexists; split; [reflexivity|].
           symmetry in H1. apply skipn_nil_len in H1.
           unfold adv. rewrite (proj2 (Nat.ltb_ge _ _)) by lia.
           exists s', (length (sem q e)). repeat split; auto. rewrite EL. symmetry. apply skipn_all2. lia.
        -- cbn [hd_error outc]. eexists; split; [reflexivity|].
           symmetry in H1. destruct (skipn_cons_S _ _ _ _ H1) as (E1 & E2 & E3).
           rewrite (adv_some _ _ _ E3).
           exists s', (length (sem q e)). repeat split; auto. congruence.
  - intros e k b t (s & j & -> & H & H1 & H2). rewrite state_batch. cbn [src_of].
    destruct (g_state q G _ _ _ _ H) as (c & s' & H3 & H4 & H5). rewrite H3.
    do 2 eexists. split; [reflexivity|]. split; [exists s', j; auto|].
    intros t0. rewrite reset_batch. cbn. destruct (H5 (src_of t0)) as (b' & Hb). exists b'.
    exists (node_reset q (src_of t0) (Some c)), j. auto.
  - intros e' t HP. rewrite reset_batch. cbn [option_map].
    exists (node_reset q (src_of t) None), 0. split; [reflexivity|].
    split; [apply (g_reset q G); eapply Pre_src_batch; eauto|]. split; [reflexivity|lia].
Qed.

(* ------------------------------------------------------------------ *)
(* Unbatcher                                                            *)
Lemma unb_loop_spec q e (G : Good q) :
  forall fuel j b s batch idx cached,
  Rep q e j b s -> UnbCache (StRep q e) (sem q e) j b batch idx cached ->
  length (sem q e) - j + 1 < fuel ->
  exists s' batch' idx' cached' j',
    unb_loop (node_next_ q) (node_state_ q) fuel s batch idx cached
      = (outc (hd_error (skipn idx batch ++ flat_map batch_items (skipn j (sem q e)))),
         RUnb s' batch' idx' cached') /\
    Rep q e j' true s' /\ UnbCache (StRep q e) (sem q e) j' true batch' idx' cached' /\
    skipn idx' batch' ++ flat_map batch_items (skipn j' (sem q e))
      = tl (skipn idx batch ++ flat_map batch_items (skipn j (sem q e))).
Proof.
  induction fuel as [|fuel IH]; intros j b s batch idx cached HR HC Hf; [lia|].
  cbn [unb_loop]. destruct (length batch <=? idx) eqn:Ex.
  - apply Nat.leb_le in Ex.
    destruct (g_state q G _ _ _ _ HR) as (c & s1 & H1 & H2 & H3). rewrite H1.
    rewrite (skipn_all2 batch Ex). cbn [app].
    destruct (nth_error (sem q e) j) as [x|] eqn:E.
    + destruct (next_some q G _ _ _ _ _ H2 E) as (s2 & H4 & H5). rewrite H4.
      pose proof (nth_error_Some_lt _ _ _ E) as Hlt.
      destruct (IH (S j) true s2 (batch_items x) 0 (Some c) H5) as (s' & ba' & i' & ca' & j' & H6 & H7 & H8 & H9).
      { left. exists c, j, x. auto 10. }
      { lia. }
      exists s', ba', i', ca', j'. rewrite (skipn_S_nth _ _ _ E). cbn [flat_map].
      cbn [skipn] in H6, H9. split; [exact H6|]. split; [exact H7|]. split; [exact H8|exact H9].
    + destruct (next_none q G _ _ _ _ H2 E) as (s2 & H4 & H5 & H6). rewrite H4.
      rewrite (nth_error_None_skipn _ _ E). cbn [flat_map hd_error outc tl].
      exists s2, batch, idx, (Some c), j. split; [reflexivity|]. split; [exact H5|]. split.
      * right. split; [exact Ex|]. split; [right; exact H6|exact H3].
      * rewrite (skipn_all2 batch Ex), (nth_error_None_skipn _ _ E). reflexivity.
  - apply Nat.leb_gt in Ex. destruct HC as [(c & j0 & x & -> & -> & E & -> & HS & ->)|(Hc & _)]; [|lia].
    destruct (nth_error (batch_items x) idx) as [y|] eqn:Ey; [|apply nth_error_None in Ey; lia].
    rewrite (skipn_S_nth _ _ _ Ey). cbn [app hd_error outc tl].
    exists s, (batch_items x), (S idx), (Some c), (S j0). split; [reflexivity|]. split; [exact HR|].
    split; [|reflexivity]. left. exists c, j0, x. auto 10.
Qed.


Lemma Rep_unbatch q e k b t :
  Rep (PUnbatch q) e k b t = UnbInv (Rep q e) (StRep q e) (sem q e) k b t.
Proof. reflexivity. Qed.

Lemma unb_restore_in q e (G : Good q) k j0 x c idx :
  nth_error (sem q e) j0 = Some x -> StRep q e j0 c ->
  skipn idx (batch_items x) ++ flat_map batch_items (skipn (S j0) (sem q e))
    = skipn k (flat_map batch_items (sem q e)) ->
  k <= length (flat_map batch_items (sem q e)) ->
  StRep (PUnbatch q) e k (SD [("source", c); ("batch_idx", SNat idx)]).
Proof.
  intros E HS H1 H2 t0. rewrite reset_unbatch. cbn -[Rep].
  destruct (HS (src_of t0)) as (b' & Hb).
  destruct (next_some q G _ _ _ _ _ Hb E) as (s1 & H3 & H4). rewrite H3.
  exists true. rewrite Rep_unbatch.
  exists s1, (batch_items x), idx, (Some c), (S j0). split; [reflexivity|]. split; [exact H4|].
  split; [exact H1|]. split; [exact H2|]. left. exists c, j0, x. auto 10.
Qed.

Lemma unb_restore_pre q e (G : Good q) k j c batch idx :
  StRep q e j c -> length batch <= idx -> (idx = 0 \/ j = length (sem q e)) ->
  skipn idx batch ++ flat_map batch_items (skipn j (sem q e))
    = skipn k (flat_map batch_items (sem q e)) ->
  k <= length (flat_map batch_items (sem q e)) ->
  StRep (PUnbatch q) e k (SD [("source", c); ("batch_idx", SNat idx)]).
Proof.
  intros HS Ex Hor H1 H2 t0. rewrite reset_unbatch. cbn -[Rep].
  destruct (HS (src_of t0)) as (b' & Hb).
  rewrite (skipn_all2 batch Ex) in H1. cbn [app] in H1.
  destruct (nth_error (sem q e) j) as [x|] eqn:E.
  - destruct (next_some q G _ _ _ _ _ Hb E) as (s1 & H3 & H4). rewrite H3.
    pose proof (nth_error_Some_lt _ _ _ E) as Hlt.
    assert (idx = 0) as -> by (destruct Hor; [auto|lia]).
    exists true. rewrite Rep_unbatch.
    exists s1, (batch_items x), 0, (Some c), (S j). split; [reflexivity|]. split; [exact H4|].
    split; [|split; [exact H2|]].
    + rewrite <- H1, (skipn_S_nth _ _ _ E). reflexivity.
    + left. exists c, j, x. auto 10.
  - destruct (next_none q G _ _ _ _ Hb E) as (s1 & H3 & H4 & H5). rewrite H3.
    exists true. rewrite Rep_unbatch.
    exists s1, [], 0, (Some c), j. split; [reflexivity|]. split; [exact H4|].
    split; [exact H1|]. split; [exact H2|]. right. cbn [length]. auto.
Qed.

Lemma good_unbatch q : pipe_ok q = true -> Good q -> Good (PUnbatch q).
Proof.
  intros Hok G. constructor.
  - intros e k b t. rewrite Rep_unbatch. intros (s & ba & idx & ca & j & -> & H & H1 & H2 & H3). exact H2.
  - intros e k b t. rewrite Rep_unbatch. intros (s & ba & idx & ca & j & -> & H & H1 & H2 & H3).
    rewrite next_unbatch. cbn [sem pipe_fuel].
    pose proof (sem_fuel q e Hok) as HF.
    destruct (unb_loop_spec q e G (S (pipe_fuel q)) j b s ba idx ca H H3 ltac:(lia))
      as (s' & ba' & i' & ca' & j' & H4 & H5 & H6 & H7).
    rewrite H4, H1 in *. rewrite <- nth_error_hd in H4. rewrite nth_error_hd.
    eexists; split; [reflexivity|]. rewrite Rep_unbatch.
    exists s', ba', i', ca', j'. split; [reflexivity|]. split; [exact H5|].
    destruct (skipn k (flat_map batch_items (sem q e))) as [|x r] eqn:Ek.
    + apply skipn_nil_len in Ek. unfold adv. rewrite (proj2 (Nat.ltb_ge _ _)) by lia.
      split; [|split; [lia|exact H6]]. rewrite H7. symmetry. apply skipn_all2. lia.
    + destruct (skipn_cons_S _ _ _ _ Ek) as (E1 & E2 & E3). rewrite (adv_some _ _ _ E3).
      split; [|split; [lia|exact H6]]. rewrite H7. cbn [tl]. congruence.
  - intros e k b t. rewrite Rep_unbatch. intros (s & ba & idx & ca & j & -> & H & H1 & H2 & H3).
    rewrite state_unbatch. destruct ca as [c|].
    + do 2 eexists. split; [reflexivity|]. split.
      * rewrite Rep_unbatch. exists s, ba, idx, (Some c), j. auto 10.
      * destruct H3 as [(c0 & j0 & x & Ec & -> & E & -> & HS & ->)|(Ex & Hor & HS)].
        -- inversion Ec; subst c0. eapply unb_restore_in; eauto.
        -- eapply unb_restore_pre; eauto.
    + destruct H3 as [(c0 & j0 & x & Ec & _)|(Ex & Hor & _)]; [discriminate|].
      destruct (g_state q G _ _ _ _ H) as (c & s' & H4 & H5 & H6). rewrite H4.
      do 2 eexists. split; [reflexivity|]. split.
      * rewrite Rep_unbatch. exists s', ba, idx, (Some c), j. split; [reflexivity|]. split; [exact H5|].
        split; [exact H1|]. split; [exact H2|]. right. auto.
      * eapply unb_restore_pre; eauto.
  - intros e' t HP. rewrite reset_unbatch, Rep_unbatch.
    exists (node_reset q (src_of t) None), [], 0, None, 0. split; [reflexivity|].
    split; [apply (g_reset q G); eapply Pre_src_unbatch; eauto|]. split; [reflexivity|].
    split; [lia|]. right. cbn [length]. auto.
Qed.

(* ------------------------------------------------------------------ *)
(* Prefetcher / ParallelMapper                                          *)
Lemma Rep_prefetch sf q e k b t :
  Rep (PPrefetch sf q) e k b t = BufInv (Rep q e) (StRep q e) (length (sem q e)) k b t.
Proof. reflexivity. Qed.
Lemma Rep_parmap f sf q e k b t :
  Rep (PParMap f sf q) e k b t = BufInv (Rep q e) (StRep q e) (length (sem q e)) k b t.
Proof. reflexivity. Qed.

Definition fo_apply (fo : option fn) (x : item) : item :=
  match fo with Some g => apply_fn g x | None => x end.

Lemma buf_next_spec q e (G : Good q) fo sf k b t :
  BufInv (Rep q e) (StRep q e) (length (sem q e)) k b t ->
  exists t', buf_next_gen (node_next_ q) (node_state_ q) fo sf t
               = (outc (option_map (fo_apply fo) (nth_error (sem q e) k)), t') /\
             BufInv (Rep q e) (StRep q e) (length (sem q e)) (adv k (sem q e)) true t'.
Proof.
  intros (s & snap & steps & y & stopped & -> & HR & Hs & HS & Hst).
  cbn [buf_next_gen]. destruct stopped.
  - destruct (Hst eq_refl) as [-> ->].
    assert (E : nth_error (sem q e) (length (sem q e)) = None) by (apply nth_error_None; lia).
    rewrite E, (adv_none _ _ E). cbn [option_map outc]. eexists; split; [reflexivity|].
    exists s, snap, steps, y, true. auto 10.
  - destruct (nth_error (sem q e) k) as [x|] eqn:E.
    + destruct (next_some q G _ _ _ _ _ HR E) as (s1 & H1 & H2). rewrite H1, (adv_some _ _ _ E).
      cbn [option_map outc]. unfold fo_apply.
      destruct ((0 <? sf) && (S y mod sf =? 0)).
      * destruct (g_state q G _ _ _ _ H2) as (c & s2 & H3 & H4 & H5). rewrite H3.
        eexists; split; [reflexivity|].
        exists s2, c, 0, (S y), false. split; [reflexivity|]. split; [exact H4|]. split; [lia|].
        split; [rewrite Nat.sub_0_r; exact H5|discriminate].
      * eexists; split; [reflexivity|].
        exists s1, snap, (S steps), (S y), false. split; [reflexivity|]. split; [exact H2|]. split; [lia|].
        split; [exact HS|discriminate].
    + destruct (next_none q G _ _ _ _ HR E) as (s1 & H1 & H2 & H3). rewrite H1, (adv_none _ _ E).
      cbn [option_map outc]. eexists; split; [reflexivity|].
      exists s1, snap, steps, y, true. auto 10.
Qed.

Lemma ffb_spec q e (G : Good q) fo sf :
  forall i k b t, BufInv (Rep q e) (StRep q e) (length (sem q e)) k b t ->
  k + i <= length (sem q e) ->
  exists b', BufInv (Rep q e) (StRep q e) (length (sem q e)) (k + i) b'
               (ffb_ (node_next_ q) (node_state_ q) fo sf i t).
Proof.
  induction i as [|i IH]; intros k b t HB Hk.
  - rewrite Nat.add_0_r. exists b. exact HB.
  - cbn [ffb_]. destruct (buf_next_spec q e G fo sf k b t HB) as (t' & H1 & H2). rewrite H1. cbn [snd].
    unfold adv in H2. rewrite (proj2 (Nat.ltb_lt _ _)) in H2 by lia.
    destruct (IH (S k) true t' H2 ltac:(lia)) as (b' & H3). exists b'.
    replace (k + S i) with (S k + i) by lia. exact H3.
Qed.

Lemma buf_restore q e (G : Good q) fo sf k snap steps t0 :
  StRep q e (k - steps) snap -> steps <= k -> k <= length (sem q e) ->
  exists b', BufInv (Rep q e) (StRep q e) (length (sem q e)) k b'
    (let s0 := node_reset q (src_of t0) (Some snap) in
     let '(snap', s1) := node_state_ q s0 in
     ffb_ (node_next_ q) (node_state_ q) fo sf steps (RBuf s1 snap' 0 0 false)).
Proof.
  intros HS Hs Hk. cbv zeta. destruct (HS (src_of t0)) as (b' & Hb).
  destruct (g_state q G _ _ _ _ Hb) as (c & s1 & H1 & H2 & H3). rewrite H1.
  destruct (ffb_spec q e G fo sf steps (k - steps) b' (RBuf s1 c 0 0 false)) as (b'' & H4).
  - exists s1, c, 0, 0, false. split; [reflexivity|]. split; [exact H2|]. split; [lia|].
    split; [rewrite Nat.sub_0_r; exact H3|discriminate].
  - lia.
  - exists b''. replace (k - steps + steps) with k in H4 by lia. exact H4.
Qed.

Lemma buf_fresh q e' (G : Good q) t :
  Pre q e' (src_of t) ->
  BufInv (Rep q e') (StRep q e') (length (sem q e')) 0 false
    (let s0 := node_reset q (src_of t) None in
     let '(snap, s1) := node_state_ q s0 in RBuf s1 snap 0 0 false).
Proof.
  intros HP. cbv zeta. pose proof (g_reset q G _ _ HP) as H0.
  destruct (g_state q G _ _ _ _ H0) as (c & s1 & H1 & H2 & H3). rewrite H1.
  exists s1, c, 0, 0, false. split; [reflexivity|]. split; [exact H2|]. split; [lia|].
  split; [exact H3|discriminate].
Qed.

Lemma good_prefetch sf q : Good q -> Good (PPrefetch sf q).
Proof.
  intros G. constructor.
  - intros e k b t. rewrite Rep_prefetch. intros (s & sn & st & y & sp & -> & H & _). cbn [sem].
    eapply g_len; eauto.
  - intros e k b t. rewrite Rep_prefetch. intros HB. rewrite next_prefetch. cbn [sem].
    destruct (buf_next_spec q e G None sf k b t HB) as (t' & H1 & H2). exists t'. split; [|exact H2].
    rewrite H1. destruct (nth_error (sem q e) k); reflexivity.
  - intros e k b t. rewrite Rep_prefetch. intros HB. pose proof HB as HB'.
    destruct HB as (s & sn & st & y & sp & -> & H & Hs & HS & Hst).
    rewrite state_prefetch. do 2 eexists. split; [reflexivity|]. split; [exact HB'|].
    intros t0. rewrite reset_prefetch. cbn -[Rep]. 
    apply (buf_restore q e G None sf k sn st t0 HS Hs). eapply g_len; eauto.
  - intros e' t HP. rewrite reset_prefetch, Rep_prefetch. apply buf_fresh; auto.
    eapply Pre_src_prefetch; eauto.
Qed.

Lemma good_parmap f sf q : Good q -> Good (PParMap f sf q).
Proof.
  intros G. constructor.
  - intros e k b t. rewrite Rep_parmap. intros (s & sn & st & y & sp & -> & H & _). cbn [sem].
    rewrite map_length. eapply g_len; eauto.
  - intros e k b t. rewrite Rep_parmap. intros HB. rewrite next_parmap. cbn [sem].
    destruct (buf_next_spec q e G (Some f) sf k b t HB) as (t' & H1 & H2). exists t'.
    rewrite nth_error_map. split; [exact H1|].
    assert (EA : adv k (map (apply_fn f) (sem q e)) = adv k (sem q e)) by (unfold adv; now rewrite map_length).
    rewrite EA. exact H2.
  - intros e k b t. rewrite Rep_parmap. intros HB. pose proof HB as HB'.
    destruct HB as (s & sn & st & y & sp & -> & H & Hs & HS & Hst).
    rewrite state_parmap. do 2 eexists. split; [reflexivity|]. split; [exact HB'|].
    intros t0. rewrite reset_parmap. cbn -[Rep].
    apply (buf_restore q e G (Some f) sf k sn st t0 HS Hs). eapply g_len; eauto.
  - intros e' t HP. rewrite reset_parmap, Rep_parmap. apply buf_fresh; auto.
    eapply Pre_src_parmap; eauto.
Qed.

(* ------------------------------------------------------------------ *)
Theorem good_all p : pipe_ok p = true -> Good p.
Proof.
  induction p; cbn [pipe_ok]; intros Hok.
  - apply good_src.
  - apply good_sampler.
  - apply good_map; auto.
  - apply good_parmap; auto.
  - apply good_prefetch; auto.
  - apply andb_prop in Hok. destruct Hok as [Hn Hok]. apply Nat.ltb_lt in Hn. apply good_batch; auto.
  - apply good_unbatch; auto.
  - apply good_filter; auto.
Qed.

(* ------------------------------------------------------------------ *)
(* consequences of the invariant                                        *)
Lemma node_next_Rep p e k b t : Rep p e k b t -> node_next p t = node_next_ p t.
Proof. intros H. unfold node_next. now rewrite (Rep_not_uninit _ _ _ _ _ H). Qed.
Lemma node_state_Rep p e k b t : Rep p e k b t -> node_state p t = node_state_ p t.
Proof. intros H. unfold node_state. now rewrite (Rep_not_uninit _ _ _ _ _ H). Qed.

Lemma Rep_init p : Good p -> Rep p 0 0 false (node_reset p RUninit None).
Proof. intros G. apply (g_reset p G). left. auto. Qed.

Lemma Rep_next_epoch p e k t : Good p -> Rep p e k true t -> Rep p (S e) 0 false (node_reset p t None).
Proof. intros G H. apply (g_reset p G). right. exists e, k, true. auto. Qed.

Lemma run_Rep p (G : Good p) e :
  forall fuel k b t, Rep p e k b t -> length (sem p e) - k < fuel ->
  fst (node_run p fuel t) = skipn k (sem p e) /\
  Rep p e (length (sem p e)) true (snd (node_run p fuel t)).
Proof.
  induction fuel as [|fuel IH]; intros k b t HR Hf; [lia|].
  cbn [node_run]. rewrite (node_next_Rep _ _ _ _ _ HR).
  destruct (g_next p G _ _ _ _ HR) as (t' & H1 & H2). rewrite H1.
  destruct (nth_error (sem p e) k) as [x|] eqn:E; cbn [outc].
  - rewrite (adv_some _ _ _ E) in H2. pose proof (nth_error_Some_lt _ _ _ E).
    destruct (IH (S k) true t' H2 ltac:(lia)) as [H3 H4].
    destruct (node_run p fuel t') as [l t'']. cbn [fst snd] in *.
    rewrite (skipn_S_nth _ _ _ E), H3. auto.
  - rewrite (adv_none _ _ E) in H2. pose proof (g_len p G _ _ _ _ HR). apply nth_error_None in E.
    assert (k = length (sem p e)) by lia. subst k. cbn [fst snd]. rewrite skipn_all. auto.
Qed.

Lemma run_FUEL p e k b t : pipe_ok p = true -> Rep p e k b t ->
  fst (node_run p (FUEL p) t) = skipn k (sem p e) /\
  Rep p e (length (sem p e)) true (snd (node_run p (FUEL p) t)).
Proof.
  intros Hok HR. apply (run_Rep p (good_all p Hok) e (FUEL p) k b t HR).
  pose proof (sem_fuel p e Hok). unfold FUEL. lia.
Qed.

Lemma nexts_Rep p (G : Good p) e :
  forall i k b t, Rep p e k b t -> k + i <= length (sem p e) ->
  exists b', Rep p e (k + i) b' (nexts p i t).
Proof.
  induction i as [|i IH]; intros k b t HR Hk.
  - rewrite Nat.add_0_r. eauto.
  - cbn [nexts]. rewrite (node_next_Rep _ _ _ _ _ HR).
    destruct (g_next p G _ _ _ _ HR) as (t' & H1 & H2). rewrite H1. cbn [snd].
    unfold adv in H2. rewrite (proj2 (Nat.ltb_lt _ _)) in H2 by lia.
    destruct (IH (S k) true t' H2 ltac:(lia)) as (b' & H3). exists b'.
    replace (k + S i) with (S k + i) by lia. exact H3.
Qed.

Lemma at_k_Rep p k : pipe_ok p = true -> k <= length (sem p 0) -> exists b, Rep p 0 k b (at_k p k).
Proof.
  intros Hok Hk. pose proof (good_all p Hok) as G.
  apply (nexts_Rep p G 0 k 0 false _ (Rep_init p G)). exact Hk.
Qed.

(* taking the state of a represented state: the state dict restores, on ANY object, to a
   represented state at the same position, and the state itself stays represented *)
Lemma state_Rep p e k b t : pipe_ok p = true -> Rep p e k b t ->
  Rep p e k b (snd (node_state p t)) /\
  forall t0, exists b', Rep p e k b' (node_reset p t0 (Some (fst (node_state p t)))).
Proof.
  intros Hok HR. rewrite (node_state_Rep _ _ _ _ _ HR).
  destruct (g_state p (good_all p Hok) _ _ _ _ HR) as (c & t' & H1 & H2 & H3). rewrite H1. auto.
Qed.

(* ------------------------------------------------------------------ *)
(* R1                                                                    *)
Theorem node_resume_exact : forall p k, pipe_ok p = true -> k <= length (sem p 0) ->
  let '(s, t') := node_state p (at_k p k) in
  fst (node_run p (FUEL p) (node_reset p RUninit (Some s))) = skipn k (sem p 0)
  /\ fst (node_run p (FUEL p) t') = skipn k (sem p 0).
Proof.
  intros p k Hok Hk. destruct (at_k_Rep p k Hok Hk) as (b & HR).
  destruct (state_Rep p 0 k b _ Hok HR) as [H1 H2].
  destruct (node_state p (at_k p k)) as [s t']. cbn [fst snd] in *.
  destruct (H2 RUninit) as (b' & H3). split.
  - apply (run_FUEL p 0 k b' _ Hok H3).
  - apply (run_FUEL p 0 k b _ Hok H1).
Qed.

(* R2 *)
Theorem node_resume_next_epoch : forall p k, pipe_ok p = true -> k <= length (sem p 0) ->
  let '(s, _) := node_state p (at_k p k) in
  let t1 := snd (node_run p (FUEL p) (node_reset p RUninit (Some s))) in
  fst (node_run p (FUEL p) (node_reset p t1 None)) = sem p 1.
Proof.
  intros p k Hok Hk. destruct (at_k_Rep p k Hok Hk) as (b & HR).
  destruct (state_Rep p 0 k b _ Hok HR) as [H1 H2].
  destruct (node_state p (at_k p k)) as [s t']. cbn [fst snd] in *.
  destruct (H2 RUninit) as (b' & H3).
  destruct (run_FUEL p 0 k b' _ Hok H3) as [_ H4].
  pose proof (Rep_next_epoch p 0 _ _ (good_all p Hok) H4) as H5.
  apply (run_FUEL p 1 0 false _ Hok H5).
Qed.

(* R3: states reachable by any finite chain of next / state_dict / resume-on-any-object /
   drain-and-start-next-epoch steps *)
Inductive Reach (p : pipe) : nat -> nat -> rt -> Prop :=
| reach_init : Reach p 0 0 (node_reset p RUninit None)
| reach_next e k t : Reach p e k t -> Reach p e (Nat.min (S k) (length (sem p e))) (snd (node_next p t))
| reach_state e k t : Reach p e k t -> Reach p e k (snd (node_state p t))
| reach_resume e k t t0 : Reach p e k t -> Reach p e k (node_reset p t0 (Some (fst (node_state p t))))
| reach_epoch e k t : Reach p e k t ->
    Reach p (S e) 0 (node_reset p (snd (node_run p (FUEL p) t)) None).

Lemma Reach_Rep p e k t : pipe_ok p = true -> Reach p e k t -> exists b, Rep p e k b t.
Proof.
  intros Hok HR. pose proof (good_all p Hok) as G. induction HR.
  - exists false. apply Rep_init; auto.
  - destruct IHHR as (b & H). rewrite (node_next_Rep _ _ _ _ _ H).
    destruct (g_next p G _ _ _ _ H) as (t' & H1 & H2). rewrite H1. cbn [snd]. exists true.
    pose proof (g_len p G _ _ _ _ H). unfold adv in H2.
    destruct (k <? length (sem p e)) eqn:E.
    + apply Nat.ltb_lt in E. replace (Nat.min (S k) (length (sem p e))) with (S k) by lia. exact H2.
    + apply Nat.ltb_ge in E. replace (Nat.min (S k) (length (sem p e))) with k by lia. exact H2.
  - destruct IHHR as (b & H). exists b. apply (state_Rep p e k b t Hok H).
  - destruct IHHR as (b & H). apply (state_Rep p e k b t Hok H).
  - destruct IHHR as (b & H). exists false.
    apply (Rep_next_epoch p e (length (sem p e)) _ G). apply (run_FUEL p e k b t Hok H).
Qed.

Theorem reach_exact p e k t : pipe_ok p = true -> Reach p e k t ->
  k <= length (sem p e) /\
  fst (node_next p t) = outc (nth_error (sem p e) k) /\
  fst (node_run p (FUEL p) t) = skipn k (sem p e).
Proof.
  intros Hok HR. destruct (Reach_Rep p e k t Hok HR) as (b & H). pose proof (good_all p Hok) as G.
  split; [eapply g_len; eauto|]. split.
  - rewrite (node_next_Rep _ _ _ _ _ H). destruct (g_next p G _ _ _ _ H) as (t' & H1 & _). now rewrite H1.
  - apply (run_FUEL p e k b t Hok H).
Qed.

Lemma Reach_nexts p e : forall i k t, Reach p e k t -> k + i <= length (sem p e) ->
  Reach p e (k + i) (nexts p i t).
Proof.
  induction i as [|i IH]; intros k t HR Hk.
  - rewrite Nat.add_0_r. exact HR.
  - cbn [nexts]. replace (k + S i) with (S k + i) by lia. apply IH; [|lia].
    replace (S k) with (Nat.min (S k) (length (sem p e))) by lia. apply reach_next. exact HR.
Qed.

Lemma Reach_at_k p k : k <= length (sem p 0) -> Reach p 0 k (at_k p k).
Proof. intros Hk. apply (Reach_nexts p 0 k 0 _ (reach_init p)). exact Hk. Qed.

Theorem node_resume_chain : forall p k j, pipe_ok p = true -> k + j <= length (sem p 0) ->
  let '(s, _) := node_state p (at_k p k) in
  let t1 := nexts p j (node_reset p RUninit (Some s)) in
  let '(s2, t2) := node_state p t1 in
  fst (node_run p (FUEL p) (node_reset p RUninit (Some s2))) = skipn (k + j) (sem p 0)
  /\ fst (node_run p (FUEL p) t2) = skipn (k + j) (sem p 0).
Proof.
  intros p k j Hok Hk.
  pose proof (Reach_at_k p k ltac:(lia)) as H0.
  pose proof (reach_resume p 0 k _ RUninit H0) as H1.
  destruct (node_state p (at_k p k)) as [s t0]. cbn [fst] in H1. cbv zeta.
  pose proof (Reach_nexts p 0 j k _ H1 Hk) as H2.
  pose proof (reach_resume p 0 (k + j) _ RUninit H2) as H3.
  pose proof (reach_state p 0 (k + j) _ H2) as H4.
  destruct (node_state p (nexts p j (node_reset p RUninit (Some s)))) as [s2 t2]. cbn [fst snd] in *.
  split; [apply (reach_exact p 0 (k + j) _ Hok H3)|apply (reach_exact p 0 (k + j) _ Hok H4)].
Qed.

(* ------------------------------------------------------------------ *)
(* R4: Loader level                                                     *)
Fixpoint ld_nexts (p : pipe) (k : nat) (l : loader) : loader :=
  match k with 0 => l | S k' => ld_nexts p k' (snd (ld_next p l)) end.
(* items produced by repeated ld_next until it stops; the flag is true iff the run ended with
   OStop (StopIteration) -- not with an error outcome and not by running out of fuel *)
Fixpoint ld_drain (p : pipe) (fuel : nat) (l : loader) : list item * bool :=
  match fuel with
  | 0 => ([], false)
  | S f => match ld_next p l with
           | (OItem x, l') => let '(xs, ok) := ld_drain p f l' in (x :: xs, ok)
           | (OStop, _) => ([], true)
           | (OErr _, _) => ([], false)
           end
  end.
Definition ld0 (p : pipe) : loader := ld_iter p true ld_new.
(* state_dict after k items of the first epoch, loaded into a NEW loader, then iter() *)
Definition ld_resumed (p : pipe) (restart0 restart : bool) (k : nat) : loader :=
  let '(s, _) := ld_state_dict p restart0 (ld_nexts p k (ld0 p)) in
  ld_iter p restart (ld_load ld_new s).

(* a loader whose iterator has an empty look-ahead cache *)
Definition Lshape (root : rt) (n : nat) (f : bool) : loader :=
  {| ld_it := Some {| li_root := root; li_cached_item := None; li_cached_sd := None; li_num_yielded := n |};
     ld_iter_for_sd := f; ld_next_sd := None |}.

Lemma ld0_shape p : ld0 p = Lshape (node_reset p RUninit None) 0 false.
Proof. reflexivity. Qed.

Lemma ld_next_shape p root n f :
  ld_next p (Lshape root n f) =
  match node_next p root with
  | (OItem x, r) => (OItem x, Lshape r (S n) f)
  | (o, r) => (o, Lshape r n f)
  end.
Proof.
  unfold ld_next, Lshape, li_next. cbn [ld_it li_cached_item li_root li_cached_sd li_num_yielded
    ld_iter_for_sd ld_next_sd].
  destruct (node_next p root) as [[x| |m] r]; reflexivity.
Qed.

Lemma ld_drain_Rep p (G : Good p) e f :
  forall fuel k b root n, Rep p e k b root -> length (sem p e) - k < fuel ->
  ld_drain p fuel (Lshape root n f) = (skipn k (sem p e), true).
Proof.
  induction fuel as [|fuel IH]; intros k b root n HR Hf; [lia|].
  cbn [ld_drain]. rewrite ld_next_shape. rewrite (node_next_Rep _ _ _ _ _ HR).
  destruct (g_next p G _ _ _ _ HR) as (t' & H1 & H2). rewrite H1.
  destruct (nth_error (sem p e) k) as [x|] eqn:E; cbn [outc].
  - rewrite (adv_some _ _ _ E) in H2. pose proof (nth_error_Some_lt _ _ _ E).
    rewrite (IH (S k) true t' (S n) H2 ltac:(lia)). now rewrite (skipn_S_nth _ _ _ E).
  - now rewrite (nth_error_None_skipn _ _ E).
Qed.

Lemma ld_drain_FUEL p e k b root n f : pipe_ok p = true -> Rep p e k b root ->
  ld_drain p (FUEL p) (Lshape root n f) = (skipn k (sem p e), true).
Proof.
  intros Hok HR. apply (ld_drain_Rep p (good_all p Hok) e f (FUEL p) k b root n HR).
  pose proof (sem_fuel p e Hok). unfold FUEL. lia.
Qed.

Lemma ld_nexts_shape p (G : Good p) e f :
  forall i k b root n, Rep p e k b root -> k + i <= length (sem p e) ->
  ld_nexts p i (Lshape root n f) = Lshape (nexts p i root) (n + i) f.
Proof.
  induction i as [|i IH]; intros k b root n HR Hk.
  - cbn [ld_nexts nexts]. now rewrite Nat.add_0_r.
  - cbn [ld_nexts nexts]. rewrite ld_next_shape. rewrite (node_next_Rep _ _ _ _ _ HR).
    destruct (g_next p G _ _ _ _ HR) as (t' & H1 & H2). rewrite H1.
    destruct (nth_error (sem p e) k) as [x|] eqn:E; [|apply nth_error_None in E; lia].
    cbn [outc snd]. rewrite (adv_some _ _ _ E) in H2.
    rewrite (IH (S k) true t' (S n) H2 ltac:(lia)). f_equal. lia.
Qed.

Lemma ld_state_dict_shape p r0 root n f :
  ld_state_dict p r0 (Lshape root n f) =
  (SD [("root", fst (node_state p root)); ("num_yielded", SNat n)], Lshape (snd (node_state p root)) n f).
Proof.
  unfold ld_state_dict, Lshape, li_get_state. cbn [ld_it li_cached_item li_root li_cached_sd li_num_yielded
    ld_iter_for_sd ld_next_sd].
  destruct (node_state p root) as [c r]. reflexivity.
Qed.

Lemma ld_iter_load_norestart p c n :
  ld_iter p false (ld_load ld_new (SD [("root", c); ("num_yielded", SNat n)]))
  = Lshape (node_reset p RUninit (Some c)) n false.
Proof. reflexivity. Qed.

Lemma ld_iter_load_restart p c n :
  ld_iter p true (ld_load ld_new (SD [("root", c); ("num_yielded", SNat n)])) =
  let '(c', r1) := node_state p (node_reset p RUninit (Some c)) in
  match node_next p r1 with
  | (OItem x, r2) =>
      {| ld_it := Some {| li_root := r2; li_cached_item := Some x;
                          li_cached_sd := Some (SD [("root", c'); ("num_yielded", SNat n)]);
                          li_num_yielded := S n |};
         ld_iter_for_sd := false; ld_next_sd := None |}
  | (_, r2) => Lshape (node_reset p r2 None) 0 false
  end.
Proof.
  unfold ld_iter, ld_load, ld_new, li_has_next, li_get_state, li_next, li_reset, li_new, Lshape.
  cbn -[node_reset node_state node_next].
  destruct (node_state p (node_reset p RUninit (Some c))) as [c' r1].
  cbn -[node_reset node_state node_next].
  destruct (node_next p r1) as [[x| |m] r2]; reflexivity.
Qed.

Lemma ld_resumed_eq p r0 r1 k : pipe_ok p = true -> k <= length (sem p 0) ->
  ld_resumed p r0 r1 k =
  ld_iter p r1 (ld_load ld_new (SD [("root", fst (node_state p (at_k p k))); ("num_yielded", SNat k)])).
Proof.
  intros Hok Hk. unfold ld_resumed. rewrite ld0_shape.
  pose proof (good_all p Hok) as G.
  rewrite (ld_nexts_shape p G 0 false k 0 false _ 0 (Rep_init p G) Hk).
  rewrite ld_state_dict_shape. reflexivity.
Qed.

(* strictly inside the epoch: the resumed loader yields exactly the remaining items,
   whatever the restart flags *)
Theorem loader_resume_mid : forall p k restart0 restart, pipe_ok p = true -> k < length (sem p 0) ->
  ld_drain p (FUEL p) (ld_resumed p restart0 restart k) = (skipn k (sem p 0), true).
Proof.
  intros p k r0 r1 Hok Hk. rewrite (ld_resumed_eq p r0 r1 k Hok ltac:(lia)).
  pose proof (good_all p Hok) as G.
  destruct (at_k_Rep p k Hok ltac:(lia)) as (b & HR).
  destruct (state_Rep p 0 k b _ Hok HR) as [_ H2]. destruct (H2 RUninit) as (b' & H3). clear H2.
  set (c := fst (node_state p (at_k p k))) in *.
  destruct r1.
  - rewrite ld_iter_load_restart.
    destruct (state_Rep p 0 k b' _ Hok H3) as [H4 _].
    destruct (node_state p (node_reset p RUninit (Some c))) as [c' r1]. cbn [snd] in H4.
    rewrite (node_next_Rep _ _ _ _ _ H4).
    destruct (g_next p G _ _ _ _ H4) as (r2 & H5 & H6). rewrite H5.
    destruct (nth_error (sem p 0) k) as [x|] eqn:E; [|apply nth_error_None in E; lia].
    cbn [outc]. rewrite (adv_some _ _ _ E) in H6.
    unfold FUEL. cbn [ld_drain]. unfold ld_next at 1, li_next. cbn [ld_it li_cached_item li_root
      li_cached_sd li_num_yielded ld_iter_for_sd ld_next_sd].
    fold (Lshape r2 (S k) false).
    pose proof (sem_fuel p 0 Hok).
    rewrite (ld_drain_Rep p G 0 false (pipe_fuel p) (S k) true r2 (S k) H6 ltac:(lia)).
    now rewrite (skipn_S_nth _ _ _ E).
  - rewrite ld_iter_load_norestart. apply (ld_drain_FUEL p 0 k b' _ _ _ Hok H3).
Qed.

(* at the very end of the epoch: restart_on_stop_iteration = true starts the next epoch ... *)
Theorem loader_resume_end_restart : forall p restart0, pipe_ok p = true ->
  ld_drain p (FUEL p) (ld_resumed p restart0 true (length (sem p 0))) = (sem p 1, true).
Proof.
  intros p r0 Hok. set (k := length (sem p 0)).
  rewrite (ld_resumed_eq p r0 true k Hok ltac:(lia)).
  pose proof (good_all p Hok) as G.
  destruct (at_k_Rep p k Hok ltac:(lia)) as (b & HR).
  destruct (state_Rep p 0 k b _ Hok HR) as [_ H2]. destruct (H2 RUninit) as (b' & H3). clear H2.
  set (c := fst (node_state p (at_k p k))) in *.
  rewrite ld_iter_load_restart.
  destruct (state_Rep p 0 k b' _ Hok H3) as [H4 _].
  destruct (node_state p (node_reset p RUninit (Some c))) as [c' r1]. cbn [snd] in H4.
  rewrite (node_next_Rep _ _ _ _ _ H4).
  destruct (g_next p G _ _ _ _ H4) as (r2 & H5 & H6). rewrite H5.
  assert (E : nth_error (sem p 0) k = None) by (apply nth_error_None; unfold k; lia).
  rewrite E in *. cbn [outc]. rewrite (adv_none _ _ E) in H6.
  apply (ld_drain_FUEL p 1 0 false _ _ _ Hok (Rep_next_epoch p 0 k r2 G H6)).
Qed.

(* ... and restart_on_stop_iteration = false yields nothing *)
Theorem loader_resume_end_norestart : forall p restart0, pipe_ok p = true ->
  ld_drain p (FUEL p) (ld_resumed p restart0 false (length (sem p 0))) = ([], true).
Proof.
  intros p r0 Hok. set (k := length (sem p 0)).
  rewrite (ld_resumed_eq p r0 false k Hok ltac:(lia)).
  destruct (at_k_Rep p k Hok ltac:(lia)) as (b & HR).
  destruct (state_Rep p 0 k b _ Hok HR) as [_ H2]. destruct (H2 RUninit) as (b' & H3). clear H2.
  rewrite ld_iter_load_norestart. rewrite (ld_drain_FUEL p 0 k b' _ _ _ Hok H3).
  unfold k. now rewrite skipn_all.
Qed.

(* ------------------------------------------------------------------ *)
(* Remarks.
   - [pipe_ok] (batch_size > 0) is necessary: for PBatch 0 false (PSrc [INat 7] false), k = 0, the
     node never stops (it yields IList [] forever) while [sem] is a fuel-bounded 2-element list.
   - [Rep]'s boolean tracks "next() was called since the last reset" only because of PSampler's
     [started] flag (R2, and R4 at the end of the epoch): every top-level next() reaches the leaf
     or happens after one that did ([g_next] returns the flag [true]).
   - All theorems hold for every pipeline with pipe_ok, including PSampler / PPrefetch / PParMap with
     any snapshot frequency (0 included), empty sources, INone / IList [] items. *)

Print Assumptions node_resume_exact.
Print Assumptions node_resume_next_epoch.
Print Assumptions reach_exact.
Print Assumptions node_resume_chain.
Print Assumptions loader_resume_mid.
Print Assumptions loader_resume_end_restart.
Print Assumptions loader_resume_end_norestart.
