(* ConcInv.v — invariants of ConcModel that hold in EVERY reachable state of EVERY schedule (no fairness, timeouts and
   join timeouts included): the semaphore accounting behind C12's read-ahead bound. *)
From Coq Require Import List Arith Bool Lia.
From RecordUpdate Require Import RecordUpdate.
From PD Require Import ConcModel.
Import ListNotations.
Open Scope nat_scope.

(* ---------------------------------------------------------------------------------------------------------- *)
(* items "in hand": taken out of a queue / out of the source, not yet put into the next queue / released *)
Definition r_hold (p : rpc) : nat := match p with RPull | RStore _ _ _ | RPut _ _ _ => 1 | _ => 0 end.
Definition w_hold1 (p : wpc) : nat := match p with WPut _ _ => 1 | _ => 0 end.
Fixpoint w_hold (l : list wpc) : nat := match l with [] => 0 | p :: t => w_hold1 p + w_hold t end.
Definition s_hold (p : spc) : nat := match p with SPut _ _ | SPutDup _ => 1 | _ => 0 end.
Definition c_hold (p : cpc) : nat := match p with CRel _ _ | CRelStop | CRelErr _ _ => 1 | _ => 0 end.

Definition in_flight (g : gen) : nat :=
  length (g_q1 g) + length (g_q2 g) + length (g_q3 g) + length (g_sbuf g)
  + r_hold (g_r g) + w_hold (g_ws g) + s_hold (g_s g) + c_hold (g_c g).

(* permits + everything pulled and not yet handed to the consumer = the bound *)
Definition Acc (c : cfg) (g : gen) : Prop := g_sem g + in_flight g = kmax c.

(* ---------------------------------------------------------------------------------------------------------- *)
Lemma w_hold_set_nth i p l old :
  nth_error l i = Some old -> w_hold (set_nth i p l) + w_hold1 old = w_hold l + w_hold1 p.
Proof.
  revert i. induction l as [|a l IH]; intros [|i] H; cbn in *; try discriminate.
  - injection H as ->. unfold set_nth. cbn. lia.
  - specialize (IH i H). unfold set_nth in *. cbn. lia.
Qed.

Lemma buf_remove_len i b p : buf_find i b = Some p -> S (length (buf_remove i b)) = length b.
Proof.
  induction b as [|[j q] b IH]; cbn; [discriminate|].
  destruct (j =? i); intros H; cbn; [reflexivity|]. rewrite IH by exact H. reflexivity.
Qed.

Ltac break_match :=
  repeat match goal with
         | |- context [match ?x with _ => _ end] => destruct x eqn:?
         end.

Lemma acc_new_gen c base ff : Acc c (new_gen c base ff).
Proof.
  unfold Acc, in_flight, new_gen. cbn.
  assert (w_hold (if k_pm c then repeat WStart (k_nw c) else []) = 0) as ->.
  { destruct (k_pm c); [|reflexivity]. induction (k_nw c); cbn; auto. }
  destruct (k_pm c), (k_inorder c); cbn; lia.
Qed.

Lemma acc_rstep c m g pos : Acc c g -> Acc c (fst (rstep c m g pos)).
Proof.
  unfold Acc, in_flight, rstep. intros H.
  break_match; cbn in *; rewrite ?app_length in *; cbn in *;
    repeat match goal with E : g_r _ = _ |- _ => rewrite E in *; clear E | E : g_sem _ = _ |- _ => rewrite E in *; clear E end;
    cbn in *; lia.
Qed.

Lemma acc_wstep c i m g : Acc c g -> Acc c (wstep c i m g).
Proof.
  unfold Acc, in_flight, wstep. intros H.
  destruct (nth_error (g_ws g) i) as [p|] eqn:E; [|exact H].
  destruct p; cbn; break_match; cbn; subst;
    repeat match goal with
           | |- context [set_nth i ?p (g_ws g)] =>
               lazymatch goal with
               | _ : w_hold (set_nth i p (g_ws g)) + _ = _ |- _ => fail
               | _ => pose proof (w_hold_set_nth i p _ _ E)
               end
           end;
    cbn in *; rewrite ?app_length in *; cbn in *;
    repeat match goal with Eq : g_q1 g = _ |- _ => rewrite Eq in *; clear Eq end; cbn in *; try lia.
Qed.

Lemma acc_s_after g n :
  g_sem g + (length (g_q1 g) + length (g_q2 g) + length (g_q3 g) + length (g_sbuf g)
             + r_hold (g_r g) + w_hold (g_ws g) + c_hold (g_c g)) = n ->
  g_sem (s_after g) + (in_flight (s_after g)) = n.
Proof.
  unfold s_after, in_flight. intros H. destruct (buf_find (g_scur g) (g_sbuf g)) eqn:E; cbn.
  - pose proof (buf_remove_len _ _ _ E). lia.
  - lia.
Qed.

Lemma acc_sstep c m g : Acc c g -> Acc c (sstep c m g).
Proof.
  unfold Acc, sstep. intros H. destruct (g_s g) eqn:Es.
  - unfold in_flight in *. rewrite Es in H. cbn in *. lia.
  - unfold in_flight in *. rewrite Es in H. destruct (g_stop g); cbn in *; lia.
  - destruct m.
    + destruct (g_q2 g) as [|[p i] tl] eqn:Eq; [exact H|].
      unfold in_flight in H. rewrite Es, Eq in H. cbn in H.
      destruct (i =? g_scur (g <| g_q2 := tl |>)) eqn:Ei.
      * unfold in_flight. cbn. lia.
      * destruct (buf_find i (g_sbuf (g <| g_q2 := tl |>))) eqn:Ef.
        -- unfold in_flight. cbn. lia.
        -- apply acc_s_after. cbn. rewrite app_length. cbn. lia.
    + unfold in_flight in *. rewrite Es in H. cbn in *. lia.
  - apply acc_s_after. unfold in_flight in H. rewrite Es in H. cbn in *. rewrite app_length. cbn. lia.
  - unfold in_flight in *. rewrite Es in H. cbn in *. rewrite app_length. cbn. lia.
  - exact H.
Qed.

(* after_join only moves the consumer between pcs that hold nothing *)
Lemma after_join_frame c g k :
  let g' := fst (after_join c g k) in
  g_sem g' = g_sem g /\ g_q1 g' = g_q1 g /\ g_q2 g' = g_q2 g /\ g_q3 g' = g_q3 g /\ g_sbuf g' = g_sbuf g /\
  g_r g' = g_r g /\ g_ws g' = g_ws g /\ g_s g' = g_s g /\ c_hold (g_c g') = 0.
Proof. unfold after_join. destruct (next_join c g k (2 + k_nw c - k)); cbn; repeat split. Qed.

Lemma acc_after_join c g k : c_hold (g_c g) = 0 -> Acc c g -> Acc c (fst (after_join c g k)).
Proof.
  intros Hc H. destruct (after_join_frame c g k) as (H1 & H2 & H3 & H4 & H5 & H6 & H7 & H8 & H9).
  unfold Acc, in_flight in *. rewrite H1, H2, H3, H4, H5, H6, H7, H8, H9. lia.
Qed.

Lemma outq_cases c g :
  (outq c g = g_q1 g /\ forall q, set_outq c q g = g <| g_q1 := q |>) \/
  (outq c g = g_q2 g /\ forall q, set_outq c q g = g <| g_q2 := q |>) \/
  (outq c g = g_q3 g /\ forall q, set_outq c q g = g <| g_q3 := q |>).
Proof. unfold outq, set_outq. destruct (k_pm c), (k_inorder c); auto. Qed.

Lemma acc_cstep c m g : Acc c g -> Acc c (fst (cstep c m g)).
Proof.
  intros H. unfold cstep. destruct (g_c g) eqn:Ec.
  - exact H.
  - unfold Acc, in_flight in *. rewrite Ec in H. cbn in *. lia.
  - destruct m; [|exact H]. destruct (g_store g) as [|[v sp] tl]; [exact H|].
    unfold Acc, in_flight in *. rewrite Ec in H. cbn in *. lia.
  - unfold Acc, in_flight in *. rewrite Ec in H. destruct (g_stop g); [|destruct (k_pm c)]; cbn in *; lia.
  - unfold Acc, in_flight in *. rewrite Ec in H.
    destruct (g_mpstop g); [|destruct ((g_done g || negb (r_alive g)) && (g_sem g =? kmax c))]; cbn in *; lia.
  - unfold Acc, in_flight in *. rewrite Ec in H. cbn in *. lia.
  - unfold Acc, in_flight in *. rewrite Ec in H. cbn in *. lia.
  - destruct m.
    + destruct (outq c g) as [|[p i] tl] eqn:Eq; [exact H|].
      unfold Acc, in_flight in *. rewrite Ec in H.
      destruct (outq_cases c g) as [[E1 E2]|[[E1 E2]|[E1 E2]]]; rewrite E2; rewrite E1 in Eq; rewrite Eq in H;
        destruct p; cbn in *; lia.
    + unfold Acc, in_flight in *. rewrite Ec in H. cbn in *. lia.
  - unfold Acc, in_flight in *. rewrite Ec in H. destruct (pop_version (S i) (g_store g)) as [[sp|] rest]; cbn in *; lia.
  - unfold Acc, in_flight in *. rewrite Ec in H. destruct (k_pm c); cbn in *; lia.
  - unfold Acc, in_flight in *. rewrite Ec in H. destruct (k_pm c); [|cbn in *; lia].
    destruct e as [|[|e]]; [cbn in *; lia| |cbn in *; lia].
    cbn. destruct (pop_version (S i) (g_store g)) as [[sp|] rest]; cbn in *; lia.
  - unfold Acc, in_flight in *. rewrite Ec in H. cbn in *. lia.
  - destruct (k_pm c).
    + unfold Acc, in_flight in *. rewrite Ec in H. cbn in *. lia.
    + apply acc_after_join; [cbn; rewrite Ec; reflexivity|]. unfold Acc, in_flight in *. cbn. rewrite Ec in *. cbn in *. lia.
  - apply acc_after_join; [cbn; rewrite Ec; reflexivity|]. unfold Acc, in_flight in *. cbn. rewrite Ec in *. cbn in *. lia.
  - assert (Acc c (g <| g_c := CIdle |>)) as H0 by (unfold Acc, in_flight in *; rewrite Ec in H; cbn in *; lia).
    assert (forall k', Acc c (fst (after_join c g k'))) as HA.
    { intros k'. unfold after_join. destruct (next_join c g k' (2 + k_nw c - k')); cbn;
        unfold Acc, in_flight in *; rewrite Ec in H; cbn in *; lia. }
    destruct m; destruct (stage_alive c g k); auto.
Qed.

(* ---------------------------------------------------------------------------------------------------------- *)
(* lifting to the global state: every generation satisfies Acc, in every reachable state *)
Definition AccAll (c : cfg) (s : state) : Prop := Forall (Acc c) (s_gens s).

Lemma Forall_upd_nth {A} (P : A -> Prop) f i l :
  Forall P l -> (forall x, P x -> P (f x)) -> Forall P (upd_nth i f l).
Proof.
  intros H Hf. revert i. induction H as [|x l Hx Hl IH]; intros i; [destruct i; constructor|].
  destruct i; cbn; constructor; auto.
Qed.

Lemma Forall_removelast {A} (P : A -> Prop) l : Forall P l -> Forall P (removelast l).
Proof.
  induction 1 as [|x l Hx Hl IH]; cbn; [constructor|]. destruct l; [constructor|]. constructor; auto.
Qed.

Lemma cur_in s g : cur s = Some g -> In g (s_gens s).
Proof.
  unfold cur. induction (s_gens s) as [|a l IH]; cbn; [discriminate|].
  destruct l as [|b l]; cbn in *.
  - intros H. injection H as ->. left. reflexivity.
  - intros H. right. apply IH. exact H.
Qed.

Lemma acc_set_cur c g s : AccAll c s -> Acc c g -> AccAll c (set_cur g s).
Proof.
  unfold AccAll, set_cur. cbn. intros H Hg. apply Forall_app. split; [apply Forall_removelast, H | constructor; [exact Hg | constructor]].
Qed.

Lemma acc_cur c s g : AccAll c s -> cur s = Some g -> Acc c g.
Proof. intros H E. eapply Forall_forall; [exact H | apply cur_in, E]. Qed.

(* changing only the consumer's pc between pcs that hold nothing, or ff / ghost fields, keeps Acc *)
Lemma acc_set_c c g p : c_hold (g_c g) = 0 -> c_hold p = 0 -> Acc c g -> Acc c (g <| g_c := p |>).
Proof. unfold Acc, in_flight. cbn. intros. lia. Qed.
Lemma acc_set_ff c g n : Acc c g -> Acc c (g <| g_ff := n |>).
Proof. unfold Acc, in_flight. cbn. intros. lia. Qed.

Lemma acc_construct c l s : AccAll c s -> AccAll c (construct c l s).
Proof.
  unfold AccAll, construct. destruct (match l with Some j => nth j (s_states s) (0, 0) | None => (0, 0) end) as [base ff].
  cbn. intros H. apply Forall_app. split; [exact H | constructor; [apply acc_new_gen | constructor]].
Qed.

Lemma AccAll_log c o s : AccAll c (log o s) <-> AccAll c s.
Proof. unfold AccAll, log. cbn. tauto. Qed.

(* the consumer is idle (between operations) on the current generation *)
Definition CurIdle (s : state) : Prop := forall g, cur s = Some g -> c_hold (g_c g) = 0.

Lemma acc_dispatch c todo s : AccAll c s -> CurIdle s -> AccAll c (dispatch c todo s).
Proof.
  revert s. induction todo as [|a t IH]; intros s H Hi; cbn; [exact H|].
  destruct a; destruct (cur s) as [g|] eqn:Ec; cbn; try exact H.
  - apply acc_set_cur; [exact H|]. apply acc_set_c; [apply Hi, Ec | reflexivity | eapply acc_cur; eauto].
  - apply IH; [exact H|]. unfold CurIdle, cur in *. cbn. exact Hi.
  - apply acc_set_cur; [exact H|]. apply acc_set_c; [apply Hi, Ec | reflexivity | eapply acc_cur; eauto].
  - apply acc_construct, H.
  - apply acc_set_cur; [exact H|]. apply acc_set_c; [apply Hi, Ec | reflexivity | eapply acc_cur; eauto].
  - apply acc_construct, H.
  - apply acc_construct, H.
  - apply IH; [exact H|]. unfold CurIdle, cur in *. cbn. exact Hi.
  - apply IH; [exact H|]. unfold CurIdle, cur in *. cbn. exact Hi.
Qed.

Lemma last_app_single {A} (l : list A) (x : A) d : last (l ++ [x]) d = x.
Proof. induction l as [|a l IH]; cbn; [reflexivity|]. destruct (l ++ [x]) eqn:E; [destruct l; discriminate|]. exact IH. Qed.

Lemma cur_set_cur g s : cur (set_cur g s) = Some g.
Proof. unfold cur, set_cur. cbn. rewrite map_app. cbn. apply last_app_single. Qed.

Lemma after_join_some c g k o : snd (after_join c g k) = Some o -> g_c (fst (after_join c g k)) = CIdle.
Proof. unfold after_join. destruct (next_join c g k (2 + k_nw c - k)); cbn; [discriminate | reflexivity]. Qed.

(* when an operation of the consumer completes, the consumer is idle on that generation *)
Lemma cstep_some_idle c m g o : snd (cstep c m g) = Some o -> g_c (fst (cstep c m g)) = CIdle.
Proof.
  unfold cstep. destruct (g_c g) eqn:Ec; cbn; try discriminate.
  all: try (break_match; cbn; try discriminate; try reflexivity; fail).
  all: try (break_match; cbn; intros; try discriminate; try reflexivity; try (apply after_join_some with (o := o); assumption); fail).
Qed.

Lemma acc_complete c o s :
  AccAll c s -> (forall g, cur s = Some g -> g_c g = CIdle) -> AccAll c (complete c o s).
Proof.
  intros H Hidle. unfold complete. destruct (cur s) as [g|] eqn:Ec; [|exact H].
  assert (g_c g = CIdle) as Hg by (apply Hidle; reflexivity).
  assert (Acc c g) as Ag by (eapply acc_cur; eauto).
  assert (forall s', AccAll c s' -> cur s' = Some g \/ (exists g', cur s' = Some g' /\ g_c g' = CIdle) -> CurIdle s') as HCI.
  { intros s' _ [E|[g' [E Eg]]] g0 E0; rewrite E in E0; injection E0 as <-; [rewrite Hg | rewrite Eg]; reflexivity. }
  assert (forall p, c_hold p = 0 -> AccAll c (set_cur (g <| g_c := p |>) s)) as Hset.
  { intros p Hp. apply acc_set_cur; [exact H|]. apply acc_set_c; [rewrite Hg; reflexivity | exact Hp | exact Ag]. }
  assert (forall n, AccAll c (set_cur (g <| g_ff := n |>) s) /\ CurIdle (log ObsReset (set_cur (g <| g_ff := n |>) s))) as Hff.
  { intros n. split; [apply acc_set_cur; [exact H | apply acc_set_ff, Ag]|].
    intros g0 E0. unfold log, cur in E0. cbn in E0. rewrite map_app in E0. cbn in E0. rewrite last_app_single in E0.
    injection E0 as <-. cbn. rewrite Hg. reflexivity. }
  assert (forall ob, CurIdle (log ob s)) as Hlog.
  { intros ob g0 E0. unfold log, cur in E0. cbn in E0. fold (cur s) in E0. rewrite Ec in E0. injection E0 as <-. rewrite Hg. reflexivity. }
  destruct o.
  - destruct (g_ff g) as [|[|n]].
    + apply acc_dispatch; [apply AccAll_log, H | apply Hlog].
    + apply acc_dispatch; [apply AccAll_log, (proj1 (Hff 0)) | apply (proj2 (Hff 0))].
    + apply acc_set_cur; [exact H|]. apply acc_set_c; [cbn; rewrite Hg; reflexivity | reflexivity | apply acc_set_ff, Ag].
  - destruct (g_ff g).
    + apply acc_dispatch; [apply AccAll_log, H | apply Hlog].
    + unfold AccAll. cbn. exact H.
  - destruct (g_ff g) as [|n].
    + apply acc_dispatch; [apply AccAll_log, H | apply Hlog].
    + destruct (k_pm c && (e =? 1)).
      * destruct n.
        -- apply acc_dispatch; [apply AccAll_log, (proj1 (Hff 0)) | apply (proj2 (Hff 0))].
        -- apply acc_set_cur; [exact H|]. apply acc_set_c; [cbn; rewrite Hg; reflexivity | reflexivity | apply acc_set_ff, Ag].
      * unfold AccAll. cbn. exact H.
  - destruct (0 <? g_ff g).
    + apply Hset. reflexivity.
    + apply acc_dispatch; [apply AccAll_log, H | apply Hlog].
  - apply acc_dispatch; [exact H|]. intros g0 E0. rewrite Ec in E0. injection E0 as <-. rewrite Hg. reflexivity.
Qed.

(* ---------------------------------------------------------------------------------------------------------- *)
Definition Inv (c : cfg) (s : state) : Prop := AccAll c s /\ (s_started s = false -> s_gens s = []).

Lemma inv_init c script : Inv c (init script).
Proof. split; [constructor | reflexivity]. Qed.

Lemma dispatch_started c todo s : s_started s = true -> s_started (dispatch c todo s) = true.
Proof.
  revert s. induction todo as [|a t IH]; intros s H; cbn; [exact H|].
  destruct a; destruct (cur s); cbn; auto; try (apply IH; cbn; exact H).
  all: try (unfold construct; destruct (match load with Some j => nth j (s_states s) (0, 0) | None => (0, 0) end); cbn; exact H).
Qed.

Lemma complete_started c o s : s_started s = true -> s_started (complete c o s) = true.
Proof.
  intros H. unfold complete. destruct (cur s); [|exact H].
  destruct o; repeat match goal with |- context [match ?x with _ => _ end] => destruct x end; cbn;
    try exact H; try (apply dispatch_started; cbn; exact H).
Qed.

Lemma inv_step c s ch : Inv c s -> Inv c (step c s ch).
Proof.
  intros HI. pose proof HI as [H Hs]. destruct ch as [t m]. unfold step. destruct t as [|gi r].
  - destruct (s_cdone s); [exact HI|].
    destruct (s_started s) eqn:Est; cbn.
    + destruct (cur s) as [g|] eqn:Ec; [|exact HI].
      destruct (cstep c m g) as [g' o] eqn:Estep.
      assert (Acc c g') as Ag' by (replace g' with (fst (cstep c m g)) by (rewrite Estep; reflexivity); apply acc_cstep; eapply acc_cur; eauto).
      assert (AccAll c (set_cur g' s)) as HA by (apply acc_set_cur; assumption).
      destruct o as [o|].
      * split.
        -- apply acc_complete; [exact HA|]. intros g0 E0. rewrite cur_set_cur in E0. injection E0 as <-.
           replace g' with (fst (cstep c m g)) by (rewrite Estep; reflexivity).
           apply cstep_some_idle with (o := o). rewrite Estep. reflexivity.
        -- intros Hf. rewrite complete_started in Hf; [discriminate | exact Est].
      * split; [exact HA | intros Hf; cbn in Hf; congruence].
    + split.
      * apply acc_dispatch; [exact H|]. intros g E. unfold cur in E. cbn in E. rewrite (Hs eq_refl) in E. discriminate.
      * intros Hf. rewrite dispatch_started in Hf; [discriminate | reflexivity].
  - destruct r as [|i|].
    + destruct (nth_error (s_gens s) gi) as [g|] eqn:En; [|exact HI].
      destruct (rstep c m g (s_pos s)) as [g' pos'] eqn:Er. split.
      * unfold AccAll. cbn. apply Forall_forall. intros x Hx.
        assert (Forall (Acc c) (upd_nth gi (fun _ => g') (s_gens s))) as HF.
        { clear Hx. revert gi En. induction H as [|a l Ha Hl IH]; intros gi En; [destruct gi; constructor|].
          destruct gi; cbn in *.
          - injection En as ->. constructor; [|exact Hl].
            replace g' with (fst (rstep c m g (s_pos s))) by (rewrite Er; reflexivity). apply acc_rstep, Ha.
          - constructor; [exact Ha | apply IH; [|exact En]]. intros Hf. specialize (Hs Hf). discriminate. }
        eapply Forall_forall in HF; eauto.
      * intros Hf. cbn in Hf. specialize (Hs Hf). rewrite Hs in En. destruct gi; discriminate.
    + split; [|intros Hf; cbn in *; rewrite (Hs Hf); destruct gi; reflexivity].
      unfold AccAll. cbn. apply Forall_upd_nth; [exact H | intros x; apply acc_wstep].
    + split; [|intros Hf; cbn in *; rewrite (Hs Hf); destruct gi; reflexivity].
      unfold AccAll. cbn. apply Forall_upd_nth; [exact H | intros x; apply acc_sstep].
Qed.

Theorem inv_reachable c script sched : Inv c (run c sched (init script)).
Proof.
  unfold run. generalize (inv_init c script). generalize (init script).
  induction sched as [|ch sched IH]; intros s H; cbn [fold_left]; [exact H|]. apply IH, inv_step, H.
Qed.

(* C12, first half: in every reachable state of every schedule, every generation (zombies of earlier iterators
   included) has at most kmax items pulled from the source and not yet handed back to the consumer *)
Theorem readahead_bounded c script sched g :
  In g (s_gens (run c sched (init script))) -> in_flight g <= kmax c /\ g_sem g <= kmax c.
Proof.
  intros Hin. destruct (inv_reachable c script sched) as [H _].
  unfold AccAll in H. rewrite Forall_forall in H. specialize (H g Hin). unfold Acc in H. lia.
Qed.

(* ---------------------------------------------------------------------------------------------------------- *)
(* snapshot store: pop_version adopts only the exact version, discards older ones, leaves newer ones *)
Lemma pop_version_exact v l p : fst (pop_version v l) = Some p -> In (v, p) l.
Proof.
  induction l as [|[ver val] tl IH]; cbn; [discriminate|].
  destruct (ver <=? v) eqn:Ele; [|discriminate].
  destruct (pop_version v tl) as [res rest]. cbn in *. destruct res as [r|].
  - intros H. right. apply IH, H.
  - destruct (ver =? v) eqn:Eeq; [|discriminate]. intros H. injection H as <-. apply Nat.eqb_eq in Eeq. subst. left. reflexivity.
Qed.

Lemma pop_version_rest v l : exists k, snd (pop_version v l) = skipn k l /\ Forall (fun e => fst e <= v) (firstn k l).
Proof.
  induction l as [|[ver val] tl IH]; cbn.
  - exists 0. split; [reflexivity | constructor].
  - destruct (ver <=? v) eqn:Ele.
    + destruct IH as [k [E F]]. destruct (pop_version v tl) as [res rest]. cbn in *. exists (S k). split; [exact E|].
      cbn. constructor; [apply Nat.leb_le, Ele | exact F].
    + exists 0. split; [reflexivity | constructor].
Qed.

(* in a store sorted by strictly increasing version, whatever stays after pop_version v is newer than v *)
Fixpoint inc (l : list (nat * nat)) : Prop :=
  match l with
  | a :: (b :: _) as t => fst a < fst b /\ inc t
  | _ => True
  end.

Lemma inc_lower_bound v l : inc l -> (match l with a :: _ => v < fst a | [] => True end) -> Forall (fun e : nat * nat => v < fst e) l.
Proof.
  induction l as [|a l IH]; intros Hi Hv; [constructor|].
  constructor; [exact Hv|]. destruct l as [|b l]; [constructor|].
  destruct Hi as [Hab Hi]. apply IH; [exact Hi | lia].
Qed.

Lemma pop_version_leaves_newer v l : inc l -> Forall (fun e : nat * nat => v < fst e) (snd (pop_version v l)).
Proof.
  induction l as [|[ver val] tl IH]; intros Hs; cbn; [constructor|].
  destruct (ver <=? v) eqn:Ele.
  - destruct (pop_version v tl) as [res rest] eqn:E. cbn. apply IH. destruct tl; [exact I | apply Hs].
  - cbn. apply Nat.leb_gt in Ele. apply inc_lower_bound; [exact Hs | exact Ele].
Qed.
