(* Properties_C13.v — placeholder until ApiProofs.v lands; see DESIGN.md 4 C13. *)
From PD Require Import Base NodeModel NodeObs.
Open Scope string_scope. Open Scope list_scope.
(* regression for D4 (fixed by d28e551): state_dict(); load_state_dict(sd); iter() starts from sd *)
Example C13_state_load_iter :
  let p := PSrc (map INat [0;1;2;3;4]) false in
  loader_obs p true [HIter; HNext; HNext; HState; HFresh; HState; HLoad 0; HIter; HNext]
  = OL [OS "iter"; OL [OS "item"; OZ 0]; OL [OS "item"; OZ 1];
        OL [OS "state"; OL [OL [OS "num_yielded"; OZ 2]; OL [OS "root"; OL [OL [OS "_num_yielded"; OZ 2]]]]];
        OS "fresh";
        OL [OS "state"; OL [OL [OS "num_yielded"; OZ 0]; OL [OS "root"; OL [OL [OS "_num_yielded"; OZ 0]]]]];
        OS "load"; OS "iter"; OL [OS "item"; OZ 2]].
Proof. vm_compute. reflexivity. Qed.
Theorem C13_placeholder : True. Proof. exact I. Qed.
Print Assumptions C13_placeholder.
