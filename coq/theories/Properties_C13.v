(* Properties_C13.v — C13: iter(), state_dict() and load_state_dict() compose as documented.
   Nodes Loader part on NodeModel.v (proofs in NodeResumeProofs.v); see DESIGN.md 4 C13 for the
   StatefulDataLoader front-end. *)
From PD Require Import Base NodeModel NodeObs NodeResumeProofs.
Open Scope string_scope. Open Scope list_scope. Open Scope nat_scope.

(* a state taken inside the epoch resumes there, whatever restart_on_stop_iteration is *)
Theorem C13_loader_resume_mid : forall p k restart0 restart, pipe_ok p = true -> k < length (sem p 0) ->
  ld_drain p (FUEL p) (ld_resumed p restart0 restart k) = (skipn k (sem p 0), true).
Proof. exact loader_resume_mid. Qed.
Print Assumptions C13_loader_resume_mid.

(* a state taken after the last item resumes into the next epoch ... *)
Theorem C13_end_state_resumes_next_epoch : forall p restart0, pipe_ok p = true ->
  ld_drain p (FUEL p) (ld_resumed p restart0 true (length (sem p 0))) = (sem p 1, true).
Proof. exact loader_resume_end_restart. Qed.
Print Assumptions C13_end_state_resumes_next_epoch.

(* ... or, with restart_on_stop_iteration = False, into an empty one *)
Theorem C13_end_state_norestart_empty : forall p restart0, pipe_ok p = true ->
  ld_drain p (FUEL p) (ld_resumed p restart0 false (length (sem p 0))) = ([], true).
Proof. exact loader_resume_end_norestart. Qed.
Print Assumptions C13_end_state_norestart_empty.

(* regression for D4 (fixed by d28e551): state_dict(); load_state_dict(sd); iter() starts from sd *)
Example C13_state_load_iter :
  let p := PSrc (map INat [0;1;2;3;4]) false in
  loader_obs p true [HIter; HNext; HNext; HState; HFresh; HState; HLoad 0; HIter; HNext]
  = OL [OS "iter"; OL [OS "item"; OZ 0]; OL [OS "item"; OZ 1];
        OL [OS "state"; OL [OL [OS "num_yielded"; OZ 2]; OL [OS "root"; OL [OL [OS "_num_yielded"; OZ 2]]]]];
        OS "fresh";
        OL [OS "state"; OL [OL [OS "num_yielded"; OZ 0]; OL [OS "root"; OL [OL [OS "_num_yielded"; OZ 0]]]]];
        OS "load"; OS "iter"; OL [OS "item"; OZ 2]].
Proof. vm_compute. reflexivity. Qed.
