(* Properties_C13.v — C13: iter(), state_dict() and load_state_dict() compose as documented in any order.
   Nodes Loader part.  Model: NodeModel.v (ld_iter / ld_next / ld_state_dict / ld_load with the
   LoaderIterator look-ahead cache); reference: the list machine [rl] of ApiProofs.v — epochs are the
   lists [sem p e], a cursor, an optional pending state, and the "created by state_dict()" flag — about
   30 lines, readable in a minute.  [run_history] is the model driven by an arbitrary finite op
   sequence over {iter, next, state_dict, load_state_dict(any earlier state), new Loader object}.
   Statements printed by Coq from the proof files (harness/mkprops.py).
   The refinement holds for ALL op sequences; the side condition [faithful_ok p restart :=
   restart || no_sampler p || lazy_resume p] excludes exactly the known finding D15: restoring an
   Unbatcher / Prefetcher / ParallelMapper pulls from its source, so an epoch-dependent sampler below
   it counts the epoch as started although the user requested nothing (counterexamples
   loader_refines_ref_cex_* are Qed-closed in ApiProofs.v). *)
From PD Require Import Base NodeModel NodeObs NodeResumeProofs ApiProofs.
Open Scope string_scope. Open Scope list_scope. Open Scope nat_scope.

Theorem C13_loader_refines_gen :
  forall (p : pipe) (restart look : bool) (ops : list hop),
       pipe_ok p = true ->
       wf_ops ops = true ->
       compat p restart look = true \/ no_load ops = true ->
       map strip_state (run_history p restart ops ld_new []) = ref_hist_from p restart look ops rl_new [].
Proof. exact loader_refines_gen. Qed.
Print Assumptions C13_loader_refines_gen.

Theorem C13_loader_refines_ref :
  forall (p : pipe) (restart : bool) (ops : list hop),
       pipe_ok p = true ->
       wf_ops ops = true ->
       faithful_ok p restart = true ->
       map strip_state (run_history p restart ops ld_new []) = ref_history p restart ops.
Proof. exact loader_refines_ref. Qed.
Print Assumptions C13_loader_refines_ref.

Theorem C13_loader_refines_ref_restart :
  forall (p : pipe) (ops : list hop),
       pipe_ok p = true ->
       wf_ops ops = true -> map strip_state (run_history p true ops ld_new []) = ref_history p true ops.
Proof. exact loader_refines_ref_restart. Qed.
Print Assumptions C13_loader_refines_ref_restart.

Theorem C13_loader_refines_ref_no_load :
  forall (p : pipe) (restart : bool) (ops : list hop),
       pipe_ok p = true ->
       wf_ops ops = true ->
       no_load ops = true ->
       map strip_state (run_history p restart ops ld_new []) = ref_history p restart ops.
Proof. exact loader_refines_ref_no_load. Qed.
Print Assumptions C13_loader_refines_ref_no_load.

Theorem C13_loader_refines_ideal_ref :
  forall (p : pipe) (restart : bool) (ops : list hop),
       pipe_ok p = true ->
       wf_ops ops = true ->
       no_sampler p = true ->
       map strip_state (run_history p restart ops ld_new []) = ideal_ref_history p restart ops.
Proof. exact loader_refines_ideal_ref. Qed.
Print Assumptions C13_loader_refines_ideal_ref.

Theorem C13_state_dict_before_iter_free_gen :
  forall (p : pipe) (restart : bool) (rest : list hop),
       pipe_ok p = true ->
       no_load rest = true ->
       wf_from true 0 rest = true ->
       map strip_state (run_history p restart (HState :: HIter :: rest) ld_new []) =
       OS "state" :: map strip_state (run_history p restart (HIter :: rest) ld_new []).
Proof. exact state_dict_before_iter_free_gen. Qed.
Print Assumptions C13_state_dict_before_iter_free_gen.

Theorem C13_state_dict_before_iter_starts_at_0 :
  forall (p : pipe) (restart : bool) (n : nat),
       pipe_ok p = true ->
       map strip_state (run_history p restart (HState :: HIter :: repeat HNext n) ld_new []) =
       OS "state" :: OS "iter" :: ref_nexts (sem p 0) n.
Proof. exact state_dict_before_iter_starts_at_0. Qed.
Print Assumptions C13_state_dict_before_iter_starts_at_0.

Theorem C13_saved_states_positions :
  forall (p : pipe) (restart : bool) (ops : list hop),
       pipe_ok p = true ->
       wf_ops ops = true ->
       faithful_ok p restart = true \/ no_load ops = true ->
       Forall2 (sd_ok p) (saved_states p restart ops) (ref_positions p restart ops).
Proof. exact saved_states_positions. Qed.
Print Assumptions C13_saved_states_positions.

Theorem C13_saved_state_is_position :
  forall (p : pipe) (restart restart' : bool) (ops : list hop) (i : nat) (s : sd) (e k : nat),
       pipe_ok p = true ->
       wf_ops ops = true ->
       faithful_ok p restart = true \/ no_load ops = true ->
       nth_error (saved_states p restart ops) i = Some s ->
       nth_error (ref_positions p restart ops) i = Some (e, k) ->
       k <= Datatypes.length (sem p e) /\
       sd_field s "num_yielded" = SNat k /\
       (k < Datatypes.length (sem p e) ->
        ld_drain p (FUEL p) (ld_iter p restart' (ld_load ld_new s)) = (skipn k (sem p e), true)) /\
       (k = Datatypes.length (sem p e) ->
        ld_drain p (FUEL p) (ld_iter p true (ld_load ld_new s)) = (sem p (S e), true) /\
        ld_drain p (FUEL p) (ld_iter p false (ld_load ld_new s)) = ([], true)).
Proof. exact saved_state_is_position. Qed.
Print Assumptions C13_saved_state_is_position.

Theorem C13_loader_resume_mid :
  forall (p : pipe) (k : nat) (restart0 restart : bool),
       pipe_ok p = true ->
       k < Datatypes.length (sem p 0) ->
       ld_drain p (FUEL p) (ld_resumed p restart0 restart k) = (skipn k (sem p 0), true).
Proof. exact loader_resume_mid. Qed.
Print Assumptions C13_loader_resume_mid.

Theorem C13_loader_resume_end_restart :
  forall (p : pipe) (restart0 : bool),
       pipe_ok p = true ->
       ld_drain p (FUEL p) (ld_resumed p restart0 true (Datatypes.length (sem p 0))) = (sem p 1, true).
Proof. exact loader_resume_end_restart. Qed.
Print Assumptions C13_loader_resume_end_restart.

Theorem C13_loader_resume_end_norestart :
  forall (p : pipe) (restart0 : bool),
       pipe_ok p = true ->
       ld_drain p (FUEL p) (ld_resumed p restart0 false (Datatypes.length (sem p 0))) = ([], true).
Proof. exact loader_resume_end_norestart. Qed.
Print Assumptions C13_loader_resume_end_norestart.

(* regression for D4 (fixed by d28e551): state_dict(); load_state_dict(sd); iter() starts from sd *)
Example C13_state_load_iter :
  let p := PSrc (map INat [0;1;2;3;4]) false in
  loader_obs p true [HIter; HNext; HNext; HState; HFresh; HState; HLoad 0; HIter; HNext]
  = OL [OS "iter"; OL [OS "item"; OZ 0]; OL [OS "item"; OZ 1];
        OL [OS "state"; OL [OL [OS "num_yielded"; OZ 2]; OL [OS "root"; OL [OL [OS "_num_yielded"; OZ 2]]]]];
        OS "fresh";
        OL [OS "state"; OL [OL [OS "num_yielded"; OZ 0]; OL [OS "root"; OL [OL [OS "_num_yielded"; OZ 0]]]]];
        OS "load"; OS "iter"; OL [OS "item"; OZ 2]].
Proof. vm_compute. reflexivity. Qed.

(* ---- the StatefulDataLoader front-end (SdlApiModel.v: __iter__ / state_dict / load_state_dict / _get_iterator over
   abstract iterators, iterator objects in a heap because the user may still hold an old one), for EVERY front-end state ---- *)
From PD Require SdlApiModel SdlApiProofs.

(* "each iter() starts a new full epoch unless a state was loaded since the last iter()" ... *)
Theorem C13_sdl_iter_without_pending_starts_fresh : forall persistent f,
  SdlApiProofs.heap_ok f -> SdlApiModel.fe_flag f = false -> SdlApiModel.fe_pending f = None ->
  let f' := SdlApiModel.fe_iter persistent f in
  exists i, SdlApiModel.fe_handle f' = Some i /\ SdlApiModel.fe_iterator f' = Some i /\ SdlApiProofs.it_of f' i = (0, false) /\
            SdlApiModel.fe_pending f' = None /\ SdlApiModel.fe_flag f' = false.
Proof. exact SdlApiProofs.iter_without_pending_starts_fresh. Qed.
Print Assumptions C13_sdl_iter_without_pending_starts_fresh.

(* "... in which case it starts from that state; a state taken after the last item resumes into the next epoch" *)
Theorem C13_sdl_iter_after_load_starts_from_state : forall f s,
  SdlApiModel.fe_flag f = false -> SdlApiModel.fe_iterator f = None -> SdlApiModel.fe_pending f = Some s ->
  forall persistent, let f' := SdlApiModel.fe_iter persistent f in
  exists i, SdlApiModel.fe_handle f' = Some i /\ SdlApiModel.fe_iterator f' = Some i /\
            SdlApiProofs.it_of f' i = SdlApiProofs.started_from s /\ SdlApiModel.fe_pending f' = None.
Proof. exact SdlApiProofs.iter_after_load_starts_from_state. Qed.
Print Assumptions C13_sdl_iter_after_load_starts_from_state.

(* "state_dict() refers to the most recently requested iterator and, if none exists, neither consumes data nor causes the
   next iter() to start twice": it builds ONE iterator (from the pending state, if any) and the next iter() hands out that one *)
Theorem C13_sdl_state_then_iter_hands_out_that_iterator : forall persistent f, SdlApiModel.fe_iterator f = None ->
  let '(s, f1) := SdlApiModel.fe_state f in
  let f2 := SdlApiModel.fe_iter persistent f1 in
  s = match SdlApiModel.fe_pending f with Some p => p | None => (0, false) end /\
  length (SdlApiModel.fe_heap f1) = S (length (SdlApiModel.fe_heap f)) /\
  (snd s = false -> SdlApiModel.fe_handle f2 = Some (length (SdlApiModel.fe_heap f)) /\ SdlApiModel.fe_heap f2 = SdlApiModel.fe_heap f1 /\
                    SdlApiProofs.it_of f2 (length (SdlApiModel.fe_heap f)) = s).
Proof. exact SdlApiProofs.state_then_iter_hands_out_that_iterator. Qed.
Print Assumptions C13_sdl_state_then_iter_hands_out_that_iterator.

Theorem C13_sdl_state_is_pure : forall f, SdlApiProofs.heap_ok f ->
  let '(s, f1) := SdlApiModel.fe_state f in
  (forall i, i < length (SdlApiModel.fe_heap f) -> SdlApiProofs.it_of f1 i = SdlApiProofs.it_of f i) /\
  SdlApiModel.fe_handle f1 = SdlApiModel.fe_handle f /\ SdlApiModel.fe_state f1 = (s, f1).
Proof. exact SdlApiProofs.state_is_pure. Qed.
Print Assumptions C13_sdl_state_is_pure.

Theorem C13_sdl_load_drops_iterator : forall f sd,
  let f' := SdlApiModel.fe_load f sd in
  SdlApiModel.fe_iterator f' = None /\ SdlApiModel.fe_flag f' = false /\ SdlApiModel.fe_heap f' = SdlApiModel.fe_heap f /\
  SdlApiModel.fe_handle f' = SdlApiModel.fe_handle f /\
  SdlApiModel.fe_pending f' = match sd with SdlApiModel.SdEmpty => SdlApiModel.fe_pending f | SdlApiModel.SdPos st => Some st end.
Proof. exact SdlApiProofs.load_drops_iterator. Qed.
Print Assumptions C13_sdl_load_drops_iterator.
