(* SdlApiProofs.v — the StatefulDataLoader front-end (SdlApiModel.v: __iter__ / state_dict / load_state_dict / _get_iterator
   over abstract iterators): the clauses of C13 as theorems about the flag machine, for EVERY front-end state. *)
From Coq Require Import List Arith Bool Lia.
From PD Require Import Base SdlApiModel.
Import ListNotations.
Open Scope nat_scope.

Definition it_of (f : fe) (i : nat) : itst := nth i (fe_heap f) (0, false).
Definition heap_ok (f : fe) : Prop :=
  (forall i, fe_iterator f = Some i -> i < length (fe_heap f)) /\ (fe_flag f = true -> fe_iterator f <> None).

Lemma nth_app_new {A} (l : list A) x d : nth (length l) (l ++ [x]) d = x.
Proof. rewrite app_nth2 by lia. rewrite Nat.sub_diag. reflexivity. Qed.

Lemma nth_set_same {A} (l : list A) i x d : i < length l -> nth i (set_nth l i x) d = x.
Proof. unfold set_nth. revert i. induction l as [|a l IH]; intros [|i] H; cbn in *; try lia; auto. apply IH. lia. Qed.

Lemma nth_set_other {A} (l : list A) i j x d : j <> i -> nth j (set_nth l i x) d = nth j l d.
Proof.
  unfold set_nth. revert i j. induction l as [|a l IH]; intros i j Hj.
  - destruct i, j; reflexivity.
  - destruct i as [|i], j as [|j]; cbn; try reflexivity; try lia. apply IH. lia.
Qed.

(* what the user's handle points at after iter(): "each iter() starts a new full epoch unless a state was loaded since the
   last iter(), in which case it starts from that state; a state taken after the last item resumes into the next epoch" —
   and when state_dict() built the iterator just before, that iterator is the one handed out (no second start) *)
Definition started_from (s : itst) : itst := if snd s then (0, false) else s.

Theorem iter_without_pending_starts_fresh persistent f : heap_ok f -> fe_flag f = false -> fe_pending f = None ->
  let f' := fe_iter persistent f in
  exists i, fe_handle f' = Some i /\ fe_iterator f' = Some i /\ it_of f' i = (0, false) /\ fe_pending f' = None /\ fe_flag f' = false.
Proof.
  intros [H1 H2] Hfl Hp. unfold fe_iter, it_of. rewrite Hfl.
  destruct persistent.
  - destruct (fe_iterator f) as [i|] eqn:Ei.
    + specialize (H1 i eq_refl). cbn. rewrite nth_set_same by exact H1. cbn. exists i. repeat split; auto.
      apply nth_set_same. exact H1.
    + unfold get_iterator, with_iterator. rewrite Hp. cbn. rewrite nth_app_new. cbn. exists (length (fe_heap f)). repeat split; auto. apply nth_app_new.
  - unfold get_iterator, with_iterator. rewrite Hp. cbn. rewrite nth_app_new. cbn. exists (length (fe_heap f)). repeat split; auto. apply nth_app_new.
Qed.

Theorem iter_after_load_starts_from_state f s : fe_flag f = false -> fe_iterator f = None -> fe_pending f = Some s ->
  forall persistent, let f' := fe_iter persistent f in
  exists i, fe_handle f' = Some i /\ fe_iterator f' = Some i /\ it_of f' i = started_from s /\ fe_pending f' = None.
Proof.
  intros Hfl Hi Hp persistent. unfold fe_iter, it_of, started_from. rewrite Hfl, Hi.
  destruct persistent; unfold get_iterator, with_iterator; rewrite Hp; cbn; rewrite nth_app_new; destruct s as [k fin]; cbn;
    destruct fin; cbn.
  all: try (eexists; repeat split; try apply nth_app_new; fail).
  exists (length (fe_heap f)). repeat split. apply nth_set_same. rewrite app_length. cbn. lia.
Qed.

(* state_dict() with no iterator builds ONE iterator (from the pending state, if any), marks it, and the next iter() hands
   out exactly that iterator: it neither consumes data nor makes the epoch start twice *)
Theorem state_then_iter_hands_out_that_iterator persistent f : fe_iterator f = None ->
  let '(s, f1) := fe_state f in
  let f2 := fe_iter persistent f1 in
  s = match fe_pending f with Some p => p | None => (0, false) end /\
  length (fe_heap f1) = S (length (fe_heap f)) /\
  (snd s = false -> fe_handle f2 = Some (length (fe_heap f)) /\ fe_heap f2 = fe_heap f1 /\ it_of f2 (length (fe_heap f)) = s).
Proof.
  intros Hi. unfold fe_state. rewrite Hi. unfold get_iterator.
  destruct (fe_pending f) as [[k fin]|]; cbn; rewrite nth_app_new; (split; [reflexivity|]); (split; [rewrite app_length; cbn; lia|]);
    intros Hs; cbn in Hs; subst; unfold fe_iter, it_of; cbn; rewrite nth_app_new; cbn; repeat split; apply nth_app_new.
Qed.

(* state_dict() never changes an iterator that already exists, and asking twice is the same as asking once *)
Theorem state_is_pure f : heap_ok f ->
  let '(s, f1) := fe_state f in
  (forall i, i < length (fe_heap f) -> it_of f1 i = it_of f i) /\ fe_handle f1 = fe_handle f /\
  fe_state f1 = (s, f1).
Proof.
  intros [H1 H2]. unfold fe_state. destruct (fe_iterator f) as [i|] eqn:Ei.
  - rewrite Ei. repeat split. rewrite Ei. reflexivity.
  - unfold get_iterator. cbn. repeat split.
    intros i Hi. unfold it_of. cbn. rewrite app_nth1 by exact Hi. reflexivity.
Qed.

(* load_state_dict: drops the loader's iterator (the user's handle keeps working on its own object); {} keeps a pending state *)
Theorem load_drops_iterator f sd :
  let f' := fe_load f sd in
  fe_iterator f' = None /\ fe_flag f' = false /\ fe_heap f' = fe_heap f /\ fe_handle f' = fe_handle f /\
  fe_pending f' = match sd with SdEmpty => fe_pending f | SdPos st => Some st end.
Proof. cbn. repeat split. Qed.

(* next() only moves the iterator the user's handle points at *)
Theorem next_moves_only_the_handle L f i : fe_handle f = Some i -> i < length (fe_heap f) ->
  let '(o, f') := fe_next L f in
  (forall j, j <> i -> it_of f' j = it_of f j) /\ fe_iterator f' = fe_iterator f /\ fe_pending f' = fe_pending f /\
  match o with
  | FBatch k => it_of f i = (k, snd (it_of f i)) /\ k < L /\ it_of f' i = (S k, snd (it_of f i))
  | FStop => L <= fst (it_of f i) /\ it_of f' i = (fst (it_of f i), true)
  | FNoIter => False
  end.
Proof.
  intros Hh Hi. unfold fe_next, it_of. rewrite Hh. destruct (nth i (fe_heap f) (0, false)) as [k fin] eqn:E.
  assert (forall x j, j <> i -> nth j (set_nth (fe_heap f) i x) (0, false) = nth j (fe_heap f) (0, false)) as Hneq
    by (intros x j Hj; apply nth_set_other; exact Hj).
  destruct (Nat.ltb_spec k L); cbn; repeat split; auto; try (rewrite nth_set_same by exact Hi; reflexivity); lia.
Qed.
