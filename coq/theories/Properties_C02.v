(* Properties_C02.v — C02: a nodes Loader checkpoint at any item resumes the exact remaining stream.
   Model: NodeModel.v.  Statements only; proofs in NodeResumeProofs.v.
   [pipe_ok] only excludes batch_size 0 (which makes Batcher yield [] forever).
   Every theorem is for ALL pipelines of the syntax (arbitrary nesting of IterableWrapper over plain
   and Stateful iterables, SamplerWrapper, Mapper, ParallelMapper / Prefetcher [sequential
   specification, any snapshot_frequency incl. 0], Batcher, Unbatcher, Filter), all sources (any
   length incl. 0, items of any shape incl. INone), and every interruption point k. *)
From PD Require Import Base NodeModel NodeResumeProofs.
Open Scope string_scope. Open Scope list_scope. Open Scope nat_scope.

(* node level: state after k items, loaded into a FRESH object, yields exactly the rest;
   and taking the state disturbed nothing *)
Theorem C02_node_resume_exact : forall p k, pipe_ok p = true -> k <= length (sem p 0) ->
  let '(s, t') := node_state p (at_k p k) in
  fst (node_run p (FUEL p) (node_reset p RUninit (Some s))) = skipn k (sem p 0)
  /\ fst (node_run p (FUEL p) t') = skipn k (sem p 0).
Proof. exact node_resume_exact. Qed.
Print Assumptions C02_node_resume_exact.

(* ... and the following epoch of the resumed object is the uninterrupted one *)
Theorem C02_node_resume_next_epoch : forall p k, pipe_ok p = true -> k <= length (sem p 0) ->
  let '(s, _) := node_state p (at_k p k) in
  let t1 := snd (node_run p (FUEL p) (node_reset p RUninit (Some s))) in
  fst (node_run p (FUEL p) (node_reset p t1 None)) = sem p 1.
Proof. exact node_resume_next_epoch. Qed.
Print Assumptions C02_node_resume_next_epoch.

(* chains: [Reach p e k t] = t is reachable by ANY finite sequence of next / state_dict /
   "load the current state into any object" / "drain and start the next epoch" steps; in every
   such state the node is exactly at position k of epoch e of the reference semantics *)
Theorem C02_reach_exact : forall p e k t, pipe_ok p = true -> Reach p e k t ->
  k <= length (sem p e) /\
  fst (node_next p t) = outc (nth_error (sem p e) k) /\
  fst (node_run p (FUEL p) t) = skipn k (sem p e).
Proof. exact reach_exact. Qed.
Print Assumptions C02_reach_exact.

Theorem C02_node_resume_chain : forall p k j, pipe_ok p = true -> k + j <= length (sem p 0) ->
  let '(s, _) := node_state p (at_k p k) in
  let t1 := nexts p j (node_reset p RUninit (Some s)) in
  let '(s2, t2) := node_state p t1 in
  fst (node_run p (FUEL p) (node_reset p RUninit (Some s2))) = skipn (k + j) (sem p 0)
  /\ fst (node_run p (FUEL p) t2) = skipn (k + j) (sem p 0).
Proof. exact node_resume_chain. Qed.
Print Assumptions C02_node_resume_chain.

(* Loader level (look-ahead cache, restart_on_stop_iteration): state_dict after k items of the
   first epoch, loaded into a NEW Loader, then iter() and drain *)
Theorem C02_loader_resume_mid : forall p k restart0 restart, pipe_ok p = true -> k < length (sem p 0) ->
  ld_drain p (FUEL p) (ld_resumed p restart0 restart k) = (skipn k (sem p 0), true).
Proof. exact loader_resume_mid. Qed.
Print Assumptions C02_loader_resume_mid.

Theorem C02_loader_resume_end_restart : forall p restart0, pipe_ok p = true ->
  ld_drain p (FUEL p) (ld_resumed p restart0 true (length (sem p 0))) = (sem p 1, true).
Proof. exact loader_resume_end_restart. Qed.
Print Assumptions C02_loader_resume_end_restart.

Theorem C02_loader_resume_end_norestart : forall p restart0, pipe_ok p = true ->
  ld_drain p (FUEL p) (ld_resumed p restart0 false (length (sem p 0))) = ([], true).
Proof. exact loader_resume_end_norestart. Qed.
Print Assumptions C02_loader_resume_end_norestart.

(* non-vacuity: a pipeline with every operator, at an interior k *)
Example C02_nonvacuous :
  let p := PFilter (QLt 9) (PUnbatch (PPrefetch 2 (PMap (FAdd 1) (PBatch 3 false (PParMap (FAdd 0) 1
             (PSampler [map INat [0;1;2;3;4;5;6]; map INat [6;5;4;3;2;1;0]])))))) in
  pipe_ok p = true /\ 3 <= length (sem p 0) /\ sem p 0 = map INat [1;2;3;4;5;6;7] /\
  Reach p 0 0 (node_reset p RUninit None).
Proof. cbv zeta. repeat split; try reflexivity; [vm_compute; lia | constructor]. Qed.

(* regression for D2 (fixed by 8c3f339): an epoch whose next item is None resumes correctly *)
Example C02_none_item_resumes :
  let p := PSrc [INat 1; INat 2; INone; INat 4; INat 5] false in
  ld_drain p (FUEL p) (ld_resumed p true true 2) = ([INone; INat 4; INat 5], true).
Proof. vm_compute. reflexivity. Qed.
