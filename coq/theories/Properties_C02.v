(* Properties_C02.v — placeholder until NodeResumeProofs.v lands; see DESIGN.md 4 C02. *)
From PD Require Import Base NodeModel NodeObs.
Open Scope string_scope. Open Scope list_scope.

Example C02_none_item_resumes :
  let p := PSrc [INat 1; INat 2; INone; INat 4; INat 5] false in
  loader_obs p true [HIter; HNext; HNext; HState; HFresh; HLoad 0; HIter; HNext; HNext; HNext; HNext]
  = OL [OS "iter"; OL [OS "item"; OZ 1]; OL [OS "item"; OZ 2];
        OL [OS "state"; OL [OL [OS "num_yielded"; OZ 2]; OL [OS "root"; OL [OL [OS "_num_yielded"; OZ 2]]]]];
        OS "fresh"; OS "load"; OS "iter"; OL [OS "item"; ON]; OL [OS "item"; OZ 4]; OL [OS "item"; OZ 5]; OS "stop"].
Proof. vm_compute. reflexivity. Qed.
Theorem C02_placeholder : True. Proof. exact I. Qed.
Print Assumptions C02_placeholder.
