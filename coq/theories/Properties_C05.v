(* Properties_C05.v — C05: output and checkpoints do not depend on worker timing.
   The SDL model's next() takes the arrival SCHEDULE as an argument; the theorems quantify over it. Proofs: SdlMapProofs.v. *)
From PD Require Import Base SdlModel SdlObs SdlMapProofs SdlIterWorker SdlIterScope SdlIterSmall SdlIterSmall2 SdlIterRef SdlIterProofs SdlIterResume.
Open Scope list_scope. Open Scope nat_scope.

(* map-style: any two arrival schedules give the same epoch *)
Theorem C05_map_schedule_independent : forall c, c_kind c = KMap -> 0 < c_W c -> 0 < c_P c -> c_I c <= 1 \/ c_bad c = [] ->
  forall sched sched', outcomes c (S (LL c)) (sdl_fresh c) sched = outcomes c (S (LL c)) (sdl_fresh c) sched'.
Proof. intros c Hk HW HP Hg s1 s2. rewrite (map_epoch_exact c Hk HW HP Hg s1), (map_epoch_exact c Hk HW HP Hg s2). reflexivity. Qed.
Print Assumptions C05_map_schedule_independent.

(* map-style: the continuation from a checkpoint taken after k batches does not depend on the schedule the checkpoint was
   taken under, nor on the schedule it is resumed under — for every k and every pair of schedule pairs *)
Theorem C05_map_checkpoint_schedule_independent : forall c, c_kind c = KMap -> 0 < c_W c -> 0 < c_P c -> c_bad c = [] ->
  forall k a1 a2 b1 b2, k <= LL c ->
  (let '(sk, _) := replay c k (sdl_fresh c) a1 in let '(sr, sc) := sdl_resume c (state_dict sk) a2 in outcomes c (S (LL c - k)) sr sc) =
  (let '(sk, _) := replay c k (sdl_fresh c) b1 in let '(sr, sc) := sdl_resume c (state_dict sk) b2 in outcomes c (S (LL c - k)) sr sc).
Proof.
  intros c Hk HW HP Hb k a1 a2 b1 b2 Hle.
  pose proof (map_resume_exact c Hk HW HP Hb k a1 a2 Hle) as Ea. pose proof (map_resume_exact c Hk HW HP Hb k b1 b2 Hle) as Eb.
  destruct (replay c k (sdl_fresh c) a1) as [ska ?]. destruct (sdl_resume c (state_dict ska) a2) as [sra sca].
  destruct (replay c k (sdl_fresh c) b1) as [skb ?]. destruct (sdl_resume c (state_dict skb) b2) as [srb scb].
  rewrite Ea, Eb. reflexivity.
Qed.
Print Assumptions C05_map_checkpoint_schedule_independent.

(* iterable datasets: the output statement (PROVED below; also checked by adversarial-schedule correspondence on every run) *)
Definition C05_iter_statement : Prop :=
  forall c, c_kind c = KIter -> 0 < c_W c -> 0 < c_P c -> length (c_shards c) = c_W c -> c_bad c = [] ->
  forall sched sched', outcomes c (S (length (reference c))) (sdl_fresh c) sched = outcomes c (S (length (reference c))) (sdl_fresh c) sched'.

(* iterable datasets, PROVED for every configuration and ANY two arrival schedules: the epoch does not depend on worker timing
   (retirement of an exhausted worker happens when its notice ARRIVES, at a schedule-dependent moment, and still the stream is
   the same) — corollary of C03_iter_epoch_exact (SdlIterProofs.v) *)
Theorem C05_iter_schedule_independent : forall c, c_kind c = KIter -> 0 < c_W c -> 0 < c_P c ->
  forall sched sched', outcomes c (S (length (reference c))) (sdl_fresh c) sched = outcomes c (S (length (reference c))) (sdl_fresh c) sched'.
Proof. intros c Hk HW HP s1 s2. rewrite (iter_epoch_exact c Hk HW HP s1), (iter_epoch_exact c Hk HW HP s2). reflexivity. Qed.
Print Assumptions C05_iter_schedule_independent.

Corollary C05_iter_statement_holds : C05_iter_statement.
Proof. intros c Hk HW HP _ _ s1 s2. exact (C05_iter_schedule_independent c Hk HW HP s1 s2). Qed.
Print Assumptions C05_iter_statement_holds.

(* "a checkpoint never reflects work a fast worker has prefetched beyond the last batch handed to the user" — iterable datasets,
   PROVED for every configuration, every snapshot interval, every k and EVERY arrival schedule: in the state reached after k
   batches every worker-state entry of the snapshot state_dict() hands out (and of the running _worker_snapshots) is the state
   that worker reported right after the answer to one of its tasks that the main process has ALREADY PASSED — a batch handed out,
   or an end-of-shard notice consumed in task order — or the worker's initial state; never the state after a result that is
   still buffered in _task_info or outstanding (invariant InvW of SdlIterProofs.v; InvC gives the ghost data their meaning:
   gw t / rd t = worker and per-worker ordinal of task t, tasks below m_rcvd are the passed ones, wst w j = the state worker w
   reports after its j-th answer) *)
Theorem C05_iter_checkpoint_never_ahead : forall c, c_kind c = KIter -> 0 < c_W c -> 0 < c_P c ->
  forall k sched, k <= length (reference c) ->
  exists gw rd a R, InvC c (Bw c) 0 gw rd a R (fst (replay c k (sdl_fresh c) sched)) /\
                    InvW c 0 wk_fresh0 true gw rd a (fst (replay c k (sdl_fresh c) sched)).
Proof. exact iter_entries_never_ahead. Qed.
Print Assumptions C05_iter_checkpoint_never_ahead.

(* the same, spelled out for the dict that state_dict() returns *)
Corollary C05_iter_state_dict_entries : forall c, c_kind c = KIter -> 0 < c_W c -> 0 < c_P c ->
  forall k sched, k <= length (reference c) ->
  let sk := fst (replay c k (sdl_fresh c) sched) in
  exists gw rd a R, InvC c (Bw c) 0 gw rd a R sk /\
    forall w, w < c_W c -> exists j,
      nth w (sn_workers (sd_snapshot (state_dict sk))) (0, false) = wst c 0 wk_fresh0 w j /\
      (j = 0 \/ exists t, t < m_rcvd sk /\ gw t = w /\ S (rd t) = j).
Proof.
  intros c Hk HW HP k sched Hle. cbn zeta.
  destruct (iter_entries_never_ahead c Hk HW HP k sched Hle) as (gw & rd & a & R & H & HWw).
  exists gw, rd, a, R. split; [exact H|]. intros w Hw. exact (w_sn _ _ _ _ _ _ _ _ HWw eq_refl w Hw).
Qed.
Print Assumptions C05_iter_state_dict_entries.

(* the iterable statement on a SMALL SCOPE (finite-domain theorems by computation in the kernel, SdlIterSmall.v / SdlIterSmall2.v;
   scopes as stated in Properties_C03.v / Properties_C01.v): any two arrival schedules give the same epoch, and the
   continuation after a resume at any k is the same for any two pairs of schedules *)
Theorem C05_iter_schedule_independent_small_scope : forall c a b, In c small_cfgs ->
  In a (all_lists [0; 1] 7) -> In b (all_lists [0; 1] 7) ->
  outcomes c (S (length (reference c))) (sdl_fresh c) a = outcomes c (S (length (reference c))) (sdl_fresh c) b.
Proof. intros c a b Hc Ha Hb. rewrite (iter_epoch_exact_small_scope c a Hc Ha), (iter_epoch_exact_small_scope c b Hc Hb). reflexivity. Qed.
Print Assumptions C05_iter_schedule_independent_small_scope.

Theorem C05_iter_checkpoint_schedule_independent_small_scope : forall c k a1 a2 b1 b2, In c resume_cfgs -> k <= length (reference c) ->
  In a1 (all_lists [0; 1] 3) -> In a2 (all_lists [0; 1] 3) -> In b1 (all_lists [0; 1] 3) -> In b2 (all_lists [0; 1] 3) ->
  (let '(sk, _) := replay c k (sdl_fresh c) a1 in let '(sr, sc) := sdl_resume c (state_dict sk) a2 in outcomes c (S (length (reference c) - k)) sr sc) =
  (let '(sk, _) := replay c k (sdl_fresh c) b1 in let '(sr, sc) := sdl_resume c (state_dict sk) b2 in outcomes c (S (length (reference c) - k)) sr sc).
Proof.
  intros c k a1 a2 b1 b2 Hc Hk Ha1 Ha2 Hb1 Hb2.
  pose proof (iter_resume_exact_small_scope c k a1 a2 Hc Hk Ha1 Ha2) as Ea. pose proof (iter_resume_exact_small_scope c k b1 b2 Hc Hk Hb1 Hb2) as Eb.
  destruct (replay c k (sdl_fresh c) a1) as [ska ?]. destruct (sdl_resume c (state_dict ska) a2) as [sra sca].
  destruct (replay c k (sdl_fresh c) b1) as [skb ?]. destruct (sdl_resume c (state_dict skb) b2) as [srb scb].
  rewrite Ea, Eb. reflexivity.
Qed.
Print Assumptions C05_iter_checkpoint_schedule_independent_small_scope.
(* "... and the continuation obtained from a checkpoint does not depend on worker timing" — iterable datasets (with or without a
   state of their own), snapshot_every_n_steps = 1 (the default) or 0: take ANY chain of (k_i batches, checkpoint, resume) under
   two arbitrary arrival schedules; what the two final iterators still yield is the same (both are the rest of the reference) *)
Theorem C05_iter_continuation_schedule_independent : forall c, c_kind c = KIter -> 0 < c_W c -> 0 < c_P c -> c_I c <= 1 ->
  forall ks schedA schedB, fold_right Nat.add 0 ks <= length (reference c) ->
  let '(sA, restA) := chain c ks (sdl_fresh c) schedA in
  let '(sB, restB) := chain c ks (sdl_fresh c) schedB in
  let n := S (length (reference c) - fold_right Nat.add 0 ks) in
  outcomes c n sA restA = outcomes c n sB restB.
Proof.
  intros c Hk HW HP HI ks schedA schedB Hle.
  assert (forall sched, let '(s, sched') := chain c ks (sdl_fresh c) sched in
            outcomes c (S (length (reference c) - fold_right Nat.add 0 ks)) s sched' =
            map OBatch (skipn (fold_right Nat.add 0 ks) (reference c)) ++ [OStop]) as Hall.
  { intros sched. destruct (Nat.eq_dec (c_I c) 0) as [E0|N0].
    - exact (iter_resume_chain_I0 c Hk HW HP E0 ks sched Hle).
    - exact (iter_resume_chain_default c Hk HW HP ltac:(lia) ks sched Hle). }
  pose proof (Hall schedA) as HA. pose proof (Hall schedB) as HB.
  destruct (chain c ks (sdl_fresh c) schedA) as [sA rA]. destruct (chain c ks (sdl_fresh c) schedB) as [sB rB].
  cbn zeta. rewrite HA, HB. reflexivity.
Qed.
Print Assumptions C05_iter_continuation_schedule_independent.
