(* Properties_C05.v — placeholder until SdlProofs.v lands; see DESIGN.md 4 C05. *)
From PD Require Import Base SdlModel SdlObs.
Theorem C05_placeholder : True. Proof. exact I. Qed.
Print Assumptions C05_placeholder.
