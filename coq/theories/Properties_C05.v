(* Properties_C05.v — C05: output and checkpoints do not depend on worker timing.
   The SDL model's next() takes the arrival SCHEDULE as an argument; the theorems quantify over it. Proofs: SdlMapProofs.v. *)
From PD Require Import Base SdlModel SdlObs SdlMapProofs SdlIterScope SdlIterSmall SdlIterSmall2 SdlIterProofs.
Open Scope list_scope. Open Scope nat_scope.

(* map-style: any two arrival schedules give the same epoch *)
Theorem C05_map_schedule_independent : forall c, c_kind c = KMap -> 0 < c_W c -> 0 < c_P c -> c_I c <= 1 \/ c_bad c = [] ->
  forall sched sched', outcomes c (S (LL c)) (sdl_fresh c) sched = outcomes c (S (LL c)) (sdl_fresh c) sched'.
Proof. intros c Hk HW HP Hg s1 s2. rewrite (map_epoch_exact c Hk HW HP Hg s1), (map_epoch_exact c Hk HW HP Hg s2). reflexivity. Qed.
Print Assumptions C05_map_schedule_independent.

(* map-style: the continuation from a checkpoint taken after k batches does not depend on the schedule the checkpoint was
   taken under, nor on the schedule it is resumed under — for every k and every pair of schedule pairs *)
Theorem C05_map_checkpoint_schedule_independent : forall c, c_kind c = KMap -> 0 < c_W c -> 0 < c_P c -> c_bad c = [] ->
  forall k a1 a2 b1 b2, k <= LL c ->
  (let '(sk, _) := replay c k (sdl_fresh c) a1 in let '(sr, sc) := sdl_resume c (state_dict sk) a2 in outcomes c (S (LL c - k)) sr sc) =
  (let '(sk, _) := replay c k (sdl_fresh c) b1 in let '(sr, sc) := sdl_resume c (state_dict sk) b2 in outcomes c (S (LL c - k)) sr sc).
Proof.
  intros c Hk HW HP Hb k a1 a2 b1 b2 Hle.
  pose proof (map_resume_exact c Hk HW HP Hb k a1 a2 Hle) as Ea. pose proof (map_resume_exact c Hk HW HP Hb k b1 b2 Hle) as Eb.
  destruct (replay c k (sdl_fresh c) a1) as [ska ?]. destruct (sdl_resume c (state_dict ska) a2) as [sra sca].
  destruct (replay c k (sdl_fresh c) b1) as [skb ?]. destruct (sdl_resume c (state_dict skb) b2) as [srb scb].
  rewrite Ea, Eb. reflexivity.
Qed.
Print Assumptions C05_map_checkpoint_schedule_independent.

(* iterable datasets: the output statement (PROVED below; also checked by adversarial-schedule correspondence on every run) *)
Definition C05_iter_statement : Prop :=
  forall c, c_kind c = KIter -> 0 < c_W c -> 0 < c_P c -> length (c_shards c) = c_W c -> c_bad c = [] ->
  forall sched sched', outcomes c (S (length (reference c))) (sdl_fresh c) sched = outcomes c (S (length (reference c))) (sdl_fresh c) sched'.

(* iterable datasets, PROVED for every configuration and ANY two arrival schedules: the epoch does not depend on worker timing
   (retirement of an exhausted worker happens when its notice ARRIVES, at a schedule-dependent moment, and still the stream is
   the same) — corollary of C03_iter_epoch_exact (SdlIterProofs.v) *)
Theorem C05_iter_schedule_independent : forall c, c_kind c = KIter -> 0 < c_W c -> 0 < c_P c ->
  forall sched sched', outcomes c (S (length (reference c))) (sdl_fresh c) sched = outcomes c (S (length (reference c))) (sdl_fresh c) sched'.
Proof. intros c Hk HW HP s1 s2. rewrite (iter_epoch_exact c Hk HW HP s1), (iter_epoch_exact c Hk HW HP s2). reflexivity. Qed.
Print Assumptions C05_iter_schedule_independent.

Corollary C05_iter_statement_holds : C05_iter_statement.
Proof. intros c Hk HW HP _ _ s1 s2. exact (C05_iter_schedule_independent c Hk HW HP s1 s2). Qed.
Print Assumptions C05_iter_statement_holds.

(* the iterable statement on a SMALL SCOPE (finite-domain theorems by computation in the kernel, SdlIterSmall.v / SdlIterSmall2.v;
   scopes as stated in Properties_C03.v / Properties_C01.v): any two arrival schedules give the same epoch, and the
   continuation after a resume at any k is the same for any two pairs of schedules *)
Theorem C05_iter_schedule_independent_small_scope : forall c a b, In c small_cfgs ->
  In a (all_lists [0; 1] 7) -> In b (all_lists [0; 1] 7) ->
  outcomes c (S (length (reference c))) (sdl_fresh c) a = outcomes c (S (length (reference c))) (sdl_fresh c) b.
Proof. intros c a b Hc Ha Hb. rewrite (iter_epoch_exact_small_scope c a Hc Ha), (iter_epoch_exact_small_scope c b Hc Hb). reflexivity. Qed.
Print Assumptions C05_iter_schedule_independent_small_scope.

Theorem C05_iter_checkpoint_schedule_independent_small_scope : forall c k a1 a2 b1 b2, In c resume_cfgs -> k <= length (reference c) ->
  In a1 (all_lists [0; 1] 3) -> In a2 (all_lists [0; 1] 3) -> In b1 (all_lists [0; 1] 3) -> In b2 (all_lists [0; 1] 3) ->
  (let '(sk, _) := replay c k (sdl_fresh c) a1 in let '(sr, sc) := sdl_resume c (state_dict sk) a2 in outcomes c (S (length (reference c) - k)) sr sc) =
  (let '(sk, _) := replay c k (sdl_fresh c) b1 in let '(sr, sc) := sdl_resume c (state_dict sk) b2 in outcomes c (S (length (reference c) - k)) sr sc).
Proof.
  intros c k a1 a2 b1 b2 Hc Hk Ha1 Ha2 Hb1 Hb2.
  pose proof (iter_resume_exact_small_scope c k a1 a2 Hc Hk Ha1 Ha2) as Ea. pose proof (iter_resume_exact_small_scope c k b1 b2 Hc Hk Hb1 Hb2) as Eb.
  destruct (replay c k (sdl_fresh c) a1) as [ska ?]. destruct (sdl_resume c (state_dict ska) a2) as [sra sca].
  destruct (replay c k (sdl_fresh c) b1) as [skb ?]. destruct (sdl_resume c (state_dict skb) b2) as [srb scb].
  rewrite Ea, Eb. reflexivity.
Qed.
Print Assumptions C05_iter_checkpoint_schedule_independent_small_scope.
