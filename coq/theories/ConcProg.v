(* ConcProg.v — ParallelMapper(in_order=True, thread workers): NO LIVELOCK.  Every wait in the pipeline is a timed wait, so "some
   thread has a move" (ConcLive.no_deadlock) is true of any such system; what "never hangs" needs is that a consumer
   blocked in next() is always being SERVED: the entry it waits for exists and a thread that is not finished can move it
   (or produce it) without waiting.  This file proves that for every reachable state of every interleaving without a
   reader-join timeout:
     - coverage (Cov): every index of the window [cur_idx, next index) is in flight (exactly once, with ConcPM.f_cnt);
     - the sorter never sits on the index it is waiting for (SB);
     - while the stop event is unset no worker and no sorter has exited (AliveW), and the reader exits only after the
       terminal entry (RD);
   and from these + the accounting identity: a consumer waiting at its queue get has a producer that can advance. *)
From Coq Require Import List Arith Bool Lia.
From RecordUpdate Require Import RecordUpdate.
From PD Require Import ConcModel ConcInv ConcLive ConcOwner ConcSnap ConcPM.
Import ListNotations.
Open Scope nat_scope.

Lemma buf_find_none_cnt i b : buf_find i b = None -> cnt i (map fst b) = 0.
Proof.
  intros H. destruct (cnt i (map fst b)) eqn:E; [reflexivity|].
  assert (exists p, buf_find i b = Some p) as [p Hp] by (apply buf_find_cnt; lia). congruence.
Qed.

Lemma cnt_all_zero l : (forall j, cnt j l = 0) -> l = [].
Proof. destruct l as [|x l]; [reflexivity|]. intros H. specialize (H x). cbn in H. rewrite Nat.eqb_refl in H. cbn in H. lia. Qed.

Lemma wcnt_zero_hold ws : (forall j, wcnt j ws = 0) -> w_hold ws = 0.
Proof.
  induction ws as [|w ws IH]; intros H; cbn; [reflexivity|].
  rewrite IH by (intros j; specialize (H j); cbn in H; lia).
  destruct w; cbn; try reflexivity. specialize (H i). cbn in H. rewrite Nat.eqb_refl in H. cbn in H. lia.
Qed.

Lemma w_hold_pos ws : 0 < w_hold ws -> exists i p idx, nth_error ws i = Some (WPut p idx).
Proof.
  induction ws as [|w ws IH]; cbn; [lia|]. intros H.
  destruct w; cbn in H; try (destruct (IH H) as (i & p & idx & Hi); exists (S i), p, idx; exact Hi).
  exists 0. eexists. eexists. reflexivity.
Qed.

Section PG.
Variable c : cfg.
Hypothesis Hpm : k_pm c = true.
Hypothesis Hio : k_inorder c = true.

Definition Cov (g : gen) : Prop :=
  forall i, g_scur g <= i -> i + rpend (g_r g) < g_ridx g -> 1 <= cntU i g + cnt i (hidx (g_s g)).
Definition SB (g : gen) : Prop := hidx (g_s g) = [] -> cnt (g_scur g) (map fst (g_sbuf g)) = 0.
Definition AliveW (g : gen) : Prop :=
  length (g_ws g) = k_nw c /\
  (g_stop g = false -> Forall (fun w => w <> WDone /\ w <> WEmpty) (g_ws g) /\ g_s g <> SDone).
Definition RD (g : gen) : Prop :=
  match g_r g with
  | RDone => g_stop g = true \/ (0 < g_ridx g /\ ~ isitem c (g_base g + (g_ridx g - 1)))
  | RPut _ i true => ~ isitem c (g_base g + i)
  | _ => True
  end.

Record LInv (g : gen) : Prop := { l_cov : Cov g; l_sb : SB g; l_alive : AliveW g; l_rd : RD g }.

Lemma linv_new base ff : LInv (new_gen c base ff).
Proof.
  unfold new_gen. rewrite Hpm, Hio. constructor.
  - intros i _ Hi. cbn in Hi. lia.
  - intros _. reflexivity.
  - split; cbn; [apply repeat_length|]. intros _. split; [|discriminate].
    induction (k_nw c); cbn; constructor; auto. split; discriminate.
  - exact I.
Qed.

(* nothing between the reader and the sorter's output changes, the stop event only ever gets set *)
Lemma linv_frame g g' : LInv g ->
  g_q1 g' = g_q1 g -> g_ws g' = g_ws g -> g_q2 g' = g_q2 g -> g_sbuf g' = g_sbuf g -> g_s g' = g_s g -> g_scur g' = g_scur g ->
  g_ridx g' = g_ridx g -> g_r g' = g_r g -> g_base g' = g_base g -> (g_stop g = true -> g_stop g' = true) -> LInv g'.
Proof.
  intros [L1 L2 L3 L4] E1 E2 E3 E4 E5 E6 E7 E8 E9 Hs. constructor.
  - unfold Cov, cntU in *. rewrite E1, E2, E3, E4, E5, E6, E7, E8. exact L1.
  - unfold SB in *. rewrite E4, E5, E6. exact L2.
  - unfold AliveW in *. rewrite E2, E5. split; [exact (proj1 L3)|]. intros Hf. apply (proj2 L3).
    destruct (g_stop g); [specialize (Hs eq_refl); congruence | reflexivity].
  - unfold RD in *. rewrite E7, E8, E9. destruct (g_r g); auto.
    destruct L4 as [L4|L4]; [left; apply Hs, L4 | right; exact L4].
Qed.

(* ---------------------------------------------------------------------------------------------------------- *)
Lemma linv_rstep m g pos : PMinv c g pos -> LInv g -> LInv (fst (rstep c m g pos)).
Proof.
  intros (R & F & C) [L1 L2 L3 L4]. pose proof (r_pos _ _ _ R) as RP. unfold RPos in RP.
  (* a step that leaves the data path alone and keeps the number of entries the reader holds *)
  assert (forall g', g_q1 g' = g_q1 g -> g_ws g' = g_ws g -> g_q2 g' = g_q2 g -> g_sbuf g' = g_sbuf g -> g_s g' = g_s g ->
                     g_scur g' = g_scur g -> g_ridx g' = g_ridx g -> rpend (g_r g') = rpend (g_r g) -> g_stop g' = g_stop g ->
                     RD g' -> LInv g') as HQ.
  { intros g' E1 E2 E3 E4 E5 E6 E7 E8 E9 HRD. constructor; [| | |exact HRD].
    - unfold Cov, cntU in *. rewrite E1, E2, E3, E4, E5, E6, E7, E8. exact L1.
    - unfold SB in *. rewrite E4, E5, E6. exact L2.
    - unfold AliveW in *. rewrite E2, E5, E9. exact L3. }
  unfold rstep. destruct (g_r g) eqn:Er; cbn [fst].
  - apply HQ; auto. exact I.
  - apply HQ; auto. exact I.
  - apply HQ; auto; [destruct (g_stop g); reflexivity|]. unfold RD. cbn. destruct (g_stop g) eqn:Es; [left; reflexivity | exact I].
  - destruct m; [destruct (g_sem g)|]; [constructor; assumption | apply HQ; auto; exact I | apply HQ; auto; exact I].
  - (* RPull *)
    destruct RP as [P1 P2].
    assert (forall g', g_q1 g' = g_q1 g -> g_ws g' = g_ws g -> g_q2 g' = g_q2 g -> g_sbuf g' = g_sbuf g -> g_s g' = g_s g ->
                       g_scur g' = g_scur g -> g_ridx g' = S (g_ridx g) -> rpend (g_r g') = 1 -> g_stop g' = g_stop g ->
                       RD g' -> LInv g') as HP.
    { intros g' E1 E2 E3 E4 E5 E6 E7 E8 E9 HRD. constructor; [| | |exact HRD].
      - unfold Cov, cntU in *. rewrite E1, E2, E3, E4, E5, E6, E7, E8. intros i H1 H2. apply L1; [exact H1 | rewrite Er; cbn; lia].
      - unfold SB in *. rewrite E4, E5, E6. exact L2.
      - unfold AliveW in *. rewrite E2, E5, E9. exact L3. }
    destruct (match k_err c with Some e => e =? pos | None => false end) eqn:Ee.
    + apply HP; auto. unfold RD. cbn. intros [x Hx]. unfold spay in Hx. rewrite <- P1, Ee in Hx. discriminate.
    + destruct (nth_error (k_xs c) pos) as [x|] eqn:En.
      * destruct ((0 <? k_sf c) && (S (g_ryield g) mod k_sf c =? 0)); apply HP; auto; exact I.
      * apply HP; auto. unfold RD. cbn. intros [x Hx]. unfold spay in Hx. rewrite <- P1, Ee, En in Hx. discriminate.
  - apply HQ; auto. exact I.
  - (* RPut: the index enters the window *)
    destruct RP as (P1 & P2 & P3). constructor.
    + unfold Cov, cntU in *. cbn. intros j H1 H2. rewrite map_app. cbn [map snd]. rewrite cnt_snoc.
      destruct (Nat.eqb_spec i j) as [->|Hne]; cbn; [lia|].
      assert (rpend (if last then RDone else RChk) = 0) as Hz by (destruct last; reflexivity). rewrite Hz in H2.
      specialize (L1 j H1). rewrite Er in L1. cbn in L1. assert (j + 1 < g_ridx g) as Hlt by lia. specialize (L1 Hlt). lia.
    + exact L2.
    + exact L3.
    + unfold RD in *. cbn. destruct last; [|exact I]. right. split; [lia|]. replace (g_ridx g - 1) with i by lia. rewrite Er in L4. exact L4.
  - constructor; assumption.
Qed.

Lemma linv_wstep i m g pos : PMinv c g pos -> LInv g -> LInv (wstep c i m g).
Proof.
  intros (R & F & C) [L1 L2 L3 L4]. unfold wstep. destruct (nth_error (g_ws g) i) as [p|] eqn:En; [|constructor; assumption].
  assert (forall p', widx p = [] -> widx p' = [] -> (g_stop g = false -> p' <> WDone /\ p' <> WEmpty) -> LInv (g <| g_ws ::= set_nth i p' |>)) as Hquiet.
  { intros p' Hp Hp' Hal. constructor.
    - unfold Cov, cntU in *. cbn. intros j H1 H2. pose proof (wcnt_set_nth j i p' _ _ En) as HW. rewrite Hp, Hp' in HW. cbn in HW.
      specialize (L1 j H1 H2). lia.
    - exact L2.
    - unfold AliveW in *. cbn. rewrite set_nth_length. split; [exact (proj1 L3)|]. intros Hs. destruct (proj2 L3 Hs) as [A1 A2].
      split; [|exact A2]. apply Forall_set_nth; [exact A1 | apply Hal, Hs].
    - exact L4. }
  destruct p.
  - apply Hquiet; cbn; auto. intros _; split; discriminate.
  - destruct (g_stop g) eqn:Es; apply Hquiet; cbn; auto; [intros Hx; discriminate | intros _; split; discriminate].
  - (* WEmpty occurs only after the stop event was set *)
    assert (g_stop g = true) as Hs.
    { destruct (g_stop g) eqn:Es; [reflexivity|]. destruct (proj2 L3 Es) as [A1 _].
      pose proof (Forall_nth_error _ _ _ _ A1 En) as [_ Hx]. congruence. }
    destruct (g_q1 g); apply Hquiet; cbn; auto; intros Hx; congruence.
  - destruct m; [|apply Hquiet; cbn; auto; intros _; split; discriminate].
    destruct (g_q1 g) as [|[pl idx] tl] eqn:Eq; [constructor; assumption|].
    constructor.
    + unfold Cov, cntU in *. cbn. intros j H1 H2.
      match goal with |- context [set_nth i ?w _] => pose proof (wcnt_set_nth j i w _ _ En) as HW end. cbn in HW.
      specialize (L1 j H1 H2). rewrite Eq in L1. cbn in L1. lia.
    + exact L2.
    + unfold AliveW in *. cbn. rewrite set_nth_length. split; [exact (proj1 L3)|]. intros Hs. destruct (proj2 L3 Hs) as [A1 A2].
      split; [|exact A2]. apply Forall_set_nth; [exact A1 | split; discriminate].
    + exact L4.
  - constructor.
    + unfold Cov, cntU in *. cbn. intros j H1 H2. rewrite map_app. cbn [map snd]. rewrite cnt_snoc.
      pose proof (wcnt_set_nth j i WChk _ _ En) as HW. cbn in HW. specialize (L1 j H1 H2). lia.
    + exact L2.
    + unfold AliveW in *. cbn. rewrite set_nth_length. split; [exact (proj1 L3)|]. intros Hs. destruct (proj2 L3 Hs) as [A1 A2].
      split; [|exact A2]. apply Forall_set_nth; [exact A1 | split; discriminate].
    + exact L4.
  - constructor; assumption.
Qed.

(* `while cur_idx in buffer`: re-establishes SB whatever the buffer holds *)
Lemma linv_s_after g : Cov (g <| g_s := SChk |>) -> AliveW (g <| g_s := SChk |>) -> RD (g <| g_s := SChk |>) -> LInv (s_after g).
Proof.
  intros L1 L3 L4. unfold s_after. destruct (buf_find (g_scur g) (g_sbuf g)) as [p|] eqn:Ef.
  - constructor.
    + unfold Cov, cntU in *. cbn in *. intros j H1 H2. pose proof (buf_remove_cnt _ _ _ j Ef) as HB. specialize (L1 j H1 H2). lia.
    + intros Hx. discriminate.
    + unfold AliveW in *. cbn in *. split; [exact (proj1 L3)|]. intros Hs. split; [exact (proj1 (proj2 L3 Hs)) | discriminate].
    + exact L4.
  - constructor; [exact L1 | | exact L3 | exact L4]. intros _. cbn. apply buf_find_none_cnt, Ef.
Qed.

Lemma linv_sstep m g pos : PMinv c g pos -> LInv g -> LInv (sstep c m g).
Proof.
  intros (R & F & C) [L1 L2 L3 L4]. pose proof (f_s _ _ F) as FS. pose proof (f_cnt _ _ F) as FC.
  assert (forall p', hidx (g_s g) = [] -> hidx p' = [] -> (g_stop g = false -> p' <> SDone) -> LInv (g <| g_s := p' |>)) as Hquiet.
  { intros p' Hh Hh' Hal. constructor.
    - unfold Cov, cntU in *. cbn. rewrite Hh'. rewrite Hh in L1. exact L1.
    - unfold SB in *. cbn. intros _. apply L2, Hh.
    - unfold AliveW in *. cbn. split; [exact (proj1 L3)|]. intros Hs. split; [exact (proj1 (proj2 L3 Hs)) | apply Hal, Hs].
    - exact L4. }
  unfold sstep. destruct (g_s g) eqn:Es.
  - apply Hquiet; cbn; auto. intros _; discriminate.
  - destruct (g_stop g) eqn:Est; apply Hquiet; cbn; auto; [intros Hx; discriminate | intros _; discriminate].
  - destruct m; [|apply Hquiet; cbn; auto; intros _; discriminate].
    destruct (g_q2 g) as [|[p i] tl] eqn:Eq; [constructor; assumption|].
    change (g_scur (g <| g_q2 := tl |>)) with (g_scur g). change (g_sbuf (g <| g_q2 := tl |>)) with (g_sbuf g).
    destruct (Nat.eqb_spec i (g_scur g)) as [Ei|Hne].
    + constructor.
      * unfold Cov, cntU in *. cbn. intros j H1 H2. specialize (L1 j H1 H2). rewrite Eq, Es in L1. cbn in L1. lia.
      * intros Hx. discriminate.
      * unfold AliveW in *. cbn. split; [exact (proj1 L3)|]. intros Hs. split; [exact (proj1 (proj2 L3 Hs)) | discriminate].
      * exact L4.
    + destruct (buf_find i (g_sbuf g)) as [q|] eqn:Ef.
      * exfalso. assert (1 <= cnt i (map fst (g_sbuf g))) as Hb by (apply buf_find_cnt; eauto).
        specialize (FC i). unfold cntU in FC. rewrite Eq in FC. cbn in FC. rewrite Nat.eqb_refl in FC. cbn in FC. lia.
      * apply linv_s_after.
        -- unfold Cov, cntU in *. cbn. intros j H1 H2. rewrite map_app. cbn [map fst]. rewrite cnt_snoc.
           specialize (L1 j H1 H2). rewrite Eq, Es in L1. cbn in L1. lia.
        -- unfold AliveW in *. cbn. split; [exact (proj1 L3)|]. intros Hs. split; [exact (proj1 (proj2 L3 Hs)) | discriminate].
        -- exact L4.
  - (* SPut *)
    destruct FS as [_ Hi]. subst i. apply linv_s_after.
    + unfold Cov, cntU in *. cbn. intros j H1 H2. assert (g_scur g <= j) as H1' by lia. specialize (L1 j H1' H2). rewrite Es in L1. cbn in L1.
      destruct (Nat.eqb_spec (g_scur g) j); [lia | cbn in L1; lia].
    + unfold AliveW in *. cbn. split; [exact (proj1 L3)|]. intros Hs. split; [exact (proj1 (proj2 L3 Hs)) | discriminate].
    + exact L4.
  - contradiction.
  - constructor; assumption.
Qed.

(* the consumer touches nothing between the reader and the sorter's output; it only ever SETS the stop event *)
Lemma cstep_upstream m g :
  let g' := fst (cstep c m g) in
  g_q1 g' = g_q1 g /\ g_ws g' = g_ws g /\ g_q2 g' = g_q2 g /\ g_sbuf g' = g_sbuf g /\ g_s g' = g_s g /\ g_scur g' = g_scur g /\
  g_ridx g' = g_ridx g /\ g_r g' = g_r g /\ g_base g' = g_base g /\ (g_stop g = true -> g_stop g' = true).
Proof.
  assert (forall g0 k, let g' := fst (after_join c g0 k) in
            g_q1 g' = g_q1 g0 /\ g_ws g' = g_ws g0 /\ g_q2 g' = g_q2 g0 /\ g_sbuf g' = g_sbuf g0 /\ g_s g' = g_s g0 /\ g_scur g' = g_scur g0 /\
            g_ridx g' = g_ridx g0 /\ g_r g' = g_r g0 /\ g_base g' = g_base g0 /\ (g_stop g0 = true -> g_stop g' = true)) as Haj.
  { intros g0 k. destruct (after_join_pc c g0 k) as (p & Ep & _). cbn. rewrite Ep. cbn. repeat split; auto. }
  unfold cstep. rewrite outq_pm by assumption. rewrite Hpm.
  destruct (g_c g); try (cbn; repeat split; auto; fail).
  - destruct m; [destruct (g_store g) as [|[v sp] tl]|]; cbn; repeat split; auto.
  - destruct (g_stop g) eqn:Est; cbn; repeat split; auto; congruence.
  - destruct (g_mpstop g); [|destruct ((g_done g || negb (r_alive g)) && (g_sem g =? kmax c))]; cbn; repeat split; auto.
  - destruct m; [|cbn; repeat split; auto]. destruct (g_q3 g) as [|[p i] tl]; [cbn; repeat split; auto|].
    rewrite set_outq_pm by assumption. destruct p as [x| |e]; cbn; repeat split; auto.
  - destruct (pop_version (S i) (g_store g)) as [[sp|] rest]; cbn; repeat split; auto.
  - destruct e as [|[|e]]; try (cbn; repeat split; auto; fail).
    cbn [fst]. match goal with |- context [pop_version ?v (g_store ?x)] => change (g_store x) with (g_store g) end.
    destruct (pop_version (S i) (g_store g)) as [[sp|] rest]; cbn; repeat split; auto.
  - cbn [fst]. exact (Haj (g <| g_mpstop := true |>) 0).
  - destruct m; destruct (stage_alive c g k); try (cbn; repeat split; auto; fail); apply Haj.
Qed.

Lemma linv_cstep m g : LInv g -> LInv (fst (cstep c m g)).
Proof.
  intros L. destruct (cstep_upstream m g) as (E1 & E2 & E3 & E4 & E5 & E6 & E7 & E8 & E9 & E10).
  apply (linv_frame g); auto.
Qed.

(* what the lifting carries: data invariant, progress invariant, accounting *)
Definition PGinv (g : gen) (pos : nat) : Prop := PMinv c g pos /\ LInv g /\ Acc c g.

Lemma pg_new base ff : PGinv (new_gen c base ff) base.
Proof. split; [apply pm_new; assumption | split; [apply linv_new | apply acc_new_gen]]. Qed.
Lemma pg_ff g pos n : PGinv g pos -> PGinv (g <| g_ff := n |>) pos.
Proof. intros (P & L & A). split; [apply pm_ff, P | split; [apply (linv_frame g); auto | apply acc_set_ff, A]]. Qed.
Lemma pg_idle_pc g pos p : PGinv g pos -> g_c g = CIdle -> (p = CChk \/ p = CShSet) -> PGinv (g <| g_c := p |>) pos.
Proof.
  intros (P & L & A) Hc Hp. split; [apply pm_idle_pc; assumption | split; [apply (linv_frame g); auto|]].
  apply acc_set_c; [rewrite Hc; reflexivity | destruct Hp as [-> | ->]; reflexivity | exact A].
Qed.
Lemma pg_cstep m g pos : PGinv g pos -> PGinv (fst (cstep c m g)) pos.
Proof. intros (P & L & A). split; [apply pm_cstep; assumption | split; [apply linv_cstep, L | apply acc_cstep, A]]. Qed.
Lemma pg_rstep m g pos : PGinv g pos -> PGinv (fst (rstep c m g pos)) (snd (rstep c m g pos)).
Proof. intros (P & L & A). split; [apply pm_rstep; assumption | split; [apply (linv_rstep m g pos P L) | apply acc_rstep, A]]. Qed.
Lemma pg_wstep i m g pos : PGinv g pos -> PGinv (wstep c i m g) pos.
Proof. intros (P & L & A). split; [apply pm_wstep; assumption | split; [apply (linv_wstep i m g pos P L) | apply acc_wstep, A]]. Qed.
Lemma pg_sstep m g pos : PGinv g pos -> PGinv (sstep c m g) pos.
Proof. intros (P & L & A). split; [apply pm_sstep; assumption | split; [apply (linv_sstep m g pos P L) | apply acc_sstep, A]]. Qed.

Theorem pg_reachable script sched : jt_free c (init script) sched = true ->
  forall g, cur (run c sched (init script)) = Some g -> PGinv g (s_pos (run c sched (init script))).
Proof.
  intros Hj g Eg.
  exact (p_reachable c PGinv pg_new pg_ff pg_idle_pc pg_cstep pg_rstep pg_wstep pg_sstep script sched Hj g Eg).
Qed.

(* ---------------------------------------------------------------------------------------------------------- *)
(* a thread can ADVANCE: it is not finished and its next data-path primitive will not wait (a poll of the stop event
   that finds it unset, then that primitive, counts as such) *)
Definition r_adv (g : gen) : Prop := match g_r g with RDone => False | RAcq | RChk => 0 < g_sem g | _ => True end.
Definition w_adv1 (g : gen) (w : wpc) : Prop := match w with WPut _ _ => True | WDone | WEmpty => False | _ => g_q1 g <> [] end.
Definition w_adv (g : gen) : Prop := exists i w, nth_error (g_ws g) i = Some w /\ w_adv1 g w.
Definition s_adv (g : gen) : Prop := match g_s g with SPut _ _ => True | SDone | SPutDup _ => False | _ => g_q2 g <> [] end.

(* nothing is upstream of the sorter's output when the window of in-flight indices is empty *)
Lemma window_empty g : FInv c g -> g_scur g + rpend (g_r g) = g_ridx g ->
  g_q1 g = [] /\ g_q2 g = [] /\ g_sbuf g = [] /\ w_hold (g_ws g) = 0 /\ s_hold (g_s g) = 0.
Proof.
  intros F Hwin. pose proof (f_bound _ _ F) as FB. pose proof (f_s _ _ F) as FS.
  assert (forall j, cntU j g + cnt j (hidx (g_s g)) = 0) as Hz.
  { intros j. destruct (cntU j g + cnt j (hidx (g_s g))) eqn:E; [reflexivity|]. destruct (FB j); lia. }
  assert (forall j, cnt j (map snd (g_q1 g)) = 0 /\ wcnt j (g_ws g) = 0 /\ cnt j (map snd (g_q2 g)) = 0 /\ cnt j (map fst (g_sbuf g)) = 0) as Hall.
  { intros j. specialize (Hz j). unfold cntU in Hz. lia. }
  assert (forall {A B} (f : A -> B) (l : list A), map f l = [] -> l = []) as Hmap by (intros A B f [|a l] H; [reflexivity | discriminate]).
  repeat split.
  - apply (Hmap _ _ snd), cnt_all_zero. intros j. apply (Hall j).
  - apply (Hmap _ _ snd), cnt_all_zero. intros j. apply (Hall j).
  - apply (Hmap _ _ fst), cnt_all_zero. intros j. apply (Hall j).
  - apply wcnt_zero_hold. intros j. apply (Hall j).
  - destruct (g_s g); try reflexivity; [|contradiction]. specialize (Hz i). cbn in Hz. rewrite Nat.eqb_refl in Hz. cbn in Hz. lia.
Qed.

(* after the terminal entry (StopIteration or a source error) has been taken, the next next() does not wait: it finds
   the reader finished and every permit back, and sets the stop event *)
Lemma after_terminal_next_stops m g pos : PGinv g pos -> g_term g = true -> g_c g = CChk2 -> g_mpstop g = false ->
  g_c (fst (cstep c m g)) = CStopA.
Proof.
  intros ((R & F & C) & L & A) Ht Hc Hm. destruct (c_term _ _ C Ht) as [Htk Hr].
  pose proof (f_scur _ _ F) as FSC. pose proof (f_le _ _ F) as FLE. rewrite Hr in FLE. cbn in FLE.
  assert (g_q3 g = []) as Hq3 by (destruct (g_q3 g); [reflexivity | cbn in FSC; lia]).
  destruct (window_empty g F) as (E1 & E2 & E3 & E4 & E5); [rewrite Hr; cbn; rewrite Hq3 in FSC; cbn in FSC; lia|].
  unfold Acc, in_flight in A. rewrite E1, E2, E3, E4, E5, Hq3, Hr, Hc in A. cbn in A.
  unfold cstep. rewrite Hc, Hm. unfold r_alive. rewrite Hr. cbn [negb]. rewrite orb_true_r. cbn [andb].
  replace (g_sem g =? kmax c) with true by (symmetry; apply Nat.eqb_eq; lia). reflexivity.
Qed.

(* hence a consumer never waits at its queue get once the epoch is over for it *)
Definition NoGetAfterEnd (g : gen) : Prop := g_term g = true -> g_c g <> CGet.
Definition PG2 (g : gen) (pos : nat) : Prop := PGinv g pos /\ NoGetAfterEnd g.

Lemma rstep_term m g pos : g_term (fst (rstep c m g pos)) = g_term g.
Proof. unfold rstep. repeat match goal with |- context [match ?x with _ => _ end] => destruct x end; reflexivity. Qed.
Lemma wstep_term i m g : g_term (wstep c i m g) = g_term g.
Proof. unfold wstep. repeat match goal with |- context [match ?x with _ => _ end] => destruct x end; reflexivity. Qed.
Lemma sstep_term m g : g_term (sstep c m g) = g_term g.
Proof.
  unfold sstep, s_after. repeat match goal with |- context [match ?x with _ => _ end] => destruct x end; cbn;
    repeat match goal with |- context [match ?x with _ => _ end] => destruct x end; reflexivity.
Qed.

Lemma tg_cstep m g pos : PGinv g pos -> NoGetAfterEnd g -> NoGetAfterEnd (fst (cstep c m g)).
Proof.
  intros P T. pose proof P as ((R & F & C) & L & A).
  destruct (g_c g) eqn:Ec.
  all: try (unfold NoGetAfterEnd, cstep; rewrite Ec, ?Hpm; cbn; intros; discriminate).
  - (* CIdle *) unfold cstep. rewrite Ec. exact T.
  - (* CInit *) unfold NoGetAfterEnd, cstep. rewrite Ec. destruct m; [destruct (g_store g) as [|[v sp] tl]|]; cbn; rewrite ?Ec; intros; discriminate.
  - (* CChk *) unfold NoGetAfterEnd, cstep. rewrite Ec, Hpm. destruct (g_stop g); cbn; intros; discriminate.
  - (* CChk2 *)
    intros Ht. destruct (g_mpstop g) eqn:Em.
    + unfold cstep. rewrite Ec, Em. cbn. discriminate.
    + assert (g_term g = true) as Ht0.
      { revert Ht. unfold cstep. rewrite Ec, Em. destruct ((g_done g || negb (r_alive g)) && (g_sem g =? kmax c)); cbn; auto. }
      rewrite (after_terminal_next_stops m g pos P Ht0 Ec Em). discriminate.
  - (* CGet: the epoch is not over for a consumer that is here *)
    assert (g_term g = false) as Htf by (destruct (g_term g) eqn:Et; [exfalso; apply (T Et Ec) | reflexivity]).
    unfold NoGetAfterEnd, cstep. rewrite Ec, outq_pm by assumption. destruct m; [|cbn; intros; discriminate].
    destruct (g_q3 g) as [|[p i] tl]; [cbn; congruence|]. rewrite set_outq_pm by assumption.
    destruct p as [x| |e]; cbn; intros; discriminate.
  - (* CRel *) unfold NoGetAfterEnd, cstep. rewrite Ec. destruct (pop_version (S i) (g_store g)) as [[sp|] rest]; cbn; intros; discriminate.
  - (* CShSet2 *) unfold NoGetAfterEnd, cstep. rewrite Ec. destruct (after_join_pc c (g <| g_mpstop := true |>) 0) as (p & Ep & [->|[k' ->]]); rewrite Ep; cbn; intros; discriminate.
  - (* CShJoin *)
    unfold NoGetAfterEnd, cstep. rewrite Ec. destruct (after_join_pc c g (S k)) as (p & Ep & Hp).
    destruct m; destruct (stage_alive c g k); try (cbn; rewrite Ec; intros; discriminate);
      rewrite Ep; destruct Hp as [->|[k' ->]]; cbn; intros; discriminate.
Qed.

Lemma pg2_new base ff : PG2 (new_gen c base ff) base.
Proof. split; [apply pg_new|]. unfold NoGetAfterEnd, new_gen. cbn. intros; discriminate. Qed.
Lemma pg2_ff g pos n : PG2 g pos -> PG2 (g <| g_ff := n |>) pos.
Proof. intros [P T]. split; [apply pg_ff, P | exact T]. Qed.
Lemma pg2_idle_pc g pos p : PG2 g pos -> g_c g = CIdle -> (p = CChk \/ p = CShSet) -> PG2 (g <| g_c := p |>) pos.
Proof. intros [P T] Hc Hp. split; [apply pg_idle_pc; assumption|]. unfold NoGetAfterEnd. cbn. intros _. destruct Hp as [-> | ->]; discriminate. Qed.
Lemma pg2_cstep m g pos : PG2 g pos -> PG2 (fst (cstep c m g)) pos.
Proof. intros [P T]. split; [apply pg_cstep, P | apply (tg_cstep m g pos P T)]. Qed.
Lemma pg2_rstep m g pos : PG2 g pos -> PG2 (fst (rstep c m g pos)) (snd (rstep c m g pos)).
Proof. intros [P T]. split; [apply pg_rstep, P|]. unfold NoGetAfterEnd. rewrite rstep_term, rstep_c. exact T. Qed.
Lemma pg2_wstep i m g pos : PG2 g pos -> PG2 (wstep c i m g) pos.
Proof. intros [P T]. split; [apply pg_wstep, P|]. unfold NoGetAfterEnd. rewrite wstep_term, wstep_c. exact T. Qed.
Lemma pg2_sstep m g pos : PG2 g pos -> PG2 (sstep c m g) pos.
Proof. intros [P T]. split; [apply pg_sstep, P|]. unfold NoGetAfterEnd. rewrite sstep_term, sstep_c. exact T. Qed.

Theorem pg2_reachable script sched : jt_free c (init script) sched = true ->
  forall g, cur (run c sched (init script)) = Some g -> PG2 g (s_pos (run c sched (init script))).
Proof.
  intros Hj g Eg.
  exact (p_reachable c PG2 pg2_new pg2_ff pg2_idle_pc pg2_cstep pg2_rstep pg2_wstep pg2_sstep script sched Hj g Eg).
Qed.

Hypothesis Hnw : 0 < k_nw c.
Hypothesis Hk : 0 < kmax c.

(* the core: in a state satisfying the invariants, with the stop event unset, a consumer that is waiting for the next
   entry (nothing in the sorter's output, the epoch not over for it) has a producer that can advance *)
Lemma waiting_consumer_is_served g pos : PGinv g pos ->
  g_stop g = false -> g_c g = CGet -> g_q3 g = [] -> g_term g = false -> r_adv g \/ w_adv g \/ s_adv g.
Proof.
  intros ((R & F & C) & [L1 L2 L3 L4] & A) Hs Hc Hq Ht.
  destruct L3 as [Hlen Hal]. destruct (Hal Hs) as [AW AS].
  pose proof (f_s _ _ F) as FS. pose proof (f_bound _ _ F) as FB. pose proof (f_scur _ _ F) as FSC. pose proof (f_le _ _ F) as FLE.
  rewrite Hq in FSC. cbn in FSC.
  (* a worker exists *)
  destruct (nth_error (g_ws g) 0) as [w0|] eqn:E0; [|apply nth_error_None in E0; lia].
  destruct (g_q1 g) as [|e1 q1] eqn:Eq1.
  2:{ right. left. exists 0, w0. split; [exact E0|]. destruct (Forall_nth_error _ _ _ _ AW E0) as [A1 A2].
      unfold w_adv1. rewrite Eq1. destruct w0; try exact I; try congruence; discriminate. }
  destruct (Nat.eq_dec (w_hold (g_ws g)) 0) as [Hw0|Hw1].
  2:{ right. left. destruct (w_hold_pos (g_ws g)) as (i & p & idx & Hi); [lia|]. exists i, (WPut p idx). split; [exact Hi | exact I]. }
  destruct (g_q2 g) as [|e2 q2] eqn:Eq2.
  2:{ right. right. unfold s_adv. rewrite Eq2. destruct (g_s g); try exact I; try congruence; try contradiction; discriminate. }
  destruct (g_s g) eqn:Es; try (right; right; unfold s_adv; rewrite Es; exact I); try congruence; try contradiction.
  all: left.
  all: assert (hidx (g_s g) = []) as Hh by (rewrite Es; reflexivity).
  all: assert (forall j, wcnt j (g_ws g) = 0) as Hwz by
    (intros j; clear -Hw0; induction (g_ws g) as [|w ws IH]; cbn in *; [reflexivity|]; destruct w; cbn in *; try (apply IH; lia); lia).
  all: assert (forall j, cntU j g = cnt j (map fst (g_sbuf g))) as HU by (intros j; unfold cntU; rewrite Eq1, Eq2, Hwz; cbn; lia).
  (* the window is empty: otherwise cur_idx would sit in the sorter's buffer, which SB excludes *)
  all: assert (g_scur g + rpend (g_r g) = g_ridx g) as Hwin by
    (destruct (Nat.eq_dec (g_scur g + rpend (g_r g)) (g_ridx g)) as [|Hne]; [assumption|]; exfalso;
     assert (g_scur g + rpend (g_r g) < g_ridx g) as Hlt by lia;
     pose proof (L1 (g_scur g) (le_n _) Hlt) as H1; rewrite HU, Hh, (L2 Hh) in H1; cbn in H1; lia).
  (* hence nothing is buffered either, and nothing is in flight but what the reader holds *)
  all: assert (g_sbuf g = []) as Hb by
    (assert (map fst (g_sbuf g) = []) as Hm by
       (apply cnt_all_zero; intros j; destruct (cnt j (map fst (g_sbuf g))) eqn:E; [reflexivity|]; exfalso;
        destruct (FB j) as [B1 B2]; [rewrite HU, ?Hh; cbn; lia | lia]);
     destruct (g_sbuf g); [reflexivity | discriminate]).
  all: unfold Acc, in_flight in A; rewrite Eq1, Eq2, Hq, Hb, Hw0, Es, Hc in A; cbn in A.
  all: unfold r_adv; destruct (g_r g) eqn:Er; try exact I; cbn in A; try lia.
  (* the reader has exited with the stop event unset: it delivered the terminal entry, which the consumer then took *)
  all: exfalso; unfold RD in L4; rewrite Er in L4; destruct L4 as [L4|[L4 L5]]; [congruence|].
  all: cbn in Hwin; apply L5, (c_src _ _ C); pose proof (c_recv _ _ C Ht) as HR; rewrite Hc in HR; cbn in HR; lia.
Qed.

(* the handshake at construction: the consumer waits for the reader's initial snapshot; the reader is producing it *)
Lemma init_wait_is_served g pos : PGinv g pos -> (g_c g = CInit \/ g_c g = CSleep) -> g_store g = [] -> r_adv g.
Proof.
  intros ((R & F & C) & L & A) Hc Hst. destruct (c_init _ _ C Hc) as [_ [[_ [Hr|[p Hr]]]|[rest Hr]]]; unfold r_adv; try rewrite Hr; try exact I.
  congruence.
Qed.

(* ---------------------------------------------------------------------------------------------------------- *)
(* NO LIVELOCK, ParallelMapper(in_order=True): along every interleaving without a reader-join timeout, in every reachable
   state: whenever the consumer of the current iterator is waiting inside next() — at its queue get with nothing to
   take, the stop event unset — the reader, a worker or the sorter is not finished and can advance without waiting:
   the entry the consumer waits for is in flight, or the reader can produce it.  (With C11_every_wait_is_timed and the
   strictly decreasing stop potential of C17 this is what "never hangs" means for a pipeline whose every wait is a
   timed poll: no reachable state in which every thread only polls.) *)
Theorem waiting_next_is_served script sched : jt_free c (init script) sched = true ->
  forall g, cur (run c sched (init script)) = Some g ->
  g_stop g = false -> g_c g = CGet -> g_q3 g = [] -> r_adv g \/ w_adv g \/ s_adv g.
Proof.
  intros Hj g Eg Hs Hc Hq. destruct (pg2_reachable script sched Hj g Eg) as [P T].
  apply (waiting_consumer_is_served g _ P Hs Hc Hq).
  destruct (g_term g) eqn:Et; [exfalso; apply (T Et Hc) | reflexivity].
Qed.

Theorem waiting_init_is_served script sched : jt_free c (init script) sched = true ->
  forall g, cur (run c sched (init script)) = Some g ->
  (g_c g = CInit \/ g_c g = CSleep) -> g_store g = [] -> r_adv g.
Proof.
  intros Hj g Eg Hc Hst. destruct (pg2_reachable script sched Hj g Eg) as [P T]. exact (init_wait_is_served g _ P Hc Hst).
Qed.

(* "can advance" in the model's own vocabulary: the thread's pending primitive is enabled (Go is a move) *)
Lemma r_adv_enabled g : r_adv g -> exists l tw, r_pending g = Some (l, true, tw).
Proof.
  unfold r_adv, r_pending. destruct (g_r g); intros H; try contradiction; try (eexists; eexists; reflexivity).
  exists LSemAcq, true. replace (0 <? g_sem g) with true by (symmetry; apply Nat.ltb_lt, H). reflexivity.
Qed.
Lemma w_adv_enabled g : w_adv g -> exists i l tw, w_pending g i = Some (l, true, tw).
Proof.
  intros (i & w & Hi & Hw). exists i. unfold w_pending. rewrite Hi. unfold w_adv1 in Hw.
  destruct w; try contradiction; try (eexists; eexists; reflexivity).
  destruct (g_q1 g); [congruence | eexists; eexists; reflexivity].
Qed.
Lemma s_adv_enabled g : s_adv g -> exists l tw, s_pending g = Some (l, true, tw).
Proof.
  unfold s_adv, s_pending. destruct (g_s g); intros H; try contradiction; try (eexists; eexists; reflexivity).
  destruct (g_q2 g); [congruence | eexists; eexists; reflexivity].
Qed.

End PG.

(* ---------------------------------------------------------------------------------------------------------- *)
(* the same for the Prefetcher (reader and consumer only) *)
Section PFProg.
Variable c : cfg.
Hypothesis Hpf : k_pm c = false.
Hypothesis Hk : 0 < kmax c.

Lemma rd_rstep m g pos : RPos g pos -> RD c g -> RD c (fst (rstep c m g pos)).
Proof.
  intros RP L4. unfold RPos in RP. unfold RD in *. unfold rstep. destruct (g_r g) eqn:Er; cbn [fst]; try exact I.
  - cbn. destruct (g_stop g) eqn:Es; [left; reflexivity | exact I].
  - destruct m; [destruct (g_sem g)|]; cbn; rewrite ?Er; exact I.
  - destruct RP as [P1 P2]. destruct (match k_err c with Some e => e =? pos | None => false end) eqn:Ee.
    + cbn. intros [x Hx]. unfold spay in Hx. rewrite <- P1, Ee in Hx. discriminate.
    + destruct (nth_error (k_xs c) pos) as [x|] eqn:En.
      * destruct ((0 <? k_sf c) && (S (g_ryield g) mod k_sf c =? 0)); exact I.
      * cbn. intros [x Hx]. unfold spay in Hx. rewrite <- P1, Ee, En in Hx. discriminate.
  - destruct RP as (P1 & P2 & P3). cbn. destruct last; [|exact I]. right. split; [lia|]. replace (g_ridx g - 1) with i by lia. exact L4.
  - cbn. rewrite Er. exact L4.
Qed.

Lemma rd_frame g g' : RD c g -> g_ridx g' = g_ridx g -> g_r g' = g_r g -> g_base g' = g_base g -> (g_stop g = true -> g_stop g' = true) -> RD c g'.
Proof.
  unfold RD. intros L4 E7 E8 E9 Hs. rewrite E7, E8, E9. destruct (g_r g); auto.
  destruct L4 as [L4|L4]; [left; apply Hs, L4 | right; exact L4].
Qed.

Lemma cstep_reader_side m g :
  let g' := fst (cstep c m g) in g_ridx g' = g_ridx g /\ g_r g' = g_r g /\ g_base g' = g_base g /\ (g_stop g = true -> g_stop g' = true).
Proof.
  assert (forall g0 k, let g' := fst (after_join c g0 k) in
            g_ridx g' = g_ridx g0 /\ g_r g' = g_r g0 /\ g_base g' = g_base g0 /\ (g_stop g0 = true -> g_stop g' = true)) as Haj.
  { intros g0 k. destruct (after_join_pc c g0 k) as (p & Ep & _). cbn. rewrite Ep. cbn. repeat split; auto. }
  unfold cstep. rewrite outq_pf by assumption. rewrite Hpf.
  destruct (g_c g); try (cbn; repeat split; auto; fail).
  - destruct m; [destruct (g_store g) as [|[v sp] tl]|]; cbn; repeat split; auto.
  - destruct (g_stop g) eqn:Est; cbn; repeat split; auto; congruence.
  - destruct (g_mpstop g); [|destruct ((g_done g || negb (r_alive g)) && (g_sem g =? kmax c))]; cbn; repeat split; auto.
  - destruct m; [|cbn; repeat split; auto]. destruct (g_q1 g) as [|[p i] tl]; [cbn; repeat split; auto|].
    rewrite set_outq_pf by assumption. destruct p as [x| |e]; cbn; repeat split; auto.
  - destruct (pop_version (S i) (g_store g)) as [[sp|] rest]; cbn; repeat split; auto.
  - cbn [fst]. destruct (Haj (g <| g_stop := true |>) 0) as (A1 & A2 & A3 & A4). repeat split; auto.
  - cbn [fst]. exact (Haj (g <| g_mpstop := true |>) 0).
  - destruct m; destruct (stage_alive c g k); try (cbn; repeat split; auto; fail); apply Haj.
Qed.

(* the Prefetcher uses neither the workers' output queue, nor the sorter's buffer and output queue *)
Definition QE (g : gen) : Prop := g_q2 g = [] /\ g_q3 g = [] /\ g_sbuf g = [].
Lemma rstep_qe m g pos : QE g -> QE (fst (rstep c m g pos)).
Proof.
  unfold QE, rstep. intros H. repeat match goal with |- context [match ?x with _ => _ end] => destruct x end; cbn; exact H.
Qed.
Lemma cstep_qe m g : QE g -> QE (fst (cstep c m g)).
Proof.
  intros H. assert (forall g0 k, QE g0 -> QE (fst (after_join c g0 k))) as Haj.
  { intros g0 k H0. destruct (after_join_pc c g0 k) as (p & Ep & _). rewrite Ep. exact H0. }
  unfold cstep. rewrite outq_pf by assumption. rewrite Hpf.
  destruct (g_c g); try (cbn; exact H; fail).
  - destruct m; [destruct (g_store g) as [|[v sp] tl]|]; cbn; exact H.
  - destruct (g_stop g); cbn; exact H.
  - destruct (g_mpstop g); [|destruct ((g_done g || negb (r_alive g)) && (g_sem g =? kmax c))]; cbn; exact H.
  - destruct m; [|cbn; exact H]. destruct (g_q1 g) as [|[p i] tl]; [cbn; exact H|].
    rewrite set_outq_pf by assumption. destruct p as [x| |e]; cbn; exact H.
  - destruct (pop_version (S i) (g_store g)) as [[sp|] rest]; cbn; exact H.
  - cbn [fst]. apply Haj. exact H.
  - cbn [fst]. apply Haj. exact H.
  - destruct m; destruct (stage_alive c g k); try (cbn; exact H; fail); apply Haj, H.
Qed.

Definition PFG (g : gen) (pos : nat) : Prop := PFall c g pos /\ Acc c g /\ RD c g /\ QE g.

Theorem pfg_reachable script sched : jt_free c (init script) sched = true ->
  forall g, cur (run c sched (init script)) = Some g -> PFG g (s_pos (run c sched (init script))).
Proof.
  intros Hj.
  apply (p_reachable c PFG); auto.
  - intros base ff. split; [split; [apply pf_new, Hpf | apply pf2_new, Hpf] | split; [apply acc_new_gen | split; [exact I | repeat split]]].
  - intros g pos n ([H1 [DQ DR DC DI]] & A & D & E). split; [split; [apply pf_ff, H1 | constructor; assumption] | split; [apply acc_set_ff, A | split; [exact D | exact E]]].
  - intros g pos p ([H1 [DQ DR DC DI]] & A & D & E) Hc Hp. split; [split; [apply pf_idle_pc; auto | constructor; cbn; auto; intros x i Hx; destruct Hp as [->| ->]; discriminate]|].
    split; [apply acc_set_c; [rewrite Hc; reflexivity | destruct Hp as [-> | ->]; reflexivity | exact A] | split; [exact D | exact E]].
  - intros m g pos ([H1 H2] & A & D & E). split; [split; [apply pf_cstep; auto | eapply pf2_cstep; eauto] | split; [apply acc_cstep, A | split; [|apply cstep_qe, E]]].
    destruct (cstep_reader_side m g) as (E1 & E2 & E3 & E4). apply (rd_frame g); auto.
  - intros m g pos ([H1 H2] & A & D & E). split; [split; [apply pf_rstep; auto | eapply pf2_rstep; eauto] | split; [apply acc_rstep, A | split; [|apply rstep_qe, E]]].
    apply rd_rstep; [exact (p_rpos _ _ H1) | exact D].
  - intros i m g pos ([H1 H2] & A & D & E). rewrite (wstep_pf c i m g pos H1). split; [split | split; [|split]]; assumption.
  - intros m g pos ([H1 H2] & A & D & E). rewrite (sstep_pf c m g pos H1). split; [split | split; [|split]]; assumption.
Qed.

Lemma forall2_items base l n : Forall2 (fun x k => PItem x = spay c (base + k)) l (seq 0 n) -> forall k, k < n -> isitem c (base + k).
Proof.
  revert l. induction n as [|n IH]; intros l DI k Hlt; [lia|].
  rewrite seq_S in DI. apply Forall2_app_inv_r in DI. destruct DI as (l1 & l2 & D1 & D2 & ->).
  destruct (Nat.eq_dec k n) as [->|Hne].
  - inversion D2 as [|x y lx ly Hx Hrest]; subst. exists x. symmetry. exact Hx.
  - apply (IH l1); [exact D1 | lia].
Qed.

(* NO LIVELOCK, Prefetcher: a consumer waiting inside next() with nothing queued and the stop event unset is being served
   by the read thread: it has not finished and its next data-path primitive does not wait *)
Theorem pf_waiting_next_is_served script sched : jt_free c (init script) sched = true ->
  forall g, cur (run c sched (init script)) = Some g ->
  g_c g = CGet -> g_q1 g = [] -> r_adv g.
Proof.
  intros Hj g Eg Hc Hq. destruct (pfg_reachable script sched Hj g Eg) as ([H1 [DQ DR DC DI]] & A & D & (E2 & E3 & E4)).
  destruct (p_get _ _ H1 (or_introl Hc)) as [Htf Hsf]. destruct (p_ws _ _ H1) as [Hws Hss].
  pose proof (p_cnt _ _ H1) as CNT. rewrite Hq in CNT. cbn in CNT.
  pose proof (p_recv _ _ H1 Htf) as RC. rewrite Hc in RC. cbn in RC.
  unfold Acc, in_flight in A. rewrite Hq, Hws, Hss, Hc, E2, E3, E4 in A. cbn in A.
  unfold r_adv. destruct (g_r g) eqn:Er; try exact I; cbn in A, CNT; try lia.
  (* the reader has exited with the stop event unset: the consumer already took the terminal entry *)
  unfold RD in D. rewrite Er in D. destruct D as [D|[D1 D2]]; [congruence|]. apply D2.
  apply (forall2_items (g_base g) (g_items g) (g_recv g) DI). lia.
Qed.

End PFProg.

(* ---------------------------------------------------------------------------------------------------------- *)
(* BOUNDED WORK: a rank that no move of any thread of a generation increases and that every successful data-path move
   (semaphore acquire, next(source), queue put/get that does not time out, semaphore release) strictly decreases.  So the
   threads of one iterator can make at most rho(g) such moves, whatever the schedule; together with the "is served"
   theorems above: under any schedule that lets a thread that can advance take (boundedly many of) its moves, next() returns. *)
Section Rank.
Variable c : cfg.
Local Arguments Nat.mul : simpl never.
Ltac fin2 := first [lia | split; [lia | try contradiction; try (intros [? ?]; try discriminate; try congruence; lia); try (intros _; lia)]].

(* consecutive items of the source from position pos on (up to its end or its failing position) *)
Definition items_from (pos : nat) : nat :=
  let n := length (k_xs c) in
  match k_err c with
  | Some e => if pos <=? e then Nat.min e n - pos else n - pos
  | None => n - pos
  end.

Lemma items_from_item pos x : spay c pos = PItem x -> items_from pos = S (items_from (S pos)).
Proof.
  unfold spay, items_from. destruct (k_err c) as [e|].
  - destruct (Nat.eqb_spec e pos) as [->|Hne]; [discriminate|].
    destruct (nth_error (k_xs c) pos) eqn:En; [|discriminate]. intros _.
    assert (pos < length (k_xs c)) as Hl by (apply nth_error_Some; congruence).
    destruct (Nat.leb_spec pos e), (Nat.leb_spec (S pos) e); lia.
  - destruct (nth_error (k_xs c) pos) eqn:En; [|discriminate]. intros _.
    assert (pos < length (k_xs c)) as Hl by (apply nth_error_Some; congruence). lia.
Qed.

Lemma items_from_end pos : (forall x, spay c pos <> PItem x) -> items_from pos = 0.
Proof.
  unfold spay, items_from. intros H. destruct (k_err c) as [e|].
  - destruct (Nat.eqb_spec e pos) as [Heq|Hne].
    + subst e. rewrite Nat.leb_refl. lia.
    + destruct (nth_error (k_xs c) pos) eqn:En; [exfalso; apply (H n); reflexivity|].
      apply nth_error_None in En. destruct (Nat.leb_spec pos e); lia.
  - destruct (nth_error (k_xs c) pos) eqn:En; [exfalso; apply (H n); reflexivity|]. apply nth_error_None in En. lia.
Qed.

Definition rrho (g : gen) : nat :=
  let n := 11 * S (items_from (g_base g + g_ridx g)) in
  match g_r g with
  | RStart => n + 3 | RInitPut _ => n + 2 | RChk | RAcq => n + 1 | RPull => n
  | RStore _ _ _ => n + 10 | RPut _ _ false => n + 9 | RPut _ _ true => 8 | RDone => 0
  end.

Definition rho (g : gen) : nat :=
  rrho g + 7 * length (g_q1 g) + 6 * w_hold (g_ws g) + 5 * length (g_q2 g) + 4 * length (g_sbuf g) + 3 * s_hold (g_s g)
  + 2 * length (g_q3 g) + ConcInv.c_hold (g_c g).

(* the moves that do data-path work *)
Definition r_data (m : mode) (g : gen) : Prop :=
  match g_r g with RStart | RInitPut _ | RPull | RStore _ _ _ | RPut _ _ _ => True | RAcq => m = Go /\ 0 < g_sem g | _ => False end.
Definition w_data (i : nat) (m : mode) (g : gen) : Prop :=
  match nth_error (g_ws g) i with Some (WPut _ _) => True | Some WGet => m = Go /\ g_q1 g <> [] | _ => False end.
Definition s_data (m : mode) (g : gen) : Prop :=
  match g_s g with SPut _ _ | SPutDup _ => True | SGet => m = Go /\ g_q2 g <> [] | _ => False end.
Definition c_data (m : mode) (g : gen) : Prop :=
  match g_c g with CRel _ _ | CRelStop | CRelErr _ _ => True | CGet => m = Go /\ outq c g <> [] | _ => False end.

Lemma rho_rstep m g pos : RPos g pos ->
  rho (fst (rstep c m g pos)) <= rho g /\ (r_data m g -> rho (fst (rstep c m g pos)) < rho g).
Proof.
  intros RP. unfold RPos in RP. unfold r_data, rho, rrho, rstep. destruct (g_r g) eqn:Er; cbn [fst].
  - cbn. rewrite ?Er. fin2.
  - cbn. fin2.
  - destruct (g_stop g); cbn; fin2.
  - destruct m; [destruct (g_sem g) eqn:Es|]; cbn; rewrite ?Er; fin2.
  - destruct RP as [P1 P2]. subst pos.
    destruct (match k_err c with Some e => e =? g_base g + g_ridx g | None => false end) eqn:Ee.
    + cbn. rewrite (items_from_end (g_base g + g_ridx g)); [lia|]. intros x. unfold spay. rewrite Ee. discriminate.
    + destruct (nth_error (k_xs c) (g_base g + g_ridx g)) as [x|] eqn:En.
      * assert (items_from (g_base g + g_ridx g) = S (items_from (g_base g + S (g_ridx g)))) as ->.
        { replace (g_base g + S (g_ridx g)) with (S (g_base g + g_ridx g)) by fin2. apply (items_from_item _ x). unfold spay. rewrite Ee, En. reflexivity. }
        destruct ((0 <? k_sf c) && (S (g_ryield g) mod k_sf c =? 0)); cbn; fin2.
      * cbn. rewrite (items_from_end (g_base g + g_ridx g)); [lia|]. intros x. unfold spay. rewrite Ee, En. discriminate.
  - cbn. fin2.
  - destruct last; cbn; rewrite ?app_length; cbn; fin2.
  - cbn. rewrite ?Er. fin2.
Qed.

Lemma rho_wstep i m g : rho (wstep c i m g) <= rho g /\ (w_data i m g -> rho (wstep c i m g) < rho g).
Proof.
  unfold w_data, rho, rrho, wstep. destruct (nth_error (g_ws g) i) as [p|] eqn:E; [|split; [lia | contradiction]].
  destruct p.
  - cbn. pose proof (w_hold_set_nth i WChk _ _ E). cbn in *. fin2.
  - destruct (g_stop g); cbn; [pose proof (w_hold_set_nth i WEmpty _ _ E) | pose proof (w_hold_set_nth i WGet _ _ E)]; cbn in *; fin2.
  - destruct (g_q1 g) eqn:Eq1; cbn; rewrite ?Eq1; [pose proof (w_hold_set_nth i WDone _ _ E) | pose proof (w_hold_set_nth i WGet _ _ E)]; cbn in *; fin2.
  - destruct m.
    + destruct (g_q1 g) as [|[pl idx] tl] eqn:Eq; [rewrite ?Eq; split; [lia | intros [_ H]; congruence]|].
      cbn. match goal with |- context [set_nth i ?w _] => pose proof (w_hold_set_nth i w _ _ E) end. cbn in *. fin2.
    + cbn. pose proof (w_hold_set_nth i WChk _ _ E) as HW. cbn in *. split; [lia | intros [Hx _]; discriminate].
  - cbn. rewrite ?app_length. pose proof (w_hold_set_nth i WChk _ _ E). cbn in *. fin2.
  - split; [lia | contradiction].
Qed.

Lemma rho_s_after g n :
  rrho g + 7 * length (g_q1 g) + 6 * w_hold (g_ws g) + 5 * length (g_q2 g) + 4 * length (g_sbuf g) + 2 * length (g_q3 g) + ConcInv.c_hold (g_c g) <= n ->
  rho (s_after g) <= n.
Proof.
  unfold s_after, rho, rrho. intros H. destruct (buf_find (g_scur g) (g_sbuf g)) eqn:E; cbn.
  - pose proof (buf_remove_len _ _ _ E). fin2.
  - fin2.
Qed.

Lemma rho_sstep m g : rho (sstep c m g) <= rho g /\ (s_data m g -> rho (sstep c m g) < rho g).
Proof.
  unfold s_data, sstep. destruct (g_s g) eqn:Es.
  - unfold rho, rrho. cbn. rewrite ?Es. cbn. fin2.
  - unfold rho, rrho. destruct (g_stop g); cbn; rewrite ?Es; cbn; fin2.
  - destruct m.
    + destruct (g_q2 g) as [|[p i] tl] eqn:Eq; [split; [lia | intros [_ H]; congruence]|].
      destruct (i =? g_scur (g <| g_q2 := tl |>)) eqn:Ei.
      * unfold rho, rrho. cbn. rewrite ?Es, ?Eq. cbn. fin2.
      * destruct (buf_find i (g_sbuf (g <| g_q2 := tl |>))) eqn:Ef.
        -- unfold rho, rrho. cbn. rewrite ?Es, ?Eq. cbn. fin2.
        -- assert (rho (s_after (g <| g_q2 := tl |> <| g_sbuf ::= fun b => b ++ [(i, p)] |>)) <= rho g - 1); [|unfold rho in *; rewrite Eq in *; cbn in *; lia].
           apply rho_s_after. unfold rho, rrho. cbn. rewrite ?Es, ?Eq, ?app_length. cbn. fin2.
    + unfold rho, rrho. cbn. rewrite ?Es. cbn. split; [lia | intros [H _]; discriminate].
  - assert (rho (s_after (g <| g_q3 ::= fun q => q ++ [(p, i)] |> <| g_scur := S (g_scur g) |>)) <= rho g - 1); [|unfold rho in *; rewrite Es in *; cbn in *; lia].
    apply rho_s_after. unfold rho, rrho. cbn. rewrite ?Es, ?app_length. cbn. fin2.
  - unfold rho, rrho. cbn. rewrite ?Es, ?app_length. cbn. fin2.
  - split; [lia | contradiction].
Qed.

Lemma rho_after_join g k : ConcInv.c_hold (g_c g) = 0 -> rho (fst (after_join c g k)) = rho g.
Proof.
  intros Hc. destruct (after_join_pc c g k) as (p & Ep & Hp). rewrite Ep. unfold rho, rrho. cbn. rewrite Hc.
  destruct Hp as [->|[k' ->]]; cbn; fin2.
Qed.

Lemma rho_cstep m g : rho (fst (cstep c m g)) <= rho g /\ (c_data m g -> rho (fst (cstep c m g)) < rho g).
Proof.
  unfold c_data, cstep. destruct (g_c g) eqn:Ec.
  - cbn [fst]; split; [lia | contradiction].
  - unfold rho, rrho. cbn. rewrite ?Ec. cbn. fin2.
  - destruct m; [|cbn [fst]; split; [lia | contradiction]]. destruct (g_store g) as [|[v sp] tl]; [cbn [fst]; split; [lia | contradiction]|].
    unfold rho, rrho. cbn. rewrite ?Ec. cbn. fin2.
  - unfold rho, rrho. destruct (g_stop g); [|destruct (k_pm c)]; cbn; rewrite ?Ec; cbn; fin2.
  - unfold rho, rrho. destruct (g_mpstop g); [|destruct ((g_done g || negb (r_alive g)) && (g_sem g =? kmax c))]; cbn; rewrite ?Ec; cbn; fin2.
  - unfold rho, rrho. cbn. rewrite ?Ec. cbn. fin2.
  - unfold rho, rrho. cbn. rewrite ?Ec. cbn. fin2.
  - destruct m.
    + destruct (outq c g) as [|[p i] tl] eqn:Eq; [cbn [fst]; split; [lia | intros [_ Hx]; congruence]|].
      unfold rho, rrho.
      destruct (outq_cases c g) as [[E1 E2]|[[E1 E2]|[E1 E2]]]; rewrite E2; rewrite E1 in Eq; rewrite ?Eq;
        destruct p; cbn; rewrite ?Ec; cbn; fin2.
    + unfold rho, rrho. cbn. rewrite ?Ec. cbn. split; [lia | intros [H _]; discriminate].
  - unfold rho, rrho. destruct (pop_version (S i) (g_store g)) as [[sp|] rest]; cbn; rewrite ?Ec; cbn; fin2.
  - unfold rho, rrho. destruct (k_pm c); cbn; rewrite ?Ec; cbn; fin2.
  - unfold rho, rrho. destruct (k_pm c); [|cbn; rewrite ?Ec; cbn; lia].
    destruct e as [|[|e]]; [cbn; rewrite ?Ec; cbn; lia| |cbn; rewrite ?Ec; cbn; lia].
    cbn [fst]. match goal with |- context [pop_version ?v (g_store ?x)] => change (g_store x) with (g_store g) end.
    destruct (pop_version (S i) (g_store g)) as [[sp|] rest]; cbn; rewrite ?Ec; cbn; fin2.
  - unfold rho, rrho. cbn. rewrite ?Ec. cbn. fin2.
  - destruct (k_pm c).
    + unfold rho, rrho. cbn. rewrite ?Ec. cbn. fin2.
    + rewrite rho_after_join by (cbn; rewrite ?Ec; reflexivity). unfold rho, rrho. cbn. cbn [fst]; split; [lia | contradiction].
  - rewrite rho_after_join by (cbn; rewrite ?Ec; reflexivity). unfold rho, rrho. cbn. cbn [fst]; split; [lia | contradiction].
  - assert (forall k', rho (fst (after_join c g k')) = rho g) as HA by (intros k'; apply rho_after_join; rewrite ?Ec; reflexivity).
    destruct m; destruct (stage_alive c g k); cbn [fst]; rewrite ?HA; (split; [lia | contradiction]).
Qed.

End Rank.

(* ---------------------------------------------------------------------------------------------------------- *)
(* _shutdown really waits: a join on a live thread does not return before the thread has finished (it can only time out),
   _shutdown reports completion only when every thread it has not yet passed is dead, and a dead thread stays dead *)
Section Shutdown.
Variable c : cfg.

Lemma join_blocks_while_alive g k : g_c g = CShJoin k -> stage_alive c g k = true -> cstep c Go g = (g, None).
Proof. intros Hc Ha. unfold cstep. rewrite Hc, Ha. reflexivity. Qed.

Lemma next_join_none g k fuel : next_join c g k fuel = None -> forall j, k <= j -> j < k + fuel -> stage_alive c g j = false.
Proof.
  revert k. induction fuel as [|f IH]; intros k H j H1 H2; [lia|]. cbn in H.
  destruct (stage_alive c g k) eqn:E; [discriminate|].
  destruct (Nat.eq_dec j k) as [->|Hne]; [exact E|]. apply (IH (S k)); [exact H | lia | lia].
Qed.

Lemma shutdown_returns_when_all_dead g k : snd (after_join c g k) = Some OutShut ->
  forall j, k <= j -> j < 2 + k_nw c -> stage_alive c g j = false.
Proof.
  unfold after_join. destruct (next_join c g k (2 + k_nw c - k)) eqn:E; [discriminate|]. intros _ j H1 H2.
  apply (next_join_none g k _ E); lia.
Qed.

(* beyond the last worker there is nothing to join *)
Lemma stage_beyond g j : length (g_ws g) <= k_nw c -> 2 + k_nw c <= j -> stage_alive c g j = false.
Proof.
  intros Hl Hj. destruct j as [|[|i]]; try lia. cbn. unfold w_alive.
  assert (nth_error (g_ws g) i = None) as -> by (apply nth_error_None; lia). apply andb_false_r.
Qed.

Lemma nth_error_set_nth_other {A} i j (p : A) l : i <> j -> nth_error (set_nth i p l) j = nth_error l j.
Proof.
  unfold set_nth. revert i j. induction l as [|a l IH]; intros i j Hne.
  - destruct i, j; reflexivity.
  - destruct i as [|i], j as [|j]; cbn; try reflexivity; try congruence. apply IH. congruence.
Qed.

Lemma rstep_dead m g pos : g_r g = RDone -> g_r (fst (rstep c m g pos)) = RDone.
Proof. intros H. unfold rstep. rewrite H. exact H. Qed.
Lemma sstep_dead m g : g_s g = SDone -> g_s (sstep c m g) = SDone.
Proof. intros H. unfold sstep. rewrite H. exact H. Qed.
Lemma wstep_dead i j m g : nth_error (g_ws g) j = Some WDone -> nth_error (g_ws (wstep c i m g)) j = Some WDone.
Proof.
  intros H. destruct (Nat.eq_dec i j) as [->|Hne]; [unfold wstep; rewrite H; exact H|].
  assert (forall p g0, g_ws g0 = g_ws g -> nth_error (g_ws (g0 <| g_ws ::= set_nth i p |>)) j = Some WDone) as Hs.
  { intros p g0 E. cbn. rewrite E, nth_error_set_nth_other by exact Hne. exact H. }
  unfold wstep. destruct (nth_error (g_ws g) i) as [p|]; [|exact H].
  destruct p; try (apply Hs; reflexivity); try exact H.
  destruct m; [destruct (g_q1 g) as [|[pl idx] tl]; [exact H | apply Hs; reflexivity] | apply Hs; reflexivity].
Qed.

End Shutdown.

(* ---------------------------------------------------------------------------------------------------------- *)
(* WHAT next() RETURNS IS WHAT THE MAPPED SOURCE HOLDS AT THE CONSUMER'S POSITION (ParallelMapper, in_order=True): the item,
   the map_fn error, the source's error or the end of the source — in particular an error surfaces exactly at the failing
   position (after every earlier item has been delivered: C04) and is never replaced by a clean StopIteration, and
   StopIteration is only ever reported at the true end of the source. *)
Section Outcome.
Variable c : cfg.
Hypothesis Hpm : k_pm c = true.
Hypothesis Hio : k_inorder c = true.

Definition OutAt (g : gen) : Prop :=
  match g_c g with
  | CRel x i => i = g_recv g /\ PItem x = mpay c (g_base g + g_recv g)
  | CRelErr e i => i = g_recv g /\ PErr e = mpay c (g_base g + g_recv g)
  | CRelStop => mpay c (g_base g + g_recv g) = PStop
  | _ => True
  end.

Definition PO (g : gen) (pos : nat) : Prop := PMinv c g pos /\ OutAt g.

Lemma outat_frame g g' : OutAt g -> g_c g' = g_c g -> g_recv g' = g_recv g -> g_base g' = g_base g -> OutAt g'.
Proof. unfold OutAt. intros H E1 E2 E3. rewrite E1, E2, E3. exact H. Qed.

Lemma outat_quiet g0 : quiet (g_c g0) -> OutAt g0.
Proof. unfold OutAt, quiet. destruct (g_c g0); auto; contradiction. Qed.

Lemma rstep_recv m g pos : g_recv (fst (rstep c m g pos)) = g_recv g /\ g_base (fst (rstep c m g pos)) = g_base g.
Proof. unfold rstep. repeat match goal with |- context [match ?x with _ => _ end] => destruct x end; split; reflexivity. Qed.
Lemma wstep_recv i m g : g_recv (wstep c i m g) = g_recv g /\ g_base (wstep c i m g) = g_base g.
Proof. unfold wstep. repeat match goal with |- context [match ?x with _ => _ end] => destruct x end; split; reflexivity. Qed.
Lemma sstep_recv m g : g_recv (sstep c m g) = g_recv g /\ g_base (sstep c m g) = g_base g.
Proof.
  unfold sstep, s_after. repeat match goal with |- context [match ?x with _ => _ end] => destruct x end; cbn;
    repeat match goal with |- context [match ?x with _ => _ end] => destruct x end; split; reflexivity.
Qed.

Lemma po_cstep m g pos : PO g pos -> PO (fst (cstep c m g)) pos.
Proof.
  intros [P O]. split; [apply pm_cstep; assumption|]. pose proof P as (R & F & C).
  destruct (g_c g) eqn:Ec.
  all: try (apply outat_quiet; unfold cstep; rewrite Ec, ?Hpm; cbn; exact I).
  - (* CIdle *) unfold cstep. rewrite Ec. exact O.
  - (* CSleep *) unfold cstep, OutAt. rewrite Ec. cbn. exact I.
  - (* CInit *) unfold cstep, OutAt. rewrite Ec. destruct m; [destruct (g_store g) as [|[v sp] tl]|]; cbn; rewrite ?Ec; exact I.
  - (* CChk *) apply outat_quiet. unfold cstep. rewrite Ec, Hpm. destruct (g_stop g); cbn; exact I.
  - (* CChk2 *) apply outat_quiet. unfold cstep. rewrite Ec.
    destruct (g_mpstop g); [|destruct ((g_done g || negb (r_alive g)) && (g_sem g =? kmax c))]; cbn; exact I.
  - (* CGet: the consumer takes the entry at its own position *)
    unfold cstep. rewrite Ec, outq_pm by assumption. destruct m; [|apply outat_quiet; cbn; exact I].
    destruct (g_q3 g) as [|[p i] tl] eqn:Eq; [unfold OutAt; cbn; rewrite Ec; exact I|]. rewrite set_outq_pm by assumption.
    pose proof (f_q3 _ _ F) as F6. pose proof (f_q3idx _ _ F) as F7. pose proof (f_scur _ _ F) as F8. pose proof (f_le _ _ F) as F11.
    rewrite Eq in F6, F7, F8. cbn in F7, F8. injection F7 as Ei F7. inversion F6 as [|? ? Hp F6t]; subst. cbn in Hp.
    assert (g_term g = false) as Htf.
    { destruct (g_term g) eqn:Et; [|reflexivity]. destruct (c_term _ _ C Et) as [Ht _]. lia. }
    pose proof (c_recv _ _ C Htf) as HR. rewrite Ec in HR. cbn in HR. rewrite <- HR in Hp.
    rewrite Nat.add_0_r in *. unfold OutAt. destruct p as [x| |e]; cbn; repeat split; auto; try lia; try congruence.
  - (* CRel *) apply outat_quiet. unfold cstep. rewrite Ec. destruct (pop_version (S i) (g_store g)) as [[sp|] rest]; cbn; exact I.
  - (* CShSet2 *) apply outat_quiet. unfold cstep. rewrite Ec. destruct (after_join_pc c (g <| g_mpstop := true |>) 0) as (p & Ep & [->|[k' ->]]); rewrite Ep; cbn; exact I.
  - (* CShJoin *)
    unfold cstep. rewrite Ec. destruct (after_join_pc c g (S k)) as (p & Ep & Hp).
    destruct m; destruct (stage_alive c g k); try (unfold OutAt; cbn; rewrite Ec; exact I);
      apply outat_quiet; rewrite Ep; destruct Hp as [->|[k' ->]]; cbn; exact I.
Qed.

Theorem po_reachable script sched : jt_free c (init script) sched = true ->
  forall g, cur (run c sched (init script)) = Some g -> PO g (s_pos (run c sched (init script))).
Proof.
  intros Hj g Eg. apply (p_reachable c PO); auto.
  - intros base ff. split; [apply pm_new; assumption|]. unfold OutAt, new_gen. rewrite Hpm. cbn. exact I.
  - intros g0 pos n [P O]. split; [apply pm_ff, P | exact O].
  - intros g0 pos p [P O] Hc Hp. split; [apply pm_idle_pc; assumption|]. apply outat_quiet. cbn. destruct Hp as [-> | ->]; exact I.
  - apply po_cstep.
  - intros m g0 pos [P O]. split; [apply pm_rstep; assumption|]. destruct (rstep_recv m g0 pos) as [E1 E2].
    apply (outat_frame g0); auto. apply rstep_c.
  - intros i m g0 pos [P O]. split; [apply pm_wstep; assumption|]. destruct (wstep_recv i m g0) as [E1 E2].
    apply (outat_frame g0); auto. apply wstep_c.
  - intros m g0 pos [P O]. split; [apply pm_sstep; assumption|]. destruct (sstep_recv m g0) as [E1 E2].
    apply (outat_frame g0); auto. apply sstep_c.
Qed.

Theorem next_returns_what_is_at_the_position script sched : jt_free c (init script) sched = true ->
  forall g, cur (run c sched (init script)) = Some g -> OutAt g.
Proof. intros Hj g Eg. exact (proj2 (po_reachable script sched Hj g Eg)). Qed.

End Outcome.

(* the same for the Prefetcher (identity map) *)
Section OutcomePF.
Variable c : cfg.
Hypothesis Hpf : k_pm c = false.

Definition OutAtPF (g : gen) : Prop :=
  match g_c g with
  | CRel x i => i = g_recv g /\ PItem x = spay c (g_base g + g_recv g)
  | CRelErr e i => i = g_recv g /\ PErr e = spay c (g_base g + g_recv g)
  | CRelStop => spay c (g_base g + g_recv g) = PStop
  | _ => True
  end.

Definition POF (g : gen) (pos : nat) : Prop := PFall c g pos /\ OutAtPF g.

Lemma outatpf_frame g g' : OutAtPF g -> g_c g' = g_c g -> g_recv g' = g_recv g -> g_base g' = g_base g -> OutAtPF g'.
Proof. unfold OutAtPF. intros H E1 E2 E3. rewrite E1, E2, E3. exact H. Qed.

Lemma pof_cstep m g pos : POF g pos -> POF (fst (cstep c m g)) pos.
Proof.
  intros [[H1 H2] O]. split; [split; [apply pf_cstep; auto | eapply pf2_cstep; eauto]|].
  destruct (g_c g) eqn:Ec.
  all: try (unfold OutAtPF, cstep; rewrite Ec, ?Hpf; cbn; exact I).
  - unfold cstep. rewrite Ec. exact O.
  - unfold OutAtPF, cstep. rewrite Ec. destruct m; [destruct (g_store g) as [|[v sp] tl]|]; cbn; rewrite ?Ec; exact I.
  - unfold OutAtPF, cstep. rewrite Ec, Hpf. destruct (g_stop g); cbn; exact I.
  - unfold OutAtPF, cstep. rewrite Ec. destruct (g_mpstop g); [|destruct ((g_done g || negb (r_alive g)) && (g_sem g =? kmax c))]; cbn; exact I.
  - (* CGet *)
    unfold cstep. rewrite Ec, outq_pf by assumption. destruct m; [|unfold OutAtPF; cbn; exact I].
    destruct (g_q1 g) as [|[p i] tl] eqn:Eq; [unfold OutAtPF; cbn; rewrite Ec; exact I|]. rewrite set_outq_pf by assumption.
    pose proof (p_q _ _ H1) as Q. rewrite Eq in Q. cbn in Q. injection Q as Ei Qt.
    destruct H2 as [DQ DR DC DI]. rewrite Eq in DQ. inversion DQ as [|? ? Hp DQt]; subst. cbn in Hp.
    destruct (p_get _ _ H1 (or_introl Ec)) as [Htf _]. pose proof (p_recv _ _ H1 Htf) as HR. rewrite Ec in HR. cbn in HR.
    rewrite Nat.add_0_r in HR. rewrite <- HR in Hp.
    unfold OutAtPF. destruct p as [x| |e]; cbn; repeat split; auto; try lia; try congruence.
  - unfold OutAtPF, cstep. rewrite Ec. destruct (pop_version (S i) (g_store g)) as [[sp|] rest]; cbn; exact I.
  - unfold OutAtPF, cstep. rewrite Ec. destruct (after_join_pc c (g <| g_stop := true |>) 0) as (p & Ep & [->|[k' ->]]); rewrite Hpf, Ep; cbn; exact I.
  - unfold OutAtPF, cstep. rewrite Ec. destruct (after_join_pc c (g <| g_mpstop := true |>) 0) as (p & Ep & [->|[k' ->]]); rewrite Ep; cbn; exact I.
  - unfold cstep. rewrite Ec. destruct (after_join_pc c g (S k)) as (p & Ep & Hp).
    destruct m; destruct (stage_alive c g k); try (unfold OutAtPF; cbn; rewrite Ec; exact I);
      unfold OutAtPF; rewrite Ep; destruct Hp as [->|[k' ->]]; cbn; exact I.
Qed.

Theorem pf_next_returns_what_is_at_the_position script sched : jt_free c (init script) sched = true ->
  forall g, cur (run c sched (init script)) = Some g -> OutAtPF g.
Proof.
  intros Hj g Eg.
  assert (POF g (s_pos (run c sched (init script)))) as [_ O]; [|exact O].
  apply (p_reachable c POF); auto.
  - intros base ff. split; [split; [apply pf_new, Hpf | apply pf2_new, Hpf]|]. unfold OutAtPF, new_gen. rewrite Hpf. cbn. exact I.
  - intros g0 pos n [[H1 [DQ DR DC DI]] O]. split; [split; [apply pf_ff, H1 | constructor; assumption] | exact O].
  - intros g0 pos p [[H1 [DQ DR DC DI]] O] Hc Hp. split; [split; [apply pf_idle_pc; auto | constructor; cbn; auto; intros x i Hx; destruct Hp as [->| ->]; discriminate]|].
    unfold OutAtPF. cbn. destruct Hp as [-> | ->]; exact I.
  - apply pof_cstep.
  - intros m g0 pos [[H1 H2] O]. split; [split; [apply pf_rstep; auto | eapply pf2_rstep; eauto]|].
    destruct (rstep_recv c m g0 pos) as [E1 E2]. apply (outatpf_frame g0); auto. apply rstep_c.
  - intros i m g0 pos [[H1 H2] O]. rewrite (wstep_pf c i m g0 pos H1). split; [split|]; assumption.
  - intros m g0 pos [[H1 H2] O]. rewrite (sstep_pf c m g0 pos H1). split; [split|]; assumption.
Qed.

End OutcomePF.

(* ---------------------------------------------------------------------------------------------------------- *)
(* The ghost fields the theorems speak about are pinned to the consumer's real outputs: g_items grows by x exactly in the
   step in which next() returns the item x, g_recv counts the entries consumed (items and map_fn errors), and no other
   consumer step touches either. *)
Lemma ghost_items_are_outputs c m g :
  let g' := fst (cstep c m g) in
  match snd (cstep c m g) with
  | Some (OutItem x) => g_items g' = g_items g ++ [x] /\ g_recv g' = S (g_recv g)
  | Some (OutErr e) => g_items g' = g_items g /\
                       g_recv g' = (match g_c g with CRelErr 1 _ => if k_pm c then S (g_recv g) else g_recv g | _ => g_recv g end)
  | _ => g_items g' = g_items g /\ g_recv g' = g_recv g
  end.
Proof.
  assert (forall g0 k, g_items (fst (after_join c g0 k)) = g_items g0 /\ g_recv (fst (after_join c g0 k)) = g_recv g0 /\
                       (snd (after_join c g0 k) = None \/ snd (after_join c g0 k) = Some OutShut)) as Haj.
  { intros g0 k. unfold after_join. destruct (next_join c g0 k (2 + k_nw c - k)); cbn; auto. }
  unfold cstep. destruct (g_c g) eqn:Ec; cbn; rewrite ?Ec; auto.
  - destruct m; [destruct (g_store g) as [|[v sp] tl]|]; cbn; rewrite ?Ec; auto.
  - destruct (g_stop g); [|destruct (k_pm c)]; cbn; auto.
  - destruct (g_mpstop g); [|destruct ((g_done g || negb (r_alive g)) && (g_sem g =? kmax c))]; cbn; auto.
  - destruct m; [|cbn; auto]. destruct (outq c g) as [|[p i] tl]; [cbn; auto|].
    destruct (outq_cases c g) as [[E1 E2]|[[E1 E2]|[E1 E2]]]; rewrite E2; destruct p as [x| |e]; cbn; auto.
  - destruct (pop_version (S i) (g_store g)) as [[sp|] rest]; cbn; auto.
  - destruct (k_pm c); cbn; auto.
  - destruct (k_pm c); [|cbn; auto]. destruct e as [|[|e]]; cbn; auto.
    destruct (pop_version (S i) (g_store g)) as [[sp|] rest]; cbn; auto.
  - destruct e; cbn; auto.
  - destruct (k_pm c); [cbn; auto|]. destruct (Haj (g <| g_stop := true |>) 0) as (A1 & A2 & [A3|A3]); rewrite A3; cbn in *; auto.
  - destruct (Haj (g <| g_mpstop := true |>) 0) as (A1 & A2 & [A3|A3]); rewrite A3; cbn in *; auto.
  - destruct m; destruct (stage_alive c g k); cbn; auto; destruct (Haj g (S k)) as (A1 & A2 & [A3|A3]); rewrite A3; auto.
Qed.

(* ... and the log the user-level script sees: the straight-line code after an operation only appends to it, and a completed
   next() that is not part of a fast-forward logs exactly the item it returned *)
Lemma dispatch_obs_prefix c : forall todo s, exists rest, s_obs (dispatch c todo s) = s_obs s ++ rest.
Proof.
  induction todo as [|a t IH]; intros s; cbn.
  - exists []. rewrite app_nil_r. reflexivity.
  - destruct a; destruct (cur s) as [g|]; cbn;
      try (exists []; rewrite app_nil_r; reflexivity);
      try (match goal with |- context [dispatch c t ?s1] => destruct (IH s1) as [rest Hr]; rewrite Hr; cbn; rewrite <- ?app_assoc; eexists; reflexivity end).
    all: unfold construct; repeat match goal with |- context [match ?x with _ => _ end] => destruct x end; cbn; exists []; rewrite app_nil_r; reflexivity.
Qed.

Lemma completed_next_logs_its_item c x s g : cur s = Some g -> g_ff g = 0 ->
  exists rest, s_obs (complete c (OutItem x) s) = s_obs s ++ ObsItem x :: rest.
Proof.
  intros Ec Hff. unfold complete. rewrite Ec, Hff.
  destruct (dispatch_obs_prefix c (s_todo s) (log (ObsItem x) s)) as [rest Hr]. rewrite Hr. cbn. rewrite <- app_assoc. eexists. reflexivity.
Qed.
