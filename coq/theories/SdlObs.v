(* SdlObs.v — observation functions for the SDL correspondence runs (C01, C03, C05, C10). *)
From PD Require Import Base SdlModel.
Open Scope string_scope. Open Scope list_scope. Open Scope nat_scope.

Definition obs_of_outcome (o : outcome) : obs :=
  match o with
  | OBatch b => OL [OS "batch"; olist onat b]
  | OStop => OS "stop"
  | OErr => OS "err"
  | OAssert m => OS "assert"
  | ODeadlock => OS "deadlock"
  | OFuel => OS "fuel"
  end.

Definition obs_of_wsave (c : cfg) (s : wsave) : obs :=
  OL [onat (if c_stateful c then match c_kind c with KIter => fst s | KMap => 0 end else 0); OB (snd s)].

Definition obs_of_sdict (c : cfg) (d : sdict) : obs :=
  let sn := sd_snapshot d in
  OL [OS "mp"; onat (sn_step sn); onat (sn_last sn); onat (fst (sn_main sn));
      olist (obs_of_wsave c) (sn_workers sn); onat (sd_steps d); OB (sd_finished d)].

Definition obs_of_ms (s : ms) : obs :=
  OL [onat (m_send s); onat (m_rcvd s); olist OB (m_status s); onat (m_outst s); onat (m_ny s); onat (m_last s)].

Inductive sop := SNext | SState | SResume (i : nat) | SFresh.

(* runs a history; every SNext is observed as [outcome; main bookkeeping; state_dict] *)
Fixpoint sdl_history (c : cfg) (fuel : nat) (ops : list sop) (s : ms) (sched : list nat) (saved : list sdict) : list obs :=
  match ops with
  | [] => []
  | SNext :: r =>
      let '(o, s', sched') := sdl_next c s sched in
      OL [obs_of_outcome o; obs_of_ms s'; obs_of_sdict c (state_dict s')] :: sdl_history c fuel r s' sched' saved
  | SState :: r => OL [OS "state"; obs_of_sdict c (state_dict s)] :: sdl_history c fuel r s sched (saved ++ [state_dict s])
  | SResume i :: r =>
      let '(s0, sched') := sdl_resume c (nth i saved (state_dict s)) sched in
      (* StatefulDataLoader.__iter__: an iterator restored as finished is replaced by a fresh one *)
      let s' := if m_finished s0 then sdl_fresh c else s0 in
      OL [OS "resume"; obs_of_ms s'; obs_of_sdict c (state_dict s')] :: sdl_history c fuel r s' sched' saved
  | SFresh :: r => OL [OS "fresh"; obs_of_ms (sdl_fresh c)] :: sdl_history c fuel r (sdl_fresh c) sched saved
  end.

Definition sdl_obs (c : cfg) (ops : list sop) (sched : list nat) : obs :=
  OL (sdl_history c 0 ops (sdl_fresh c) sched []).

Definition reference_obs (c : cfg) : obs := olist (olist onat) (reference c).
