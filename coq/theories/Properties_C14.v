(* Properties_C14.v — C14: MultiNodeWeightedSampler honours its stop criterion, source order and seeding.
   Model: WeightedModel.v; proofs: WeightedProofs.v.  Statements only (printed by Coq from the proof
   file by harness/mkprops.py); every theorem is for ALL choice streams [ch], configurations, fuel
   values and numbers of calls.  Hypotheses that appear:
     ch_in_range ch c e : the drawn indices are < number of sources (true of torch.multinomial);
     all_nonempty c     : no source of length 0 — needed by the cycling criteria because of the known
                          finding D12 (see cycle_forever_empty_refuted below);
     fair ch e B n      : every source occurs in every window of B draws (only for progress).
   [hist_inv c outs s] is the invariant "outs is a history leading to s". *)
From PD Require Import Base WeightedModel WeightedProofs.
Open Scope string_scope. Open Scope list_scope. Open Scope nat_scope.

Theorem C14_per_source_order :
  forall (ch : nat -> nat -> nat) (c : wcfg) (fuel n : nat) (so : option wst) 
         (outs : list wout) (s : wst) (k : nat),
       w_run ch c fuel n (w_reset_fresh c so) = (outs, s) ->
       exists m : nat, prefix (proj k outs) (cyc m (src_items c k)).
Proof. exact per_source_order. Qed.
Print Assumptions C14_per_source_order.

Theorem C14_per_source_order_no_restart :
  forall (ch : nat -> nat -> nat) (c : wcfg) (fuel n : nat) (so : option wst) 
         (outs : list wout) (s : wst) (k : nat),
       w_crit c = AllExhausted \/ w_crit c = FirstExhausted ->
       w_run ch c fuel n (w_reset_fresh c so) = (outs, s) -> prefix (proj k outs) (src_items c k).
Proof. exact per_source_order_no_restart. Qed.
Print Assumptions C14_per_source_order_no_restart.

Theorem C14_emitted_items_valid :
  forall (ch : nat -> nat -> nat) (c : wcfg) (fuel n : nat) (s : wst) (outs : list wout) 
         (s' : wst) (k x : nat),
       wfst c s ->
       w_run ch c fuel n s = (outs, s') -> In (WItem k x) outs -> k < nsrc c /\ In x (src_items c k).
Proof. exact emitted_items_valid. Qed.
Print Assumptions C14_emitted_items_valid.

Theorem C14_all_exhausted_complete :
  forall (ch : nat -> nat -> nat) (c : wcfg) (fuel fuel' n : nat) (so : option wst) 
         (outs : list wout) (s s' : wst),
       w_crit c = AllExhausted ->
       w_run ch c fuel n (w_reset_fresh c so) = (outs, s) ->
       w_next ch c fuel' s = (WStop, s') -> forall k : nat, k < nsrc c -> proj k outs = src_items c k.
Proof. exact all_exhausted_complete. Qed.
Print Assumptions C14_all_exhausted_complete.

Theorem C14_all_exhausted_no_early_stop :
  forall (ch : nat -> nat -> nat) (c : wcfg) (fuel fuel' n : nat) (so : option wst) 
         (outs : list wout) (s : wst),
       w_crit c = AllExhausted ->
       w_run ch c fuel n (w_reset_fresh c so) = (outs, s) ->
       (exists k : nat, k < nsrc c /\ Datatypes.length (proj k outs) < Datatypes.length (src_items c k)) ->
       fst (w_next ch c fuel' s) <> WStop.
Proof. exact all_exhausted_no_early_stop. Qed.
Print Assumptions C14_all_exhausted_no_early_stop.

Theorem C14_all_exhausted_stop_sticky :
  forall (ch : nat -> nat -> nat) (c : wcfg) (fuel fuel' : nat) (outs : list wout) (s s' : wst),
       w_crit c = AllExhausted ->
       hist_inv c outs s ->
       w_next ch c fuel s = (WStop, s') -> forall n : nat, w_run ch c (S fuel') n s' = (repeat WStop n, s').
Proof. exact all_exhausted_stop_sticky. Qed.
Print Assumptions C14_all_exhausted_stop_sticky.

Theorem C14_first_exhausted_exact :
  forall (ch : nat -> nat -> nat) (c : wcfg) (fuel fuel' n : nat) (so : option wst) 
         (outs : list wout) (s s' : wst),
       w_crit c = FirstExhausted ->
       ch_in_range ch c (w_epoch (w_reset_fresh c so)) ->
       w_run ch c fuel n (w_reset_fresh c so) = (outs, s) ->
       w_next ch c fuel' s = (WStop, s') ->
       (exists k : nat,
          k < nsrc c /\
          exhk s' k = true /\ posk s' k = Datatypes.length (src_items c k) /\ proj k outs = src_items c k) /\
       (forall j : nat, prefix (proj j outs) (src_items c j)) /\
       (forall fuel'' m : nat, w_run ch c (S fuel'') m s' = (repeat WStop m, s')).
Proof. exact first_exhausted_exact. Qed.
Print Assumptions C14_first_exhausted_exact.

Theorem C14_cycle_until_all :
  forall (ch : nat -> nat -> nat) (c : wcfg) (fuel fuel' n : nat) (so : option wst) 
         (outs : list wout) (s s' : wst),
       w_crit c = CycleUntilAll ->
       all_nonempty c ->
       ch_in_range ch c (w_epoch (w_reset_fresh c so)) ->
       w_run ch c fuel n (w_reset_fresh c so) = (outs, s) ->
       w_next ch c fuel' s = (WStop, s') ->
       forall k : nat,
       k < nsrc c -> exhk s' k = true /\ Datatypes.length (src_items c k) <= Datatypes.length (proj k outs).
Proof. exact cycle_until_all. Qed.
Print Assumptions C14_cycle_until_all.

Theorem C14_exhausted_source_restarts_from_first :
  forall (ch : nat -> nat -> nat) (c : wcfg) (fuel : nat) (s : wst) (k x : nat) (s' : wst),
       wfst c s ->
       posk s k = Datatypes.length (src_items c k) ->
       w_next ch c fuel s = (WItem k x, s') ->
       nth_error (src_items c k) 0 = Some x /\ posk s' k = 1 /\ exhk s' k = true /\ restart_ok c.
Proof. exact exhausted_source_restarts_from_first. Qed.
Print Assumptions C14_exhausted_source_restarts_from_first.

Theorem C14_cycle_forever_no_stop_fresh :
  forall (ch : nat -> nat -> nat) (c : wcfg) (fuel n : nat) (so : option wst) 
         (outs : list wout) (s' : wst),
       w_crit c = CycleForever ->
       all_nonempty c ->
       ch_in_range ch c (w_epoch (w_reset_fresh c so)) ->
       w_run ch c fuel n (w_reset_fresh c so) = (outs, s') -> ~ In WStop outs.
Proof. exact cycle_forever_no_stop_fresh. Qed.
Print Assumptions C14_cycle_forever_no_stop_fresh.

Theorem C14_cycle_forever_always_item :
  forall (ch : nat -> nat -> nat) (c : wcfg) (fuel : nat) (s : wst),
       w_crit c = CycleForever ->
       all_nonempty c ->
       ch_in_range ch c (w_epoch s) -> exists k x : nat, fst (w_next ch c (S fuel) s) = WItem k x.
Proof. exact cycle_forever_always_item. Qed.
Print Assumptions C14_cycle_forever_always_item.

Theorem C14_resume_exact :
  forall (ch : nat -> nat -> nat) (c : wcfg) (fuel : nat) (s : wst),
       w_next ch c fuel (w_reset_state c (w_get_state c s)) = w_next ch c fuel s.
Proof. exact resume_exact. Qed.
Print Assumptions C14_resume_exact.

Theorem C14_resume_exact_mid_run :
  forall (ch : nat -> nat -> nat) (c : wcfg) (fuel a b : nat) (s : wst),
       let s1 := snd (w_run ch c fuel a s) in
       fst (w_run ch c fuel a s) ++ fst (w_run ch c fuel b (w_reset_state c (w_get_state c s1))) =
       fst (w_run ch c fuel (a + b) s).
Proof. exact resume_exact_mid_run. Qed.
Print Assumptions C14_resume_exact_mid_run.

Theorem C14_choices_deterministic_run :
  forall (ch ch' : nat -> nat -> nat) (c : wcfg) (fuel n : nat) (s : wst),
       (forall i : nat, ch (w_epoch s) i = ch' (w_epoch s) i) -> w_run ch c fuel n s = w_run ch' c fuel n s.
Proof. exact choices_deterministic_run. Qed.
Print Assumptions C14_choices_deterministic_run.

Theorem C14_progress_all_exhausted :
  forall (ch : nat -> nat -> nat) (c : wcfg) (B fuel : nat) (s : wst),
       w_crit c = AllExhausted ->
       Datatypes.length (w_exh s) = nsrc c ->
       fair ch (w_epoch s) B (nsrc c) ->
       fuel > B * count_false (w_exh s) -> fst (w_next ch c fuel s) <> WFuel.
Proof. exact progress_all_exhausted. Qed.
Print Assumptions C14_progress_all_exhausted.

Theorem C14_hist_inv_fresh :
  forall (c : wcfg) (so : option wst), hist_inv c [] (w_reset_fresh c so).
Proof. exact hist_inv_fresh. Qed.
Print Assumptions C14_hist_inv_fresh.

Theorem C14_hist_inv_run :
  forall (ch : nat -> nat -> nat) (c : wcfg) (fuel n : nat) (outs : list wout) 
         (s : wst) (l : list wout) (s' : wst),
       hist_inv c outs s -> w_run ch c fuel n s = (l, s') -> hist_inv c (outs ++ l) s'.
Proof. exact hist_inv_run. Qed.
Print Assumptions C14_hist_inv_run.


(* D12 on the faithful model: an empty source under CycleForever makes next() return WStop *)
Example C14_cycle_forever_empty_refuted :
  exists c ch, w_crit c = CycleForever /\ In WStop (fst (w_run ch c 10 3 (w_reset_fresh c None))).
Proof.
  exists {| w_sources := [[1;2];[];[20;21;22]]; w_crit := CycleForever; w_batch := 1000 |}, (fun _ i => i mod 3).
  split; [reflexivity|]. vm_compute. right. left. reflexivity.
Qed.
