(* Properties_C14.v — placeholder until WeightedProofs.v lands; see DESIGN.md 4 C14. *)
From PD Require Import Base WeightedModel WeightedObs.
Theorem C14_placeholder : True. Proof. exact I. Qed.
Print Assumptions C14_placeholder.
